#!/usr/bin/env python3
"""Print the prompt given to an adversary sub-agent: ONLY the property text and its scratch worktree.
usage: seed_prompt.py C14 /tmp/seed/C14a [angle text]"""
import json, sys
pid, wt = sys.argv[1], sys.argv[2]
angle = sys.argv[3] if len(sys.argv) > 3 else ""
p = next(json.loads(l) for l in open("/verif/properties.jsonl") if json.loads(l)["id"] == pid)
print(f"""You are testing how good a verification effort is by planting a realistic bug. You work ONLY inside the git worktree `{wt}` (a checkout of the Python causal-inference library y0; source under `{wt}/src/y0`, tests under `{wt}/tests`). Do not read or write anything under /verif, /repo or /work; do not look for verification tooling — you must work from the property text alone.

The semantic property that the library is supposed to satisfy:

  TITLE: {p['title']}
  STATEMENT: {p['statement']}
  QUANTIFIER: {p['quantifier']['text']}
  Code it is anchored in: {', '.join(p['anchors']['files'])}

Your task: make ONE small, realistic change to the library source in `{wt}/src/y0` (the kind of mistake a maintainer could plausibly make in a refactoring, an optimisation or a 'simplification': an off-by-one, a wrong set operation, a dropped case, a swapped argument, a stale variable, an early return, two cooperating sites that each look fine alone …) such that

  1. the library still imports and the EXISTING test suite still passes exactly as before. Run it with
     `cd {wt} && PYTHONPATH={wt}/src /venv/bin/python -m pytest -q -p no:cacheprovider -n 4 --timeout=900 tests 2>&1 | tail -15`
     BEFORE your change (note the counts: some tests fail on the unchanged tree already; those are pre-existing and do not matter) and AFTER it: the set of passing tests must not shrink.
  2. the property above is now violated for some inputs — but NOT in a way that ordinary use would expose at once: it should need something specific to manifest (an unusual input shape such as an isolated node / a node touched only by bidirected edges / a particular size or ordering, a multi-step sequence of operations, a particular combination of arguments, or two sites that cooperate). {angle}
  3. you provide a demonstration: a small standalone Python program `{wt}/demo_seed.py` (run as `PYTHONPATH={wt}/src /venv/bin/python {wt}/demo_seed.py`) that exits 0 when the property holds on its input(s) and exits 1 (printing what went wrong) when it is violated. It must exit 1 WITH your change and exit 0 WITHOUT it (check both: save your change with `git -C {wt} diff > /tmp/{pid}_change.patch`, undo it with `git -C {wt} apply -R /tmp/{pid}_change.patch`, run, re-apply with `git -C {wt} apply /tmp/{pid}_change.patch`; do NOT use `git stash`, the stash is shared with other worktrees). The demonstration must test the property as stated (compare against the mathematical definition / an independent computation), not merely compare with the old output.

Do not edit tests. Do not commit. Keep the change minimal (a few lines). Use `timeout` around long commands. When finished leave the worktree with your change applied (uncommitted) and `demo_seed.py` present, and reply with: the diff (`git -C {wt} diff`), what input/sequence is needed for the violation to manifest, the before/after test-suite counts, and the output of the demonstration with and without the change. If your first idea breaks existing tests, try another; do not give up before trying at least five different ideas.""")
