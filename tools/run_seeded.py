#!/usr/bin/env python3
"""Run registered checks against the seeded (property-breaking) changes kept under /verif/seeded/<name>/.

usage: run_seeded.py [name ...] [--tier quick|thorough] [--props C14,C02]
For each seeded change: `git -C /repo apply patch.diff`, run ./check for the property it breaks (meta.json "property",
plus "also" if listed, or --props), record exit code + VIOLATION lines in seeded/<name>/last_run.json, and undo the change
(`git -C /repo checkout -- .`) even when the check crashes.  /repo must be clean before starting.
"""
import json, subprocess, sys, time
from pathlib import Path

ROOT = Path(__file__).resolve().parent.parent
REPO = "/repo"
args = [a for a in sys.argv[1:] if not a.startswith("--")]
tier = "quick"
props_override = None
for i, a in enumerate(sys.argv):
    if a == "--tier":
        tier = sys.argv[i + 1]; args = [x for x in args if x != tier]
    if a == "--props":
        props_override = sys.argv[i + 1].split(","); args = [x for x in args if x != sys.argv[i + 1]]
names = args or sorted(p.name for p in (ROOT / "seeded").iterdir() if (p / "patch.diff").exists())
st = subprocess.run(["git", "-C", REPO, "status", "--porcelain", "--untracked-files=no"], capture_output=True, text=True).stdout
if st.strip():
    sys.exit("refusing: /repo has uncommitted changes:\n" + st)
summary = []
for name in names:
    d = ROOT / "seeded" / name
    meta = json.loads((d / "meta.json").read_text())
    props = props_override or [meta["property"]] + list(meta.get("also", []))
    ap = subprocess.run(["git", "-C", REPO, "apply", str(d / "patch.diff")], capture_output=True, text=True)
    if ap.returncode != 0:
        print(f"{name}: patch does not apply: {ap.stderr.strip()[:300]}")
        summary.append((name, "patch-does-not-apply"))
        continue
    runs = {}
    try:
        for p in props:
            t0 = time.time()
            r = subprocess.run(["./check", p, "--tier", tier], cwd=ROOT, capture_output=True, text=True, timeout=3600)
            vio = [l for l in r.stdout.splitlines() if l.startswith("VIOLATION")]
            runs[p] = {"exit": r.returncode, "violations": vio, "tail": r.stdout.splitlines()[-1:] , "wall_s": round(time.time() - t0, 1)}
            print(f"{name}: ./check {p} --tier {tier} -> exit {r.returncode}; {len(vio)} VIOLATION line(s); {runs[p]['tail']}")
    finally:
        subprocess.run(["git", "-C", REPO, "checkout", "--", "."], check=True)
    caught = any(v["exit"] == 1 and v["violations"] for v in runs.values())
    (d / "last_run.json").write_text(json.dumps({"tier": tier, "runs": runs, "caught": caught}, indent=1))
    summary.append((name, "CAUGHT" if caught else "MISSED"))
print("\n".join(f"{n}: {s}" for n, s in summary))
