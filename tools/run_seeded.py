#!/usr/bin/env python3
"""Run registered checks against the seeded (property-breaking) changes kept under /verif/seeded/<name>/.

usage: run_seeded.py [name ...] [--tier quick|thorough] [--props C14,C02] [--both] [--inplace]
Default: a scratch worktree of /repo HEAD is created under /tmp/seedrun-<pid>, each patch is applied there and the
checks run with Y0_REPO pointing at it (evidence and replays redirected to /tmp), so /repo and the committed evidence
are never touched.  --inplace applies the patch to /repo itself (git apply / git checkout -- .), as the task brief describes.
--both runs every check twice: as registered (a changed anchored file escalates the generator) and with
VERIF_NO_ESCALATE=1 (the plain quick tier), and records both in seeded/<name>/last_run.json.
"""
import json, os, subprocess, sys, time, tempfile, shutil
from pathlib import Path

ROOT = Path(__file__).resolve().parent.parent
argv = sys.argv[1:]
def opt(name, has_val):
    if name in argv:
        i = argv.index(name)
        v = argv[i + 1] if has_val else True
        del argv[i:i + (2 if has_val else 1)]
        return v
    return None
tier = opt("--tier", True) or "quick"
props_override = opt("--props", True)
both = bool(opt("--both", False))
only_mode = opt("--mode", True)   # plain | escalated: run one mode only and MERGE it into the recorded last_run.json
inplace = bool(opt("--inplace", False))
names = argv or sorted(p.name for p in (ROOT / "seeded").iterdir() if (p / "patch.diff").exists())
BASE_REPO = os.environ.get("SEED_BASE_REPO", "/repo")      # family builders: their own y0 worktree

def sh(*a, **k):
    return subprocess.run(list(a), capture_output=True, text=True, **k)

if inplace:
    repo = BASE_REPO
    if sh("git", "-C", repo, "status", "--porcelain", "--untracked-files=no").stdout.strip():
        sys.exit("refusing: /repo has uncommitted changes")
    tmp = None
else:
    tmp = tempfile.mkdtemp(prefix="seedrun-")
    repo = os.path.join(tmp, "repo")
    r = sh("git", "-C", BASE_REPO, "worktree", "add", "--detach", repo, "HEAD")
    if r.returncode != 0:
        sys.exit("cannot create scratch worktree: " + r.stderr)
env = dict(os.environ)
env["Y0_REPO"] = repo
if tmp:
    env["VERIF_EVIDENCE_DIR"] = os.path.join(tmp, "evidence")
    env["VERIF_REPLAY_DIR"] = os.path.join(tmp, "replays")
summary = []
try:
    for name in names:
        d = ROOT / "seeded" / name
        meta = json.loads((d / "meta.json").read_text())
        props = props_override.split(",") if props_override else [meta["property"]] + list(meta.get("also", []))
        ap = sh("git", "-C", repo, "apply", str(d / "patch.diff"))
        if ap.returncode != 0:
            print(f"{name}: patch does not apply: {ap.stderr.strip()[:300]}")
            summary.append((name, "patch-does-not-apply"))
            continue
        runs = {}
        try:
            for p in props:
                for mode in ([only_mode] if only_mode else (["escalated", "plain"] if both else ["escalated"])):
                    e = dict(env)
                    if mode == "plain":
                        e["VERIF_NO_ESCALATE"] = "1"
                    t0 = time.time()
                    try:
                        r = sh("./check", p, "--tier", tier, cwd=ROOT, env=e, timeout=3600)
                        rc, out = r.returncode, r.stdout
                    except subprocess.TimeoutExpired:
                        rc, out = 2, ""
                    vio = [l for l in out.splitlines() if l.startswith("VIOLATION")]
                    tail = [l for l in out.splitlines() if l.startswith(f"[{p}] tier=")][-1:]
                    runs[f"{p}:{mode}"] = {"exit": rc, "violation_lines": len(vio),
                                           "no_failing_input_only": bool(vio) and all("no-failing-input-found" in v for v in vio),
                                           "summary": tail, "wall_s": round(time.time() - t0, 1)}
                    print(f"{name}: ./check {p} [{mode}] -> exit {rc}; {len(vio)} VIOLATION line(s); {tail}", flush=True)
        finally:
            subprocess.run(["git", "-C", repo, "checkout", "--", "."], check=True)
        if only_mode and (d / "last_run.json").exists():
            try:
                prev = json.loads((d / "last_run.json").read_text()).get("runs", {})
            except Exception:
                prev = {}
            runs = {**{k: v for k, v in prev.items() if k.split(":")[0] in props}, **runs}
        modes = sorted({k.split(":")[1] for k in runs}) if only_mode else (["escalated", "plain"] if both else ["escalated"])
        caught = {m: any(v["exit"] == 1 and v["violation_lines"] for k, v in runs.items() if k.endswith(":" + m))
                  for m in modes}
        (d / "last_run.json").write_text(json.dumps({"tier": tier, "runs": runs, "caught": caught}, indent=1) + "\n")
        summary.append((name, " ".join(f"{m}={'CAUGHT' if c else 'MISSED'}" for m, c in caught.items())))
finally:
    if tmp:
        sh("git", "-C", BASE_REPO, "worktree", "remove", "--force", repo)
        shutil.rmtree(tmp, ignore_errors=True)
print("\n".join(f"{n}: {s}" for n, s in summary))
