"""diagnostics for the class of ctfTR_sound_partial: which conjunct of CtfTr.ctfTRInClass excludes how many answered
conditional cases of the quick stream, and how many of the excluded ones the oracle accepts (candidates for widening).
usage: Y0_REPO=... /venv/bin/python tools/c09_condclass.py [seed]"""
import collections
import random
import sys

sys.path.insert(0, ".")
from harness import common as C  # noqa: E402
from harness.props import c09  # noqa: E402

NAMES = ["oneWorld", "outcomesFound", "outcomeNotCondition", "outcomesDistinct", "noSelf/consistent", "literalFree",
         "dstarInCtfSoundClass", "readingExists"]


def main():
    seed = int(sys.argv[1]) if len(sys.argv) > 1 else 0
    C.use_repo()
    rng = random.Random(seed * 1000003 + 17)
    cases = [c for c in c09.cases(rng, "quick") if c["kind"] == "cond" and "malformed" not in c]
    model = C.LeanModel()
    res = [c09.run_python(c) for c in cases]
    keep = [(c, r) for c, r in zip(cases, res) if r["out"][0] == "ok" and len(r["out"]) > 4]
    reqs = []
    for c, _ in keep:
        line = c09.request(c)
        reqs.append(line.replace("(ctftr cond ", "(ctftr condclass ", 1))
    reps = model.ask_many(reqs)
    first_fail = collections.Counter()
    first_fail_ok = collections.Counter()
    only = collections.Counter()
    only_ok = collections.Counter()
    n_in = 0
    for (c, r), rep in zip(keep, reps):
        flags = [x == "true" for x in C.parse(rep)[1:]]
        flags[2] = flags[6] = True   # outcomeNotCondition and "D* in ctfSoundClass" (implied) are reported but not part of the class
        good = r["out"][4] == "value_ok"
        if all(flags):
            n_in += 1
            continue
        bad = [NAMES[i] for i, f in enumerate(flags) if not f]
        first_fail[bad[0]] += 1
        if good:
            first_fail_ok[bad[0]] += 1
        if len(bad) == 1:
            only[bad[0]] += 1
            if good:
                only_ok[bad[0]] += 1
    print("answered with event:", len(keep), "in class:", n_in)
    for k in NAMES:
        print(f"{k:24s} first-failing {first_fail[k]:5d} (oracle ok {first_fail_ok[k]:5d})   only-failing {only[k]:5d} "
              f"(oracle ok {only_ok[k]:5d})")


main()
