#!/venv/bin/python
"""Search for inputs of Algorithm 3 (ctfTR) on which the Lean MODEL raises after validation although every outcome is found
(`OutcomesFound = true`), i.e. inside the classes `DstarOneWorld = false` / `OutcomeNotCondition = false` of
`ctfTR_no_internal_error_partial` (lean/Y0/Props/C09.lean §6).

    Y0_REPO=/work/ctftr4/repo /venv/bin/python tools/c09_errsearch.py [n] [seed] [--python] [--sig]

--sig: also cross-check the harness's syntactic `miss_all` / `miss_some` (harness/props/c09.py `signature`) against the
model: no miss <=> OutcomesFound, miss_all <=> D* empty (model: ValueError of Algorithm 2's validator), and every
exception of the model has a miss.

Generators are biased towards the two classes; every candidate (model answer `err internal`, OutcomesFound) is printed
and, with --python, replayed on the real y0.
"""
import json
import os
import random
import sys

sys.path.insert(0, os.path.join(os.path.dirname(os.path.abspath(__file__)), ".."))
from harness import common as C  # noqa: E402
from harness import gen_graph as G  # noqa: E402
from harness.props import c09  # noqa: E402


P_DOUBLE = [0.08]


def rand_var(rng, nodes, name=None, p_sub=0.5):
    name = rng.choice(nodes) if name is None else name
    others = [v for v in nodes if v != name]
    ivs = []
    if others and rng.random() < p_sub:
        for z in rng.sample(others, rng.randint(1, min(2, len(others)))):
            ivs.append((z, "m" if rng.random() < 0.7 else "p"))
            if rng.random() < P_DOUBLE[0]:      # the same name twice (Y_{-x,+x}: the constructor accepts it)
                ivs.append((z, "p" if ivs[-1][1] == "m" else "m"))
    return c09.cv(name, "m" if rng.random() < 0.7 else "p", ivs)


def gen(rng):
    while True:
        g = G.rand_graph(rng, 2, rng.choice([3, 4, 4, 5]), acyclic=True, pd=rng.choice([0.3, 0.5, 0.7]),
                         pb=rng.choice([0.0, 0.2, 0.4]))
        nodes = G.all_nodes(g)
        if len(nodes) >= 2 and len(g["bi"]) <= 6:
            break
    r = rng.random()
    if r < 0.3:
        doms = [{"pop": 1001, "tmarks": [], "policy": [], "cut": []}]
    else:
        doms = c09._rand_domains(rng, nodes)
    outs = [rand_var(rng, nodes) for _ in range(rng.randint(1, 3))]
    conds = [rand_var(rng, nodes, p_sub=0.4) for _ in range(rng.randint(1, 2))]
    mode = rng.random()
    if mode < 0.35:       # an outcome and a condition on the same vertex
        o = rng.choice(outs)
        conds[0] = rand_var(rng, nodes, name=o[1], p_sub=rng.choice([0.0, 0.5, 0.9]))
    elif mode < 0.7:      # the same vertex in two worlds among the outcomes
        o = rng.choice(outs)
        outs.append(rand_var(rng, nodes, name=o[1], p_sub=0.8))
    elif mode < 0.85:     # a descendant of an outcome vertex as another outcome, in another world
        o = rng.choice(outs)
        ch = [e[1] for e in g["di"] if e[0] == o[1]]
        if ch:
            outs.append(rand_var(rng, nodes, name=rng.choice(ch), p_sub=0.3))
    return c09._c(g, doms, outs, conds, rng.randrange(1 << 30), topo_seed=rng.randrange(1 << 30))


def classes_request(case):
    req = C.parse(c09.request(case))
    req[1] = "classes"
    return C.enc(req)


def main():
    args = [a for a in sys.argv[1:] if not a.startswith("--")]
    n = int(args[0]) if args else 20000
    seed = int(args[1]) if len(args) > 1 else 0
    py = "--python" in sys.argv
    rng = random.Random(seed)
    cases = [gen(rng) for _ in range(n)]
    m = C.LeanModel()
    lines = []
    for c in cases:
        lines.append(c09.request(c))
        lines.append(classes_request(c))
    reps = m.ask_many(lines)
    stats = {}
    hits = []
    sigbad = []
    for k, c in enumerate(cases):
        a = C.parse(reps[2 * k])
        cl = C.parse(reps[2 * k + 1])
        if "--sig" in sys.argv and a[0] == "ok" and cl[0] == "ok" and not (a[2][0] == "err" and a[2][1] == "invalid"):
            sg = c09.signature(c)
            empty = a[2][0] == "err" and a[2][1:] == ["internal", "ValueError"]
            if ((cl[1] == "true") != (not sg["miss_all"] and not sg["miss_some"]) or empty != sg["miss_all"]
                    or (a[2][0] == "err" and not (sg["miss_all"] or sg["miss_some"]))):
                sigbad.append(c)
        if a[0] != "ok" or cl[0] != "ok":
            stats["bad"] = stats.get("bad", 0) + 1
            continue
        ans = a[2]
        found, one, disj = (x == "true" for x in cl[1:4])
        verdict = ans[0] if ans[0] != "err" else "err-" + str(ans[1])
        if ans[0] == "ok":
            verdict = "zero" if ans[2] == "none" else "answer"
        key = (verdict, "found" if found else "MISS", "one" if one else "TWO", "disj" if disj else "SHARED",
               "os" if a[1] == "true" else "-")
        stats[key] = stats.get(key, 0) + 1
        if verdict == "err-internal" and found:
            hits.append((c, ans, key))
    for k in sorted(stats, key=str):
        print(stats[k], k)
    print("HITS", len(hits))
    if "--sig" in sys.argv:
        print("SIGNATURE-MISMATCHES", len(sigbad))
        for c in sigbad[:5]:
            print(json.dumps(c))
    seen = set()
    if py:
        C.use_repo()
    for c, ans, key in hits:
        sig = json.dumps([len(c["outcomes"]), len(c["conditions"]), len(G.all_nodes(c["g"])), key])
        if sig in seen and len(seen) > 40:
            continue
        seen.add(sig)
        line = {"case": c, "model": ans, "classes": key}
        if py:
            r = c09.run_python(c)
            line["python"] = r["out"]
            line["fail"] = r["fail"]
        print(json.dumps(line))


if __name__ == "__main__":
    main()
