#!/usr/bin/env python3
"""Mutation campaign C: do the checks of C18, C07, C08 turn a property-breaking ONE-SITE change of the anchored files
cg.py / id_star.py / idc_star.py into a `VIOLATION` line with a concrete replay?

    python3 tools/mutants_C.py --repo /work/mutC/repo [--group cg|idstar|idc] [--id c01,...] [--only-prop C18]
                               [--jobs 2] [--json tools/mutants_C.last.json] [--md tools/mutants_C.md] [--before FILE]
    python3 tools/mutants_C.py --repo /work/mutC/repo --verify       # every mutant applies at exactly one site and compiles
    python3 tools/mutants_C.py --repo /work/mutC/repo --suite tools/mutants_C.suite.json [--id ...]   # pinned 387-test suite per mutant

Same machinery as tools/mutants_A.py (copied, so that campaign A's tables stay reproducible): each mutant is
(id, group, file, old text, new text, expect, why).  `expect` is the list of properties (among the checks that are RUN for
the mutant) whose STATEMENT the change breaks, or "equivalent" (no observable change through make_counterfactual_graph /
id_star / idc_star on in-domain inputs) or "outside-property" (observable, but no clause of the property says anything about
it: fewer Lemma-24 merges, another representative, bidirected edges of the counterfactual graph for C18, more refusals, a
syntactically different but equal estimand, the caller's dict).  `run` = the checks run for the mutant (the group's check
unless given: cg -> C18, idstar -> C07, idc -> C08; a cg.py mutant whose damage is only visible downstream also runs C07).

A crash (an exception other than the documented Unidentifiable / rejection ValueError) on an in-domain input counts as
breaking: the properties quantify over all inputs and promise a (graph, event) / estimand / Zero / refusal.

One mutant at a time is applied to a scratch `git clone` of the repo copy under /tmp/mutC-<pid>-<k> (removed at the end; never
the repo copy itself); the checks run in the PLAIN quick tier (`VERIF_NO_ESCALATE=1 ./check Cxx --tier quick`), evidence and
replays redirected into the scratch directory.
"""
from __future__ import annotations

import argparse
import json
import os
import re
import shutil
import signal
import subprocess
import sys
import threading
import time
from pathlib import Path

VERIF = Path(__file__).resolve().parent.parent
CG = "src/y0/algorithm/identify/cg.py"
IDS = "src/y0/algorithm/identify/id_star.py"
IDC = "src/y0/algorithm/identify/idc_star.py"

GROUP_RUN = {"cg": ["C18"], "idstar": ["C07"], "idc": ["C08"]}
PROPS = ["C18", "C07", "C08"]
EQ, OUT = "equivalent", "outside-property"


def M(id, group, file, old, new, expect, why, run=None):
    return {"id": id, "group": group, "file": file, "old": old, "new": new, "expect": expect, "why": why,
            "run": run or GROUP_RUN[group]}

MUTANTS = [
    # =============================================================================================== cg.py (C18; some also C07)
    # ---- has_same_confounders
    M("c01", "cg", CG, "    return graph.undirected.has_edge(a, b) or no_undirected_edges\n", "    return graph.undirected.has_edge(a, b)\n", OUT,
      "dropped operand: two self-intervened copies X@w1, X@w2 (no bidirected edges at all) never 'have the same confounders', so children "
      "below two interventions on the same value are not merged: FEWER Lemma-24 merges; C18 only demands that the merges made are legitimate"),
    M("c02", "cg", CG, "    return graph.undirected.has_edge(a, b) or no_undirected_edges\n", "    return True\n", OUT,
      "test disabled: for the two nodes being merged the test is always true anyway (non-intervened copies of one variable are pairwise adjacent by "
      "the stitching, self-intervened copies have no bidirected edge); for PARENTS it additionally lets an observed X = x stand for do(X = x) "
      "when X is confounded, which is sound (composition: X = x implies Y_x = Y): more merges, all legitimate"),
    M("c03", "cg", CG, "        0 == len(list(graph.undirected.edges(a))) == len(list(graph.undirected.edges(b)))\n",
      "        len(list(graph.undirected.edges(a))) == len(list(graph.undirected.edges(b)))\n", EQ,
      "dropped '0 ==': equal NUMBER of bidirected edges instead of none; the operand only decides for pairs that are not adjacent, i.e. one "
      "self-intervened copy (0 edges) against another self-intervened copy (0) or a non-intervened copy that has at least the edge to another copy "
      "(> 0) or none at all (0 == 0): same verdicts"),
    # ---- has_same_function / domain of values
    M("c04", "cg", CG, "    return node1.get_base() == node2.get_base() and is_not_self_intervened(\n        node1\n    ) == is_not_self_intervened(node2)\n",
      "    return node1.get_base() == node2.get_base()\n", EQ,
      "dropped operand, redundant guard: nodes_have_same_domain_of_values rejects a self-intervened / not self-intervened pair as well"),
    M("c05", "cg", CG, "        has_same_function(node1, node2)\n        and parents_attain_same_values(graph, event, node1, node2)\n        and nodes_have_same_domain_of_values(graph, event, node1, node2)\n",
      "        has_same_function(node1, node2)\n        and parents_attain_same_values(graph, event, node1, node2)\n", ["C18"],
      "dropped operand: X@{x} and X@{x'} (same variable forced to DIFFERENT values in two worlds) pass Lemma 24 and are merged, then their children: "
      "Y_x = y and Y_x' = y' is reported inconsistent"),
    M("c06", "cg", CG, "    if value_of_self_intervention(a) == value_of_self_intervention(b):\n", "    if value_of_self_intervention(a) is value_of_self_intervention(b):\n", OUT,
      "== / is: the two Intervention objects are built afresh, never identical: self-intervened copies with the SAME value are no longer merged (fewer merges)"),
    M("c07", "cg", CG, "    elif -base in a.interventions:\n        return cast(Intervention, -base)\n", "    elif -base in a.interventions:\n        return cast(Intervention, +base)\n", ["C18"],
      "lost polarity: the value of a self-intervention on x is reported as x', so X@{x} and X@{x'} have 'the same domain' and are merged "
      "(needs two worlds that force one variable to different values)"),
    M("c08", "cg", CG, "    if is_not_self_intervened(a) or is_not_self_intervened(b):\n        return False\n    if value_of", "    if value_of", EQ,
      "dropped guard, redundant: has_same_function already rejects a mixed pair"),
    # ---- nodes_attain_same_value (the parents' values in Lemma 24)
    M("c09", "cg", CG, "        if event[a] != event[b]:\n            return False  # D and D @ -d  events = {D: -d}\n", "        if event[a] == event[b]:\n            return False  # D and D @ -d  events = {D: -d}\n", ["C18"],
      "negated comparison: two parent copies OBSERVED at different values count as 'attaining the same value' (and equal ones do not): needs a chain "
      "Z -> X -> Y, both X and X_z in the event with different values and Y, Y_z in the event"),
    M("c10", "cg", CG, "        if event[a] != event[b]:\n            return False  # D and D @ -d  events = {D: -d}\n", "        if event[a].name != event[b].name:\n            return False  # D and D @ -d  events = {D: -d}\n", ["C18"],
      "lost polarity: the values of two observed parent copies are compared by NAME only, x and x' pass"),
    M("c11", "cg", CG, "        if not isinstance(b, CounterfactualVariable) or event[a] not in b.interventions:\n",
      "        if not isinstance(b, CounterfactualVariable) or event[a].get_base() not in {i.get_base() for i in b.interventions}:\n", ["C18"],
      "lost polarity: an observed X = x' stands for do(X = x): needs a starred observed value against an unstarred subscript (or the reverse) on a parent"),
    M("c12", "cg", CG, "    elif b in event:\n        if not isinstance(a, CounterfactualVariable) or event[b] not in a.interventions:\n            return False\n        else:\n            return True\n",
      "    elif b in event:\n        return False\n", OUT,
      "dropped case (the mirrored one: second node observed, first intervened): fewer merges"),
    M("c58", "cg", CG, "        if not isinstance(a, CounterfactualVariable) or event[b] not in a.interventions:\n",
      "        if not isinstance(a, CounterfactualVariable) or event[b].get_base() not in {i.get_base() for i in a.interventions}:\n", ["C18"],
      "lost polarity in the MIRRORED case (twin of c11): the second parent copy is observed, the first intervened: only reached in the world-pair loop with "
      "a parent X intervened in one counterfactual world and observed in another world that X's factual copy does not merge with (A -> X -> Y, worlds "
      "{X: x'} and {A: a}, event X_a = x, Y_x' = y, Y_a = y')"),
    M("c59", "cg", CG, "    elif b in event:\n        if not isinstance(a, CounterfactualVariable) or event[b] not in a.interventions:\n            return False\n        else:\n            return True\n",
      "    elif b in event:\n        return True\n", ["C18"],
      "dropped test in the mirrored case: an observed second parent copy always 'attains the value' of the first"),
    M("c13", "cg", CG, "    elif isinstance(a, CounterfactualVariable) or isinstance(b, CounterfactualVariable):\n        return False\n    return True\n",
      "    elif isinstance(a, CounterfactualVariable) and isinstance(b, CounterfactualVariable):\n        return False\n    return True\n", ["C18"],
      "or -> and: an unobserved factual parent X and its unobserved, un-mergeable copy X_z 'attain the same value': Z -> X -> Y with Y = y, Y_z = y' is reported inconsistent"),
    M("c14", "cg", CG, "    elif isinstance(a, CounterfactualVariable) or isinstance(b, CounterfactualVariable):\n        return False\n    return True\n",
      "    elif isinstance(a, CounterfactualVariable) or isinstance(b, CounterfactualVariable):\n        return False\n    return False\n", EQ,
      "dead code: two DISTINCT factual variables with the same base do not exist (a == b returned at the top)"),
    M("c15", "cg", CG, "    elif a.get_base() != b.get_base():\n        return False\n    elif a in event and b in event:\n", "    elif a in event and b in event:\n", EQ,
      "dropped guard, unreachable: the zip pairs the differing parents sorted by base name, and two copies of one variable always have copies of "
      "the same parents (an intervened copy has none and never passes has_same_function), so a pair with different bases does not arise"),
    # ---- parents_attain_same_values
    M("c16", "cg", CG, "    remainder_a, remainder_b = parents_a - parents_b, parents_b - parents_a\n", "    remainder_a, remainder_b = parents_a - parents_b, parents_a - parents_b\n", ["C18"],
      "stale variable: the parents only the first node has are compared with themselves: every pair of copies whose parent sets have the same size passes"),
    M("c17", "cg", CG, "    if len(remainder_a) != len(remainder_b):\n", "    if len(parents_a) != len(parents_b):\n", EQ,
      "stale variable, harmless: the common parents are removed from both sets"),
    M("c18", "cg", CG, "    return all(\n        nodes_attain_same_value(graph, event, parent_a, parent_b)\n", "    return any(\n        nodes_attain_same_value(graph, event, parent_a, parent_b)\n", ["C18"],
      "all -> any: ONE parent pair with equal values is enough: needs a node with two parents that differ between the worlds, one pair equal "
      "(observed x / do(x)) and the other not (Z free / do(z)): X -> Y <- Z, event X = x, Y = y, Y_{x,z} = y'"),
    M("c19", "cg", CG, "            sorted(remainder_b, key=lambda x: x.get_base()),\n", "            list(remainder_b),\n", OUT,
      "iteration-order dependence: the second remainder is paired in set order; a mismatched pairing has different bases and fails: fewer merges, "
      "depending on PYTHONHASHSEED"),
    M("c20", "cg", CG, "    parents_a, parents_b = set(graph.directed.predecessors(a)), set(graph.directed.predecessors(b))\n",
      "    parents_a, parents_b = set(graph.directed.successors(a)), set(graph.directed.successors(b))\n", ["C18"],
      "wrong direction: children instead of parents: leaves (no children in any world) always pass"),
    M("c21", "cg", CG, "    if not has_same_confounders(graph, a, b):\n        return False\n    parents_a, parents_b", "    parents_a, parents_b", EQ,
      "dropped guard, redundant: nodes_have_same_domain_of_values tests the same"),
    # ---- is_not_self_intervened
    M("c22", "cg", CG, "        +(node.get_base()) not in node.interventions\n        and -(node.get_base()) not in node.interventions\n",
      "        +(node.get_base()) not in node.interventions\n        or -(node.get_base()) not in node.interventions\n", ["C18", "C07"],
      "and -> or: no node is ever self-intervened (a subscript holds one polarity). cg: a parentless unconfounded X is merged with X@{x}, so the tautology "
      "X_x = x is relabelled X = x (probability 1 becomes P(x)); id_star: self-intervened nodes enter the districts", run=["C18", "C07"]),
    # ---- merge_pw
    M("c23", "cg", CG, "    if isinstance(node1, CounterfactualVariable) and not isinstance(node2, CounterfactualVariable):\n        node1, node2 = node2, node1\n",
      "    if isinstance(node1, CounterfactualVariable) and not isinstance(node2, CounterfactualVariable):\n        pass\n", EQ,
      "dead for make_counterfactual_graph: the driver always passes the factual node first (merge_pw itself is not the observation point)"),
    M("c24", "cg", CG, "        node1, node2 = sorted([node1, node2], key=_variable_sort_key)\n", "        node1, node2 = sorted([node1, node2], key=_variable_sort_key, reverse=True)\n", OUT,
      "other representative: of two counterfactual copies the one with the HIGHER name is kept; graph and event are relabelled consistently"),
    M("c25", "cg", CG, "    directed = [(u, v) for u, v in graph.directed.edges() if node2 not in (u, v)]\n", "    directed = [(u, v) for u, v in graph.directed.edges()]\n", ["C18"],
      "dropped filter: the edges of the eliminated node survive (from_edges re-creates the node): its children have TWO copies of that parent, the "
      "eliminated node stays an 'ancestor' although the event no longer mentions it: the graph is not the counterfactual graph of Lemma 25"),
    M("c26", "cg", CG, "    directed += [(node1, v) for u, v in graph.directed.edges() if node2 == u]\n", "    directed += []\n", ["C18"],
      "dropped statement: the children of the eliminated node lose that parent: the produced graph misses ancestors of the relabelled event "
      "(probabilities unchanged): only the independent reading of 'ancestors' can see it (as seeded/C18b)"),
    M("c27", "cg", CG, "    directed += [(node1, v) for u, v in graph.directed.edges() if node2 == u]\n", "    directed += [(node1, v) for u, v in graph.directed.edges() if node2 == v]\n", ["C18"],
      "wrong endpoint: the edges INTO the eliminated node are redirected (node1 -> node2 re-creates the eliminated node as a child of the kept one) "
      "instead of the edges out of it: its children lose that parent"),
    M("c28", "cg", CG, "    undirected.update(\n        frozenset({node1, v}) for u, v in graph.undirected.edges() if node2 == u and node1 != v\n    )\n", "", EQ,
      "dropped statement, redundant by the stitching: every bidirected neighbour of the eliminated copy is already a neighbour of the kept copy "
      "(all non-intervened copies of two confounded variables are pairwise adjacent)"),
    M("c29", "cg", CG, "        u for u, v in graph.directed.edges() if v == node2 and u not in parents_of_node1\n", "        u for u, v in graph.directed.edges() if v == node2\n", EQ,
      "dropped condition: shared parents are taken off the node LIST but from_edges re-creates them from their edge to the kept node"),
    M("c30", "cg", CG, "                if node != node2 and node not in parents_of_node2_not_node1\n", "                if node != node2\n", EQ,
      "dropped condition: a parent that only the eliminated node had stays as a node; without other children it is not an ancestor of the event "
      "and the final restriction removes it (with other children the unchanged code keeps it too)"),
    M("c31", "cg", CG, "        node1,\n        node2,\n    )\n\n\ndef lemma_24_holds", "        node2,\n        node1,\n    )\n\n\ndef lemma_24_holds", ["C18"],
      "swapped return values: the event is relabelled to the ELIMINATED node, which is then re-added as an isolated node: a relabelled event "
      "variable without its parents (probabilities unchanged)"),
    M("c32", "cg", CG, "            directed=list(set(directed)),\n            undirected=cast(list[tuple[Variable, Variable]], [tuple(fz) for fz in undirected]),\n        ),\n        node1,",
      "            directed=list(set(directed)),\n        ),\n        node1,", ["C07"],
      "dropped argument: after the first merge the counterfactual graph has NO bidirected edges. Outside C18 (no clause about bidirected edges; every later "
      "Lemma-24 test then finds 'no confounders', sound as in c02), but ID* splits every district into singletons", run=["C18", "C07"]),
    # ---- lemma_24_holds / is_inconsistent / update_event
    M("c33", "cg", CG, "        (node in cf_graph.nodes())\n        and (node_at_interventions in cf_graph.nodes())\n", "        (node_at_interventions in cf_graph.nodes())\n", ["C18"],
      "dropped operand: in the world-pair loop the first copy has often been merged away already: is_pw_equivalent raises KeyError (needs >= 2 worlds)"),
    M("c34", "cg", CG, "        and (event[node] != event[node_at_interventions])\n", "        and (event[node] == event[node_at_interventions])\n", ["C18"],
      "negated comparison: 'inconsistent' for equal values, and different values are overwritten"),
    M("c35", "cg", CG, "        and (event[node] != event[node_at_interventions])\n", "        and (event[node].name != event[node_at_interventions].name)\n", ["C18"],
      "lost polarity: inconsistency is never found; update_event then overwrites one of the two contradicting conjuncts: an impossible event gets a "
      "possible relabelling"),
    M("c36", "cg", CG, "        event[preferred_node] = event[eliminated_node]\n        del event[eliminated_node]\n", "        del event[eliminated_node]\n", ["C18"],
      "dropped statement: the conjunct on the eliminated node is lost instead of renamed (unless the kept node was in the event too)"),
    # ---- make_counterfactual_graph
    M("c37", "cg", CG, "    new_event = dict(event)\n", "    new_event = event\n", OUT,
      "mutation of the caller's argument: the caller's event dict is relabelled in place; C18 has no side-effect clause and id_star / idc_star "
      "do not use the dict afterwards"),
    M("c38", "cg", CG, "    for node in graph.topological_sort():\n", "    for node in graph.nodes():\n", ["C07"],
      "wrong order (= seeded/C07c, found independently): insertion order instead of parents-first: a child is tested before its parents have been merged: "
      "fewer merges, each still legitimate, so C18 holds (outside C18); ID* then finds two unmerged copies of one variable in a district and line 9 "
      "prints them as one (A -> B -> C, A <-> B, B <-> C stored downstream-first, event {C: c, B_c: b})", run=["C18", "C07"]),
    M("c39", "cg", CG, "            if lemma_24_holds(cf_graph, new_event, node, node_at_interventions):\n", "            if lemma_24_holds(cf_graph, event, node, node_at_interventions):\n", OUT,
      "stale variable: Lemma 24 is tested with the ORIGINAL event; its keys for eliminated nodes are never looked up, the kept nodes that only the "
      "relabelled event mentions count as unobserved: fewer merges"),
    M("c40", "cg", CG, "                cf_graph, preferred_node, eliminated_node = merge_pw(\n                    cf_graph, node, node_at_interventions\n                )\n",
      "                cf_graph, preferred_node, eliminated_node = merge_pw(\n                    pw_graph, node, node_at_interventions\n                )\n", OUT,
      "wrong graph: every factual merge starts again from the parallel-worlds graph, un-doing the earlier merges while the event stays relabelled. "
      "REVISED after round 1 (first guess: breaks C18; the check showed 238 disagreements with the model and no oracle failure in ~15 000 cases): every "
      "relabelling made is still a legitimate Lemma-24 merge, the later tests run on a LESS merged graph (more conservative), and the returned graph is "
      "the ancestral part of the parallel-worlds graph with one merge, in which every node has exactly the copies of its parents in its own world (or a "
      "node that equals them on the event): all three clauses of C18 hold, the graph is only larger than necessary"),
    M("c41", "cg", CG, "                if is_inconsistent(new_event, preferred_node, eliminated_node):\n                    return cf_graph, None\n",
      "                if is_inconsistent(new_event, preferred_node, eliminated_node):\n                    continue\n", ["C18"],
      "early return replaced by continue: an inconsistent pair is merged in the graph but both conjuncts stay: the event keeps a variable that was "
      "eliminated (re-added without parents)"),
    M("c42", "cg", CG, "        if len(worlds) > 1:\n            for intervention1, intervention2 in combinations(worlds, 2):\n", "        if len(worlds) > 2:\n            for intervention1, intervention2 in combinations(worlds, 2):\n", OUT,
      "off by one: with exactly two counterfactual worlds the world-pair loop is skipped: fewer merges"),
    M("c43", "cg", CG, "            for intervention1, intervention2 in combinations(worlds, 2):\n", "            for intervention1, intervention2 in combinations(sorted(worlds, key=str), 2):\n", OUT,
      "fixed iteration order of the world pairs: one of the orders the set could have had"),
    M("c44", "cg", CG, "                    if is_inconsistent(new_event, node_at_intervention1, node_at_intervention2):\n", "                    if is_inconsistent(event, node_at_intervention1, node_at_intervention2):\n", ["C18"],
      "stale variable in the world-pair loop (the twin of seeded/C18a): a value that reached the first copy by an EARLIER relabelling is not in the "
      "original event: needs three worlds (V@w3 merged into V@w1, then V@w1 against V@w2 with another value) or a factual merge before"),
    M("c45", "cg", CG, "                    new_event = update_event(new_event, preferred_node, eliminated_node)\n\n    # merge_pw",
      "                    new_event = update_event(new_event, eliminated_node, preferred_node)\n\n    # merge_pw", ["C18"],
      "swapped arguments in the world-pair loop: the event is relabelled to the eliminated copy (needs two worlds whose copies merge with each other "
      "but not with the factual node, the kept one in the event)"),
    M("c46", "cg", CG, "    for variable in new_event:\n        cf_graph.add_node(variable)\n", "", ["C18"],
      "fix ce3041e reverted: a self-intervened event variable that merge_pw dropped is missing: NetworkXError (corpus witness)"),
    M("c47", "cg", CG, "    ancestors = cf_graph.ancestors_inclusive(new_event)\n", "    ancestors = cf_graph.ancestors_inclusive(event)\n", ["C18"],
      "stale variable: ancestors of the ORIGINAL event variables (eliminated ones are no nodes any more)"),
    M("c48", "cg", CG, "    ancestors = cf_graph.ancestors_inclusive(new_event)\n", "    ancestors = cf_graph.descendants_inclusive(new_event)\n", ["C18"],
      "wrong closure: descendants instead of ancestors"),
    M("c49", "cg", CG, "    rv_graph = cf_graph.subgraph(ancestors)\n", "    rv_graph = cf_graph\n", ["C18"],
      "dropped restriction: the whole merged parallel-worlds graph is returned"),
    M("c50", "cg", CG, "    rv_graph = cf_graph.subgraph(ancestors)\n", "    rv_graph = pw_graph.subgraph(ancestors)\n", ["C18"],
      "wrong graph: the right node set, but the edges of the UNMERGED parallel-worlds graph: children of eliminated copies have no parent"),
    M("c51", "cg", CG, "        nodes=pw_graph.nodes(),\n        directed=pw_graph.directed.edges(),\n        undirected=pw_graph.undirected.edges(),\n",
      "        nodes=pw_graph.nodes(),\n        directed=pw_graph.directed.edges(),\n", ["C07"],
      "dropped argument: the working copy of the parallel-worlds graph has no bidirected edges at all. Outside C18 (see c32); ID* sees singleton districts",
      run=["C18", "C07"]),
    # ---- parallel-worlds graph
    M("c52", "cg", CG, "    return (+node not in world) and (-node not in world)\n", "    return (+node not in world) or (-node not in world)\n", ["C18"],
      "and -> or: nothing counts as intervened: intervened copies keep their parents and confounders (a node fixed by its world has ancestors)"),
    M("c53", "cg", CG, "        for u, v in graph.directed.edges()\n        if node_not_an_intervention_in_world(world, v)\n", "        for u, v in graph.directed.edges()\n        if node_not_an_intervention_in_world(world, u)\n", ["C18"],
      "wrong endpoint: edges OUT of an intervened node are cut instead of the edges into it"),
    M("c54", "cg", CG, "    if len(worlds) > 1:\n        undirected |= stitch_counterfactual_and_dopplegangers(graph, worlds)\n", "    if len(worlds) > 2:\n        undirected |= stitch_counterfactual_and_dopplegangers(graph, worlds)\n", ["C07"],
      "off by one: with exactly two worlds the copies V@w1, V@w2 (and copies of confounded neighbours) are not joined by bidirected edges. cg: they no "
      "longer 'have the same confounders' (fewer merges, outside C18); ID* treats variables that share their noise as separate districts", run=["C18", "C07"]),
    M("c55", "cg", CG, "        undirected=set(graph.undirected.edges()) | undirected,\n", "        undirected=undirected,\n", ["C07"],
      "dropped operand: the bidirected edges between FACTUAL variables are missing from the parallel-worlds graph (outside C18; districts of ID* split)",
      run=["C18", "C07"]),
    M("c56", "cg", CG, "        rv.add((b, a))\n", "        rv.add((a, b))\n", EQ, "undirected edges: orientation is irrelevant"),
    M("c57", "cg", CG, "        *(node @ world for world in worlds for node in graph.nodes()),\n", "        *(node @ world for world in worlds for node in graph.nodes() if graph.directed.degree(node) or graph.undirected.degree(node)),\n", OUT,
      "edge-less nodes get no counterfactual copy. REVISED (first guess: a missing event variable): the repair ce3041e re-adds every variable of the relabelled "
      "event as a node, and an isolated variable has no parents to represent, so Y_x is only not merged with Y any more (fewer merges)"),
    # =============================================================================================== id_star.py (C07)
    M("i01", "idstar", IDS, "    if not event:\n        return One()\n", "    if not event:\n        return Zero()\n", ["C07"],
      "wrong constant: the empty conjunction (reached through line 3 when every conjunct is a tautology) gets probability 0"),
    M("i02", "idstar", IDS, "    if violates_axiom_of_effectiveness(event):\n        return Zero()\n", "    if False and violates_axiom_of_effectiveness(event):\n        return Zero()\n", ["C07"],
      "line 2 disabled: X_x = x' (impossible) gets an estimand"),
    M("i03", "idstar", IDS, "        intervention.get_base() == value.get_base() and value.star != intervention.star\n", "        value.star != intervention.star\n", ["C07"],
      "dropped operand: ANY subscript of the other polarity makes the event 'violate effectiveness': Y_x' = y returns Zero"),
    M("i04", "idstar", IDS, "        intervention.get_base() == value.get_base() and value.star == intervention.star\n", "        intervention.get_base() == value.get_base()\n", EQ,
      "dropped operand, guarded: line 2 has already returned Zero for every conjunct whose own subscript has the other polarity"),
    M("i05", "idstar", IDS, "        intervention.get_base() == value.get_base() and value.star == intervention.star\n", "        value.star == intervention.star\n", ["C07"],
      "dropped operand: Y_x = y (any subscript of the same polarity as the value) is removed as a 'tautology'"),
    M("i06", "idstar", IDS, "    if new_event is None:\n        return Zero()\n", "    if not new_event:\n        return Zero()\n", EQ,
      "truthiness instead of `is None`: the relabelled event of a non-empty event is never empty"),
    M("i07", "idstar", IDS, "    nodes = {node for node in cf_graph.nodes() if is_not_self_intervened(node)}\n    cf_subgraph = cf_graph.subgraph(nodes)\n    if not cf_subgraph.is_connected():\n",
      "    nodes = {node for node in cf_graph.nodes() if is_not_self_intervened(node)}\n    cf_subgraph = cf_graph.subgraph(nodes)\n    if not cf_graph.is_connected():\n", ["C07"],
      "wrong graph: connectivity of the graph WITH its self-intervened nodes (always isolated in the bidirected part): P(y_x) reaches line 6 with one "
      "district and raises RuntimeError"),
    M("i08", "idstar", IDS, "        summand, events_of_each_district = id_star_line_6(cf_graph, new_event)\n", "        summand, events_of_each_district = id_star_line_6(cf_subgraph, new_event)\n", ["C07"],
      "wrong graph: line 6 on the graph WITHOUT the self-intervened nodes: an intervened parent X@x of a district is no longer in its Markov pillow, "
      "the district event loses the subscript x"),
    M("i09", "idstar", IDS, "        if len(events_of_each_district) <= 1:\n", "        if len(events_of_each_district) < 1:\n", EQ,
      "off by one in a defensive check: a disconnected graph has at least two districts"),
    M("i10", "idstar", IDS, "                for events_of_district in events_of_each_district.values()\n            ),\n            summand,\n        )\n",
      "                for events_of_district in events_of_each_district.values()\n            ),\n            (),\n        )\n", ["C07"],
      "dropped argument: line 6 does not sum over the unobserved variables of the counterfactual graph"),
    M("i11", "idstar", IDS, "    conflicts = get_conflicts(cf_subgraph, new_event)\n", "    conflicts = get_conflicts(cf_graph, new_event)\n", EQ,
      "wrong graph, harmless: a self-intervened node of the counterfactual graph always has a child in its own world, which carries the same subscripts"),
    M("i12", "idstar", IDS, "    if conflicts:\n        raise ConflictUnidentifiable(cf_subgraph, new_event, conflicts)\n", "    if conflicts and False:\n        raise ConflictUnidentifiable(cf_subgraph, new_event, conflicts)\n", ["C07"],
      "lines 7-8 disabled: P(y_x, x') on the bow graph gets an estimand"),
    M("i13", "idstar", IDS, "    return Sum.safe(id_star_line_9(cf_subgraph), get_free_variables(cf_subgraph, new_event))\n", "    return Sum.safe(id_star_line_9(cf_subgraph), get_free_variables(cf_subgraph, event))\n", EQ,
      "stale variable, harmless: relabelling keeps the base names, which is all get_free_variables reads"),
    M("i14", "idstar", IDS, "    return Sum.safe(id_star_line_9(cf_subgraph), get_free_variables(cf_subgraph, new_event))\n", "    return Sum.safe(id_star_line_9(cf_graph), get_free_variables(cf_subgraph, new_event))\n", ["C07"],
      "wrong graph: line 9 lists the self-intervened nodes as outcome variables: P[x](Y, X)"),
    M("i15", "idstar", IDS, "    return {v.get_base() for v in free_variables} - {e.get_base() for e in event}\n", "    return {v.get_base() for v in free_variables} - set(event)\n", ["C07"],
      "objects instead of base names (as seeded/C19c): a counterfactual event variable Y_x is not recognised and Y is summed out"),
    M("i16", "idstar", IDS, "    free_variables = {variable for variable in cf_graph.nodes() if is_not_self_intervened(variable)}\n", "    free_variables = set(cf_graph.nodes())\n", ["C07"],
      "dropped filter: line 6 (which passes the full counterfactual graph) also sums over the intervened variables"),
    M("i17", "idstar", IDS, "    nodes = {node for node in graph.nodes() if is_not_self_intervened(node)}\n    subgraph = graph.subgraph(nodes)\n    return {\n",
      "    nodes = set(graph.nodes())\n    subgraph = graph.subgraph(nodes)\n    return {\n", ["C07"],
      "dropped filter: every self-intervened node becomes a district of its own: an extra factor P(x)"),
    M("i18", "idstar", IDS, "        district: get_events_of_district(graph, district, event)\n", "        district: get_events_of_district(subgraph, district, event)\n", ["C07"],
      "wrong graph (second site of i08): the Markov pillow is taken in the graph without self-intervened nodes"),
    M("i19", "idstar", IDS, "    return cast(Intervention, -node.get_base())\n", "    return cast(Intervention, +node.get_base())\n", OUT,
      "wrong polarity: an unobserved district node gets the value x'. REVISED after round 1 (first guess: breaks C07): an estimand of y0 names variables, not values, "
      "and line 6 of the recursive call writes every value as an UNSTARRED subscript anyway (open finding F10/M1), so the polarity of a district value reaches "
      "the output only through lines 2 / 8 of the recursive call, i.e. when a copy of the summed variable is also a subscript of the same district "
      "(F10/M2, M3a inputs). Measured: 5 of 2 028 quick inputs change (an estimand becomes Zero), and on all 5 the UNCHANGED id_star already returns a wrong "
      "estimand (listed classes value/line6/M2 and M3a): wrong -> wrong, no input found on which the mutant is wrong and the unchanged code right"),
    M("i20", "idstar", IDS, "    if node in event:\n        return event[node]\n", "    if node.get_base() in event:\n        return event[node.get_base()]\n", EQ,
      "base instead of node: the value of a COUNTERFACTUAL event variable is looked up under its base name and defaults to the unstarred value. REVISED after "
      "round 1 (first guess: breaks C07): as for i19 the polarity of a district value is invisible in the estimand on the current tree (F10/M1 un-stars it at the "
      "next line 6, line 9 prints no values); no generated input (12 000 with the extended search) distinguishes the mutant from the model of the unchanged code"),
    M("i21", "idstar", IDS, "        if intervention.name == ev.name and intervention.star != ev.star\n", "        if intervention.name == ev.name and intervention.star == ev.star\n", ["C07"],
      "negated comparison: agreement is a conflict, real conflicts pass"),
    M("i22", "idstar", IDS, "    return set(event.values()) | get_cf_interventions(event)\n", "    return set(event.values())\n", ["C07"],
      "dropped operand: conflicts between SUBSCRIPTS of two worlds (y_x, z_x' in one district) are missed: an estimand with x and x' in one subscript set"),
    M("i23", "idstar", IDS, "    return set(event.values()) | get_cf_interventions(event)\n", "    return get_cf_interventions(event)\n", ["C07"],
      "dropped operand: the conflict between an observed value x' and a subscript x is missed (the classic P(y_x, x'))"),
    M("i24", "idstar", IDS, "    if len(interventions) > 0:\n", "    if len(interventions) > 1:\n", ["C07"],
      "off by one: a single subscript is dropped at line 9: P(Y) for P(y_x)"),
    M("i25", "idstar", IDS, "    bases = [node.get_base() for node in cf_graph.nodes()]\n", "    bases = [node.get_base() for node in cf_graph.nodes()][:1] if len(cf_graph.nodes()) > 3 else [node.get_base() for node in cf_graph.nodes()]\n", ["C07"],
      "needs size: with MORE than three non-intervened nodes in a single district line 9 keeps the first variable only (probe for large single-district events)"),
    M("i26", "idstar", IDS, "    markov_pillow = graph.get_markov_pillow(district)\n", "    markov_pillow = graph.get_markov_pillow(district) - set(event)\n", ["C07"],
      "wrong set operation: pillow nodes that the event OBSERVES are not intervened on: the district factor ignores that its observed parent is fixed"),
    # =============================================================================================== idc_star.py (C08)
    M("d01", "idc", IDC, "        if isinstance(id_star(graph, conditions), Zero):\n", "        if isinstance(id_star(graph, outcomes), Zero):\n", ["C08"],
      "wrong argument: the OUTCOMES are tested for impossibility: an impossible condition is answered (Zero) instead of rejected, an impossible outcome is rejected"),
    M("d02", "idc", IDC, "            raise ValueError(\"The ID* algorithm returned 0, so IDC* cannot be applied.\")\n", "            pass\n", ["C08"],
      "dropped raise: an impossible condition is answered"),
    M("d03", "idc", IDC, "    _events = outcomes | conditions\n", "    _events = conditions | outcomes\n", EQ,
      "swapped operands: disjoint keys, only the dict order changes"),
    M("d04", "idc", IDC, "    if len(missing_outcomes) > 0 and len(missing_conditions) > 0:\n", "    if len(missing_outcomes) > 0 or len(missing_conditions) > 0:\n", EQ,
      "and -> or: the by-base-name branch also serves the one-sided cases (a new key always has the base name of a missing key of its own side)"),
    M("d05", "idc", IDC, "            if outcome.get_base() in {missing.get_base() for missing in missing_outcomes}:\n", "            if outcome.get_base() in {missing.get_base() for missing in missing_conditions}:\n", ["C08"],
      "stale variable: when BOTH an outcome and a condition were renamed by the counterfactual graph, the renamed condition is (also) filed under the "
      "outcomes; the value only changes if rule 2 then exchanges something"),
    M("d06", "idc", IDC, "        for outcome in new_event_keys:\n            remaining_outcomes[outcome] = new_event[outcome]\n        return remaining_outcomes, remaining_conditions\n    elif len(missing_conditions) > 0:\n",
      "        for outcome in new_event_keys:\n            remaining_conditions[outcome] = new_event[outcome]\n        return remaining_outcomes, remaining_conditions\n    elif len(missing_conditions) > 0:\n", ["C08"],
      "wrong dict: a renamed OUTCOME is filed under the conditions (outcomes may become empty: rule 2 then 'applies' vacuously and conditions are dropped)"),
    M("d07", "idc", IDC, "        set(new_event) - set(outcomes) - set(conditions), key=_variable_sort_key\n", "        set(new_event) - set(outcomes), key=_variable_sort_key\n", ["C08"],
      "REVISED after the re-measurement (first guess: outside the property): the change only prevents exchanges, but the un-exchanged quotient is then evaluated by ID*, "
      "which is wrong on it (F10) on inputs where the exchanged answer of the unchanged code is right: the mutant's answer violates C08 there. dropped operand: when an outcome was renamed, the surviving CONDITIONS are also filed under the outcomes: rule 2 is then tested between a "
      "condition and itself and fails: fewer exchanges; the final quotient joint / conditions is unchanged"),
    M("d08", "idc", IDC, "        if cf_rule_2_of_do_calculus_applies(cf_graph, new_outcomes, condition):\n", "        if cf_rule_2_of_do_calculus_applies(cf_graph, outcomes, condition):\n", ["C08"],
      "stale variable: rule 2 is tested for the ORIGINAL outcomes, which are no nodes of the counterfactual graph once renamed (KeyError from are_d_separated)"),
    M("d09", "idc", IDC, "                    outcome.intervene(new_conditions[condition])\n", "                    outcome.intervene(condition)\n", ["C08"],
      "fix 8a76512 reverted: the exchanged condition enters the subscript as the unstarred value whatever its observed value"),
    M("d10", "idc", IDC, "                    if condition in cf_graph.ancestors_inclusive(outcome)\n", "                    if True\n", ["C08"],
      "dropped condition: every outcome gets the subscript, also those the condition is no ancestor of. REVISED after round 1 (first guess: Y_z = Y there, only a "
      "syntactic difference): an outcome that already carries the OTHER value of the condition's variable in its subscript (Y_{z'} with the factual condition "
      "Z = z, which is no ancestor of Y_{z'}) makes CounterfactualVariable.intervene raise ValueError: a crash on an in-domain query"),
    M("d11", "idc", IDC, "                    if condition in cf_graph.ancestors_inclusive(outcome)\n", "                    if condition in cf_graph.descendants_inclusive(outcome)\n", ["C08"],
      "wrong closure: a condition that is a CAUSE of the outcome is dropped without becoming a subscript: P(y) for P(y | x) on X -> Y"),
    M("d12", "idc", IDC, "                graph, new_outcomes, new_conditions, _number_recursions=_number_recursions + 1\n", "                graph, outcomes, new_conditions, _number_recursions=_number_recursions + 1\n", ["C08"],
      "stale variable: the recursion continues with the outcomes WITHOUT the new subscript: the condition is simply dropped"),
    M("d13", "idc", IDC, "        graph, new_outcomes | new_conditions, _number_recursions=_number_recursions + 1\n", "        graph, new_outcomes, _number_recursions=_number_recursions + 1\n", ["C08"],
      "dropped operand: the numerator is P(outcomes) instead of P(outcomes, conditions)"),
    M("d14", "idc", IDC, "    if len(conditions) == 0 or isinstance(id_star_estimand, Zero):\n", "    if len(conditions) == 0:\n", ["C08"],
      "fix 9f8a537 reverted: Zero is normalised: 0 / Sum 0"),
    M("d15", "idc", IDC, "    idc_star_estimand = id_star_estimand.conditional([c.get_base() for c in conditions])\n", "    idc_star_estimand = id_star_estimand.conditional([c.get_base() for c in outcomes])\n", ["C08"],
      "wrong argument: normalised over the conditions instead of over the outcomes: P(joint) / P(outcomes)"),
    M("d16", "idc", IDC, "    idc_star_estimand = id_star_estimand.conditional([c.get_base() for c in conditions])\n", "    idc_star_estimand = id_star_estimand.conditional([c.get_base() for c in conditions][:1])\n", ["C08"],
      "off by one: only the FIRST condition is kept fixed in the normaliser: needs two conditions that survive rule 2"),
    M("d17", "idc", IDC, "    conditions = {n for n in cf_graph.nodes() if not is_not_self_intervened(n)}\n", "    conditions = {n for n in cf_graph.nodes() if is_not_self_intervened(n)}\n", ["C08"],
      "negated filter: rule 2 is tested given every ordinary node instead of given the intervened ones: colliders open, chains close"),
    M("d18", "idc", IDC, "    graph_mod = cf_graph.remove_out_edges(condition)\n", "    graph_mod = cf_graph.remove_in_edges(condition)\n", ["C08"],
      "wrong surgery: edges INTO the condition are cut: an effect Z of the outcome (Y -> Z) passes rule 2 and is dropped: P(y) for P(y | z)"),
    M("d19", "idc", IDC, "    graph_mod = cf_graph.remove_out_edges(condition)\n", "    graph_mod = cf_graph\n", ["C08"],
      "REVISED as d07 (fewer exchanges; the quotient ID* then computes is wrong on inputs where the unchanged code answers correctly, e.g. Zero for a possible joint event). no surgery: a condition with a causal path to an outcome never passes: fewer exchanges, the quotient is returned instead"),
    M("d20", "idc", IDC, "    return all(\n        are_d_separated(", "    return any(\n        are_d_separated(", ["C08"],
      "all -> any: one separated outcome is enough: needs two outcomes, one of them confounded with the condition"),
    M("d21", "idc", IDC, "conditions=conditions - {outcome, condition})\n", "conditions=conditions)\n", ["C08"],
      "dropped subtraction: a self-intervened outcome / condition is part of the conditioning set of its own separation test"),
    M("d22", "idc", IDC, "        are_d_separated(graph_mod, outcome, condition, conditions=conditions - {outcome, condition})\n", "        are_d_separated(graph_mod, outcome, condition)\n", ["C08"],
      "REVISED as d07 (fewer exchanges, the quotient is wrong through F10 where the unchanged code is right). dropped argument: not conditioning on the intervened (parentless, constant) nodes leaves forks through them open: fewer exchanges"),
    M("d23", "idc", IDC, "            new_conditions = {k: v for k, v in new_conditions.items() if k != condition}\n", "            new_conditions = {k: v for k, v in new_conditions.items() if k.get_base() != condition.get_base()}\n", ["C08"],
      "base instead of node: exchanging Z also drops every other condition on a copy of Z (Z_x): needs two conditions on copies of one variable"),
]


FIXES = """## What the campaign found and changed

108 one-site mutants: 59 in `cg.py` (check C18; five of them also C07), 26 in `id_star.py` (C07), 23 in `idc_star.py` (C08).  Classes (by the label
that starts each `why`): dropped operand / condition / filter / guard / argument 32; wrong graph / dict / argument / endpoint / surgery / constant 18; lost
polarity, negated comparison, `==` vs `is` 10; stale variable 9; dropped statement / early return / dropped raise 7; and <-> or, all -> any 6; off by one /
needs size 6; iteration order, truthiness, caller's argument, orientation 6; wrong closure / direction / order / set operation 5; swapped arguments / operands /
return values / representative 4; reverted fixes 3; dead code 2.  By effect (final classification): 75 break a property they were run on, 33 are equivalent or outside the property.
`expect` was fixed before the run; nine first guesses were revised after analysis (c40, c57, i19, i20, d10 after round 1; c38, d07, d19, d22 after the
second measurement: the `why` column has the argument).  A run that hits the tool's 900 s limit is listed as `timeout`.

### C18 (module owned by this campaign: strengthened)

* **Round 1** (harness at e0ce07f): of the 30 mutants that break C18, 29 were reported with a concrete replay; **c44 was MISSED silently** (exit 0, not even a
  correspondence disagreement in 2 852 cases; the pinned suite lets it pass too).  c44 is the twin of seeded/C18a in the world-pair loop: `is_inconsistent`
  is given the ORIGINAL event, so a value that reached the kept copy V@w1 only through an EARLIER relabelling (V@w3 merged into it) is not seen, the
  contradiction with V@w2 is missed and one conjunct is overwritten.  It needs three counterfactual worlds whose copies of V are the same variable as EACH
  OTHER but not as the factual V (the worlds agree on do(ancestor of V) and differ in irrelevant interventions), the event mentioning V in two of them:
  the random stream (<= 3 random worlds over <= 5 nodes) never produced it, `two_copies_case` produces copies that merge with the FACTUAL node in the
  first loop.  Five more were caught on very few inputs: c58 (1 failing input at seeds 0 and 1, 5 at seed 2), c09 / c10 (8), c45 (10), c46 (8, the
  corpus witnesses of ce3041e).
* **Changes** (`harness/props/c18.py`, generators only): `world_family_case` (150 per quick run: 2-3 worlds do(A = a) + an irrelevant intervention each, V below A
  in two worlds with equal / different values, another variable in the third; sometimes A observed), `mirrored_parent_case` (120: X observed factually,
  worlds do(X = s, Z = t) and do(Z = t): Y@w1 has the intervened, Y@w2 the observed parent -- the only shape in which the unchanged code takes the mirrored
  branch `elif b in event` of nodes_attain_same_value successfully, because has_same_confounders demands that an observed copy has NO bidirected edge at all,
  which holds only after it was merged into the factual node), `both_observed_case` (120: both copies of a parent observed, equal / different values).
  No oracle clause had to be added: every mutant whose shape was generated was reported by the existing clauses (probability of the relabelled event on 8
  functional SCMs, 'inconsistent' => probability 0, structure, `check_parents_represented`, crash on an in-domain input).
* **Round 2** (and, in brackets, the final stream with the reviewer's additions below): c44 caught with a replay, 29 [22] failing inputs (`relabelled event ... has another
  probability than the event: want 0`); c58 1 -> 48 [52] failing inputs, c09 / c10 8 -> 60 [57], c45 10 -> 165 [160], c46 8 -> 8 [12], c11 46 -> 96, c18 48 -> 116 [127].  The eight not-breaking mutants that were re-run stay silent or `correspondence only`.  Unchanged tree:
  quick seeds 0, 1, 2 and the thorough tier (16 118 cases) exit 0 without a VIOLATION line and without a disagreement (the Lean model agrees on the new shapes).
* **seeded/C18b**: measured on a scratch clone (tools/run_seeded.py creates a worktree of /repo, which this builder may not touch): caught with CONCRETE
  replays, 116 failing inputs in the plain quick tier, 442 escalated (`node Y@{x}: the parent X of Y in the causal diagram is represented by 0 parent nodes
  of the produced graph`).  The row of DESIGN 9.4 and the old `last_run.json` predate commit 0f35556, which gave the oracle the semantic reading of
  "exactly the ancestors" (`check_parents_represented`); nothing further was needed, `seeded/C18b/last_run.json` was refreshed from the measurement.
* **Timing** of the plain quick tier on the unchanged tree: 2 852 cases / 10.1 s wall before (machine idle), 3 242 cases after; CPU per run 30 s -> 49 s over 8
  workers (`world_family_case` costs 100 ms per case: three worlds = six orders of the worlds set); 56-79 s wall were measured after the change with a machine
  load of 80 on 16 cores, where the OLD tier took 33-57 s (the silent mutants of round 1).  Thorough: 272 s under the same load.
* Not part of C18's statement, hence `outside-property` for C18 and measured on C07: the bidirected edges of the produced graph (c32, c51, c54, c55: all four
  are `correspondence only` for C18 and caught with a replay by C07).  Fewer merges than Lemma 24 allows, another representative, the caller's dict (c37, silent)
  are not decided by any clause either.

### C07 and C08 (measured only: `harness/props/c07.py` / `c08.py` belong to builder cf5) -- measured TWICE

Round 1 used the modules of e0ce07f; after `git merge main` (cf5's 2c6d683: a listed finding is attributed only when the MODEL OF THE UNCHANGED CODE gives the same
wrong answer; `samebase` generator; y0 fix a971450 modelled, fast-forwarded into /work/mutC/repo) every C07 / C08 run was repeated.  The "After" table is the second measurement.

* **Round 1, C08**: d05, d06 (a renamed key filed under the wrong side by get_new_outcomes_and_conditions) were `correspondence only`: 72 resp. 82 NEW failing inputs, every one
  keyed `["reassociation"]`, the single coarse key of the known re-association defect (10 -> 98 / 126 inputs): masked by the finding key.  d23 (exchanging Z also drops conditions
  on other copies of Z; survives the pinned suite): ONE disagreement in 1 214 cases, on an input already failing in the listed class `exchange:separation`: the shape (two copies
  of one variable among the conditions) was not generated, and every failure of an exchange level with >= 2 conditions was listed.  My proposals were (i) key a re-association
  failure by what the step did (`merged-into-other-side` listed, `new-key-misfiled` never), (ii) a stream with conditions Z and Z_x, (iii) compare the arguments of the recursive call
  with the canonical result of the exchange.  **cf5's change does this more generally** (compare with the model's answer) and adds the stream: second measurement: d05 (326 failing
  inputs), d06 (316), d23 (13 disagreements, replay `estimand P[V0', V2'](V1) differs`) are all caught with a replay: 21 of 21 breaking mutants of idc_star.py (final classification, see next item).
* d07, d19, d22 were classified `outside-property` (they only prevent exchanges).  The second measurement reports each with a replay, and rightly so: the un-exchanged quotient is
  handed to ID*, which is wrong on it (F10) on inputs where the exchanged answer of the unchanged code is right (`Zero returned although the joint event has positive probability`).
  Reclassified as breaking; in round 1 their 14 / 31 / 2 additional failing inputs were all attributed to `inherited` listed findings, i.e. they were masked as well.
* **C07**: round 1: 21 of 24 breaking mutants caught with a replay, 3 timeouts (c22, i08, i18); second measurement: 23 of 25 (c38 added), i18 now finishes (599 s) and is caught,
  **c22 and i08 hit the tool's 900 s limit again**: the three make id_star recurse
  without end on some inputs, every such input costs a recursion-limit unwind per iteration order, and the shrinker repeats it.  With a 2 700 s limit i08 IS caught (5 VIOLATION lines,
  keys `value/line6/none`, `crash:RecursionError`, `IN-FRAGMENT`; 201 failing inputs; 1 120 s at load 80).  All three are killed by the pinned suite.  *Proposed to cf5*: run the real
  call under `sys.setrecursionlimit(250)` in `_run_real` (the model's fuel bound 2|V| + |event| + 4 is far below) and do not shrink `crash:RecursionError` inputs.
* **i19, i20** were expected to break C07 and do not on the current tree: they change the POLARITY OF A DISTRICT VALUE, which an estimand of y0 cannot show (variables, not values)
  and which line 6 of the recursive call un-stars anyway (F10/M1).  i19 changes 5 of 2 028 inputs (estimand -> Zero); on all 5 the unchanged id_star is already wrong (listed classes
  value/line6/M2, M3a): wrong -> wrong.  Round 1 reported it as `no-failing-input-found` (the key named the defect pattern PRESENT IN THE INPUT, so the inputs just moved between two
  listed classes); the second measurement reports it with a replay (`Zero returned for an event of positive probability`), because the model of the unchanged code gives another wrong
  answer there -- the behaviour I proposed to key on.  i20 stays silent in both (no generated input distinguishes it from the model); once F10 is repaired both break C07 everywhere.
* **c38 = seeded/C07c** (found independently; the reviewer's seed): for C18 it is outside the property (fewer merges, `correspondence only`); on C07 see the table (run only in the second
  measurement).  c32, c51, c54, c55 (bidirected edges of the counterfactual graph) are caught with a replay by C07 in both measurements.

### Reviewer's list (notes/gap_review_round5.md item 4 / C18 section), done in `harness/props/c18.py`

three used worlds 17 -> 298 cases per quick run (`three_world_event`: 8 % of the random stream, one conjunct per world first; plus `world_family_case`); twin events (two worlds sharing
2-3 base variables: `twin_event`, 8 %); the counterfactual-counterfactual loop with DIFFERING parents (`world_family_case`, `mirrored_parent_case`, `both_observed_case`: Lemma 24 between
two counterfactual copies succeeds in about half of their 390 cases; 'inconsistent' out of that loop in ~150); nodes with >= 2 (now up to 3) parents still distinct at merge time with
mixed observed / unobserved parents (`shared_parent_case` got a third intervened parent; seeded/C18c = mutant c18: 48 -> 127 failing inputs); graphs stored in non-topological insertion
order (30 % of the random graphs are shuffled, all structured graphs were already; seeded/C07c = c38); edge-less random graphs are re-drawn (35 % -> 17 % of the cases have no edge);
thorough tier: 400 six-node graphs, binary variables, up to 5 conjuncts.  Seeds 0, 1, 2 of the plain quick tier on the unchanged tree: exit 0, no VIOLATION, no disagreement (3 242 cases).

### Pinned suite (tools/baseline.py, 387 tests) on 36 mutants

Kills 26, lets 10 pass: **c44** (the round-1 miss), c45, c58, c11, c18, c46 (ce3041e reverted: the repair has no test in the pinned suite), i20, d09 (8a76512 reverted),
d20, d23.  All of these except i20 (equivalent on the current tree) are caught with a replay in the final measurement.

No mutant revealed a new defect of the unchanged y0; two observations on incompleteness (not violations of C18): `nodes_attain_same_value` never accepts an observed
counterfactual copy against an intervened one unless the observed copy lost all its bidirected edges by merging into the factual node, and C18's statement leaves
the bidirected edges of the counterfactual graph undecided (they are decided downstream by C07).
""".split("\n")

# ---------------------------------------------------------------------------------------------------- running

def sh(*a, **k):
    return subprocess.run(list(a), capture_output=True, text=True, **k)


def run_check(prop, repo, scratch, timeout):
    ev, rp = scratch / "ev", scratch / "rp"
    shutil.rmtree(rp, ignore_errors=True)
    env = dict(os.environ, Y0_REPO=str(repo), VERIF_EVIDENCE_DIR=str(ev), VERIF_REPLAY_DIR=str(rp), VERIF_NO_ESCALATE="1",
               PYTHONDONTWRITEBYTECODE="1")
    env.pop("VERIF_SEED", None)
    if os.environ.get("MUTC_SEED"):
        env["VERIF_SEED"] = os.environ["MUTC_SEED"]
    t0 = time.time()
    p = subprocess.Popen([str(VERIF / "check"), prop, "--tier", "quick"], stdout=subprocess.PIPE, stderr=subprocess.STDOUT, text=True, env=env,
                         cwd=str(VERIF), start_new_session=True)
    timed_out = False
    try:
        out, _ = p.communicate(timeout=timeout)
    except subprocess.TimeoutExpired:
        timed_out = True
        try:
            os.killpg(p.pid, signal.SIGKILL)       # only the session this tool started
        except ProcessLookupError:
            pass
        out, _ = p.communicate()
    wall = round(time.time() - t0, 1)
    viol = [ln for ln in out.splitlines() if ln.startswith("VIOLATION")]
    concrete = [ln for ln in viol if "no-failing-input-found" not in ln]
    summ = next((ln for ln in out.splitlines() if ln.startswith(f"[{prop}] tier=")), "")
    m = re.search(r"cases=(\d+) compared=(\d+) disagreements=(\d+) oracle_failures=(\d+)", summ)
    says, rcase = "", None
    if concrete:
        try:
            d = json.load(open(concrete[0].split("replay=")[1].split()[0]))
            says = str(d.get("oracle_says"))[:220]
            rcase = d.get("case")
        except Exception:  # noqa: BLE001
            pass
    elif viol:
        try:
            d = json.load(open(viol[0].split("replay=")[1].split()[0]))
            dis = d.get("correspondence_disagreements") or []
            he = d.get("harness_errors") or []
            if dis:
                says = "disagreement: " + json.dumps(dis[0])[:220]
            elif he:
                says = "harness error: " + he[0]["trace"][-200:]
        except Exception:  # noqa: BLE001
            pass
    outcome = "timeout" if timed_out else "caught-replay" if concrete else "correspondence-only" if viol else \
        "missed" if p.returncode == 0 else f"exit-{p.returncode}-without-violation"
    return {"prop": prop, "exit": p.returncode, "violation_lines": len(viol), "concrete_replay": bool(concrete), "outcome": outcome,
            "cases": int(m.group(1)) if m else None, "disagreements": int(m.group(3)) if m else None,
            "oracle_failures": int(m.group(4)) if m else None, "wall_s": wall, "says": says, "replay_case": rcase,
            "tail": "" if m else out[-600:]}


def worker(k, queue, results, args, lock):
    scratch = Path(f"/tmp/mutC-{os.getpid()}-{k}")
    repo = scratch / "repo"
    shutil.rmtree(scratch, ignore_errors=True)
    scratch.mkdir(parents=True)
    try:
        r = sh("git", "clone", "-q", "--no-hardlinks", str(args.repo), str(repo))
        if r.returncode != 0:
            raise RuntimeError("clone failed: " + r.stderr)
        while True:
            with lock:
                if not queue:
                    break
                m = queue.pop(0)
            f = repo / m["file"]
            src = f.read_text()
            n = src.count(m["old"])
            rec = {"id": m["id"], "group": m["group"], "file": m["file"], "expect": m["expect"], "why": m["why"], "runs": []}
            if n != 1:
                rec["error"] = f"pattern occurs {n} times"
            else:
                try:
                    f.write_text(src.replace(m["old"], m["new"]))
                    for p in m["run"]:
                        if args.only_prop and p != args.only_prop:
                            continue
                        res = run_check(p, repo, scratch, args.timeout)
                        rec["runs"].append(res)
                        with lock:
                            print(f"{m['id']:5s} {p} {res['outcome']:20s} fails={res['oracle_failures']} dis={res['disagreements']} "
                                  f"{res['wall_s']}s expect={m['expect']} {res['says'][:110]}", flush=True)
                finally:
                    f.write_text(src)
            with lock:
                results.append(rec)
    finally:
        shutil.rmtree(scratch, ignore_errors=True)


def suite_worker(k, queue, results, args, lock):
    """does the pinned 387-test suite (tools/baseline.py) kill the mutant?"""
    scratch = Path(f"/tmp/mutC-{os.getpid()}-s{k}")
    repo = scratch / "repo"
    shutil.rmtree(scratch, ignore_errors=True)
    scratch.mkdir(parents=True)
    try:
        r = sh("git", "clone", "-q", "--no-hardlinks", str(args.repo), str(repo))
        if r.returncode != 0:
            raise RuntimeError("clone failed: " + r.stderr)
        while True:
            with lock:
                if not queue:
                    break
                m = queue.pop(0)
            f = repo / m["file"]
            src = f.read_text()
            if src.count(m["old"]) != 1:
                continue
            try:
                f.write_text(src.replace(m["old"], m["new"]))
                t0 = time.time()
                p = subprocess.Popen(["python3", str(VERIF / "tools" / "baseline.py"), str(repo)], stdout=subprocess.PIPE,
                                     stderr=subprocess.STDOUT, text=True, start_new_session=True,
                                     env=dict(os.environ, PYTHONDONTWRITEBYTECODE="1"))
                try:
                    out, _ = p.communicate(timeout=1500)
                except subprocess.TimeoutExpired:
                    os.killpg(p.pid, signal.SIGKILL)
                    out, _ = p.communicate()
                    out += "\nTIMEOUT"
                mm = re.search(r"passed=(\d+) baseline=(\d+) baseline_missing=(\d+)", out)
                rec = {"id": m["id"], "suite_kills": p.returncode != 0, "baseline_missing": int(mm.group(3)) if mm else None,
                       "first_missing": [ln.strip()[8:] for ln in out.splitlines() if ln.strip().startswith("MISSING")][:3],
                       "wall_s": round(time.time() - t0, 1)}
                with lock:
                    results.append(rec)
                    print(f"{m['id']:5s} suite {'KILLS' if rec['suite_kills'] else 'survives'} missing={rec['baseline_missing']} "
                          f"{rec['wall_s']}s {rec['first_missing'][:1]}", flush=True)
            finally:
                f.write_text(src)
    finally:
        shutil.rmtree(scratch, ignore_errors=True)


def classify(rec, run):
    """one of: caught / corr-only / MISSED (property broken)  |  silent / corr-only / flagged (property not broken)"""
    broken = isinstance(rec["expect"], list) and run["prop"] in rec["expect"]
    o = run["outcome"]
    if broken:
        return {"caught-replay": "caught with replay", "correspondence-only": "correspondence only", "missed": "MISSED"}.get(o, o)
    return {"caught-replay": "flagged with replay", "correspondence-only": "correspondence only", "missed": "silent"}.get(o, o)


def summarise(results):
    """{prop: {"breaking": {class: n}, "not-breaking": {class: n}}}"""
    out = {}
    for rec in results:
        for run in rec.get("runs", []):
            broken = isinstance(rec["expect"], list) and run["prop"] in rec["expect"]
            d = out.setdefault(run["prop"], {"breaking": {}, "not-breaking": {}})["breaking" if broken else "not-breaking"]
            c = classify(rec, run)
            d[c] = d.get(c, 0) + 1
    return out


def write_md(path, results, before=None, suite=None):
    suite = suite or {}
    props = PROPS
    lines = ["# Mutation campaign C (C18, C07, C08; anchored files cg.py, id_star.py, idc_star.py)", "",
             "Generated by `tools/mutants_C.py` (plain quick tier, `VERIF_NO_ESCALATE=1`, seed 0). One hand-written one-site mutant of y0 at a",
             "time in a scratch clone; `breaking` = the mutant violates the statement of the property, `not breaking` = equivalent or",
             "outside the property (see the `why` of each mutant in the tool).", ""]

    def table(title, summ):
        lines.append(f"## {title}")
        lines.append("")
        lines.append("| property | breaking: caught with replay | breaking: correspondence only | breaking: MISSED | not breaking: silent | not breaking: correspondence only | not breaking: flagged with replay | other |")
        lines.append("|---|---|---|---|---|---|---|---|")
        for p in props:
            s = summ.get(p)
            if not s:
                continue
            b, nb = s["breaking"], s["not-breaking"]
            known = {"caught with replay", "correspondence only", "MISSED"}
            other = {k: v for k, v in b.items() if k not in known}
            other.update({k: v for k, v in nb.items() if k not in {"silent", "correspondence only", "flagged with replay"}})
            lines.append(f"| {p} | {b.get('caught with replay', 0)} | {b.get('correspondence only', 0)} | {b.get('MISSED', 0)} | "
                         f"{nb.get('silent', 0)} | {nb.get('correspondence only', 0)} | {nb.get('flagged with replay', 0)} | {other or ''} |")
        lines.append("")

    if before:
        table(f"Round 1: before the C18 changes of this campaign ({len(before)} mutants, final classification)", summarise(before))
        table(f"After ({len(results)} mutants): C18 with the changes of this campaign; C07 / C08 measured a second time against cf5's modules merged from main (not edited here)", summarise(results))
    else:
        table("Result", summarise(results))
    lines += FIXES
    bmap0 = {(rec["id"], run["prop"]): classify(rec, run) for rec in before or [] for run in rec.get("runs", [])}
    fixed = [(rec, run) for rec in results for run in rec.get("runs", [])
             if classify(rec, run) == "caught with replay" and bmap0.get((rec["id"], run["prop"]), "caught with replay") != "caught with replay"]
    lines += ["## Mutants that break a property and were NOT caught with a replay before the fixes (class b)", "",
              "| id | check | before | after | what the change is | replay after the fix says |", "|---|---|---|---|---|---|"]
    for rec, run in fixed:
        lines.append(f"| {rec['id']} | {run['prop']} | {bmap0[(rec['id'], run['prop'])]} | caught with replay ({run['oracle_failures']} failing inputs) | {rec['why']} | "
                     f"{(run['says'] or '').replace('|', '/')[:200]} |")
    still = [(rec, run) for rec in results for run in rec.get("runs", []) if classify(rec, run) in ("MISSED", "correspondence only", "timeout")
             and isinstance(rec["expect"], list) and run["prop"] in rec["expect"]]
    lines += ["", f"Property-breaking mutants still not caught with a replay after the fixes: {len(still)}"
              + ("" if not still else " -- " + ", ".join(f"{r['id']}/{u['prop']}" for r, u in still)), ""]
    lines += ["## Mutants not caught with a replay because they do not break the property (class a)", "",
              "`silent` = the check exits 0; `correspondence only` = the model and the code differ on some input (exit 1, `no-failing-input-found`), which is",
              "what a behavioural change outside every clause of the property should produce; `pinned suite` = does `tools/baseline.py` (387 tests) kill it.", "",
              "| id | check | outcome | class | pinned suite | why it does not break the property |", "|---|---|---|---|---|---|"]
    for rec in sorted(results, key=lambda r: r["id"]):
        for run in rec.get("runs", []):
            broken = isinstance(rec["expect"], list) and run["prop"] in rec["expect"]
            if broken or run["outcome"] == "caught-replay":
                continue
            sk = suite.get(rec["id"])
            sk = "" if sk is None else ("kills" if sk["suite_kills"] else "survives")
            cls = rec["expect"] if not isinstance(rec["expect"], list) else f"equivalent for {run['prop']} (breaks {','.join(rec['expect'])})"
            lines.append(f"| {rec['id']} | {run['prop']} | {classify(rec, run)} | {cls} | {sk} | {rec['why']} |")
    flagged = [(rec, run) for rec in results for run in rec.get("runs", []) if classify(rec, run) == "flagged with replay"]
    lines += ["", "Mutants outside the property statement that a check nevertheless reports with a replay (a clause of the check that is taken from the",
              "documentation of the function, not from the property): " + (", ".join(f"{r['id']}/{u['prop']} ({(u['says'] or '')[:90]})" for r, u in flagged) or "none"), ""]
    if suite:
        caught_ids = {rec["id"] for rec in results if any(classify(rec, run) == "caught with replay" for run in rec.get("runs", []))}
        surv = sorted(i for i in caught_ids if i in suite and not suite[i]["suite_kills"])
        lines += [f"Pinned suite: of the {len(caught_ids)} mutants that a check catches with a replay, the 387 pinned tests kill "
                  f"{sum(1 for i in caught_ids if i in suite and suite[i]['suite_kills'])} and let {len(surv)} pass ({', '.join(surv)}).", ""]
    bmap = {}
    for rec in before or []:
        for run in rec.get("runs", []):
            bmap[(rec["id"], run["prop"])] = classify(rec, run)
    lines += ["## Every mutant", "", "| id | file | expect | check | outcome" + (" (before)" if before else "") + " | failing inputs / disagreements | wall | pinned suite | what the change is | first replay says |",
              "|---|---|---|---|---|---|---|---|---|---|"]
    for rec in sorted(results, key=lambda r: r["id"]):
        exp = ",".join(rec["expect"]) if isinstance(rec["expect"], list) else rec["expect"]
        if rec.get("error"):
            lines.append(f"| {rec['id']} | {Path(rec['file']).name} | {exp} | - | NOT APPLICABLE: {rec['error']} | | | | {rec['why']} | |")
        sk = suite.get(rec["id"])
        sk = "" if sk is None else ("hangs" if sk["baseline_missing"] is None else "kills" if sk["suite_kills"] else "survives")
        for run in rec.get("runs", []):
            c = classify(rec, run)
            b = bmap.get((rec["id"], run["prop"]))
            cb = f"{c} ({b})" if b and b != c else c
            lines.append(f"| {rec['id']} | {Path(rec['file']).name} | {exp} | {run['prop']} | {cb} | {run['oracle_failures']} / {run['disagreements']} | "
                         f"{run['wall_s']} s | {sk} | {rec['why']} | {(run['says'] or '').replace('|', '/')[:160]} |")
    Path(path).write_text("\n".join(lines) + "\n")


def main():
    ap = argparse.ArgumentParser()
    ap.add_argument("--repo", required=True)
    ap.add_argument("--group", default=None)
    ap.add_argument("--id", default=None, help="comma separated mutant ids")
    ap.add_argument("--only-prop", default=None)
    ap.add_argument("--jobs", type=int, default=4)
    ap.add_argument("--timeout", type=int, default=900)
    ap.add_argument("--json", default=None)
    ap.add_argument("--md", default=None)
    ap.add_argument("--before", default=None, help="result file of the run before the fixes (for the before/after table)")
    ap.add_argument("--merge", default=None, help="existing result file: re-run only the selected mutants, keep the other records")
    ap.add_argument("--verify", action="store_true")
    ap.add_argument("--render", action="store_true", help="only rewrite --md from the results in --json (and --before, suite file)")
    ap.add_argument("--suite", default=None, metavar="FILE",
                    help="instead of the checks run the pinned test suite (tools/baseline.py) on each selected mutant; results merged into FILE")
    ap.add_argument("--not-caught-in", default=None, metavar="RESULTS", help="select the mutants that RESULTS does not show caught with a replay by every check that ran")
    args = ap.parse_args()
    args.repo = Path(args.repo).resolve()
    if args.repo == Path("/repo"):
        sys.exit("refusing to use /repo")
    if "--suite" not in sys.argv and not args.render and not args.verify:
        args.jobs = min(args.jobs, 2)      # shared machine: at most 2 scratch copies, each check runs 8 worker processes
    ids = [m["id"] for m in MUTANTS]
    assert len(ids) == len(set(ids)), "duplicate mutant ids"
    sel = [m for m in MUTANTS if (not args.group or m["group"] == args.group) and (not args.id or m["id"] in args.id.split(","))]
    if args.render:
        results = json.loads(Path(args.json).read_text())["results"]
        cur = {m["id"]: m for m in MUTANTS}
        for r in results:
            if r["id"] in cur:
                r["expect"], r["why"] = cur[r["id"]]["expect"], cur[r["id"]]["why"]
        before = json.loads(Path(args.before).read_text())["results"] if args.before else None
        for r in before or []:
            if r["id"] in cur:
                r["expect"] = cur[r["id"]]["expect"]
        sp = VERIF / "tools" / "mutants_C.suite.json"
        write_md(args.md, results, before, json.loads(sp.read_text()) if sp.exists() else None)
        head = json.loads(Path(args.json).read_text())
        head["results"], head["summary"] = results, summarise(results)
        Path(args.json).write_text(json.dumps(head, indent=1) + "\n")
        print(json.dumps(summarise(results)))
        return
    if args.verify:
        import ast
        bad = 0
        for m in sel:
            src = (args.repo / m["file"]).read_text()
            n = src.count(m["old"])
            ok = n == 1
            if ok:
                try:
                    ast.parse(src.replace(m["old"], m["new"]))
                except SyntaxError as e:
                    ok = False
                    n = f"syntax error {e}"
            if not ok:
                bad += 1
                print(f"{m['id']}: {n}")
        by = {}
        for m in MUTANTS:
            by[m["group"]] = by.get(m["group"], 0) + 1
        print(f"{len(sel)} mutants selected, {bad} problems; per group {by}")
        sys.exit(1 if bad else 0)
    if sh("git", "-C", str(args.repo), "status", "--porcelain", "--untracked-files=no").stdout.strip():
        sys.exit(f"{args.repo} has uncommitted changes")
    if args.not_caught_in:
        res = {r["id"]: r for r in json.loads(Path(args.not_caught_in).read_text())["results"]}
        sel = [m for m in sel if m["id"] in res and any(run["outcome"] != "caught-replay" for run in res[m["id"]]["runs"])]
    if args.suite:
        queue, results, lock = list(sel), [], threading.Lock()
        threads = [threading.Thread(target=suite_worker, args=(k, queue, results, args, lock)) for k in range(min(args.jobs, len(sel)))]
        for t in threads:
            t.start()
        for t in threads:
            t.join()
        old = json.loads(Path(args.suite).read_text()) if Path(args.suite).exists() else {}
        old.update({r["id"]: r for r in results})
        Path(args.suite).write_text(json.dumps(dict(sorted(old.items())), indent=1) + "\n")
        print(f"suite kills {sum(1 for r in results if r['suite_kills'])} of {len(results)} mutants")
        return
    queue, results, lock = list(sel), [], threading.Lock()
    t0 = time.time()
    threads = [threading.Thread(target=worker, args=(k, queue, results, args, lock)) for k in range(min(args.jobs, len(sel)))]
    for t in threads:
        t.start()
    for t in threads:
        t.join()
    order = {m["id"]: i for i, m in enumerate(MUTANTS)}
    if args.merge and Path(args.merge).exists():
        old = json.loads(Path(args.merge).read_text())["results"]
        new_ids = {r["id"] for r in results}
        redone = {(r["id"], run["prop"]) for r in results for run in r["runs"]}
        for r in old:
            if r["id"] not in new_ids:
                results.append(r)
            else:       # keep runs of checks that were not re-run (--only-prop)
                cur = next(x for x in results if x["id"] == r["id"])
                cur["runs"] += [run for run in r["runs"] if (r["id"], run["prop"]) not in redone]
    results.sort(key=lambda r: order.get(r["id"], 1 << 30))
    print(json.dumps(summarise(results), indent=1))
    print(f"total wall {time.time() - t0:.0f}s")
    if args.json:
        head = sh("git", "-C", str(args.repo), "rev-parse", "HEAD").stdout.strip()
        vhead = sh("git", "-C", str(VERIF), "rev-parse", "HEAD").stdout.strip()
        Path(args.json).write_text(json.dumps({"repo_head": head, "verif_head": vhead, "summary": summarise(results), "results": results}, indent=1) + "\n")
    if args.md:
        before = json.loads(Path(args.before).read_text())["results"] if args.before else None
        cur = {m["id"]: m["expect"] for m in MUTANTS}
        for r in before or []:      # the before-table uses the FINAL classification of each mutant (see `why` for the revised ones)
            r["expect"] = cur.get(r["id"], r["expect"])
        sp = VERIF / "tools" / "mutants_C.suite.json"
        write_md(args.md, results, before, json.loads(sp.read_text()) if sp.exists() else None)


if __name__ == "__main__":
    main()
