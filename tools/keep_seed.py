#!/usr/bin/env python3
"""Confirm a seeded change produced by an adversary sub-agent in /tmp/seed/<name> and keep it under seeded/<name>/.
usage: keep_seed.py <name> <property> "<what>" "<needs>"
Confirms: demo exits 1 with the change and 0 without; the pinned suite's stable_pass set still passes with it."""
import json, subprocess, sys, shutil
from pathlib import Path
name, prop, what, needs = sys.argv[1:5]
wt = Path("/tmp/seed") / name
root = Path(__file__).resolve().parent.parent
d = root / "seeded" / name
d.mkdir(parents=True, exist_ok=True)
diff = subprocess.run(["git", "-C", str(wt), "diff"], capture_output=True, text=True).stdout
assert diff.strip(), "no change in worktree"
(d / "patch.diff").write_text(diff)
shutil.copy(wt / "demo_seed.py", d / "demo_seed.py")
env = {"PYTHONPATH": f"{wt}/src", "PATH": "/usr/bin:/bin"}
def demo():
    return subprocess.run(["timeout", "900", "/venv/bin/python", str(wt / "demo_seed.py")], env=env, capture_output=True, text=True, cwd=wt).returncode
w = demo()
# not `git stash`: refs/stash is shared by every worktree of the repository, concurrent adversaries would race on it
subprocess.run(["git", "-C", str(wt), "apply", "-R", str(d / "patch.diff")], check=True)
try:
    wo = demo()
finally:
    subprocess.run(["git", "-C", str(wt), "apply", str(d / "patch.diff")], check=True)
b = subprocess.run(["python3", str(root / "tools" / "baseline.py"), str(wt)], capture_output=True, text=True)
print(f"demo with change: exit {w}; without: exit {wo}; baseline: {b.stdout.strip().splitlines()[-1] if b.stdout.strip() else b.stderr[-300:]} (rc {b.returncode})")
ok = (w == 1 and wo == 0 and b.returncode == 0)
meta = {"property": prop, "what": what, "needs": needs,
        "confirmed": f"demo_seed.py exit {w} with the patch / exit {wo} without (scratch worktree); tools/baseline.py on the patched worktree rc={b.returncode}: {b.stdout.strip().splitlines()[0] if b.stdout.strip() else ''}",
        "source": "independent sub-agent given only the property text and a scratch worktree", "valid": ok}
(d / "meta.json").write_text(json.dumps(meta, indent=1) + "\n")
print("KEPT" if ok else "NOT VALID (kept for inspection; delete if useless)")
