#!/venv/bin/python
"""Mutation self-test of the expression family (C10, C11, C13).

    tools/mutate_expr.py <repo-worktree> [ids...]      e.g.  tools/mutate_expr.py /work/expr2/repo M04 M08

Applies one-line mutations to dsl.py / canonicalize_expr.py / chain.py / contract.py of the given y0 worktree (one at a
time, restored with `git checkout -- .`), runs the three checks in the plain quick tier (VERIF_NO_ESCALATE=1) and prints
for each:  oracle failures (failing inputs), correspondence disagreements, violations.
`expect`: V = the mutation violates C10 / C11 / C13 (must be caught by a failing input), H = semantically harmless for the
three properties (only the correspondence may notice).  Writes tools/mutate_expr.last.json.
"""
from __future__ import annotations

import json
import os
import re
import subprocess
import sys
from pathlib import Path

VERIF = Path(__file__).resolve().parent.parent
DSL = "src/y0/dsl.py"
CAN = "src/y0/mutate/canonicalize_expr.py"
CHN = "src/y0/mutate/chain.py"
CON = "src/y0/mutate/contract.py"

# (id, file, old, new, occurrence index (0-based) or None when unique, expect, what)
M = [
    ("M01", DSL, "expressions = tuple(expression for expression in expressions if expression != One())",
     "expressions = tuple(expressions)", None, "H", "Product.safe keeps One() factors (same value, all forms consistent)"),
    ("M02", DSL, "        if not expressions:\n            return One()\n        if len(expressions) == 1:",
     "        if not expressions:\n            return Zero()\n        if len(expressions) == 1:", None, "V",
     "Product.safe: empty product is Zero()"),
    ("M03", DSL, "return cls(expressions=tuple(sorted(expressions)))", "return cls(expressions=tuple(expressions))", None, "V",
     "Product.safe does not sort"),
    ("M04", DSL, "        if any(expression == Zero() for expression in expressions):\n            return Zero()\n", "", None, "H",
     "Product.safe keeps Zero() factors (same value)"),
    ("M05", DSL, "            if ranges == set(children):\n                return One()",
     "            if ranges >= set(children):\n                return One()", None, "V", "Sum.simplify: superset treated as cover"),
    ("M06", DSL, "return Sum.safe(expression=One(), ranges=ranges - set(children))",
     "return Sum.safe(expression=One(), ranges=ranges)", None, "V", "Sum.simplify superset: ranges not reduced"),
    ("M07", DSL, "                keep = set(children) - ranges\n                return expression._new(\n                    Distribution.safe(v for k, v in children.items() if k in keep)",
     "                keep = set(children) - ranges\n                return expression._new(\n                    Distribution.safe(v for k, v in children.items() if k not in keep)", None, "V",
     "Sum.simplify subset: keeps the summed children"),
    ("M08", DSL, "                    ranges=ranges - intersection,", "                    ranges=ranges,", None, "V",
     "Sum.simplify partial: ranges not reduced"),
    ("M09", DSL, "                keep = set(children) - intersection", "                keep = set(children)", None, "V",
     "Sum.simplify partial: children not marginalised"),
    ("M10", DSL, "if isinstance(expression, Probability) and not expression.parents:  # i.e., no conditions",
     "if isinstance(expression, Probability):", None, "V", "Sum.simplify applies to conditional leaves"),
    ("M11", DSL, "                keep = set(children) - ranges\n                return expression._new(",
     "                keep = set(children) - ranges\n                return Probability(", None, "V",
     "Sum.simplify subset drops the population tag"),
    ("M12", DSL, "return self.denominator.flip().simplify()", "return self.denominator.simplify()", None, "V",
     "Fraction.simplify: 1/(a/b) not flipped"),
    ("M13", DSL, "return One() / Product.safe(new_denominator)", "return Product.safe(new_denominator)", None, "V",
     "Fraction._simplify_parts: 1/x returned as x"),
    ("M14", DSL, "                    denominator_cancelled.add(j)\n                    break", "                    denominator_cancelled.add(j)", None, "V",
     "_simplify_parts_helper: no break, one numerator factor cancels several denominators"),
    ("M15", DSL, "        if self.numerator == self.denominator:\n            return One()\n        if isinstance(self.numerator, Product) and",
     "        if isinstance(self.numerator, Product) and", None, "H", "Fraction.simplify: x/x shortcut removed (stays x/x, same value)"),
    ("M16", DSL, "            return Fraction(self * expression.denominator, expression.numerator)",
     "            return Fraction(self * expression.numerator, expression.denominator)", None, "V", "Expression.__truediv__ by a fraction not flipped"),
    ("M17", DSL, "                self.numerator * expression.denominator,\n                self.denominator * expression.numerator,",
     "                self.numerator * expression.numerator,\n                self.denominator * expression.denominator,", None, "V",
     "Fraction.__truediv__ by a fraction multiplies instead"),
    ("M18", DSL, "            return Fraction(self.numerator * expression, self.denominator)",
     "            return Fraction(self.numerator, self.denominator * expression)", None, "V", "Fraction.__mul__ multiplies the denominator"),
    ("M19", DSL, "            return Fraction(self * other.numerator, other.denominator)",
     "            return Fraction(other.numerator, self * other.denominator)", 0, "V", "Probability.__mul__(Fraction) multiplies the denominator"),
    ("M20", DSL, "            return Product.safe((*self.expressions, *other.expressions))",
     "            return Product.safe((*self.expressions,))", None, "V", "Product.__mul__(Product) drops the right factors"),
    ("M21", DSL, "            return Product.safe((self, *expression.expressions))",
     "            return Product.safe((*expression.expressions,))", None, "V", "Sum.__mul__(Product) drops itself"),
    ("M22", DSL, "            return Fraction(self * other.numerator, other.denominator)",
     "            return Fraction(self * other.denominator, other.numerator)", 1, "V", "Product.__mul__(Fraction) flips the fraction"),
    ("M23", DSL, "            return Fraction(self.numerator, self.denominator * expression)",
     "            return Fraction(self.numerator * expression, self.denominator)", None, "V", "Fraction.__truediv__(non-fraction) multiplies"),
    ("M24", DSL, "        return self / self.marginalize(ranges)", "        return self.marginalize(ranges) / self", None, "V",
     "normalize_marginalize inverted"),
    ("M25", DSL, "        ranges_complement = {\n            c.get_base() for c in self._iter_variables() if not isinstance(c, Intervention)\n        } - set(ranges)",
     "        ranges_complement = {\n            c.get_base() for c in self._iter_variables() if not isinstance(c, Intervention)\n        }", None, "V",
     "Probability.conditional sums over the conditioned variables too"),
    ("M26", DSL, "            tuple(_variable_total_key(v) for v in self.parents),\n        )", "        )", None, "V",
     "Probability._get_key ignores parents (F4 again)"),
    ("M27", DSL, "        return 1, self.expression._get_key(), ranges", "        return 1, self.expression._get_key()", None, "V",
     "Sum._get_key ignores ranges"),
    ("M28", DSL, "            self.numerator._get_key(),\n            self.denominator._get_key(),", "            self.numerator._get_key(),", None, "V",
     "Fraction._get_key ignores the denominator"),
    ("M29", DSL, "        return -1, _variable_total_key(self.population), *super()._get_key()[1:]",
     "        return -1, *super()._get_key()[1:]", None, "V", "PopulationProbability._get_key ignores the population"),
    ("M30", DSL, "        -1 if variable.star is None else int(variable.star),\n", "", None, "V", "_variable_total_key ignores the star"),
    ("M31", DSL, "        return 2, *inner_keys", "        return 2, len(self.expressions)", None, "V", "Product._get_key is only the length"),
    ("M32", DSL, "            ranges=_upgrade_ordering([r.get_base() for r in _upgrade_variables(ranges)]),\n        )",
     "            ranges=_upgrade_ordering(_upgrade_variables(ranges)),\n        )", None, "V", "marginalize does not take base variables (raises on X@Y / -X ranges)"),
    ("M33", CAN, "                parents=self._sorted(expression.parents),", "                parents=expression.parents,", None, "V",
     "canonicalize: parents not sorted"),
    ("M34", CAN, "                simplify=True,", "                simplify=False,", None, "H", "canonicalize: sums not simplified (consistent normal form, same value)"),
    ("M35", CAN, "                _flatten_expressions(\n                    self.canonicalize(subexpr) for subexpr in _flatten_product(expression)\n                )",
     "                [self.canonicalize(subexpr) for subexpr in _flatten_product(expression)]", None, "V", "canonicalize: products appearing after canonicalisation not flattened"),
    ("M36", CAN, "            if numerator == denominator:\n                return One()\n            rv", "            rv", None, "H",
     "canonicalize: first x/x check removed (the re-check catches it: equivalent mutant)"),
    ("M37", CAN, "                if isinstance(rv.denominator, One):\n                    return rv.numerator\n", "", None, "V",
     "canonicalize: x/One after the division not collapsed"),
    ("M38", CAN, "        return self.ordering_level[variable.name], _variable_total_key(variable)",
     "        return self.ordering_level[variable.name], 0", None, "V", "canonicalize: same-name variables keep input order"),
    ("M39", CAN, "self.canonicalize(subexpr) for subexpr in _flatten_product(expression)",
     "self.canonicalize(subexpr) for subexpr in expression.expressions", None, "H", "canonicalize: raw nesting flattened only by the second pass (same result)"),
    ("M40", CAN, "            denominator = self.canonicalize(expression.denominator)\n", "            denominator = expression.denominator\n", None, "V",
     "canonicalize: denominator not canonicalised"),
    ("M41", CHN, "                ordered_children[i + 1 :] + p.parents", "                ordered_children[i + 1 :]", None, "V", "chain_expand drops the conditions"),
    ("M42", CHN, "                ordered_children[i + 1 :] + p.parents", "                ordered_children[i + 2 :] + p.parents", None, "V", "chain_expand skips a variable"),
    ("M43", CHN, "    return Fraction(p.uncondition(), p._new(Distribution.safe(p.parents)))",
     "    return Fraction(p.uncondition(), Probability(Distribution.safe(p.parents)))", None, "V", "fraction_expand drops the population in the denominator"),
    ("M44", CHN, "    return p.uncondition().normalize_marginalize(p.children)", "    return p.uncondition().normalize_marginalize(p.parents)", None, "V",
     "bayes_expand marginalises the parents"),
    ("M45", CHN, "        p._new(\n            Distribution(children=(ordered_children[i],)).given(", "        Probability(\n            Distribution(children=(ordered_children[i],)).given(", None, "V",
     "chain_expand drops the population"),
    ("M46", CHN, "        ordered_children = tuple(v for v in _ordering if v in p.children)", "        ordered_children = tuple(v for v in _ordering if v in p.children)[1:]", None, "V",
     "chain_expand (reorder) loses the first child"),
    ("M47", CON, "        and set(expression.denominator.children) < set(expression.numerator.children)",
     "        and set(expression.denominator.children) <= set(expression.numerator.children)", None, "V", "contract accepts equal joints (raises)"),
    ("M48", CON, "        and expression.denominator == expression.numerator._new(expression.denominator.distribution)\n", "", None, "V",
     "contract ignores populations"),
    ("M49", CON, "            children=tuple(sorted(children, key=attrgetter(\"name\"))),\n            parents=tuple(sorted(parents, key=attrgetter(\"name\"))),",
     "            children=tuple(sorted(parents, key=attrgetter(\"name\"))),\n            parents=tuple(sorted(children, key=attrgetter(\"name\"))),", None, "V",
     "contract swaps children and parents"),
    ("M50", CON, "        and not expression.denominator.parents\n", "", None, "V", "contract accepts a conditional denominator"),
    ("M51", DSL, "        if isinstance(expression, Zero):\n            return expression\n        rv = cls(", "        rv = cls(", None, "H",
     "Sum.safe keeps Sum over Zero()"),
    ("M53", DSL, "            children=(*self.children, *self.parents),\n        )", "            children=self.children,\n        )", None, "V",
     "Distribution.uncondition drops the parents (fraction_expand / bayes_expand numerators)"),
    ("M54", DSL, "                parents=_upgrade_ordering((*self.parents, *_upgrade_variables(parents))),",
     "                parents=_upgrade_ordering(_upgrade_variables(parents)),", None, "H", "Distribution.given forgets the existing parents (chain_expand only calls it on parent-less distributions: unreachable from the anchored functions)"),
    ("M55", DSL, "        if isinstance(expression, One):\n            return self\n        elif isinstance(expression, Fraction):\n            return Fraction(self * expression.denominator, expression.numerator)",
     "        if isinstance(expression, Fraction):\n            return Fraction(self * expression.denominator, expression.numerator)", None, "H",
     "Expression.__truediv__: x / One() builds Fraction(x, One()) (same value)"),
    ("M56", DSL, "    def __truediv__(self, other: Expression) -> Expression:\n        if isinstance(other, Zero):\n            raise ZeroDivisionError\n        return self",
     "    def __truediv__(self, other: Expression) -> Expression:\n        if isinstance(other, Zero):\n            raise ZeroDivisionError\n        return One()", None, "V",
     "Zero.__truediv__ returns One()"),
    ("M57", DSL, "    def __mul__(self, expression: Expression) -> Expression:\n        return expression\n\n    def __eq__(self, other: Any) -> bool:\n        return isinstance(other, One)",
     "    def __mul__(self, expression: Expression) -> Expression:\n        return self\n\n    def __eq__(self, other: Any) -> bool:\n        return isinstance(other, One)", None, "V",
     "One.__mul__ returns One()"),
    ("M58", DSL, "        if isinstance(other, Zero):\n            return other\n        elif isinstance(other, One):\n            return self\n        elif isinstance(other, Product):\n            return Product.safe((self, *other.expressions))",
     "        if isinstance(other, Zero):\n            return self\n        elif isinstance(other, One):\n            return self\n        elif isinstance(other, Product):\n            return Product.safe((self, *other.expressions))", None, "V",
     "Probability.__mul__(Zero) returns the probability"),
    ("M59", DSL, "        if not ranges:\n            return expression\n        if isinstance(expression, Zero):", "        if not ranges:\n            return One()\n        if isinstance(expression, Zero):", None, "V",
     "Sum.safe with no ranges returns One()"),
    ("M60", DSL, "    return tuple(sorted(interventions, key=lambda i: (i.name, i.star)))", "    return tuple(sorted(interventions, key=lambda i: i.name))", None, "H",
     "_sort_interventions ignores the star (only matters for X@(-A,+A), which cannot be built consistently)"),
    ("M61", DSL, "    return _sorted_variables(set(_upgrade_variables(variables)))", "    return tuple(dict.fromkeys(_upgrade_variables(variables)))", None, "V",
     "_upgrade_ordering does not sort (explicit orderings are taken literally; Sum.simplify / marginalize ranges unsorted)"),
    ("M62", CAN, "    for expression in product.expressions:\n        if isinstance(expression, Product):\n            yield from _flatten_product(expression)\n        else:\n            yield expression\n\n\ndef _flatten_expressions",
     "    for expression in product.expressions:\n        if isinstance(expression, Product):\n            yield from expression.expressions\n        else:\n            yield expression\n\n\ndef _flatten_expressions", None, "H",
     "_flatten_product only one level deep (equivalent: _flatten_expressions flattens what the recursive calls return)"),
    ("M63", CAN, "                ranges=expression.ranges,\n                simplify=True,", "                ranges=self._sorted(expression.ranges)[:1],\n                simplify=True,", None, "V",
     "canonicalize keeps only the first range of a sum"),
    ("M64", CAN, "            rv = numerator / denominator", "            rv = Fraction(numerator, denominator)", None, "H",
     "canonicalize does not flatten compound fractions (a different but consistent normal form: idempotent, presentation invariant, same value)"),
    ("M65", CAN, "                if rv.numerator == rv.denominator:\n                    return One()", "                if rv.numerator == rv.denominator:\n                    return rv.numerator", None, "V",
     "canonicalize: x/x after the division returns x"),
    ("M66", CAN, "            if isinstance(denominator, One):\n                return numerator\n", "            if isinstance(denominator, One):\n                return expression.numerator\n", None, "V",
     "canonicalize: x/One returns the uncanonicalised numerator"),
    ("M67", CAN, "        elif isinstance(expression, One | Zero):\n            return expression", "        elif isinstance(expression, One | Zero):\n            return One()", None, "V",
     "canonicalize(Zero()) is One()"),
    ("M68", DSL, "            return Product.safe((*self.expressions, other))", "            return Product.safe((other, *self.expressions[1:]))", None, "V",
     "Product.__mul__(other) loses its first factor"),
    ("M69", DSL, "            return Fraction(\n                self.numerator * expression.numerator,\n                self.denominator * expression.denominator,\n            )",
     "            return Fraction(\n                self.numerator * expression.numerator,\n                self.denominator,\n            )", None, "V",
     "Fraction.__mul__(Fraction) drops the right denominator"),
    ("M70", CON, "    children = set(expression.numerator.children).difference(expression.denominator.children)",
     "    children = set(expression.numerator.children)", None, "H", "contract keeps the denominator's variables among the children (P(A,B|B) denotes P(A|B): same value)"),
    ("M52", DSL, "            elif ranges < set(children):\n                keep = set(children) - ranges\n                return expression._new(",
     "            elif ranges < set(children) and len(ranges) < 2:\n                keep = set(children) - ranges\n                return expression._new(", None, "H",
     "Sum.simplify subset branch only for single ranges (falls to the partial branch: same result)"),
]


def run(cmd, **kw):
    return subprocess.run(cmd, capture_output=True, text=True, **kw)


def apply(repo: Path, m):
    _id, f, old, new, occ, _exp, _what = m
    p = repo / f
    s = p.read_text()
    n = s.count(old)
    if n == 0 or (occ is None and n != 1):
        raise SystemExit(f"{_id}: pattern occurs {n} times in {f}")
    if occ is None:
        s2 = s.replace(old, new, 1)
    else:
        parts = s.split(old)
        s2 = old.join(parts[: occ + 1]) + new + old.join(parts[occ + 1:])
    p.write_text(s2)
    # must still import
    r = run(["/venv/bin/python", "-c", "import sys; sys.path.insert(0, %r); import y0.dsl, y0.mutate" % str(repo / "src")])
    return r.returncode == 0, r.stderr[-300:]


def main():
    repo = Path(sys.argv[1])
    only = set(sys.argv[2:])
    assert run(["git", "-C", str(repo), "status", "--porcelain"]).stdout.strip() == "", "repo worktree not clean"
    env = dict(os.environ, VERIF_NO_ESCALATE="1", VERIF_EXPR_FAST_SEARCH="1", Y0_REPO=str(repo))
    rows = []
    for m in M:
        if only and m[0] not in only:
            continue
        try:
            ok, err = apply(repo, m)
            row = {"id": m[0], "file": m[1].split("/")[-1], "expect": m[5], "what": m[6]}
            if not ok:
                row["import_error"] = err
            else:
                for prop in ("C10", "C11", "C13"):
                    r = run(["timeout", "900", str(VERIF / "check"), prop], env=env)
                    line = [ln for ln in r.stdout.splitlines() if ln.startswith("[" + prop + "]")]
                    mm = re.search(r"disagreements=(\d+) oracle_failures=(\d+) known=(\d+).*violations=(\d+)", line[-1]) if line else None
                    nofail = sum(1 for ln in r.stdout.splitlines() if "no-failing-input-found" in ln)
                    row[prop] = ({"dis": int(mm.group(1)), "fail": int(mm.group(2)), "viol": int(mm.group(4)), "nofail_viol": nofail,
                                  "rc": r.returncode} if mm else {"error": (r.stdout + r.stderr)[-300:]})
        finally:
            run(["git", "-C", str(repo), "checkout", "--", "."])
        rows.append(row)
        print(json.dumps(row), flush=True)
    (Path("/tmp/expr2_mut") / f"result.{repo.name}.json").write_text(json.dumps(rows, indent=1))
    base_c13 = 175
    print("\nid   expect  C10 fail/dis   C11 fail/dis   C13 fail/dis   verdict   what")
    for r in rows:
        if "import_error" in r:
            print(r["id"], "import error", r["import_error"][-100:])
            continue
        cells, caught_by_input, caught_corr = [], False, False
        for prop in ("C10", "C11", "C13"):
            d = r[prop]
            if "error" in d:
                cells.append("ERR")
                continue
            cells.append(f"{d['fail']}/{d['dis']}")
            if d["viol"] > d["nofail_viol"]:
                caught_by_input = True
            if d["dis"]:
                caught_corr = True
        v = "INPUT" if caught_by_input else ("corr-only" if caught_corr else "MISSED")
        print(f"{r['id']}  {r['expect']}      " + "   ".join(f"{c:>11}" for c in cells) + f"   {v:9} {r['what']}")


if __name__ == "__main__":
    main()
