#!/usr/bin/env python3
"""Rewrite the table of tools/refactorings.md from refactorings/results.txt (one line per run: `<id> <check> exit <rc> <violation lines> <summary>`)."""
import re
from pathlib import Path
root = Path(__file__).resolve().parent.parent
md = (root / "tools" / "refactorings.md").read_text().split("\n")
head = md[:md.index(next(l for l in md if l.startswith("| refactoring")))]
rows = {}
for l in (root / "refactorings" / "results.txt").read_text().splitlines():
    t = l.split(" ", 4)
    m = re.search(r"cases=(\d+).*disagreements=(\d+).*violations=(\d+)", l)
    rows.setdefault(t[0], []).append(f"`{t[1]}`: exit {t[3]}, {t[4].split()[0]} VIOLATION, {m.group(1)} cases, {m.group(2)} disagreements")
old = {l.split("|")[1].strip(): l for l in md if re.match(r"^\| R\d\d ", l)}
out = head + ["| refactoring | written for | what was rewritten | checks run (exit, VIOLATION lines, summary) |", "|---|---|---|---|"]
for r in sorted(rows):
    cells = old[r].split("|")
    out.append(f"| {r} |{cells[2]}|{cells[3]}| " + "<br>".join(rows[r]) + " |")
(root / "tools" / "refactorings.md").write_text("\n".join(out) + "\n")
print(len(rows), "refactorings,", sum(map(len, rows.values())), "runs")
