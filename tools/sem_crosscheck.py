#!/usr/bin/env python3
"""Executable cross-check of the semantic SPECIFICATIONS (not of y0):

  Lean  Y0/Spec/FscmEnv.lean   (M.fscmEnv card).pr      joint over all counterfactual variables, worlds normalised
        Y0/Spec/FscmToScm.lean (M.toScm card base)       induced semi-Markovian model (private noise pushed forward)
        Y0/Spec/Scm.lean       Scm.prDo / Scm.env        truncated factorisation
        Y0/Spec/ScmEnvX.lean   Scm.envX                  independent-worlds total extension
  against the exact-rational Python evaluator of functional SCMs  harness/oracles/cf_fscm.py  (independent code).

For N random small functional SCMs (random ADMG with <= 4 nodes, random tables, random positive rational pmfs):
  A  fscm_pr      random CROSS-WORLD conjunctions (some with ill-formed worlds / out-of-range values)
                  == mass of noise points (Python), worlds read with the `normDo` convention re-implemented here
  B  fscm_pr_raw  on conjunctions whose worlds are all well formed == the same
  C  toscm_prdo   random single-world (dos, ev)          == Python P(ev-variables under do(dos) take the ev-values)
  D  toscm_env    the same through `Scm.env`
  E  toscm_envx   two-world conjunction                   == product of the two single-world Python probabilities
C/D/E check numerically the statement `fscm_toScm_prDo` (proved in lean/Y0/Lemmas/FscmToScm.lean) and the definition of envX.

usage: /venv/bin/python tools/sem_crosscheck.py [--n 200] [--seed 0] [--per 3]
exit code 0 iff no disagreement.
"""
from __future__ import annotations

import argparse
import random
import subprocess
import sys
import time
from fractions import Fraction as F
from pathlib import Path

ROOT = Path(__file__).resolve().parent.parent
sys.path.insert(0, str(ROOT))
from harness.oracles import cf_fscm as S  # noqa: E402

LEAN = ROOT / "lean"
BASE = 100


def enc(x) -> str:
    if isinstance(x, (list, tuple)):
        return "(" + " ".join(enc(y) for y in x) + ")"
    return str(x)


def driver_cmd():
    exe = LEAN / ".lake" / "build" / "bin" / "y0driver"
    probe = "(sem fscm_pr (model () () ()) () ())\n"
    if exe.exists():
        try:
            p = subprocess.run([str(exe)], input=probe, capture_output=True, text=True, cwd=LEAN, timeout=60)
            if p.stdout.strip() == "(ok 1 1)":
                return [str(exe)]
        except Exception:
            pass
    return ["lake", "env", "lean", "--run", "SemMain.lean"]


def ask_many(cmd, lines):
    p = subprocess.run(cmd, input="\n".join(lines) + "\n", capture_output=True, text=True, cwd=LEAN, timeout=7200)
    out = [l for l in p.stdout.split("\n") if l != ""]
    if len(out) != len(lines):
        raise RuntimeError(f"driver returned {len(out)} lines for {len(lines)} requests; stderr={p.stderr[-2000:]}")
    return out


def parse_rat(reply: str):
    t = reply.replace("(", " ").replace(")", " ").split()
    if len(t) != 3 or t[0] != "ok":
        return None
    return F(int(t[1]), int(t[2]))


def rand_graph(rng):
    n = rng.randint(1, 4)
    nodes = list(range(n))
    di = [(i, j) for i in range(n) for j in range(i + 1, n) if rng.random() < 0.45]
    bi = [(i, j) for i in range(n) for j in range(i + 1, n) if rng.random() < 0.3]
    perm = nodes[:]
    rng.shuffle(perm)  # names do not follow the topological order
    di = [(perm[a], perm[b]) for a, b in di]
    bi = [(perm[a], perm[b]) for a, b in bi]
    return nodes, di, bi


def norm_do(card, dos):
    """the convention of Fscm.normDo, re-implemented: drop out-of-range bindings, least value per variable"""
    best = {}
    for x, k in dos:
        if x in card and k < card[x]:
            best[x] = min(best.get(x, k), k)
        elif x not in card and k < 1:   # unknown variable: cardinality 1
            best[x] = min(best.get(x, k), k)
    return tuple(sorted(best.items()))


def valid_do(card, dos):
    seen = {}
    for x, k in dos:
        if k >= card.get(x, 1):
            return False
        if seen.setdefault(x, k) != k:
            return False
    return True


def rand_world(rng, m, ill):
    xs = [v for v in m.nodes if rng.random() < 0.4]
    dos = [(x, rng.randrange(m.card[x])) for x in xs]
    if ill and dos and rng.random() < 0.5:
        x, k = rng.choice(dos)
        dos.append((x, rng.randrange(m.card[x])))          # second (possibly conflicting) binding
    if ill and m.nodes and rng.random() < 0.4:
        x = rng.choice(m.nodes)
        dos.insert(rng.randrange(len(dos) + 1), (x, m.card[x] + rng.randrange(2)))   # out of range
    rng.shuffle(dos)
    return dos


def py_prob(m, items):
    """items: (var, do as list of pairs restricted to model nodes, value)"""
    its = []
    for v, do, val in items:
        do = tuple(sorted((x, k) for x, k in do if x in m.idx))
        its.append((v, do, val))
    return m.prob(its)


def main():
    ap = argparse.ArgumentParser()
    ap.add_argument("--n", type=int, default=200)
    ap.add_argument("--seed", type=int, default=0)
    ap.add_argument("--per", type=int, default=3, help="queries of each kind per model")
    args = ap.parse_args()
    rng = random.Random(args.seed)
    lines, expect, meta = [], [], []
    t0 = time.time()
    for mi in range(args.n):
        nodes, di, bi = rand_graph(rng)
        m = S.Fscm(nodes, di, bi, rng, max_card=3)
        model = S.model_sexp(m)
        cards = [[v, m.card[v]] for v in m.nodes]
        graph = ["graph", list(m.nodes), [list(e) for e in m.di], [list(e) for e in m.bi]]
        for _ in range(args.per):
            # A / B: cross-world conjunctions
            k = rng.randint(1, 4)
            ill = rng.random() < 0.5
            atoms, items, allvalid = [], [], True
            for _ in range(k):
                v = rng.choice(m.nodes)
                dos = rand_world(rng, m, ill)
                val = rng.randrange(m.card[v] + (1 if rng.random() < 0.1 else 0))
                atoms.append([v, [list(p) for p in dos], val])
                items.append((v, norm_do(m.card, dos), val))
                allvalid = allvalid and valid_do(m.card, dos)
            want = py_prob(m, items)
            lines.append(enc(["sem", "fscm_pr", model, cards, atoms])); expect.append(want); meta.append(("A", mi, atoms))
            if allvalid:
                lines.append(enc(["sem", "fscm_pr_raw", model, cards, atoms])); expect.append(want); meta.append(("B", mi, atoms))
            # C / D: single world
            dos = rand_world(rng, m, False)
            evs = [(v, rng.randrange(m.card[v])) for v in m.nodes if rng.random() < 0.6]
            if rng.random() < 0.2 and evs:
                evs.append(rng.choice(evs))
            want = py_prob(m, [(v, dos, val) for v, val in evs])
            lines.append(enc(["sem", "toscm_prdo", model, cards, BASE, graph, [list(p) for p in dos], [list(p) for p in evs]]))
            expect.append(want); meta.append(("C", mi, (dos, evs)))
            if evs:
                atoms = [[v, [list(p) for p in dos], val] for v, val in evs]
                lines.append(enc(["sem", "toscm_env", model, cards, BASE, graph, atoms])); expect.append(want); meta.append(("D", mi, atoms))
            # E: two worlds, independent coupling
            dos2 = rand_world(rng, m, True)
            evs2 = [(v, rng.randrange(m.card[v])) for v in m.nodes if rng.random() < 0.5]
            nd1, nd2 = norm_do(m.card, dos), norm_do(m.card, dos2)
            if nd1 == nd2:
                want2 = py_prob(m, [(v, nd1, val) for v, val in evs + evs2])
            else:
                want2 = want * py_prob(m, [(v, nd2, val) for v, val in evs2])
            atoms = [[v, [list(p) for p in dos], val] for v, val in evs] + [[v, [list(p) for p in dos2], val] for v, val in evs2]
            rng.shuffle(atoms)
            lines.append(enc(["sem", "toscm_envx", model, cards, BASE, graph, atoms])); expect.append(want2); meta.append(("E", mi, atoms))
    t1 = time.time()
    cmd = driver_cmd()
    replies = ask_many(cmd, lines)
    t2 = time.time()
    bad, per_kind, nonzero = [], {}, {}
    for line, rep, want, mt in zip(lines, replies, expect, meta):
        got = parse_rat(rep)
        per_kind[mt[0]] = per_kind.get(mt[0], 0) + 1
        if want != 0:
            nonzero[mt[0]] = nonzero.get(mt[0], 0) + 1
        if got != want:
            bad.append((mt, rep, want, line))
    print(f"sem_crosscheck: models={args.n} seed={args.seed} comparisons={len(lines)} per-kind={per_kind} "
          f"nonzero-expected={nonzero} disagreements={len(bad)} "
          f"(python {t1 - t0:.1f}s, lean {t2 - t1:.1f}s via {' '.join(cmd[-2:])})")
    for mt, rep, want, line in bad[:10]:
        print("DISAGREE", mt[0], "model", mt[1], "lean:", rep, "python:", want)
        print("   request:", line[:600])
    return 1 if bad else 0


if __name__ == "__main__":
    sys.exit(main())
