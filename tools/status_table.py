#!/usr/bin/env python3
"""Rewrite the table between <!-- STATUS-TABLE-BEGIN/END --> in DESIGN.md from Audit files, Props files, known findings and evidence."""
import json, re
from pathlib import Path
root = Path(__file__).resolve().parent.parent
props = [json.loads(l)["id"] for l in (root / "properties.jsonl").read_text().splitlines() if l.strip()]
open_f = {}
for l in (root / "known_findings.jsonl").read_text().splitlines():
    if l.startswith("{"):
        d = json.loads(l)
        if d.get("status", "open") == "open":
            open_f[d["property"]] = open_f.get(d["property"], 0) + 1
fixed = {}
for l in (root / "known_findings.jsonl").read_text().splitlines():
    m = re.match(r"fixed: property=(\S+)", l)
    if m:
        fixed[m.group(1)] = fixed.get(m.group(1), 0) + 1
rows = ["| id | theorems (audited) | `…_partial` | OPEN blocks | repaired defects | open findings | quick tier (last committed evidence) |", "|---|---|---|---|---|---|---|"]
for p in props:
    a = root / "lean" / "Y0" / "Audit" / f"{p}.lean"
    n = len(re.findall(r"^#print axioms", a.read_text(), flags=re.M)) if a.exists() else 0
    txt = "".join(f.read_text() for f in sorted((root / "lean" / "Y0" / "Props").glob(f"{p}*.lean")))
    partial = len(re.findall(r"^theorem\s+\S*_partial\b", txt, flags=re.M))
    opn = len(re.findall(r"^-- OPEN", txt, flags=re.M))
    ev = root / "evidence" / f"{p}.json"
    q = ""
    if ev.exists():
        e = json.loads(ev.read_text())
        c = e["coverage"]
        q = f"{c.get('evaluations')} cases, {c.get('distinct_nontrivial')} non-trivial, {e.get('wall_s')} s"
    rows.append(f"| {p} | {n} | {partial} | {opn} | {fixed.get(p, 0)} | {open_f.get(p, 0)} | {q} |")
txt = (root / "DESIGN.md").read_text()
b, e = "<!-- STATUS-TABLE-BEGIN -->", "<!-- STATUS-TABLE-END -->"
txt = txt[:txt.index(b)] + b + "\n" + "\n".join(rows) + "\n" + e + txt[txt.index(e) + len(e):]
(root / "DESIGN.md").write_text(txt)
print("status table:", len(rows) - 2, "properties")
