#!/usr/bin/env python3
"""Mutation campaign A: do the checks of C04, C15, C20, C14, C16 turn a property-breaking ONE-SITE change of y0 into a
`VIOLATION` line with a concrete replay?

    python3 tools/mutants_A.py --repo /work/mutA/repo [--group ci|sigma|graph|latent] [--id a01,...] [--only-prop C14]
                               [--jobs 4] [--json tools/mutants_A.last.json] [--md tools/mutants_A.md] [--before FILE]
    python3 tools/mutants_A.py --repo /work/mutA/repo --verify       # every mutant applies at exactly one site and compiles

Each mutant is (id, group, file, old text, new text, expect, why).  `expect` is the list of properties whose STATEMENT
the change breaks, or the string "equivalent" (no observable change through the public API on in-scope inputs) or
"outside-property" (observable, but no clause of the property says anything about it: error class, choice of a
representative, naming of generated nodes, arguments outside the quantifier, dead code).  `run` is the list of checks
that are run for the mutant (the group's checks unless given).

One mutant at a time is applied to a scratch `git clone` of the given repo copy under /tmp/mutA-<pid>-<k> (removed at the
end; never the repo copy itself), the checks run in the PLAIN quick tier (`VERIF_NO_ESCALATE=1`, the fingerprint
escalation of DESIGN 5.4 switched off) with evidence / replays redirected to the scratch directory, and the tool records
exit code, number of VIOLATION lines, whether at least one names a concrete failing input (not only
`no-failing-input-found`), oracle failures, correspondence disagreements, wall time.  Up to `--jobs` scratch copies run
in parallel (each check uses 8 processes itself).  Processes are started in their own session and only those are killed
on timeout.
"""
from __future__ import annotations

import argparse
import json
import os
import re
import shutil
import signal
import subprocess
import sys
import threading
import time
from pathlib import Path

VERIF = Path(__file__).resolve().parent.parent
CI = "src/y0/algorithm/conditional_independencies.py"
ST = "src/y0/struct.py"
PW = "src/y0/util/combinatorics.py"
SIG = "src/y0/algorithm/separation/sigma_separation.py"
GR = "src/y0/graph.py"
LAT = "src/y0/algorithm/simplify_latent.py"

GROUP_RUN = {"ci": ["C04", "C15"], "sigma": ["C20"], "graph": ["C14"], "latent": ["C16"], "sepG": []}
DSL = "src/y0/dsl.py"
PARSER = "src/y0/parser/internal.py"
EQ, OUT = "equivalent", "outside-property"


def M(id, group, file, old, new, expect, why, run=None):
    return {"id": id, "group": group, "file": file, "old": old, "new": new, "expect": expect, "why": why,
            "run": run or GROUP_RUN[group]}


MUTANTS = [
    # =============================================================== conditional_independencies.py / struct.py / combinatorics.py
    M("a01", "ci", CI, "    named = {a, b}.union(conditions)\n", "    named = {a, b}\n", ["C04"],
      "dropped operand: the ancestral graph is taken of {a, b} only, so a conditioned collider (or its conditioned descendant) that is not an ancestor of a or b disappears. "
      "EQUIVALENT for C15: the mutant calls C separating iff C & An({a,b}) separates; a true separator restricted to An({a,b}) still separates, so the minimum "
      "size is unchanged and every minimum-size set the mutant accepts lies inside An({a,b}), where both tests agree (confirmed: C15 --tier thorough on the mutant, 16 321 cases, no disagreement with the unchanged model, no oracle failure)"),
    M("a02", "ci", CI, "    keep = graph.ancestors_inclusive(named)\n", "    keep = graph.descendants_inclusive(named)\n", ["C04", "C15"],
      "wrong closure: descendants instead of ancestors"),
    M("a03", "ci", CI, "    evidence_graph = ancestral_graph.moralize().disorient()\n", "    evidence_graph = ancestral_graph.disorient()\n", EQ,
      "dropped call: moralisation is subsumed by the district cliques added below (every node is in a district; clique = district + its parents marries all co-parents)"),
    M("a04", "ci", CI, "    for district in ancestral_graph.districts():\n", "    for district in graph.districts():\n", ["C04", "C15"],
      "stale variable: districts of the whole graph instead of the ancestral graph (bidirected chains through non-ancestors connect; members outside the ancestral graph raise)"),
    M("a05", "ci", CI, "        clique = district | ancestral_graph.get_markov_pillow(district)\n", "        clique = set(district)\n", ["C04", "C15"],
      "dropped operand: parents of a district are not joined to it (mixed collider B -> A <-> C given A)"),
    M("a06", "ci", CI, "        clique = district | ancestral_graph.get_markov_pillow(district)\n",
      "        clique = district | graph.get_markov_pillow(district)\n", EQ,
      "stale variable, harmless: every parent of a node of the ancestral graph is itself in the ancestral graph"),
    M("a07", "ci", CI, "        evidence_graph.add_edges_from(combinations(clique, 2))\n", "        nx.add_path(evidence_graph, clique)\n", ["C04", "C15"],
      "'a path through the clique is enough': connectivity is the same until the conditioned members are deleted, then the chain breaks (set-iteration-order dependent)"),
    M("a08", "ci", CI, "    keep = set(evidence_graph.nodes) - set(conditions)\n", "    keep = set(evidence_graph.nodes) - set(conditions) | {a, b}\n", OUT,
      "an endpoint inside the conditioning set is kept: only observable for C containing a or b, which the property excludes (the model's dsep_endpoint_conditioned notices)"),
    M("a09", "ci", CI, "    separated = not nx.has_path(evidence_graph, a, b)  # If no path, then d-separated!\n",
      "    separated = not evidence_graph.has_edge(a, b)\n", ["C04", "C15"], "adjacency instead of reachability"),
    M("a10", "ci", CI, "    return DSeparationJudgement.create(left=a, right=b, conditions=conditions, separated=separated)\n",
      "    return DSeparationJudgement.create(left=b, right=a, conditions=conditions, separated=separated)\n", EQ,
      "swapped arguments, harmless: create() sorts left/right"),
    M("a11", "ci", CI, "    return DSeparationJudgement.create(left=a, right=b, conditions=conditions, separated=separated)\n",
      "    return DSeparationJudgement(separated, a, b, tuple(conditions))\n", ["C04", "C15"],
      "'skip the classmethod': the record is built without canonicalisation (argument order and set order leak into it)"),
    M("a12", "ci", CI, "    if missing_conditions:\n        raise KeyError(f\"conditions missing from graph: {missing_conditions}\")\n",
      "    conditions -= missing_conditions\n", OUT,
      "conditions that are not nodes are silently ignored instead of raising: the property quantifies over C subset of V"),
    M("a14", "ci", CI, "    if not all(isinstance(c, Variable) for c in conditions):\n", "    if not any(isinstance(c, Variable) for c in conditions):\n", ["C04", "C15"],
      "any vs all: the empty conditioning set raises TypeError"),
    M("a15", "ci", CI, "    evidence_graph = evidence_graph.subgraph(keep)\n\n    # check for path....\n", "\n    # check for path....\n", ["C04", "C15"],
      "dropped statement: the conditioning set is never deleted from the evidence graph"),
    M("a16", "ci", CI, "    ancestral_graph = graph.subgraph(keep)\n", "    ancestral_graph = graph\n", ["C04", "C15"],
      "dropped restriction to the ancestral graph: colliders that are not ancestors of the query are married / joined"),
    M("a17", "ci", CI, "    keep = set(evidence_graph.nodes) - set(conditions)\n", "    keep = set(evidence_graph.nodes) & set(conditions) | {a, b}\n", ["C04", "C15"],
      "wrong set operation: only the conditioned nodes are kept"),
    M("a20", "ci", CI, "    keep = graph.ancestors_inclusive(named)\n", "    keep = graph.ancestors_inclusive({a, b}) | conditions\n", ["C04"],
      "ancestors of the endpoints only, the conditioned nodes added back without THEIR ancestors: a collider that is opened by a conditioned proper descendant "
      "and is not itself an ancestor of a or b disappears (equivalent for C15 for the same reason as a01; confirmed the same way)"),
    M("b02", "ci", CI, "        combinations(vertices, 2),\n", "        combinations(sorted(vertices), 2),\n", EQ,
      "sorted vs unsorted pair enumeration: same pairs"),
    M("b03", "ci", CI, "        stop = None if max_conditions is None else max_conditions + 1\n", "        stop = max_conditions\n", ["C15"],
      "off by one (defect F6 re-introduced): sets of exactly max_conditions elements are skipped", run=["C15"]),
    M("b04", "ci", CI, "        for conditions in powerset(vertices - {a, b}, stop=stop):\n", "        for conditions in powerset(vertices - {a}, stop=stop):\n", ["C15"],
      "b itself is offered as a condition", run=["C15"]),
    M("b05", "ci", CI, "                yield judgement\n                if not return_all:\n                    break\n", "                yield judgement\n", EQ,
      "dropped early exit: minimal() still keeps a minimum-size judgement per pair (both policies sort by size first)", run=["C15"]),
    M("b07", "ci", CI, "        for conditions in powerset(vertices - {a, b}, stop=stop):\n",
      "        for conditions in powerset(vertices - {a, b}, start=1, stop=stop):\n", ["C15"],
      "changed start: the empty conditioning set is never tried (marginal independencies missing or listed with a non-minimum set)", run=["C15"]),
    M("b09", "ci", CI, "        for conditions in powerset(vertices - {a, b}, stop=stop):\n",
      "        for conditions in powerset(vertices - {a, b}, stop=stop, reverse=True):\n", ["C15"],
      "largest sets first: first hit is not minimum, and the size limit counts from the top", run=["C15"]),
    M("b10", "ci", CI, "            if judgement.separated:\n                yield judgement\n", "            if judgement:\n                yield judgement\n", EQ,
      "truthiness of the record instead of the field: __bool__ returns the field", run=["C15"]),
    M("c01", "ci", CI, "    return {min(vs, key=policy) for k, vs in groupby(judgements, _judgement_grouper)}\n",
      "    return {max(vs, key=policy) for k, vs in groupby(judgements, _judgement_grouper)}\n", ["C15"],
      "max instead of min: with return_all=True the largest separating set is kept", run=["C15"]),
    M("c02", "ci", CI, "    judgements = sorted(judgements, key=_judgement_grouper)\n", "    judgements = list(judgements)\n", OUT,
      "groupby without sorting: d_separations already yields the judgements of one pair consecutively; only minimal() on an arbitrary list differs", run=["C15"]),
    M("c03", "ci", CI, "    return str(judgement.left), str(judgement.right)\n", "    return str(judgement.left), str(judgement.left)\n", ["C15"],
      "stale field: judgements are grouped by their left node only, one pair per left node survives", run=["C15"]),
    M("c04", "ci", CI, "    return (\n        len(judgement.conditions),\n        sum(order.index(v) for v in judgement.conditions),\n    )\n",
      "    return (\n        sum(order.index(v) for v in judgement.conditions),\n        len(judgement.conditions),\n    )\n", ["C15"],
      "swapped key components: a larger set of topologically early nodes beats a smaller set (return_all=True)", run=["C15"]),
    M("c05", "ci", CI, "        sum(order.index(v) for v in judgement.conditions),\n", "        max((order.index(v) for v in judgement.conditions), default=0),\n", OUT,
      "tie-break among minimum-size sets changed: the property fixes the size, not the representative", run=["C15"]),
    M("c06", "ci", CI, "    return len(judgement.conditions), \",\".join(c.name for c in judgement.conditions)\n",
      "    return -len(judgement.conditions), \",\".join(c.name for c in judgement.conditions)\n", ["C15"],
      "sign slip in the _len_lex policy: prefers the largest set (return_all=True, policy=_len_lex)", run=["C15"]),
    M("c08", "ci", CI, "        d_separations(graph, max_conditions=max_conditions, **kwargs),\n", "        d_separations(graph, **kwargs),\n", ["C15"],
      "argument not forwarded: the size limit is ignored", run=["C15"]),
    M("c09", "ci", CI, "    order = list(graph.topological_sort())\n    return partial(_topological_policy, order=order)\n",
      "    order = list(graph.nodes())\n    return partial(_topological_policy, order=order)\n", OUT,
      "insertion order instead of topological order in the tie-break: the representative changes, its size does not", run=["C15"]),
    M("c10", "ci", CI, "    if policy is None:\n        policy = get_topological_policy(graph)\n    return minimal(\n",
      "    if policy is None:\n        policy = _len_lex\n    return minimal(\n", OUT,
      "changed default policy: another minimum-size representative (and no NetworkXUnfeasible on cyclic graphs, which are outside the property)", run=["C15"]),
    M("s01", "ci", ST, "        left, right = sorted([left, right], key=str)\n", "        left, right = sorted([left, right], key=str, reverse=True)\n", ["C04", "C15"],
      "reverse sort: every record is non-canonical"),
    M("s02", "ci", ST, "        left, right = sorted([left, right], key=str)\n        if conditions is None:\n", "        if conditions is None:\n", ["C04", "C15"],
      "dropped normalisation: the argument order leaks into the record"),
    M("s03", "ci", ST, "        conditions = tuple(sorted(set(conditions), key=str))\n", "        conditions = tuple(sorted(conditions, key=str))\n", ["C04"],
      "missing set(): duplicates of the iterable stay in the record (create() called directly; are_d_separated hands over a set)"),
    M("s04", "ci", ST, "        conditions = tuple(sorted(set(conditions), key=str))\n", "        conditions = tuple(set(conditions))\n", ["C04", "C15"],
      "sorted vs unsorted: hash order of the set leaks into the record"),
    M("s05", "ci", ST, "            str(self.left) < str(self.right)\n", "            str(self.left) <= str(self.right)\n", ["C04"],
      "< vs <=: a record with left == right counts as canonical"),
    M("s07", "ci", ST, "        separated: bool = True,\n    ) -> DSeparationJudgement:\n", "        separated: bool = False,\n    ) -> DSeparationJudgement:\n", OUT,
      "changed default of create(): every caller named by the property passes `separated` explicitly"),
    M("s08", "ci", ST, "    def __bool__(self) -> bool:\n        return self.separated\n", "    def __bool__(self) -> bool:\n        return not self.separated\n", ["C04"],
      "bool(judgement) inverted (the property observes bool(are_d_separated(...)))"),
    M("s09", "ci", ST, "            and tuple(sorted(self.conditions, key=str)) == self.conditions\n", "            and tuple(sorted(self.conditions, key=str, reverse=True)) == self.conditions\n", ["C04", "C15"],
      "is_canonical tests for descending order"),
    M("p01", "ci", PW, "    if stop is None:\n        stop = n + 1\n", "    if stop is None:\n        stop = n\n", ["C15"],
      "off by one: without a limit the full set is never offered (pairs whose only separator is everything else)", run=["C15"]),
    M("p02", "ci", PW, "        rv = chain.from_iterable(combinations(s, r) for r in range(start, stop))\n\n    if use_tqdm:",
      "        rv = chain.from_iterable(combinations(s, r) for r in range(start, stop + 1))\n\n    if use_tqdm:", ["C15"],
      "off by one the other way: one size more than the limit", run=["C15"]),
    M("p04", "ci", PW, "    s = list(iterable)\n", "    s = sorted(iterable)\n", OUT,
      "sorted copy: same sets in another order (the C15 check also compares powerset's order with the documented one)", run=["C15"]),
    M("p05", "ci", PW, "    if stop is None:\n", "    if not stop:\n", ["C15"],
      "truthiness vs `is None`: stop=0 means no limit (powerset itself; d_separations never passes 0)", run=["C15"]),
    M("p06", "ci", PW, "        rv = chain.from_iterable(combinations(s, n - r) for r in range(start, stop))\n",
      "        rv = chain.from_iterable(combinations(s, n - r - 1) for r in range(start, stop))\n", OUT,
      "reverse=True branch, used by no function of the property", run=["C15"]),
    M("p07", "ci", PW, "    s = list(iterable)\n    n = len(s)\n", "    s = list(iterable)\n    n = len(set(s))\n", EQ,
      "len of the de-duplicated list: d_separations hands over a set", run=["C15"]),

    # =============================================================== sigma_separation.py
    M("g01", "sigma", SIG, "    if path[0] in conditions or path[-1] in conditions:\n        return False\n", "", OUT,
      "dropped branch: a conditioned endpoint no longer closes the path; the property's agreement clause has C disjoint from {a, b} and symmetry / adjacency still hold"),
    M("g03", "sigma", SIG, "    return all(\n        _triple_has_correct_form(graph, left, middle, right, conditions, sigma)\n",
      "    return any(\n        _triple_has_correct_form(graph, left, middle, right, conditions, sigma)\n", ["C20"],
      "any vs all: a path is open when one triple is; a two-node path (no triple) is closed, so adjacent nodes are separated"),
    M("g04", "sigma", SIG, "    neighbors = {n for n in graph.disorient().neighbors(middle) if n != middle}\n", "    neighbors = set()\n", OUT,
      "backtrack augmentation switched off: on acyclic graphs is_collider already looks at all descendants; only sigma-verdicts on cyclic graphs change (not claimed by the property)"),
    M("g06", "sigma", SIG, "            _triple_helper(graph, left, middle, neighbor, conditions, sigma)\n            and _triple_helper(graph, middle, neighbor, middle, conditions, sigma)\n",
      "            _triple_helper(graph, left, middle, neighbor, conditions, sigma)\n            or _triple_helper(graph, middle, neighbor, middle, conditions, sigma)\n", ["C20"],
      "or vs and in the backtrack: any open step to a neighbour opens the triple (blocked colliders open)"),
    M("g07", "sigma", SIG, "        or is_non_collider_right_chain(graph, left, middle, right, conditions, sigma)\n        or is_non_collider_fork(graph, left, middle, right, conditions, sigma)\n",
      "        or is_non_collider_right_chain(graph, left, middle, right, conditions, sigma)\n", ["C20"], "dropped disjunct: forks are never open"),
    M("g08", "sigma", SIG, "        or is_non_collider_left_chain(graph, left, middle, right, conditions, sigma)\n        or is_non_collider_right_chain(graph, left, middle, right, conditions, sigma)\n",
      "        or is_non_collider_left_chain(graph, left, middle, right, conditions, sigma)\n", ["C20"],
      "dropped disjunct: a chain is open only when walked against its direction (asymmetric)"),
    M("g09", "sigma", SIG, "    return cast(bool, graph.directed.has_edge(u, v)) or cast(bool, graph.undirected.has_edge(u, v))\n",
      "    return cast(bool, graph.directed.has_edge(u, v) or graph.directed.has_edge(v, u)) or cast(bool, graph.undirected.has_edge(u, v))\n", ["C20"],
      "direction ignored in 'has an arrowhead at v'"),
    M("g10", "sigma", SIG, "    return cast(bool, graph.directed.has_edge(u, v))\n",
      "    return cast(bool, graph.directed.has_edge(u, v)) and not graph.undirected.has_edge(u, v)\n", ["C20"],
      "defect F9a re-introduced: a parallel bidirected edge hides the directed edge"),
    M("g11", "sigma", SIG, "        and bool(graph.descendants_inclusive(middle) & conditions)\n", "        and middle in conditions\n", ["C20"],
      "defect F9b re-introduced: only the collider itself, not its descendants"),
    M("g12", "sigma", SIG, "        and bool(graph.descendants_inclusive(middle) & conditions)\n", "        and bool(graph.ancestors_inclusive(middle) & conditions)\n", ["C20"],
      "wrong closure in the collider test"),
    M("g13", "sigma", SIG, "        _has_either_edge(graph, left, middle)\n        and _has_either_edge(graph, right, middle)\n        and bool(",
      "        _has_either_edge(graph, left, middle)\n        and _has_either_edge(graph, middle, right)\n        and bool(", ["C20"],
      "swapped arguments: left -> middle -> right is read as a collider"),
    M("g14", "sigma", SIG, "        _only_directed_edge(graph, middle, left)\n        and _has_either_edge(graph, right, middle)\n",
      "        _only_directed_edge(graph, left, middle)\n        and _has_either_edge(graph, right, middle)\n", ["C20"], "swapped arguments in the left chain"),
    M("g15", "sigma", SIG, "        and (middle not in conditions or middle in conditions.intersection(sigma[left]))\n", "        and middle not in conditions\n", EQ,
      "dropped sigma clause in the LEFT chain only: same verdicts on acyclic graphs (sigma[left] = {left}); on a cycle the single PATH left <- middle - right "
      "with middle conditioned is now closed from one side, but the VERDICT is unchanged: middle in sigma[left] means left -> ... -> middle, and that "
      "directed route enters middle with an arrowhead, which together with the arrowhead from right makes the conditioned middle an open collider on another path "
      "(every conditioned node on the route is in the same component, hence open). Confirmed by brute force against the unchanged function: 0 of 6 160 verdicts differ on all 520 mixed graphs on <= 3 nodes (cycles included), 0 of 1 203 136 on 11 700 random cyclic graphs on 4-5 nodes; C20 --tier thorough on the mutant: 43 137 cases, no disagreement"),
    M("g16", "sigma", SIG, "    d = middle in conditions.intersection(sigma[left]).intersection(sigma[right])\n",
      "    d = middle in conditions.intersection(sigma[left]).union(sigma[right])\n", OUT,
      "union vs intersection in the fork: on acyclic graphs sigma[right] = {right} never contains middle (same verdicts); on cyclic graphs a conditioned fork "
      "node in the component of ONE child becomes open, but from both sides (read backwards the roles of left and right swap and the conditioned clause "
      "applies), so symmetry and adjacency still hold: only sigma-verdicts on cyclic graphs change, which the property does not fix"),
    M("g17", "sigma", SIG, "    a = _only_directed_edge(graph, middle, left)\n    b = _only_directed_edge(graph, middle, right)\n",
      "    a = _has_either_edge(graph, middle, left)\n    b = _only_directed_edge(graph, middle, right)\n", EQ,
      "weaker fork test: everything it adds (left <-> middle -> right) is already open as a right chain under a weaker condition"),
    M("g18", "sigma", SIG, "        node: graph.ancestors_inclusive(node).intersection(graph.descendants_inclusive(node))\n",
      "        node: graph.ancestors_inclusive(node).union(graph.descendants_inclusive(node))\n", ["C20"],
      "union vs intersection: the class of v is everything related to v, so conditioned chain nodes stay open on DAGs"),
    M("g19", "sigma", SIG, "        node: graph.ancestors_inclusive(node).intersection(graph.descendants_inclusive(node))\n", "        node: {node}\n", OUT,
      "finest class structure (= d-separation semantics on cyclic graphs): the three clauses of the property still hold; the check's own 'classes are the strongly connected components' clause notices"),
    M("g20", "sigma", SIG, "    return not any(\n        is_z_sigma_open(", "    return not all(\n        is_z_sigma_open(", ["C20"],
      "any vs all over the paths (no path at all: all([]) is True, so unconnected nodes are 'connected')"),
    M("g21", "sigma", SIG, "        for path in nx.all_simple_paths(graph.disorient(), left, right, cutoff=cutoff)\n",
      "        for path in nx.all_simple_paths(graph.directed.to_undirected(), left, right, cutoff=cutoff)\n", ["C20"],
      "paths over the directed part only: bidirected edges are never walked"),
    M("g22", "sigma", SIG, "        for path in nx.all_simple_paths(graph.disorient(), left, right, cutoff=cutoff)\n",
      "        for path in nx.all_simple_paths(graph.directed, left, right, cutoff=cutoff)\n", ["C20"], "directed paths only (asymmetric)"),
    M("g23", "sigma", SIG, "        for path in nx.all_simple_paths(graph.disorient(), left, right, cutoff=cutoff)\n",
      "        for path in nx.all_simple_paths(graph.disorient(), left, right, cutoff=cutoff or len(graph) - 1)\n", EQ,
      "explicit default cutoff n-1: a simple path has at most n-1 edges"),
    M("g24", "sigma", SIG, "    cutoff: int | None = None,\n) -> bool:\n", "    cutoff: int | None = 4,\n) -> bool:\n", ["C20"],
      "changed default: connecting paths with five or more edges are ignored when cutoff is omitted"),
    M("g25", "sigma", SIG, "    else:\n        conditions = set(conditions)\n\n    sigma", "    else:\n        conditions = set(conditions) - {left, right}\n\n    sigma", OUT,
      "endpoints silently removed from the conditioning set: only inputs outside the quantifier (C containing a or b) change"),
    M("g26", "sigma", SIG, "        and (middle not in conditions or middle in conditions.intersection(sigma[right]))\n",
      "        and (middle not in conditions or middle in conditions.intersection(sigma[middle]))\n", ["C20"],
      "stale index: sigma[middle] always contains middle, so a conditioned chain node never blocks the right chain"),
    M("g27", "sigma", SIG, "        for left, middle, right in triplewise(path)\n", "        for left, middle, right in zip(path, path[1:], path[2:])\n", EQ,
      "harmless rewrite of triplewise"),
    M("g28", "sigma", SIG, "    neighbors = {n for n in graph.disorient().neighbors(middle) if n != middle}\n",
      "    neighbors = {n for n in graph.directed.successors(middle) if n != middle}\n", OUT,
      "backtrack through children only: like g04, acyclic verdicts do not need the augmentation"),
    M("g29", "sigma", SIG, "        _has_either_edge(graph, left, middle)\n        and _has_either_edge(graph, right, middle)\n        and bool(",
      "        (_has_either_edge(graph, left, middle)\n        or _has_either_edge(graph, right, middle))\n        and bool(", ["C20"],
      "or vs and: one arrowhead makes a collider"),
    M("g30", "sigma", SIG, "        _only_directed_edge(graph, middle, left)\n        and _has_either_edge(graph, right, middle)\n",
      "        _only_directed_edge(graph, middle, left)\n        and _only_directed_edge(graph, right, middle)\n", ["C20"],
      "left chain requires a directed edge into the middle: left <- middle <-> right is closed from this side, open from the other"),
    M("g31", "sigma", SIG, "    c = middle not in conditions\n", "    c = middle not in conditions or left not in conditions\n", ["C20"],
      "stale variable in the fork: the endpoint is tested instead of the middle, a conditioned fork stays open"),
    M("g32", "sigma", SIG, "        and (middle not in conditions or middle in conditions.intersection(sigma[left]))\n",
      "        and (middle not in conditions or middle in sigma[left])\n", EQ, "redundant intersection removed: middle is known to be in conditions on that branch"),

    M("g33", "sigma", SIG, "        and bool(graph.descendants_inclusive(middle) & conditions)\n", "        and bool(graph.descendants_inclusive(middle) & conditions - {middle})\n", ["C20"],
      "operator precedence: `-` binds tighter than `&`, so the collider itself no longer counts, only its proper descendants"),

    # =============================================================== graph.py, the operations of C14
    M("h01", "graph", GR, "        return self.from_edges(\n            nodes=vertices,\n", "        return self.from_edges(\n            nodes=None,\n", ["C14"],
      "subgraph: chosen nodes without an edge among them are dropped"),
    M("h02", "graph", GR, "    return [(u, v) for u, v in graph.edges() if u in vertices and v in vertices]\n",
      "    return [(u, v) for u, v in graph.edges() if u in vertices or v in vertices]\n", ["C14"], "subgraph: or vs and in the edge filter"),
    M("h03", "graph", GR, "            undirected=_include_adjacent(self.undirected, vertices),\n",
      "            undirected=_exclude_adjacent(self.undirected, self.nodes() - vertices),\n", EQ,
      "subgraph: 'no endpoint outside' instead of 'both endpoints inside'"),
    M("h04", "graph", GR, "            undirected=_exclude_adjacent(self.undirected, vertices),\n        )\n\n    def get_intervened_ancestors",
      "            undirected=_exclude_target(self.undirected, vertices),\n        )\n\n    def get_intervened_ancestors", ["C14"],
      "remove_in_edges: a bidirected edge is dropped only when its SECOND stored endpoint is in the set (orientation / insertion order)"),
    M("h05", "graph", GR, "            directed=_exclude_target(self.directed, vertices),\n", "            directed=_exclude_source(self.directed, vertices),\n", ["C14"],
      "remove_in_edges removes the outgoing edges"),
    M("h06", "graph", GR, "            undirected=_exclude_adjacent(self.undirected, vertices),\n        )\n\n    def get_intervened_ancestors",
      "            undirected=self.undirected.edges(),\n        )\n\n    def get_intervened_ancestors", ["C14"], "remove_in_edges keeps the bidirected edges"),
    M("h07", "graph", GR, "            nodes=self.nodes() - vertices,\n", "            nodes=self.nodes(),\n", ["C14"], "remove_nodes_from keeps the removed nodes (edge-less)"),
    M("h08", "graph", GR, "            nodes=self.nodes() - vertices,\n            directed=_exclude_adjacent(self.directed, vertices),\n",
      "            nodes=self.nodes() - vertices,\n            directed=_exclude_source(self.directed, vertices),\n", ["C14"],
      "remove_nodes_from keeps edges INTO removed nodes, which re-creates them"),
    M("h09", "graph", GR, "            directed=_exclude_source(self.directed, vertices),\n", "            directed=_exclude_target(self.directed, vertices),\n", ["C14"],
      "remove_out_edges removes the incoming edges"),
    M("h10", "graph", GR, "            directed=_exclude_source(self.directed, vertices),\n            undirected=self.undirected.edges(),\n",
      "            directed=_exclude_source(self.directed, vertices),\n            undirected=_exclude_adjacent(self.undirected, vertices),\n", ["C14"],
      "remove_out_edges also drops the bidirected edges"),
    M("h11", "graph", GR, "    return sources | ancestors\n", "    return ancestors\n", ["C14"], "ancestors not reflexive"),
    M("h12", "graph", GR, "        itt.chain.from_iterable(nx.algorithms.dag.descendants(graph, source) for source in sources)\n",
      "        itt.chain.from_iterable(graph.successors(source) for source in sources)\n", ["C14"], "descendants: one step only"),
    M("h13", "graph", GR, "    return sources | ancestors\n", "    sources |= ancestors\n    return sources\n", EQ,
      "in-place union on the argument: every public caller hands over the fresh set made by _ensure_set"),
    M("h14", "graph", GR, "        return {frozenset(c) for c in nx.connected_components(self.undirected)}\n",
      "        return {frozenset(c) for c in nx.connected_components(self.disorient())}\n", ["C14"], "districts by all edges"),
    M("h15", "graph", GR, "        return {frozenset(c) for c in nx.connected_components(self.undirected)}\n",
      "        return {frozenset(c) for c in nx.connected_components(self.undirected) if len(c) > 1}\n", ["C14"],
      "singleton districts dropped: no longer a partition of the nodes"),
    M("h16", "graph", GR, "                if _node_not_an_intervention(v, variables)\n            ],\n            undirected=[",
      "                if _node_not_an_intervention(u, variables)\n            ],\n            undirected=[", ["C14"], "intervene cuts the outgoing edges"),
    M("h17", "graph", GR, "                if _node_not_an_intervention(u, variables)\n                and _node_not_an_intervention(v, variables)\n",
      "                if _node_not_an_intervention(u, variables)\n                or _node_not_an_intervention(v, variables)\n", ["C14"],
      "intervene: or vs and, a bidirected edge with one intervened endpoint survives"),
    M("h18", "graph", GR, "    return (+node not in interventions) and (-node not in interventions)\n", "    return -node not in interventions\n", ["C14"],
      "intervene: starred interventions do not cut edges"),
    M("h19", "graph", GR, "            nodes=[node.intervene(variables) for node in self.nodes()],\n", "            nodes=None,\n", ["C14"],
      "intervene: nodes left without edges disappear"),
    M("h20", "graph", GR, "        return parents_of_district - set(nodes)\n", "        return parents_of_district\n", ["C14"], "pillow contains parents inside the set"),
    M("h21", "graph", GR, "            parents_of_district |= set(self.directed.predecessors(node))\n", "            parents_of_district = set(self.directed.predecessors(node))\n", ["C14"],
      "|= vs =: only the parents of the last node visited"),
    M("h22", "graph", GR, "                blanket.add(successor)\n                blanket.update(self.directed.predecessors(successor))\n", "                blanket.add(successor)\n", ["C14"],
      "blanket without the co-parents"),
    M("h23", "graph", GR, "        return blanket.difference(nodes)\n", "        return blanket\n", ["C14"], "blanket contains query nodes"),
    M("h24", "graph", GR, "            blanket.update(self.directed.predecessors(node))\n            for successor", "            for successor", ["C14"], "blanket without the parents"),
    M("h25", "graph", GR, "        rv = NxMixedGraph(directed=self.directed.copy(), undirected=self.undirected.copy())\n",
      "        rv = NxMixedGraph(directed=self.directed.copy(), undirected=self.undirected)\n", ["C14"],
      "missing copy: moralize adds the moral links to the receiver"),
    M("h26", "graph", GR, "        combinations(graph.directed.predecessors(node), 2) for node in graph.nodes()\n",
      "        combinations(graph.directed.successors(node), 2) for node in graph.nodes()\n", ["C14"], "moralize marries co-children"),
    M("h27", "graph", GR, "        rv = nx.Graph()\n        rv.add_nodes_from(self.nodes())\n", "        rv = nx.Graph()\n", ["C14"], "disorient loses edge-less nodes"),
    M("h28", "graph", GR, "        rv.add_edges_from(self.directed.edges())\n        rv.add_edges_from(self.undirected.edges())\n        return rv\n",
      "        rv.add_edges_from(self.directed.edges())\n        return rv\n", ["C14"], "disorient loses the bidirected edges"),
    M("h29", "graph", GR, "            if node in node_set:\n                break\n", "            if node in node_set:\n                continue\n", ["C14"],
      "pre: skips the members instead of stopping at the first"),
    M("h30", "graph", GR, "        if not topological_sort_order:\n            topological_sort_order = list(self.topological_sort())\n        node_set",
      "        if topological_sort_order is None:\n            topological_sort_order = list(self.topological_sort())\n        node_set", OUT,
      "`is None` vs truthiness: an explicit EMPTY order is taken literally; the property does not say what an empty explicit order means (the check reads the code's documented fallback)"),
    M("h31", "graph", GR, "            if node in node_set:\n                break\n            pre.append(node)\n", "            pre.append(node)\n            if node in node_set:\n                break\n", ["C14"],
      "off by one: the first member of the set is included"),
    M("h32", "graph", GR, "        return list(nx.topological_sort(self.directed))\n", "        return list(nx.lexicographical_topological_sort(self.directed, key=str))\n", OUT,
      "another valid topological order"),
    M("h33", "graph", GR, "        return list(nx.topological_sort(self.directed))\n", "        return list(nx.topological_sort(self.directed))[::-1]\n", ["C14"], "reversed order"),
    M("h34", "graph", GR, "            tc.has_edge(source, node) and tc.has_edge(node, target)\n", "            tc.has_edge(source, node) or tc.has_edge(node, target)\n", ["C14"],
      "paths (acyclic branch): or vs and"),
    M("h35", "graph", GR, "            rv.add(source)\n            rv.add(target)\n", "            rv.add(source)\n", ["C14"], "paths (acyclic branch): the target is not returned"),
    M("h36", "graph", GR, "        if len(causal_path) > 1\n", "        if len(causal_path) > 2\n", ["C14"], "paths (cyclic branch): off by one, direct edges dropped"),
    M("h37", "graph", GR, "    if nx.is_directed_acyclic_graph(graph.directed):\n        return _get_nodes_in_directed_paths_dag",
      "    if False and nx.is_directed_acyclic_graph(graph.directed):\n        return _get_nodes_in_directed_paths_dag", OUT,
      "always the path-enumeration branch: same nodes on every graph; only arguments that are not nodes behave differently (NodeNotFound)"),
    M("h38", "graph", GR, "        rv = cls()\n        for n in nodes or []:\n            rv.add_node(n)\n        for u, v in directed or []:\n            rv.add_directed_edge(u, v)\n        for u, v in undirected or []:\n            rv.add_undirected_edge(u, v)\n        return rv\n\n    @classmethod\n    def from_str_edges",
      "        rv = cls()\n        for u, v in directed or []:\n            rv.add_directed_edge(u, v)\n        for u, v in undirected or []:\n            rv.add_undirected_edge(u, v)\n        return rv\n\n    @classmethod\n    def from_str_edges", ["C14"],
      "from_edges ignores `nodes`"),
    M("h39", "graph", GR, "        if directed is None and undirected is None:\n", "        if directed is None or undirected is None:\n", ["C14"],
      "from_edges: or vs and, one omitted edge list is an error"),
    M("h40", "graph", GR, "            and (self.directed.edges() == other.directed.edges())\n            and (self.undirected.edges() == other.undirected.edges())\n",
      "            and (self.directed.edges() == other.directed.edges())\n", ["C14"], "__eq__ ignores the bidirected edges"),
    M("h41", "graph", GR, "            and self.nodes() == other.nodes()\n", "            and len(self.nodes()) == len(other.nodes())\n", ["C14"],
      "__eq__ compares the number of nodes only (edge-less nodes with different names)"),
    M("h42", "graph", GR, "        self.directed.add_edge(u, v, **attr)\n        self.undirected.add_node(u)\n        self.undirected.add_node(v)\n",
      "        self.directed.add_edge(u, v, **attr)\n        self.undirected.add_node(u)\n", ["C14"],
      "add_directed_edge does not register the head in the bidirected part (districts lose it)"),
    M("h43", "graph", GR, "    rv = {vertices} if isinstance(vertices, Variable) else set(vertices)\n",
      "    rv = {vertices} if isinstance(vertices, Variable) else vertices if isinstance(vertices, set) else set(vertices)\n", EQ,
      "missing copy of a set argument: no operation mutates it"),
    M("h44", "graph", GR, "    return [(u, v) for u, v in graph.edges() if u not in vertices and v not in vertices]\n",
      "    return [(u, v) for u, v in graph.edges() if u not in vertices or v not in vertices]\n", ["C14"], "_exclude_adjacent: or vs and"),
    M("h45", "graph", GR, "            and (self.directed.edges() == other.directed.edges())\n", "            and (set(self.directed.edges()) <= set(other.directed.edges()))\n", ["C14"],
      "__eq__: subset vs equality of the directed edges"),
    M("h47", "graph", GR, "            and self.nodes() == other.nodes()\n", "            and list(self.nodes()) == list(other.nodes())\n", ["C14"],
      "__eq__ compares the node LISTS: equal graphs built in different insertion orders are unequal"),
    M("h48", "graph", GR, "            and (self.undirected.edges() == other.undirected.edges())\n", "            and (set(self.undirected.edges()) == set(other.undirected.edges()))\n", ["C14"],
      "__eq__ compares the stored orientation of the bidirected edges (insertion-order dependent)"),
    M("h49", "graph", GR, "            isinstance(other, NxMixedGraph)\n            and self.nodes() == other.nodes()\n", "            self.nodes() == other.nodes()\n", OUT,
      "__eq__ without the isinstance test: comparing with a non-graph raises AttributeError instead of answering False; the property compares graphs with graphs"),
    M("h50", "graph", GR, "        itt.chain.from_iterable(nx.algorithms.dag.ancestors(graph, source) for source in sources)\n",
      "        itt.chain.from_iterable(nx.algorithms.dag.ancestors(graph, source) for source in list(sources)[:1])\n", ["C14"],
      "wrong iteration target: ancestors of one member of the set only"),
    M("h52", "graph", GR, "            for successor in self.directed.successors(node):\n                blanket.add(successor)\n",
      "            for successor in self.directed.successors(node):\n                if successor in nodes:\n                    continue\n                blanket.add(successor)\n", EQ,
      "children inside the query are skipped: they are removed from the result anyway and their parents are collected when they are visited as query nodes"),
    M("h55", "graph", GR, "                (u.intervene(variables), v.intervene(variables))\n                for u, v in self.directed.edges()\n",
      "                (u, v.intervene(variables))\n                for u, v in self.directed.edges()\n", ["C14"],
      "intervene: the tail of a directed edge is not relabelled, plain copies of the nodes appear"),
    M("h57", "graph", GR, "        if tc.has_edge(source, target):\n            rv.add(source)\n", "        if graph.has_edge(source, target):\n            rv.add(source)\n", ["C14"],
      "stale variable (graph instead of its transitive closure): the endpoints of a path with two or more edges are not returned"),
    M("h46", "graph", GR, "        vertices = _ensure_set(vertices)\n        return self.from_edges(\n            nodes=self.nodes() - vertices,\n",
      "        vertices = _ensure_set(vertices)\n        self.directed.remove_nodes_from(vertices)\n        return self.from_edges(\n            nodes=self.nodes() - vertices,\n", ["C14"],
      "remove_nodes_from mutates the receiver (directed part only)"),

    # =============================================================== simplify_latent.py + LV-DAG conversion of graph.py
    M("k01", "latent", GR, "    rv.add_nodes_from(nodes or ())\n", "", ["C16"], "defect F7a re-introduced: edge-less nodes are lost by to_latent_variable_dag"),
    M("k02", "latent", GR, "    for u, v in sorted(bi_edges_list):\n", "    for u, v in bi_edges_list:\n", OUT,
      "sorted vs unsorted: the generated latents are numbered in edge order; the round trip is unaffected"),
    M("k03", "latent", GR, "        latent_node = next(name for name in latent_names if name not in rv)\n", "        latent_node = next(latent_names)\n", ["C16"],
      "name collision u_i re-introduced"),
    M("k05", "latent", GR, "        rv.add_edge(latent_node, u)\n        rv.add_edge(latent_node, v)\n", "        rv.add_edge(latent_node, u)\n", ["C16"],
      "the latent of a bidirected edge gets one child"),
    M("k06", "latent", GR, "    nx.set_node_attributes(rv, False, tag)\n", "    nx.set_node_attributes(rv, False, DEFAULT_TAG)\n", ["C16"],
      "stale constant: observed nodes are labelled under the default key whatever `tag` says"),
    M("k07", "latent", GR, "        for node, data in graph.nodes.items():\n            if not data[tag]:\n                rv.add_node(node)\n", "", ["C16"],
      "defect F7a (other direction): from_latent_variable_dag loses edge-less observed nodes"),
    M("k08", "latent", GR, "                for a, b in itt.combinations(graph.successors(node), 2):\n", "                for a, b in itt.combinations(sorted(graph.successors(node)), 2):\n", EQ,
      "sorted children: same pairs"),
    M("k09", "latent", GR, "                for a, b in itt.combinations(graph.successors(node), 2):\n", "                for a, b in itt.pairwise(graph.successors(node)):\n", ["C16"],
      "only consecutive children of a latent are joined"),
    M("k10", "latent", GR, "            else:\n                for child in graph.successors(node):\n                    rv.add_directed_edge(node, child)\n        return rv\n",
      "            else:\n                for child in graph.predecessors(node):\n                    rv.add_directed_edge(node, child)\n        return rv\n", ["C16"],
      "wrong iteration target: directed edges reversed when reading the DAG back"),
    M("k12", "latent", GR, "            start=start,\n            tag=tag,\n        )\n", "            start=start,\n        )\n", ["C16"],
      "argument not forwarded: a custom tag is ignored by to_latent_variable_dag, reading back under that tag fails"),
    M("k13", "latent", LAT, "            if node in latents:\n                data[tag] = True\n", "            data[tag] = node in latents\n", ["C16"],
      "evans_simplify overwrites the tag of every node: the latents of the bidirected edges become observed"),
    M("k15", "latent", LAT, "    _, redundant = remove_redundant_latents(graph, tag=tag)\n", "    redundant: set[Variable] = set()\n", OUT,
      "rule 4 skipped: the result is not irredundant, but observed nodes, idempotence and the projection are unaffected"),
    M("k16", "latent", LAT, "    while widows := set(iter_widow_latents(graph, tag=tag)):\n", "    if widows := set(iter_widow_latents(graph, tag=tag)):\n", ["C16"],
      "defect F7b re-introduced: one pass of widow removal (not idempotent)"),
    M("k17", "latent", LAT, "        if graph.out_degree(node) == 1:\n", "        if graph.out_degree(node) <= 1:\n", EQ, "<= vs ==: widows are gone when rule 3 runs"),
    M("k18", "latent", LAT, "        if graph.out_degree(node) == 1:\n", "        if graph.out_degree(node) == 2:\n", ["C16"], "off by one: latents with two children are removed"),
    M("k19", "latent", LAT, "        if not graph.out_edges(node):\n", "        if not graph.in_edges(node):\n", ["C16"], "widow test on in-edges: exogenous latents are removed"),
    M("k20", "latent", LAT, "        graph.add_edges_from(itt.product(parents, children))\n", "", ["C16"], "rule 1 does not wire the parents to the children"),
    M("k21", "latent", LAT, "        graph.add_edges_from(itt.product(parents, children))\n", "        graph.add_edges_from(itt.product(children, parents))\n", ["C16"],
      "swapped arguments: children -> parents"),
    M("k22", "latent", LAT, "        while new_node in graph:\n", "        if new_node in graph:\n", ["C16"], "_prime collision handled once only"),
    M("k23", "latent", LAT, "        graph.add_node(new_node, **{tag: True})\n", "        graph.add_node(new_node, **{tag: False})\n", ["C16"], "the exogenous copy is observed"),
    M("k24", "latent", LAT, "        children = set(graph.successors(node))\n        if 0 == len(children):\n            continue\n", "        children = set(graph.successors(node))\n", OUT,
      "rule 1 also rewrites childless latents (the copy is a widow and is removed by rule 2): only the reported widow names change"),
    M("k25", "latent", LAT, "    for node in nx.topological_sort(graph):\n        if graph.nodes[node][tag]:\n", "    for node in list(graph.nodes):\n        if graph.nodes[node][tag]:\n", OUT,
      "insertion order instead of topological order, and a snapshot instead of a lazy walk over the graph being rewritten: rule 1 commutes, so observed nodes, "
      "idempotence and the projection are unaffected (no oracle failure in 100 000 cases of the extended search); the `_prime` names and the reported sets differ"),
    M("k26", "latent", LAT, "        if left_children == right_children and left > right:\n", "        if left_children == right_children and left >= right:\n", ["C16"],
      "> vs >=: every latent is redundant with respect to itself"),
    M("k27", "latent", LAT, "        elif left_children < right_children:\n", "        elif left_children <= right_children and left != right:\n", ["C16"],
      "subset vs proper subset: both latents of a duplicate pair are removed"),
    M("k28", "latent", LAT, "        if left_children == right_children and left > right:\n", "        if left_children == right_children and left < right:\n", OUT,
      "the other duplicate is kept: same projection"),
    M("k50", "latent", LAT, "        elif left_children < right_children:\n", "        elif left_children > right_children:\n", ["C16"],
      "< vs >: the latent with the LARGER child set is called redundant"),
    M("k31", "latent", LAT, "    return NxMixedGraph.from_latent_variable_dag(simplify_results.graph, tag=tag)\n", "    return NxMixedGraph.from_latent_variable_dag(lv_dag, tag=tag)\n", EQ,
      "the simplifier works in place: same object"),
    M("k37", "latent", LAT, "        parents = set(graph.predecessors(node))\n        if 0 == len(parents):\n",
      "        parents = {p for p in graph.predecessors(node) if not graph.nodes[p][tag]}\n        if 0 == len(parents):\n", ["C16"],
      "only observed parents count: a latent below a latent is never made exogenous"),
    M("k39", "latent", GR, "    rv.add_nodes_from(itt.chain.from_iterable(bi_edges_list))\n", "", EQ,
      "to_latent_variable_dag always passes every node"),
    M("k40", "latent", LAT, "        for child in children:\n            graph.add_edge(new_node, child)\n", "        for child in children:\n            graph.add_edge(new_node, child)\n            break\n", ["C16"],
      "early exit: the exogenous copy reaches one child only"),
    M("k41", "latent", LAT, "    _ = transform_latents_with_parents(graph, tag=tag)\n    _, widows = remove_widow_latents(graph, tag=tag)\n",
      "    _, widows = remove_widow_latents(graph, tag=tag)\n    _ = transform_latents_with_parents(graph, tag=tag)\n", OUT,
      "rule 2 before rule 1: the final graph is the same (rule 1 never turns a latent with children into a widow); only the reported widow set differs "
      "(chains of childless latents are reported under their own names instead of the names of their exogenous copies)"),
    M("k42", "latent", LAT, "    remove = set(iter_unidirectional_latents(graph, tag=tag))\n    graph.remove_nodes_from(remove)\n", "    remove = set(iter_unidirectional_latents(graph, tag=tag))\n", OUT,
      "rule 3 reports but does not remove: single-child exogenous latents stay, projection unchanged"),
    M("k43", "latent", LAT, "    lv_dag = NxMixedGraph.to_latent_variable_dag(graph, tag=tag)\n    if latents is not None:\n", "    lv_dag = NxMixedGraph.to_latent_variable_dag(graph, tag=tag)\n    if latents:\n", EQ,
      "truthiness vs `is not None`: an empty collection marks nothing either way; a one-shot iterable is truthy"),

    # =============================================================== group sepG: mutants aimed at exactly the shapes that the
    # generator extension of round 5 added (deep collider descendants / ancestral depth, fully conditioned districts, large
    # separators, name kinds, integer cut-offs, the strongly-connected-component rule with non-adjacent endpoints, aliasing of
    # returned graphs, counterfactual-variable nodes, duplicates, tag values, parser-table names, DSL operators).
    #     python3 tools/mutants_A.py --repo /work/sepG/repo --group sepG --json tools/mutants_G.last.json --md tools/mutants_G.md
    M("u01", "sepG", CI, "    keep = graph.ancestors_inclusive(named)\n",
      "    keep = set(named)\n    for _ in range(2):\n        keep |= {p for n in keep for p in graph.directed.predecessors(n)}\n", ["C04", "C15"],
      "ancestral set truncated at depth 2 (parents and grandparents of the named nodes): a collider opened by a conditioned descendant three or more steps below, "
      "or a common ancestor three steps above both endpoints, is lost (the emulated mutant of gap review G04-1: 0 verdicts changed before the structured shapes)", run=["C04", "C15"]),
    M("u02", "sepG", CI, "    keep = graph.ancestors_inclusive(named)\n",
      "    keep = set(named)\n    for _ in range(3):\n        keep |= {p for n in keep for p in graph.directed.predecessors(n)}\n", ["C04", "C15"],
      "ancestral set truncated at depth 3: needs a descendant chain of four steps below a collider, or a fork four steps above both endpoints (>= 7 nodes)", run=["C04", "C15"]),
    M("u03", "sepG", CI, "        clique = district | ancestral_graph.get_markov_pillow(district)\n",
      "        clique = district | ancestral_graph.get_markov_pillow(district - conditions)\n", ["C04", "C15"],
      "'conditioned members are deleted anyway': only the parents of the UNCONDITIONED members of a district join its clique, so private parents of different conditioned "
      "members are not married (a -> m <-> n <- b given {m, n}; a variant of seeded/C04c that also hits partly conditioned districts). C15: unlike C04c a PARTLY conditioned "
      "district is affected too, so pairs that no set separates get a judgement with a conditioned district member in it", run=["C04", "C15"]),
    M("u04", "sepG", CI, "        stop = None if max_conditions is None else max_conditions + 1\n",
      "        stop = 5 if max_conditions is None else min(max_conditions + 1, 5)\n", ["C15"],
      "size cap: conditioning sets of five or more nodes are never tried (pairs whose minimum separator has size >= 5: five or six parallel routes)", run=["C15"]),
    M("u05", "sepG", ST, "        left, right = sorted([left, right], key=str)\n", "        left, right = sorted([left, right], key=lambda v: (len(str(v)), str(v)))\n", ["C04", "C15"],
      "shorter name first: with equal-length names (A00..A99) this IS the string order; with names of different lengths (X10 vs X2, a vs B1, counterfactual nodes) the record is not canonical", run=["C04", "C15"]),
    M("v01", "sepG", SIG, "        for path in nx.all_simple_paths(graph.disorient(), left, right, cutoff=cutoff)\n",
      "        for path in nx.all_simple_paths(graph.disorient(), left, right, cutoff=cutoff and min(cutoff, 4))\n", ["C20"],
      "an explicit integer cut-off is capped at 4: with cutoff >= n-1 the verdict must be the unbounded one, connecting paths of five or more edges are lost (cutoff omitted / None unaffected)", run=["C20"]),
    M("v02", "sepG", SIG, "        for path in nx.all_simple_paths(graph.disorient(), left, right, cutoff=cutoff)\n",
      "        for path in nx.all_simple_paths(graph.disorient(), left, right, cutoff=cutoff and cutoff - 1)\n", ["C20"],
      "off by one in an explicit cut-off (read as a number of NODES): with cutoff = n-1 a connecting path through every node of the graph is lost", run=["C20"]),
    M("v03", "sepG", SIG, "        and (middle not in conditions or middle in conditions.intersection(sigma[right]))\n",
      "        and (middle not in conditions or middle in conditions.intersection(sigma[left]))\n", ["C20"],
      "stale index in the right chain: the class of the node the route comes FROM instead of the node it goes to; unchanged on acyclic graphs (singleton classes), on a cycle "
      "a conditioned node where the route LEAVES the component is open in one reading direction only (asymmetric); needs non-adjacent endpoints around a cycle", run=["C20"]),
    M("v04", "sepG", SIG, "        and bool(graph.descendants_inclusive(middle) & conditions)\n",
      "        and bool(({middle} | set(graph.directed.successors(middle))) & conditions)\n", ["C20"],
      "descendants replaced by children: a collider whose nearest conditioned descendant is two or more steps below stays closed (cf. seeded/C20d)", run=["C20"]),
    M("v05", "sepG", SIG, "    d = middle in conditions.intersection(sigma[left]).intersection(sigma[right])\n",
      "    d = middle in conditions.intersection(sigma[left])\n", ["C20"],
      "dropped operand in the fork: a conditioned fork node in the component of its LEFT child only is open, i.e. open in one reading direction (asymmetric): a conditioned "
      "cycle node with one child on the cycle and one child outside its component, non-adjacent endpoints", run=["C20"]),
    # ---------- C12 (print / parse round trip): the parser's name table, operators used to build, long comma lists
    # ---- the parser's name table (G12.2)
    M("q01", "sepG", PARSER, "        LOCALS[name_underscored] = Variable(name_underscored)\n",
      "        LOCALS[name_underscored] = Variable(name if name_underscored == \"K_7\" else name_underscored)\n", ["C12"],
      "ONE name of the parser's table is bound to the wrong variable: `K_7` reads as Variable('K7'). Never drawn by the old COMMON / EXOTIC lists", run=["C12"]),
    M("q02", "sepG", PARSER, "    if letter in {\"P\", \"Q\"}:\n", "    if letter in {\"P\", \"Q\", \"V\"}:\n", ["C12"],
      "one LETTER is missing from the parser's table: every printed text with V, V0..V9, V_0..V_9 raises NameError (V was one of the 10 letters never drawn)", run=["C12"]),
    M("q03", "sepG", PARSER, "        name = f\"{letter}{index}\"\n", "        name = f\"{letter}{index}\" if (letter, index) != (\"Pi\", 3) else \"Pi_3\"\n", ["C12"],
      "the slot of `Pi3` is filled with Variable('Pi_3') (and `Pi3` is missing): Pi<d> forms were only ever used as populations π1 / π2 / Pi1", run=["C12"]),
    # ---- operators used to BUILD an expression (G12.1)
    M("q04", "sepG", DSL, "        return self._new(self.distribution.intervene(variables))\n",
      "        return self._new(self.distribution.uncondition().intervene(variables))\n", ["C12"],
      "Probability.intervene (`P(Y | Z) @ X`) loses the conditional bar: the parents are appended to the children, UNSORTED, so the built object is not in the "
      "builders' normal form; it prints `P[X](Y, Z)` / `P[X](Z, Y)` and the text parses to the sorted object: object-equality clause fails for `P(Z | Y) @ X`", run=["C12"]),
    M("q05", "sepG", DSL, "        return self._new(self.distribution.intervene(variables))\n",
      "        return Probability(self.distribution.intervene(variables))\n", OUT,
      "Probability.intervene drops the population: `PP[π1](Y) @ X` builds P[X](Y). The object is a well-formed Probability and round-trips; only the "
      "correspondence stream `built` (model of `@` on a PopulationProbability keeps the population) notices", run=["C12"]),
    M("q06", "sepG", DSL, "    def __neg__(self) -> CounterfactualVariable:\n        return self._with_star(False)\n",
      "    def __neg__(self) -> CounterfactualVariable:\n        return Variable.__neg__(self)\n", OUT,
      "CounterfactualVariable.__neg__ drops the intervention subscripts: `-(Y @ X)` builds -Y. Well-formed object, round-trips; correspondence only", run=["C12"]),
    M("q07", "sepG", DSL, "                parents=parents.children,  # don't think about this too hard\n",
      "                parents=parents.children[:1],  # don't think about this too hard\n", OUT,
      "Variable.given with a Distribution on the right (`A | B & C`, the documented idiom) keeps only the first parent. Well-formed object; correspondence only", run=["C12"]),
    M("q08", "sepG", DSL, "        return self._intervention(not self.star)\n", "        return self._intervention(True)\n", OUT,
      "Variable.invert on an already marked variable: `~+Y` stays +Y (unmarked and -Y unchanged). Well-formed object; correspondence only", run=["C12"]),
    M("q09", "sepG", DSL, "            children=_upgrade_ordering((*self.children, *_upgrade_variables(children))),\n            parents=self.parents,\n",
      "            children=_upgrade_ordering((*self.children, *_upgrade_variables(children))),\n", OUT,
      "Distribution.joint (`(A | B) & C`, `&` applied to a conditional distribution) drops the parents. Well-formed object; correspondence only", run=["C12"]),
    # ---- size caps (G12.3)
    M("q10", "sepG", DSL, "        ranges = _list_to_y0(self._get_sorted_ranges())\n", "        ranges = _list_to_y0(self._get_sorted_ranges()[:4])\n", ["C12"],
      "Sum.to_y0 prints at most four ranges: Sum[A, B, C, D, E](..) loses E (the old generator stopped at three ranges)", run=["C12"]),
    M("q11", "sepG", DSL, "            for intervention in _sort_interventions(interventions)\n        )\n        return f\"P[{intervention_str}]",
      "            for intervention in _sort_interventions(interventions)[:4]\n        )\n        return f\"P[{intervention_str}]", ["C12"],
      "Probability.to_y0 prints at most four subscripts in the level-2 form P[..](..): a fifth common intervention disappears", run=["C12"]),
    M("q12", "sepG", DSL, "    return \", \".join(element.to_y0() for element in elements)\n",
      "    return \", \".join(element.to_y0() for element in tuple(elements)[:5])\n", ["C12"],
      "_list_to_y0 prints at most five elements: the sixth child (or range / parent) of a long comma list disappears (the old generator: <= 3 children, <= 2 parents)", run=["C12"]),
    # ---------- C14 (receivers with counterfactual nodes, aliasing of returned graphs, duplicates, foreign interventions, deep chains) and C16 (tag values, foreign latents, colliding prefix)
    # =============================================================== C14: aliasing, counterfactual nodes, duplicates, foreign interventions
    M("r01", "sepG", GR, "            directed=self.directed.copy(),\n            undirected=self.undirected.copy(),\n",
      "            directed=self.directed.copy(),\n            undirected=self.undirected,\n", ["C14"],
      "aliasing: copy() shares the bidirected component with the receiver (nothing is modified during the call)", run=["C14"]),
    M("r02", "sepG", GR, "        rv = NxMixedGraph(directed=self.directed.copy(), undirected=self.undirected.copy())\n",
      "        rv = NxMixedGraph(directed=self.directed, undirected=self.undirected.copy())\n", ["C14"],
      "aliasing: moralize() shares the DIRECTED component (the moral links only touch the copy of the bidirected part, so the receiver "
      "is unchanged by the call itself)", run=["C14"]),
    M("r03", "sepG", GR, "        return self.from_edges(\n            nodes=self.nodes(),\n            directed=_exclude_source(self.directed, vertices),\n            undirected=self.undirected.edges(),\n        )\n",
      "        rv = self.from_edges(\n            nodes=self.nodes(),\n            directed=_exclude_source(self.directed, vertices),\n            undirected=[],\n        )\n        rv.undirected = self.undirected\n        return rv\n", ["C14"],
      "aliasing: remove_out_edges hands the receiver's bidirected graph object to the result ('it is unchanged anyway')", run=["C14"]),
    M("r04", "sepG", GR, "        n = Variable.norm(n)\n        self.directed.add_node(n)\n",
      "        n = Variable.norm(n).get_base()\n        self.directed.add_node(n)\n", ["C14"],
      "add_node normalises a counterfactual node to its base variable: edge-less counterfactual nodes of every rebuilt graph turn into plain ones", run=["C14"]),
    M("r05", "sepG", GR, "        self.directed.add_edge(u, v, **attr)\n",
      "        u, v = u.get_base(), v.get_base()\n        self.directed.add_edge(u, v, **attr)\n", ["C14"],
      "add_directed_edge normalises counterfactual endpoints to their base variables (two worlds of one variable are merged)", run=["C14"]),
    M("r06", "sepG", GR, "    rv = {vertices} if isinstance(vertices, Variable) else set(vertices)\n",
      "    rv = {vertices} if isinstance(vertices, Variable) else set(vertices)\n    if isinstance(vertices, list | tuple) and len(vertices) != len(rv):\n        raise ValueError(\"duplicate vertices\")\n", ["C14"],
      "defensive check that rejects a node collection naming an element twice (the parameter is Iterable[Variable])", run=["C14"]),
    M("r07", "sepG", GR, "        for node in nodes:\n            parents_of_district |= set(self.directed.predecessors(node))\n",
      "        seen: set[Variable] = set()\n        for node in nodes:\n            if node in seen:\n                break\n            seen.add(node)\n            parents_of_district |= set(self.directed.predecessors(node))\n", ["C14"],
      "get_markov_pillow stops at the first repeated node of the collection", run=["C14"]),
    M("r08", "sepG", GR, "        return self.from_edges(\n            nodes=[node.intervene(variables) for node in self.nodes()],\n",
      "        variables = {v for v in variables if Variable(v.name) in self.directed}\n        return self.from_edges(\n            nodes=[node.intervene(variables) for node in self.nodes()],\n", ["C14"],
      "intervene drops interventions on variables that are not nodes of the graph (subscripts lost; ValueError when none is left)", run=["C14"]),
    M("r09", "sepG", GR, "    return (+node not in interventions) and (-node not in interventions)\n",
      "    if any(i.name == node.name for i in interventions) and len({i.name for i in interventions}) != len(interventions):\n        return True\n    return (+node not in interventions) and (-node not in interventions)\n", ["C14"],
      "intervene with +X and -X of one variable keeps the edges into X (X is intervened whatever the sign: 'edges into the intervened nodes removed')", run=["C14"]),
    M("r10", "sepG", GR, "    if any(isinstance(v, Intervention) for v in rv):\n",
      "    if any(isinstance(v, Intervention | CounterfactualVariable) for v in rv):\n", ["C14"],
      "_ensure_set rejects counterfactual variables as well: subgraph / ancestors_inclusive ... of a counterfactual graph (what id_star does) raise", run=["C14"]),
    M("r11", "sepG", GR, "            undirected=_include_adjacent(self.undirected, vertices),\n",
      "            undirected=[(u, v) for u, v in _include_adjacent(self.undirected, vertices) if u != v],\n", ["C14"],
      "subgraph loses bidirected self-loops", run=["C14"]),
    M("r12", "sepG", GR, "        itt.chain.from_iterable(nx.algorithms.dag.ancestors(graph, source) for source in sources)\n",
      "        itt.chain.from_iterable(\n            nx.single_source_shortest_path_length(graph.reverse(copy=False), source, cutoff=5)\n            for source in sources\n        )\n", ["C14"],
      "ancestors_inclusive by a bounded search: ancestors more than 5 edges away are lost", run=["C14"]),
    # =============================================================== C16: tag values, foreign latents, colliding prefix, mixed names
    M("t01", "sepG", LAT, "        if graph.nodes[node][tag]:\n", "        if graph.nodes[node][tag] is True:\n", ["C16"],
      "iter_latents recognises a latent only by the bool True: nodes tagged 1 / numpy.True_ are treated as observed by every rule", run=["C16"]),
    M("t02", "sepG", GR, "            if not data[tag]:\n", "            if data[tag] is False:\n", ["C16"],
      "from_latent_variable_dag adds an edge-less observed node only when its tag is the bool False (0 / None / numpy.False_ are lost)", run=["C16"]),
    M("t03", "sepG", GR, "            if data[tag]:\n                for a, b in itt.combinations", "            if data[tag] is True:\n                for a, b in itt.combinations", ["C16"],
      "from_latent_variable_dag treats a latent tagged 1 / numpy.True_ as observed: directed edges out of a node that is not in the graph", run=["C16"]),
    M("t04", "sepG", LAT, "        for node, data in lv_dag.nodes(data=True):\n            if node in latents:\n                data[tag] = True\n",
      "        for node in latents:\n            lv_dag.nodes[node][tag] = True\n", ["C16"],
      "evans_simplify marks the named latents by lookup: KeyError for a name that is not a node (the documented behaviour is to ignore it)", run=["C16"]),
    M("t05", "sepG", LAT, "        for node, data in lv_dag.nodes(data=True):\n            if node in latents:\n                data[tag] = True\n",
      "        for node in latents:\n            lv_dag.add_node(node, **{tag: True})\n", "equivalent",
      "evans_simplify ADDS a latent for every named variable that is not a node: a childless latent, removed again by rule 2", run=["C16"]),
    M("t06", "sepG", GR, "        latent_node = next(name for name in latent_names if name not in rv)\n",
      "        latent_node = next(name for name in latent_names if name not in rv or prefix != DEFULT_PREFIX)\n", ["C16"],
      "the skip-taken-names loop only works for the default prefix: with a custom prefix / start that runs into node names an observed node is overwritten by a latent", run=["C16"]),
    M("t07", "sepG", GR, "    if prefix is None:\n        prefix = DEFULT_PREFIX\n", "    if not prefix:\n        prefix = DEFULT_PREFIX\n", "outside-property",
      "the empty prefix is replaced by the default one: only the NAMES of the generated latents change (round trip still exact); seen by the correspondence alone", run=["C16"]),
    M("t08", "sepG", LAT, "        if left_children == right_children and left > right:\n",
      "        if left_children == right_children and (len(left.name), left.name) > (len(right.name), right.name):\n", "outside-property",
      "rule 4 keeps the shorter name instead of the lower sort order: another representative of equal latents; identical on names of one length (A00..A15), differs on the mixed-name stream only; correspondence alone", run=["C16"]),
    M("t09", "sepG", GR, "    latent_names = (Variable(f\"{prefix}{i}\") for i in itt.count(start))\n",
      "    latent_names = (Variable(f\"{prefix}{i}\") for i in itt.count(max(start, 0)))\n", "outside-property",
      "a negative start is clamped to 0: names of generated latents only; correspondence alone", run=["C16"]),
]



FIXES = """## What the campaign changed in the checks

* **C14, `__eq__` was never exercised** (h40, h41, h45 missed, silently: exit 0).  The property names `graph.py:85-92 __eq__` as the
  equality graphs are compared with, the model has `MG.equiv` and the driver an unused `graph_eq` handler, but the harness compared
  canonical encodings only.  New operation `eq` (`_shape_eq`, ~2 600 cases per quick run): a graph against a second construction of the
  same graph (other insertion order, other constructor, node list omitted) or a graph that differs in exactly one thing (edge-less node
  added / dropped / renamed, a directed or bidirected edge added / dropped / reversed / moved / changed into the other kind, a node
  renamed), on either side of `==`.  Correspondence with `MG.equiv`; oracle from the definition (equal iff same node set, directed edge
  set, set of unordered bidirected pairs; symmetric; `!=` its negation; equal to its `copy()`; operands unchanged).
* **C14, the caller's node collection**: besides the receiver, the collection handed over as `vertices` / `sources` / `nodes` is now
  compared before / after every call (`the caller's node collection was modified by the call`); no one-site mutant needs it (every
  operation copies through `_ensure_set`), a two-site aliasing change (h13 + h43) does.
* **C15, unexpected exception classes were harness errors** (b04: `NodeNotFound` out of `get_conditional_independencies` on every ADMG
  with three nodes was reported as `no-failing-input-found`).  Every exception of the real call is now an outcome (`raised <class> on an
  ADMG` is an oracle failure with a replay).  Same change in C04, C20, C14, C16 (`_call`, `_errs`), where the list of expected classes
  could hide an `AttributeError` / `IndexError` / `RuntimeError` in the same way.
* **C15, retention policies on sets of different sizes** (c04 missed, silently): `policy_shape` generator (150 cases per quick run): a
  pair with a topologically LATE singleton separator and an EARLY separator of 2-3 nodes (u_i -> a, u_i -> v, v -> b), and the mirror
  image, mostly with `return_all=True`, limits {None, 2, 3, n}, both policies.  The random stream produced no pair on which a key that
  ranks the index sum before the size changes the answer.
* **C15, powerset oracle made sound**: it flagged a powerset that yields the same combinations in another order inside one size (p04),
  which no clause of C15 nor the docstring forbids.  It now requires: sizes never decrease, every combination of every admissible size
  exactly once.  The exact order is still compared with the model (correspondence).
* **C20, long connecting paths** (g24 missed, silently: default `cutoff` 4): `rand_long_path` generator (~4 % of the stream): ONE path of
  5-8 edges of random kinds between the endpoints, colliders opened by conditioning on them or on a fresh child, optionally closed at one
  place; `cutoff` omitted or `None` by form.  All other graphs of the stream have at most 6 nodes and many short alternatives.

Initial guesses revised after analysis (the `why` column has the argument): a01 and a20 break C04 but are *equivalent for C15* (the
minimum separator size is unchanged and every minimum-size set the mutant accepts is a true separator); g15 is *equivalent* (verdicts,
not single paths: confirmed by brute force); g16 and k25 change behaviour only outside the property's clauses.

No mutant revealed a defect of the unchanged y0: all five checks exit 0 on the unchanged tree for seeds 0-3 after the changes.
""".split("\n")

# ---------------------------------------------------------------------------------------------------- running

def sh(*a, **k):
    return subprocess.run(list(a), capture_output=True, text=True, **k)


def run_check(prop, repo, scratch, timeout):
    ev, rp = scratch / "ev", scratch / "rp"
    shutil.rmtree(rp, ignore_errors=True)
    env = dict(os.environ, Y0_REPO=str(repo), VERIF_EVIDENCE_DIR=str(ev), VERIF_REPLAY_DIR=str(rp), VERIF_NO_ESCALATE="1",
               PYTHONDONTWRITEBYTECODE="1")
    env.pop("VERIF_SEED", None)
    if os.environ.get("MUTA_SEED"):
        env["VERIF_SEED"] = os.environ["MUTA_SEED"]
    t0 = time.time()
    p = subprocess.Popen([str(VERIF / "check"), prop], stdout=subprocess.PIPE, stderr=subprocess.STDOUT, text=True, env=env,
                         cwd=str(VERIF), start_new_session=True)
    timed_out = False
    try:
        out, _ = p.communicate(timeout=timeout)
    except subprocess.TimeoutExpired:
        timed_out = True
        try:
            os.killpg(p.pid, signal.SIGKILL)       # only the session this tool started
        except ProcessLookupError:
            pass
        out, _ = p.communicate()
    wall = round(time.time() - t0, 1)
    viol = [ln for ln in out.splitlines() if ln.startswith("VIOLATION")]
    concrete = [ln for ln in viol if "no-failing-input-found" not in ln]
    summ = next((ln for ln in out.splitlines() if ln.startswith(f"[{prop}] tier=")), "")
    m = re.search(r"cases=(\d+) compared=(\d+) disagreements=(\d+) oracle_failures=(\d+)", summ)
    says, rcase = "", None
    if concrete:
        try:
            d = json.load(open(concrete[0].split("replay=")[1].split()[0]))
            says = str(d.get("oracle_says"))[:220]
            rcase = d.get("case")
        except Exception:  # noqa: BLE001
            pass
    elif viol:
        try:
            d = json.load(open(viol[0].split("replay=")[1].split()[0]))
            dis = d.get("correspondence_disagreements") or []
            he = d.get("harness_errors") or []
            if dis:
                says = "disagreement: " + json.dumps(dis[0])[:220]
            elif he:
                says = "harness error: " + he[0]["trace"][-200:]
        except Exception:  # noqa: BLE001
            pass
    outcome = "timeout" if timed_out else "caught-replay" if concrete else "correspondence-only" if viol else \
        "missed" if p.returncode == 0 else f"exit-{p.returncode}-without-violation"
    return {"prop": prop, "exit": p.returncode, "violation_lines": len(viol), "concrete_replay": bool(concrete), "outcome": outcome,
            "cases": int(m.group(1)) if m else None, "disagreements": int(m.group(3)) if m else None,
            "oracle_failures": int(m.group(4)) if m else None, "wall_s": wall, "says": says, "replay_case": rcase,
            "tail": "" if m else out[-600:]}


def worker(k, queue, results, args, lock):
    scratch = Path(f"/tmp/mutA-{os.getpid()}-{k}")
    repo = scratch / "repo"
    shutil.rmtree(scratch, ignore_errors=True)
    scratch.mkdir(parents=True)
    try:
        r = sh("git", "clone", "-q", "--no-hardlinks", str(args.repo), str(repo))
        if r.returncode != 0:
            raise RuntimeError("clone failed: " + r.stderr)
        while True:
            with lock:
                if not queue:
                    break
                m = queue.pop(0)
            f = repo / m["file"]
            src = f.read_text()
            n = src.count(m["old"])
            rec = {"id": m["id"], "group": m["group"], "file": m["file"], "expect": m["expect"], "why": m["why"], "runs": []}
            if n != 1:
                rec["error"] = f"pattern occurs {n} times"
            else:
                try:
                    f.write_text(src.replace(m["old"], m["new"]))
                    for p in m["run"]:
                        if args.only_prop and p != args.only_prop:
                            continue
                        res = run_check(p, repo, scratch, args.timeout)
                        rec["runs"].append(res)
                        with lock:
                            print(f"{m['id']:5s} {p} {res['outcome']:20s} fails={res['oracle_failures']} dis={res['disagreements']} "
                                  f"{res['wall_s']}s expect={m['expect']} {res['says'][:110]}", flush=True)
                finally:
                    f.write_text(src)
            with lock:
                results.append(rec)
    finally:
        shutil.rmtree(scratch, ignore_errors=True)


def suite_worker(k, queue, results, args, lock):
    """does the pinned 387-test suite (tools/baseline.py) kill the mutant?"""
    scratch = Path(f"/tmp/mutA-{os.getpid()}-s{k}")
    repo = scratch / "repo"
    shutil.rmtree(scratch, ignore_errors=True)
    scratch.mkdir(parents=True)
    try:
        r = sh("git", "clone", "-q", "--no-hardlinks", str(args.repo), str(repo))
        if r.returncode != 0:
            raise RuntimeError("clone failed: " + r.stderr)
        while True:
            with lock:
                if not queue:
                    break
                m = queue.pop(0)
            f = repo / m["file"]
            src = f.read_text()
            if src.count(m["old"]) != 1:
                continue
            try:
                f.write_text(src.replace(m["old"], m["new"]))
                t0 = time.time()
                p = subprocess.Popen(["python3", str(VERIF / "tools" / "baseline.py"), str(repo)], stdout=subprocess.PIPE,
                                     stderr=subprocess.STDOUT, text=True, start_new_session=True,
                                     env=dict(os.environ, PYTHONDONTWRITEBYTECODE="1"))
                try:
                    out, _ = p.communicate(timeout=1500)
                except subprocess.TimeoutExpired:
                    os.killpg(p.pid, signal.SIGKILL)
                    out, _ = p.communicate()
                    out += "\nTIMEOUT"
                mm = re.search(r"passed=(\d+) baseline=(\d+) baseline_missing=(\d+)", out)
                rec = {"id": m["id"], "suite_kills": p.returncode != 0, "baseline_missing": int(mm.group(3)) if mm else None,
                       "first_missing": [ln.strip()[8:] for ln in out.splitlines() if ln.strip().startswith("MISSING")][:3],
                       "wall_s": round(time.time() - t0, 1)}
                with lock:
                    results.append(rec)
                    print(f"{m['id']:5s} suite {'KILLS' if rec['suite_kills'] else 'survives'} missing={rec['baseline_missing']} "
                          f"{rec['wall_s']}s {rec['first_missing'][:1]}", flush=True)
            finally:
                f.write_text(src)
    finally:
        shutil.rmtree(scratch, ignore_errors=True)


def classify(rec, run):
    """one of: caught / corr-only / MISSED (property broken)  |  silent / corr-only / flagged (property not broken)"""
    broken = isinstance(rec["expect"], list) and run["prop"] in rec["expect"]
    o = run["outcome"]
    if broken:
        return {"caught-replay": "caught with replay", "correspondence-only": "correspondence only", "missed": "MISSED"}.get(o, o)
    return {"caught-replay": "flagged with replay", "correspondence-only": "correspondence only", "missed": "silent"}.get(o, o)


def summarise(results):
    """{prop: {"breaking": {class: n}, "not-breaking": {class: n}}}"""
    out = {}
    for rec in results:
        for run in rec.get("runs", []):
            broken = isinstance(rec["expect"], list) and run["prop"] in rec["expect"]
            d = out.setdefault(run["prop"], {"breaking": {}, "not-breaking": {}})["breaking" if broken else "not-breaking"]
            c = classify(rec, run)
            d[c] = d.get(c, 0) + 1
    return out


MD_TITLE = None        # --title: heading of the report of another group (the 'what the campaign changed' text of campaign A is then left out)


def write_md(path, results, before=None, suite=None):
    suite = suite or {}
    props = ["C04", "C15", "C20", "C14", "C16", "C12"]
    lines = [MD_TITLE or "# Mutation campaign A (C04, C15, C20, C14, C16)", "",
             "Generated by `tools/mutants_A.py` (plain quick tier, `VERIF_NO_ESCALATE=1`, seed 0). One hand-written one-site mutant of y0 at a",
             "time in a scratch clone; `breaking` = the mutant violates the statement of the property, `not breaking` = equivalent or",
             "outside the property (see the `why` of each mutant in the tool).", ""]

    def table(title, summ):
        lines.append(f"## {title}")
        lines.append("")
        lines.append("| property | breaking: caught with replay | breaking: correspondence only | breaking: MISSED | not breaking: silent | not breaking: correspondence only | not breaking: flagged with replay | other |")
        lines.append("|---|---|---|---|---|---|---|---|")
        for p in props:
            s = summ.get(p)
            if not s:
                continue
            b, nb = s["breaking"], s["not-breaking"]
            known = {"caught with replay", "correspondence only", "MISSED"}
            other = {k: v for k, v in b.items() if k not in known}
            other.update({k: v for k, v in nb.items() if k not in {"silent", "correspondence only", "flagged with replay"}})
            lines.append(f"| {p} | {b.get('caught with replay', 0)} | {b.get('correspondence only', 0)} | {b.get('MISSED', 0)} | "
                         f"{nb.get('silent', 0)} | {nb.get('correspondence only', 0)} | {nb.get('flagged with replay', 0)} | {other or ''} |")
        lines.append("")

    if before:
        table(f"Before the harness fixes of this campaign (the {len(before)} mutants of round 1, final classification)", summarise(before))
        table(f"After ({len(results)} mutants: 10 were added after round 1)", summarise(results))
    else:
        table("Result", summarise(results))
    lines += [] if MD_TITLE else FIXES
    bmap0 = {(rec["id"], run["prop"]): classify(rec, run) for rec in before or [] for run in rec.get("runs", [])}
    fixed = [(rec, run) for rec in results for run in rec.get("runs", [])
             if classify(rec, run) == "caught with replay" and bmap0.get((rec["id"], run["prop"]), "caught with replay") != "caught with replay"]
    lines += ["## Mutants that break a property and were NOT caught with a replay before the fixes (class b)", "",
              "| id | check | before | after | what the change is | replay after the fix says |", "|---|---|---|---|---|---|"]
    for rec, run in fixed:
        lines.append(f"| {rec['id']} | {run['prop']} | {bmap0[(rec['id'], run['prop'])]} | caught with replay ({run['oracle_failures']} failing inputs) | {rec['why']} | "
                     f"{(run['says'] or '').replace('|', '/')[:200]} |")
    still = [(rec, run) for rec in results for run in rec.get("runs", []) if classify(rec, run) in ("MISSED", "correspondence only")
             and isinstance(rec["expect"], list) and run["prop"] in rec["expect"]]
    lines += ["", f"Property-breaking mutants still not caught with a replay after the fixes: {len(still)}"
              + ("" if not still else " -- " + ", ".join(f"{r['id']}/{u['prop']}" for r, u in still)), ""]
    lines += ["## Mutants not caught with a replay because they do not break the property (class a)", "",
              "`silent` = the check exits 0; `correspondence only` = the model and the code differ on some input (exit 1, `no-failing-input-found`), which is",
              "what a behavioural change outside every clause of the property should produce; `pinned suite` = does `tools/baseline.py` (387 tests) kill it.", "",
              "| id | check | outcome | class | pinned suite | why it does not break the property |", "|---|---|---|---|---|---|"]
    for rec in sorted(results, key=lambda r: r["id"]):
        for run in rec.get("runs", []):
            broken = isinstance(rec["expect"], list) and run["prop"] in rec["expect"]
            if broken or run["outcome"] == "caught-replay":
                continue
            sk = suite.get(rec["id"])
            sk = "" if sk is None else ("kills" if sk["suite_kills"] else "survives")
            cls = rec["expect"] if not isinstance(rec["expect"], list) else f"equivalent for {run['prop']} (breaks {','.join(rec['expect'])})"
            lines.append(f"| {rec['id']} | {run['prop']} | {classify(rec, run)} | {cls} | {sk} | {rec['why']} |")
    flagged = [(rec, run) for rec in results for run in rec.get("runs", []) if classify(rec, run) == "flagged with replay"]
    lines += ["", "Mutants outside the property statement that a check nevertheless reports with a replay (a clause of the check that is taken from the",
              "documentation of the function, not from the property): " + (", ".join(f"{r['id']}/{u['prop']} ({(u['says'] or '')[:90]})" for r, u in flagged) or "none"), ""]
    if suite:
        caught_ids = {rec["id"] for rec in results if any(classify(rec, run) == "caught with replay" for run in rec.get("runs", []))}
        surv = sorted(i for i in caught_ids if i in suite and not suite[i]["suite_kills"])
        lines += [f"Pinned suite: of the {len(caught_ids)} mutants that a check catches with a replay, the 387 pinned tests kill "
                  f"{sum(1 for i in caught_ids if i in suite and suite[i]['suite_kills'])} and let {len(surv)} pass ({', '.join(surv)}).", ""]
    bmap = {}
    for rec in before or []:
        for run in rec.get("runs", []):
            bmap[(rec["id"], run["prop"])] = classify(rec, run)
    lines += ["## Every mutant", "", "| id | file | expect | check | outcome" + (" (before)" if before else "") + " | failing inputs / disagreements | wall | pinned suite | what the change is | first replay says |",
              "|---|---|---|---|---|---|---|---|---|---|"]
    for rec in sorted(results, key=lambda r: r["id"]):
        exp = ",".join(rec["expect"]) if isinstance(rec["expect"], list) else rec["expect"]
        if rec.get("error"):
            lines.append(f"| {rec['id']} | {Path(rec['file']).name} | {exp} | - | NOT APPLICABLE: {rec['error']} | | | | {rec['why']} | |")
        sk = suite.get(rec["id"])
        sk = "" if sk is None else ("hangs" if sk["baseline_missing"] is None else "kills" if sk["suite_kills"] else "survives")
        for run in rec.get("runs", []):
            c = classify(rec, run)
            b = bmap.get((rec["id"], run["prop"]))
            cb = f"{c} ({b})" if b and b != c else c
            lines.append(f"| {rec['id']} | {Path(rec['file']).name} | {exp} | {run['prop']} | {cb} | {run['oracle_failures']} / {run['disagreements']} | "
                         f"{run['wall_s']} s | {sk} | {rec['why']} | {(run['says'] or '').replace('|', '/')[:160]} |")
    Path(path).write_text("\n".join(lines) + "\n")


def main():
    ap = argparse.ArgumentParser()
    ap.add_argument("--repo", required=True)
    ap.add_argument("--group", default=None)
    ap.add_argument("--id", default=None, help="comma separated mutant ids")
    ap.add_argument("--only-prop", default=None)
    ap.add_argument("--jobs", type=int, default=4)
    ap.add_argument("--timeout", type=int, default=900)
    ap.add_argument("--json", default=None)
    ap.add_argument("--md", default=None)
    ap.add_argument("--before", default=None, help="result file of the run before the fixes (for the before/after table)")
    ap.add_argument("--merge", default=None, help="existing result file: re-run only the selected mutants, keep the other records")
    ap.add_argument("--verify", action="store_true")
    ap.add_argument("--title", default=None, help="heading line of the --md report (default: campaign A)")
    ap.add_argument("--render", action="store_true", help="only rewrite --md from the results in --json (and --before, suite file)")
    ap.add_argument("--suite", default=None, metavar="FILE",
                    help="instead of the checks run the pinned test suite (tools/baseline.py) on each selected mutant; results merged into FILE")
    ap.add_argument("--not-caught-in", default=None, metavar="RESULTS", help="select the mutants that RESULTS does not show caught with a replay by every check that ran")
    args = ap.parse_args()
    global MD_TITLE
    MD_TITLE = args.title
    args.repo = Path(args.repo).resolve()
    if args.repo == Path("/repo"):
        sys.exit("refusing to use /repo")
    ids = [m["id"] for m in MUTANTS]
    assert len(ids) == len(set(ids)), "duplicate mutant ids"
    sel = [m for m in MUTANTS if (not args.group or m["group"] == args.group) and (not args.id or m["id"] in args.id.split(","))]
    if args.render:
        results = json.loads(Path(args.json).read_text())["results"]
        cur = {m["id"]: m for m in MUTANTS}
        for r in results:
            if r["id"] in cur:
                r["expect"], r["why"] = cur[r["id"]]["expect"], cur[r["id"]]["why"]
        before = json.loads(Path(args.before).read_text())["results"] if args.before else None
        for r in before or []:
            if r["id"] in cur:
                r["expect"] = cur[r["id"]]["expect"]
        sp = VERIF / "tools" / "mutants_A.suite.json"
        write_md(args.md, results, before, json.loads(sp.read_text()) if sp.exists() else None)
        head = json.loads(Path(args.json).read_text())
        head["results"], head["summary"] = results, summarise(results)
        Path(args.json).write_text(json.dumps(head, indent=1) + "\n")
        print(json.dumps(summarise(results)))
        return
    if args.verify:
        import ast
        bad = 0
        for m in sel:
            src = (args.repo / m["file"]).read_text()
            n = src.count(m["old"])
            ok = n == 1
            if ok:
                try:
                    ast.parse(src.replace(m["old"], m["new"]))
                except SyntaxError as e:
                    ok = False
                    n = f"syntax error {e}"
            if not ok:
                bad += 1
                print(f"{m['id']}: {n}")
        by = {}
        for m in MUTANTS:
            by[m["group"]] = by.get(m["group"], 0) + 1
        print(f"{len(sel)} mutants selected, {bad} problems; per group {by}")
        sys.exit(1 if bad else 0)
    if sh("git", "-C", str(args.repo), "status", "--porcelain", "--untracked-files=no").stdout.strip():
        sys.exit(f"{args.repo} has uncommitted changes")
    if args.not_caught_in:
        res = {r["id"]: r for r in json.loads(Path(args.not_caught_in).read_text())["results"]}
        sel = [m for m in sel if m["id"] in res and any(run["outcome"] != "caught-replay" for run in res[m["id"]]["runs"])]
    if args.suite:
        queue, results, lock = list(sel), [], threading.Lock()
        threads = [threading.Thread(target=suite_worker, args=(k, queue, results, args, lock)) for k in range(min(args.jobs, len(sel)))]
        for t in threads:
            t.start()
        for t in threads:
            t.join()
        old = json.loads(Path(args.suite).read_text()) if Path(args.suite).exists() else {}
        old.update({r["id"]: r for r in results})
        Path(args.suite).write_text(json.dumps(dict(sorted(old.items())), indent=1) + "\n")
        print(f"suite kills {sum(1 for r in results if r['suite_kills'])} of {len(results)} mutants")
        return
    queue, results, lock = list(sel), [], threading.Lock()
    t0 = time.time()
    threads = [threading.Thread(target=worker, args=(k, queue, results, args, lock)) for k in range(min(args.jobs, len(sel)))]
    for t in threads:
        t.start()
    for t in threads:
        t.join()
    order = {m["id"]: i for i, m in enumerate(MUTANTS)}
    if args.merge and Path(args.merge).exists():
        old = json.loads(Path(args.merge).read_text())["results"]
        new_ids = {r["id"] for r in results}
        redone = {(r["id"], run["prop"]) for r in results for run in r["runs"]}
        for r in old:
            if r["id"] not in new_ids:
                results.append(r)
            else:       # keep runs of checks that were not re-run (--only-prop)
                cur = next(x for x in results if x["id"] == r["id"])
                cur["runs"] += [run for run in r["runs"] if (r["id"], run["prop"]) not in redone]
    results.sort(key=lambda r: order.get(r["id"], 1 << 30))
    print(json.dumps(summarise(results), indent=1))
    print(f"total wall {time.time() - t0:.0f}s")
    if args.json:
        head = sh("git", "-C", str(args.repo), "rev-parse", "HEAD").stdout.strip()
        vhead = sh("git", "-C", str(VERIF), "rev-parse", "HEAD").stdout.strip()
        Path(args.json).write_text(json.dumps({"repo_head": head, "verif_head": vhead, "summary": summarise(results), "results": results}, indent=1) + "\n")
    if args.md:
        before = json.loads(Path(args.before).read_text())["results"] if args.before else None
        cur = {m["id"]: m["expect"] for m in MUTANTS}
        for r in before or []:      # the before-table uses the FINAL classification of each mutant (see `why` for the revised ones)
            r["expect"] = cur.get(r["id"], r["expect"])
        sp = VERIF / "tools" / "mutants_A.suite.json"
        write_md(args.md, results, before, json.loads(sp.read_text()) if sp.exists() else None)


if __name__ == "__main__":
    main()
