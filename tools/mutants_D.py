#!/usr/bin/env python3
"""Mutation campaign D: do the checks of C05 (TRSO) and C06 (vocabulary of estimands) turn a property-breaking ONE-SITE change of
y0 into a `VIOLATION` line with a concrete replay?

    python3 tools/mutants_D.py --repo /work/mutD/repo [--group trso|vocab] [--id t01,...] [--only-prop C05]
                               [--jobs 2] [--json tools/mutants_D.last.json] [--md tools/mutants_D.md] [--before FILE]
    python3 tools/mutants_D.py --repo /work/mutD/repo --verify       # every mutant applies at exactly one site and compiles
    python3 tools/mutants_D.py --repo /work/mutD/repo --suite tools/mutants_D.suite.json [--id ...]   # pinned 387-test suite

The machinery (scratch clones under /tmp/mutD-<pid>-<k>, plain quick tier, classification, tables) is copied from
tools/mutants_A.py; only the mutants, the groups, the scratch prefix and the narrative differ.

Each mutant is (id, group, file, old text, new text, expect, why).  `expect` is the list of properties whose STATEMENT the change
breaks, or "equivalent" (no observable change of the returned estimand's VALUE / vocabulary on in-scope inputs) or "outside-property"
(observable, but no clause of C05 / C06 says anything about it: completeness when surrogates are declared, side effects on the
caller's sets, error class on input outside the quantifier, counterfactual transport which belongs to C09).

group trso  : src/y0/algorithm/transport.py, checks C05 and C06 are run
group vocab : id_std.py / id_star.py / idc_star.py / counterfactual_transport/api.py (the places that label terms), check C06 is run
"""
from __future__ import annotations

import argparse
import json
import os
import re
import shutil
import signal
import subprocess
import sys
import threading
import time
from pathlib import Path

VERIF = Path(__file__).resolve().parent.parent
TR = "src/y0/algorithm/transport.py"
IDS = "src/y0/algorithm/identify/id_std.py"
IDSTAR = "src/y0/algorithm/identify/id_star.py"
IDCSTAR = "src/y0/algorithm/identify/idc_star.py"
CTF = "src/y0/algorithm/counterfactual_transport/api.py"

GROUP_RUN = {"trso": ["C05", "C06"], "vocab": ["C06"]}
EQ, OUT = "equivalent", "outside-property"


def M(id, group, file, old, new, expect, why, run=None):
    return {"id": id, "group": group, "file": file, "old": old, "new": new, "expect": expect, "why": why,
            "run": run or GROUP_RUN[group]}


MUTANTS = [
    # ================================================================= get_nodes_to_transport: where the domains may differ
    M("n01", "trso", TR, "            c_component_surrogate_outcomes.update(component)\n",
      "            c_component_surrogate_outcomes = set(component)\n", ["C05"],
      "stale accumulation: only the LAST district that contains a surrogate outcome is kept (needs W spread over >=2 districts; which one "
      "survives depends on set iteration order): selection nodes of C(W)-An(W) are missing, experiments are used although the domains differ"),
    M("n02", "trso", TR, "    ancestors_surrogate_outcomes = graph.get_intervened_ancestors(\n        surrogate_interventions, surrogate_outcomes\n    )\n",
      "    ancestors_surrogate_outcomes = graph.get_intervened_ancestors(\n        surrogate_outcomes, surrogate_interventions\n    )\n", ["C05"],
      "swapped arguments: ancestors of Z in G[bar W] instead of ancestors of W in G[bar Z]"),
    M("n03", "trso", TR, "    ancestors_surrogate_outcomes = graph.get_intervened_ancestors(\n        surrogate_interventions, surrogate_outcomes\n    )\n",
      "    ancestors_surrogate_outcomes = graph.ancestors_inclusive(surrogate_outcomes)\n", ["C05"],
      "wrong graph: ancestors of W in G instead of G[bar Z]: a node of C(W) that reaches W only through Z loses its selection node"),
    M("n04", "trso", TR, "    descendants_interventions = graph.descendants_inclusive(surrogate_interventions)\n",
      "    descendants_interventions = graph.descendants_inclusive(surrogate_outcomes)\n", ["C05"],
      "stale variable: descendants of W instead of descendants of Z"),
    M("n05", "trso", TR, "    return (descendants_interventions - surrogate_outcomes).union(\n",
      "    return (descendants_interventions - surrogate_outcomes).intersection(\n", ["C05"],
      "wrong set operation: (De(Z)-W) intersected with (C(W)-An(W)) instead of their union"),
    M("n06", "trso", TR, "        c_component_surrogate_outcomes - ancestors_surrogate_outcomes\n",
      "        c_component_surrogate_outcomes - surrogate_outcomes\n", ["C05"],
      "dropped closure: C(W) - W instead of C(W) - An(W): ancestors of W inside its district get a selection node (too many selection "
      "nodes: the family the property quantifies over is not the one the diagram describes; estimands stay sound but the placement rule is broken)"),
    M("n07", "trso", TR, "    return (descendants_interventions - surrogate_outcomes).union(\n",
      "    return (descendants_interventions - surrogate_interventions).union(\n", ["C05"],
      "wrong operand: De(Z) - Z instead of De(Z) - W: surrogate outcomes downstream of Z are marked as differing, Z itself is not"),
    # ================================================================= create_transport_diagram / surrogate_to_transport
    M("d01", "trso", TR, "        rv.add_directed_edge(transport_node, node)\n", "        rv.add_directed_edge(node, transport_node)\n", ["C05"],
      "reversed edge: the selection node becomes a CHILD of the marked variable (it then never opens a path into it)"),
    M("d02", "trso", TR, "    for node in graph.nodes():\n        rv.add_node(node)\n    for u, v in graph.directed.edges():\n        rv.add_directed_edge(u, v)\n",
      "    for u, v in graph.directed.edges():\n        rv.add_directed_edge(u, v)\n", ["C05"],
      "dropped loop: edge-less nodes are missing from every source-domain diagram (needs a node without edges that is an outcome: "
      "line 2 then asks the diagram for the ancestors of a node it does not have and raises)"),
    M("d03", "trso", TR, "    for node in nodes_to_transport:\n        transport_node = transport_variable(node)\n",
      "    for node in list(nodes_to_transport)[1:]:\n        transport_node = transport_variable(node)\n", ["C05"],
      "off by one: the first marked variable (set iteration order) gets no selection node"),
    M("d04", "trso", TR, "                surrogate_outcomes=domain_outcomes,\n", "                surrogate_outcomes=set().union(*surrogate_outcomes.values()),\n", ["C05"],
      "wrong operand: every domain's diagram is derived from the surrogate outcomes of ALL domains pooled (needs two domains with "
      "different W; get_nodes_to_transport itself is unchanged, so a direct comparison of that helper cannot see it)"),
    M("d05", "trso", TR, "        domains=set(surrogate_outcomes),\n", "        domains=set(),\n", EQ,
      "the `domains` field is only logged, never read by the recursion"),
    M("d06", "trso", TR, "    if set(surrogate_outcomes) != set(surrogate_interventions):\n", "    if len(surrogate_outcomes) != len(surrogate_interventions):\n", OUT,
      "weaker validation: two dictionaries of the same size with different keys are accepted (KeyError later); the property quantifies over "
      "source domains that each HAVE a Z_i and a W_i"),
    # ================================================================= line 1 / line 2 / line 3
    M("l01", "trso", TR, "    return Sum.safe(expression, get_regular_nodes(graph) - target_outcomes)\n",
      "    return Sum.safe(expression, set(graph.nodes()) - target_outcomes)\n", ["C05", "C06"],
      "line 1 sums over the selection nodes as well (needs line 1 inside a source domain whose diagram still has a selection node): Sum[T_v] ranges"),
    M("l02", "trso", TR, "    new_query.target_interventions.intersection_update(outcomes_ancestors)\n", "    pass\n", ["C05"],
      "dropped statement: interventions outside An(Y) are kept although their nodes left the graph"),
    M("l03", "trso", TR, "        outcome_ancestors_domain = graph.ancestors_inclusive(query.target_outcomes)\n",
      "        outcome_ancestors_domain = outcomes_ancestors\n", ["C05"],
      "wrong graph: every domain's diagram is restricted to the ancestors computed in the CURRENT domain's diagram: at the top level "
      "(target domain) that set contains no selection node, so every source diagram loses all its selection nodes and line 6 accepts every experiment"),
    M("l04", "trso", TR, "        get_regular_nodes(query.graphs[query.domain]) - outcomes_ancestors,\n",
      "        get_regular_nodes(new_query.graphs[query.domain]) - outcomes_ancestors,\n", ["C05"],
      "stale/new mix-up: the already restricted graph has no non-ancestors left, so nothing is marginalised out of the carried distribution"),
    M("l05", "trso", TR, "            population=new_query.domain,\n            distribution=Distribution(\n                children=new_query.expression.children,\n",
      "            population=new_query.expression.population,\n            distribution=Distribution(\n                children=new_query.expression.children,\n", EQ,
      "line-2 re-tagging dropped (the source comment doubts it): inside a source domain the carried joint keeps the tag pi*, but every "
      "result of a source-domain run passes through activate_domain_and_interventions, which re-tags every leaf; tags never mix inside one run"),
    M("l06", "trso", TR, "    new_query.target_interventions.update(additional_interventions)\n",
      "    new_query.target_interventions = set(additional_interventions)\n", ["C05"],
      "dropped operand: line 3 REPLACES the interventions by the no-effect nodes"),
    M("l07", "trso", TR, "    new_query = deepcopy(query)\n    new_query.target_interventions.update(additional_interventions)\n",
      "    new_query = query\n    new_query.target_interventions.update(additional_interventions)\n", OUT,
      "mutation of the caller's argument: the top-level query holds the caller's own X set, line 3 now adds nodes to it in place; the "
      "returned estimand is unchanged and C05 has no side-effect clause (the harness checks the caller's objects all the same)"),
    M("l08", "trso", TR, "    new_query = deepcopy(query)\n    new_query.target_interventions.intersection_update(outcomes_ancestors)\n",
      "    new_query = TRSOQuery(**vars(query))\n    new_query.target_interventions.intersection_update(outcomes_ancestors)\n", OUT,
      "shallow copy in line 2: the caller's X set loses the non-ancestors of Y in place, the per-domain graph dictionary is shared; results "
      "unchanged (every later user of the old query works on a deepcopy); C05 has no side-effect clause"),
    # ================================================================= line 4
    M("f01", "trso", TR, "        new_query.target_interventions = get_regular_nodes(graph) - component\n",
      "        new_query.target_interventions = set(graph.nodes()) - component\n", EQ,
      "selection nodes become interventions of the sub-queries: line 3 adds the same nodes anyway (a selection node is never an "
      "ancestor of Y once the edges into X are cut unless it points into the component, and those are handled by lines 6 / 10 from the graph, not from X)"),
    M("f02", "trso", TR, "        new_query.target_interventions = get_regular_nodes(graph) - component\n",
      "        new_query.target_interventions = set(query.target_interventions)\n", ["C05"],
      "dropped re-targeting: the sub-query asks for P_x(c) instead of the c-factor P_{v-c}(c)"),
    M("f03", "trso", TR, "                get_regular_nodes(graph) - query.target_interventions.union(query.target_outcomes),\n",
      "                get_regular_nodes(query.graphs[TARGET_DOMAIN]) - query.target_interventions.union(query.target_outcomes),\n", EQ,
      "wrong graph, unreachable: line 4 never fires inside a source domain. Line 6 is only reached when lines 2-4 found nothing to do for (X, Y): "
      "every node outside X is an ancestor of Y avoiding X and G - X is one district; inside the domain the diagram lost Z' = Z n X, the selection "
      "nodes that survive the separation test point into X and are made interventions by line 3, so G' - X' is the same single district; after a "
      "line 10 the district of G[S'] - X is still S. In the target domain graphs[TARGET_DOMAIN] IS the graph. (first classified as breaking; "
      "0 of 6 000 + 12 000 sampled queries change their output)"),
    M("f04", "trso", TR, "            if term is None:\n                return None\n            terms.append(term)\n",
      "            if term is None:\n                continue\n            terms.append(term)\n", ["C05"],
      "a c-component without estimand is silently left out of the product: an estimand is returned for unidentifiable effects"),
    M("f05", "trso", TR, "    if len(districts_without_interventions) > 1:\n        subqueries = trso_line4(\n",
      "    if len(districts_without_interventions) > 2:\n        subqueries = trso_line4(\n", ["C05"],
      "off by one: two c-components are not decomposed, an arbitrary one of them is treated as 'the' district"),
    M("f06", "trso", TR, "                get_regular_nodes(graph) - query.target_interventions.union(query.target_outcomes),\n",
      "                get_regular_nodes(graph) - query.target_outcomes,\n", ["C05"],
      "dropped operand: line 4 sums over the interventions as well"),
    # ================================================================= line 6 and its helper
    M("s01", "trso", TR, "    surrogate_intersect_target = surrogate_interventions.intersection(query.target_interventions)\n",
      "    surrogate_intersect_target = surrogate_interventions.union(query.target_interventions)\n", ["C05", "C06"],
      "wrong set operation: the active interventions are Z u X: the returned source term carries subscripts the domain never declared"),
    M("s02", "trso", TR, "    if not surrogate_intersect_target:\n        return None\n", "    if surrogate_intersect_target is None:\n        return None\n", ["C05"],
      "truthiness of an empty set: a domain with no applicable experiment passes line 6 with no active intervention; the recursion "
      "re-enters line 6 for ever / activation fails on the empty subscript set (an exception on valid input)"),
    M("s03", "trso", TR, "        for outcome in target_outcomes\n    )\n", "        for outcome in list(target_outcomes)[:1]\n    )\n", ["C05"],
      "off by one: only the first outcome (set iteration order) is tested against the selection nodes (needs line 6 with >=2 outcomes, "
      "a selection node separated from one and connected to another)"),
    M("s04", "trso", TR, "    return all(\n        are_d_separated(\n            graph_without_interventions,\n",
      "    return any(\n        are_d_separated(\n            graph_without_interventions,\n", ["C05"],
      "wrong quantifier: ONE separated (selection node, outcome) pair is enough; with no selection node at all the answer turns False "
      "(experiments of identical domains are refused: that half is incompleteness only)"),
    M("s05", "trso", TR, "    graph_without_interventions = graph.remove_in_edges(target_interventions)\n",
      "    graph_without_interventions = graph.remove_out_edges(target_interventions)\n", ["C05"],
      "wrong surgery: the edges OUT of X are cut instead of the edges into X"),
    M("s06", "trso", TR, "            conditions=target_interventions,\n", "            conditions=set(),\n", EQ,
      "dropped conditioning set: in G[bar X] no node of X has a parent, so X can neither be nor open a collider, and any path from a "
      "selection node (whose only edge points INTO its variable) through a node of X must turn around at a collider before reaching it: "
      "the same pairs are separated with and without conditioning on X"),
    M("s07", "trso", TR, "    new_query.target_interventions = query.target_interventions - surrogate_interventions\n",
      "    new_query.target_interventions = query.target_interventions - surrogate_intersect_target\n", EQ,
      "X - Z = X - (Z n X)"),
    M("s08", "trso", TR, "    new_query.graphs[new_query.domain] = graph.remove_nodes_from(surrogate_intersect_target)\n",
      "    new_query.graphs[new_query.domain] = graph.remove_nodes_from(surrogate_interventions)\n", ["C05"],
      "wrong set: ALL declared experimental variables are deleted from the domain's diagram, also those that are not intervened in this "
      "step (needs Z not inside X and the deleted variable on a path that matters)"),
    M("s09", "trso", TR, "    new_query.active_interventions = surrogate_intersect_target\n", "    new_query.active_interventions = surrogate_interventions\n", ["C05"],
      "wrong set: the term is labelled with do(Z) for ALL declared Z although only Z n X was removed from the diagram (needs Z not inside X)"),
    M("s10", "trso", TR, "    new_query.graphs[new_query.domain] = graph.remove_nodes_from(surrogate_intersect_target)\n",
      "    new_query.graphs[query.domain] = graph.remove_nodes_from(surrogate_intersect_target)\n", ["C05"],
      "stale key: the mutilated diagram is stored under the OLD domain (the target); the source domain continues on its full diagram"),
    M("s11", "trso", TR, "    if not query.active_interventions and query.surrogate_interventions:\n", "    if query.surrogate_interventions:\n", ["C05", "C06"],
      "dropped guard: line 6 is entered again inside a source domain, a second domain's experiment is nested and re-labelled with the "
      "outer domain: a term of domain 1 under experiments only domain 2 declared (needs two domains with different experiments inside X)"),
    M("s12", "trso", TR, "                expression, subquery.active_interventions, domain\n", "                expression, query.active_interventions, domain\n", ["C05"],
      "stale variable: the (empty) active interventions of the OUTER query are used for the activation"),
    M("s13", "trso", TR, "            logger.warning(\"more than one expression were non-none\")\n            # What if more than 1 expression doesn't fail?\n"
      "            # Is it non-deterministic or can we prove it will be length 1?\n            return canonicalize(next(iter(expressions.values())))\n",
      "            logger.warning(\"more than one expression were non-none\")\n            # What if more than 1 expression doesn't fail?\n"
      "            # Is it non-deterministic or can we prove it will be length 1?\n            return canonicalize(Product.safe(expressions.values()))\n", ["C05"],
      "several usable domains: their estimands are MULTIPLIED instead of one being chosen (needs >=2 domains passing line 6 with an estimand each)"),
    M("s14", "trso", TR, "            if expression is None:\n                continue\n", "            if expression is None:\n                return None\n", ["C05"],
      "early return: the first domain that passes the separation test but yields no estimand ends the search: lines 8-11 are not tried and "
      "'no estimand' is returned where ID has one although no experiment was usable (second sentence of the property; first classified as "
      "incompleteness only)"),
    M("s15", "trso", TR, "            # if there are no expressions, then we move on to line 8\n            pass\n",
      "            # if there are no expressions, then we move on to line 8\n            return None\n", ["C05"],
      "early return: when experiments are declared but none is usable, 'no estimand' is returned without trying lines 8-11 "
      "(breaks: with no usable surrogate an estimand is returned exactly when ID returns one)"),
    M("s16", "trso", TR, "            if expression is not None:  # line7\n", "            if expression is not None and not expressions:  # line7\n", EQ,
      "only the first identified domain is recorded: the original returns the first one anyway"),
    # ================================================================= activate_domain_and_interventions
    M("a01", "trso", TR, "        children = set(expression.children) - interventions\n", "        children = set(expression.children)\n", EQ,
      "intervened variables stay among the children (P^pi_z(z, y) instead of P^pi_z(y)): same value (under do(z) Z equals z), same "
      "vocabulary (one subscript set per term); only the One() shortcut for fully intervened terms is lost"),
    M("a02", "trso", TR, "        if not children:\n            # every variable of the term is fixed by the intervention, so its probability is one\n            return One()\n",
      "", ["C05"],
      "regression of fix 1dbb8b2: a term whose variables are all intervened makes Distribution raise ValueError"),
    M("a03", "trso", TR, "                parents=_upgrade_ordering(set(expression.parents) - interventions),\n", "", ["C05"],
      "regression of fix 680bc10: the conditioning set of P(v | pre) terms is dropped by the activation"),
    M("a04", "trso", TR, "                parents=_upgrade_ordering(set(expression.parents) - interventions),\n            ),\n        ).intervene(interventions)\n",
      "                parents=_upgrade_ordering(set(expression.parents) - interventions),\n            ),\n        )\n", ["C05"],
      "dropped call: the source term is tagged with the domain but carries no experiment (observational source distribution)"),
    M("a05", "trso", TR, "        return PopulationProbability(\n            population=domain,\n            distribution=Distribution(\n                children=_upgrade_ordering(children),\n",
      "        return PopulationProbability(\n            population=expression.population,\n            distribution=Distribution(\n                children=_upgrade_ordering(children),\n",
      ["C05", "C06"],
      "stale tag: the term keeps the population it was built with (pi* when the run never re-tagged it) and gets the experiment's "
      "subscripts: a TARGET term under an intervention (needs a source-domain run that reaches line 1 / 9 without line 2 or 10)"),
    M("a06", "trso", TR, "        return Sum.safe(\n            activate_domain_and_interventions(expression.expression, interventions, domain),\n            expression.ranges,\n        )\n",
      "        return Sum.safe(\n            expression.expression,\n            expression.ranges,\n        )\n", ["C05"],
      "dropped recursion: the summand of a Sum is not activated (stays a target / un-intervened term)"),
    M("a07", "trso", TR, "        denominator = activate_domain_and_interventions(\n            expression.denominator, interventions, domain\n        )\n",
      "        denominator = activate_domain_and_interventions(\n            expression.numerator, interventions, domain\n        )\n", ["C05"],
      "copy-paste: the denominator of a fraction is the activated NUMERATOR (needs line 9 inside a source domain)"),
    M("a08", "trso", TR, "            for expr in expression.expressions\n        )\n    raise NotImplementedError", "            for expr in expression.expressions[1:]\n        )\n    raise NotImplementedError", ["C05"],
      "off by one: the first factor of a product is dropped by the activation (needs line 4 or 10 inside a source domain; the source "
      "marks this branch 'need full integration test')"),
    M("a09", "trso", TR, "        if isinstance(quotient, Fraction):\n            return quotient.simplify()\n        return quotient\n", "        return quotient\n", EQ,
      "simplification dropped: same value, same leaves or more"),
    M("a10", "trso", TR, "        return Sum.safe(\n            activate_domain_and_interventions(expression.expression, interventions, domain),\n            expression.ranges,\n        )\n",
      "        return Sum.safe(\n            activate_domain_and_interventions(expression.expression, interventions, domain),\n            set(expression.ranges) - interventions,\n        )\n", OUT,
      "ranges minus the active interventions: the active variables were deleted from the domain's diagram at line 6, so no line of a "
      "source-domain run ever sums over them and no estimand changes; only a DIRECT call of the helper with a Sum that ranges over an active "
      "variable differs (the harness's helper stream does that and flags it against the meaning of the operation)"),
    # ================================================================= line 9 / line 10
    M("c01", "trso", TR, "        for node in query.graphs[query.domain].topological_sort()\n        if not is_transport_node(node)\n    ]\n    ordering_set = set(ordering)\n    my_product: Expression = One()\n",
      "        for node in query.graphs[query.domain].topological_sort()\n    ]\n    ordering_set = set(ordering)\n    my_product: Expression = One()\n", ["C05", "C06"],
      "regression of fix a6517c2 (line 9 only): selection nodes are ordered with the variables and appear as Sum ranges"),
    M("c02", "trso", TR, "        post_set = ordering_set - set(pre)\n", "        post_set = ordering_set - set(post)\n", ["C05"],
      "stale variable: numerator and denominator of every line-9 factor are equal"),
    M("c03", "trso", TR, "    return Sum.safe(my_product, district - query.target_outcomes)\n", "    return Sum.safe(my_product, district - query.target_outcomes - query.target_interventions)\n", EQ,
      "at line 9 the district is a district of G minus X: it contains no intervention"),
    M("c04", "trso", TR, "    return Sum.safe(my_product, district - query.target_outcomes)\n", "    return my_product\n", ["C05"],
      "dropped marginalisation: line 9 returns the c-factor Q[S] instead of its marginal over S - Y (needs a district strictly larger than Y)"),
    M("c05", "trso", TR, "    carried_is_joint = isinstance(carried, PopulationProbability) and not carried.parents\n", "    carried_is_joint = True\n", ["C05"],
      "regression of fix 17587ad: line 10 reads P(v | pre) off the joint although the recursion carries a c-factor (needs line 10 twice)"),
    M("c06", "trso", TR, "    carried_is_joint = isinstance(carried, PopulationProbability) and not carried.parents\n",
      "    carried_is_joint = isinstance(carried, PopulationProbability)\n", EQ,
      "the carried expression is never a single conditional term: line 10 produces a product of >=2 factors, line 2 a Sum or a joint"),
    M("c07", "trso", TR, "        pre_node = set(ordering[:i])\n", "        pre_node = set(ordering[: i + 1])\n", ["C05"],
      "off by one: the node itself is counted among its predecessors"),
    M("c08", "trso", TR, "    new_query.target_interventions = query.target_interventions.intersection(district)\n",
      "    new_query.target_interventions = set(query.target_interventions)\n", EQ,
      "dropped restriction: interventions outside the district survive line 10 although their nodes left the graph - and are inert: after line "
      "10 no line 6 follows (no experiments left in the target domain, active interventions inside a source domain), X n S' is never empty "
      "(so line 1 is not affected), and every other use of X is a difference / deletion / intersection with nodes of the current graph "
      "(first classified as breaking; 0 of 18 000 sampled queries change their output)"),
    M("c09", "trso", TR, "    new_query.graphs[query.domain] = query.graphs[query.domain].subgraph(district)\n",
      "    new_query.graphs[query.domain] = query.graphs[TARGET_DOMAIN].subgraph(district)\n", EQ,
      "wrong graph, same induced subgraph: a district contains no selection node and the diagrams differ only in selection nodes"),
    M("c10", "trso", TR, "        new_surrogate_interventions = {}\n", "        new_surrogate_interventions = query.surrogate_interventions\n", ["C05"],
      "line 10 in the target domain keeps the experiments: a later line 6 reads the c-factor carried by the recursion as if it were the "
      "source domain's experimental distribution (needs line 10 followed by a usable experiment)"),
    M("c11", "trso", TR, "    elif _pillow_has_transport(graph, target_district):\n        return None\n", "    elif False:\n        return None\n", OUT,
      "dropped guard: line 10 inside a source domain proceeds although a selection node points into the district's Markov pillow. The guard "
      "only REFUSES: after line 6 the whole remaining run is ID inside the source domain's own experimental distribution (the transport step "
      "was justified by the separation test at line 6), so continuing is sound; 3 of 20 000 sampled queries change their output and all three new "
      "estimands equal P*(y|do(x)) on the exact oracle (first classified as breaking C05: completeness with declared experiments is not claimed)"),
    M("c12", "trso", TR, "        district for district in districts if district_without_interventions.issubset(district)\n",
      "        district for district in districts if district_without_interventions & district\n", EQ,
      "districts partition the nodes and the district of G - X lies inside one of them: subset and overlap coincide"),
    M("c13", "trso", TR, "    if district_without_interventions in districts:\n", "    if district_without_interventions in districts_without_interventions:\n", OUT,
      "line 9 is never taken (the set was emptied by pop()): line 10 with S' = S followed by line 1 yields the same c-factor marginal; inside "
      "a source domain the additional pillow guard of line 10 can answer 'no estimand' (incompleteness with declared experiments only)"),
    M("c14", "trso", TR, "    elif len(districts) == 1:\n        return None\n", "    elif len(districts) <= 2:\n        return None\n", ["C05"],
      "off by one: 'no estimand' for every graph with two c-components at lines 8-11 (ID returns an estimand there)"),
    M("c15", "trso", TR, "            numerator = Sum.safe(carried, ordering_set - pre_node - {node})\n", "            numerator = Sum.safe(carried, ordering_set - pre_node)\n", ["C05"],
      "dropped operand in the carried branch of line 10: numerator equals denominator (needs line 10 twice)"),
    # ================================================================= trso() / identify_target_outcomes
    M("m01", "trso", TR, "    if get_regular_nodes(graph) - outcome_ancestors:\n", "    if set(graph.nodes()) - outcome_ancestors:\n", EQ,
      "line 2 also fires when only selection nodes are non-ancestors of Y: it then deletes selection nodes that cannot reach Y (irrelevant "
      "for every separation test) and marginalises nothing"),
    M("m02", "trso", TR, "        active_interventions=set(),\n        domain=TARGET_DOMAIN,\n", "        active_interventions=set(target_interventions),\n        domain=TARGET_DOMAIN,\n", OUT,
      "line 6 is never entered: TRSO degenerates to ID (sound, total, equal to ID without surrogates; only completeness with surrogates is lost)"),
    M("m03", "trso", TR, "    if outcome_is_intervention:\n", "    if False and outcome_is_intervention:\n", OUT,
      "overlapping X and Y are accepted: input outside the quantifier (disjoint X, Y)"),
    M("m04", "trso", TR, "        distribution=Distribution.safe(graph.nodes()),\n    )\n    trso_query", "        distribution=Distribution.safe(graph.nodes() - target_interventions),\n    )\n    trso_query", ["C05"],
      "the initial distribution is the joint of V - X: conditionals on X become marginals"),
    M("m05", "trso", TR, "        surrogate_interventions=transport_query.surrogate_interventions,\n    )\n    return trso(trso_query)\n",
      "        surrogate_interventions={k: v for k, v in transport_query.surrogate_interventions.items() if v},\n    )\n    return trso(trso_query)\n", ["C05"],
      "domains without experiment are dropped from the experiment dictionary but not from the diagrams: line 6 looks every diagram's domain up "
      "and raises KeyError (needs a declared domain with Z = {} and a run that reaches line 6) - first classified as equivalent"),
    # ================================================================= C06: the places that label terms (other algorithms)
    M("v01", "vocab", IDS, "        return P(child | ordering[:index])\n", "        return P(child @ ordering[:index]) if index else P(child)\n", ["C06"],
      "ID: the predecessors become intervention subscripts instead of conditions"),
    M("v02", "vocab", IDS, "    return Sum.safe(estimand, ordering[index + 1 :]) / Sum.safe(estimand, ordering[index:])\n",
      "    return Sum.safe(estimand, [v @ child for v in ordering[index + 1 :]]) / Sum.safe(estimand, ordering[index:])\n", OUT,
      "ID, carried branch only (line 7 followed by line 6 / 7): the numerator is to sum over counterfactual copies of the later variables - but "
      "Sum refuses counterfactual ranges (TypeError 'Ranges must not be counterfactuals nor interventions'): no estimand is returned, C06 "
      "holds vacuously and the crash is C02's business (first classified as breaking C06)"),
    M("v03", "vocab", IDS, "            p_parents(v, parents, identification.estimand) for v in district_without_treatment\n        )\n        ranges = district_without_treatment - outcomes\n",
      "            p_parents(v, parents, identification.estimand) for v in district_without_treatment\n        )\n        ranges = {v @ treatments for v in district_without_treatment - outcomes} if len(treatments) > 2 else district_without_treatment - outcomes\n",
      OUT,
      "ID line 6: with three or more treatments the summation variables are to carry the treatments as subscripts (needs |X| >= 3 at line 6 with a "
      "non-outcome in the district) - Sum refuses counterfactual ranges with a TypeError, so no estimand is returned (C02's business; first "
      "classified as breaking C06)"),
    M("v12", "vocab", IDS, "    return Sum.safe(estimand, ordering[index + 1 :]) / Sum.safe(estimand, ordering[index:])\n",
      "    return Sum.safe(estimand, ordering[index + 1 :]) / Sum.safe(estimand, ordering[index:]) if index + 1 < len(ordering) else P(child @ ordering[:index])\n", ["C06"],
      "ID, carried branch only (line 7 followed by line 6 / 7): the LAST variable of the topological order is returned as an interventional term "
      "P_{pre}(child) (added in round 2 to replace v02 / v03)"),
    M("v04", "vocab", IDSTAR, "        return Probability.safe(bases, interventions=interventions)\n", "        return Probability.safe(list(cf_graph.nodes()))\n", ["C06"],
      "ID* line 9 returns P over the raw nodes of the counterfactual graph: variables of different worlds in one term"),
    M("v05", "vocab", IDSTAR, "        return Probability.safe(bases, interventions=interventions)\n",
      "        return Probability.safe([n if not isinstance(n, CounterfactualVariable) else n.get_base().intervene(interventions) for n in cf_graph.nodes()])\n", ["C06"],
      "ID* line 9: only the nodes that already had a subscript receive the union of the subscripts; plain nodes stay plain (needs a "
      "counterfactual graph with a plain node next to a subscripted one at line 9)"),
    M("v06", "vocab", IDSTAR, "    bases = [node.get_base() for node in cf_graph.nodes()]\n", "    bases = list(cf_graph.nodes())\n", EQ,
      "ID* line 9 keeps the nodes' own subscripts and adds the union of all subscripts: every variable ends with the same union"),
    M("v07", "vocab", IDSTAR, "    if len(interventions) > 0:\n        return Probability.safe(bases, interventions=interventions)\n",
      "    if len(interventions) > 1:\n        return Probability.safe(bases, interventions=interventions)\n", OUT,
      "off by one: a single subscript is dropped, the term is observational: still single-world (C06 holds; C07 is broken)"),
    M("v08", "vocab", IDSTAR, "        node.get_base().intervene(markov_pillow): _get_node_event(node, event) for node in district\n",
      "        node.intervene(markov_pillow): _get_node_event(node, event) for node in district\n", OUT,
      "ID* line 6 keeps the old subscripts in the sub-events: every leaf is still produced by line 9 with one subscript set (C06 holds; C07's business)"),
    M("v09", "vocab", IDCSTAR, "    idc_star_estimand = id_star_estimand.conditional([c.get_base() for c in conditions])\n",
      "    idc_star_estimand = id_star_estimand.conditional(list(conditions))\n", OUT,
      "IDC* normalises over the subscripted condition variables: Sum ranges change, no leaf does (C06's single-world clause is about terms; C08's business)"),
    M("v10", "vocab", CTF, "            result += [(variable.get_base().intervene(parents), value)]\n", "            result += [(variable.intervene(parents), value)]\n", OUT,
      "counterfactual transport keeps old subscripts when re-labelling a district variable: C06 quantifies over the input spaces of "
      "C01/C03/C05/C07/C08 (TRSO is its transport algorithm); ctfTR belongs to C09"),
    M("v11", "vocab", CTF, "                subgraph_probability=domain_data[k][1],\n                graph_topo=domain_topo,\n            )\n            logger.debug(\n                \"domain_graph_district_q_probability: \"\n",
      "                subgraph_probability=domain_data[0][1],\n                graph_topo=domain_topo,\n            )\n            logger.debug(\n                \"domain_graph_district_q_probability: \"\n", OUT,
      "counterfactual transport reads every district's c-factor from the distribution (population tag) of domain 0: a wrong population label, "
      "but in ctfTR (C09), outside C06's quantifier"),
]

FIXES = """## What the campaign changed in the checks

Round 1 ran the checks as they were at e0ce07f (plain quick tier, seed 0) on the 84 mutants of round 1: `C05` on every transport.py
mutant, `C06` on the mutants whose statement-level effect is on the vocabulary (l01, s01, s11, a05, c01) and on the twelve mutants of
the other algorithms' labelling sites.  For transport.py mutants `C06` is run on its TRSO sub-stream only (`VERIF_C06_SOURCES=trso`; the
other four sub-streams never execute transport.py); it was NOT run on the transport.py mutants that break C05 only: their C06 outcome is by
construction `silent` or `correspondence only` (three that were run - n01, n02, n03 - took 9-10 minutes each on the shared machine because a
correspondence disagreement without oracle failure triggers the runner's thorough-tier search).

* **C05, endless recursion made the check itself not finish** (l06, f02, s02, s04, s10: `timeout` after 900 s, i.e. NO `VIOLATION` line;
  s03 took 307 s).  A change that makes TRSO recurse for ever costs seconds per case while the interpreter climbs to its default limit of
  1 000 frames through `deepcopy`.  `c05.recursion_guard` (also used by `c06._trso_run`): inside the call the recursion limit is the
  current depth + 250 (a run on a graph with <= 7 nodes nests a few dozen frames; the evidence tag `exception: RecursionError` shows
  that the guard never fires on the unchanged tree); the RecursionError is reported like every other exception on valid input.
* **C05, 'no estimand' although ID has one** (s14: `timeout` in the thorough search, only a correspondence disagreement; s15 and c14 were
  caught only through domains that declare NO experiment).  New oracle clause (b'), from the second sentence of the property: when
  experiments are declared, TRSO answers 'no estimand' and `identify_outcomes` returns an estimand, the property is violated under either
  reading (no experiment usable -> the verdict must be ID's; one usable -> using it is an estimand).  Sound on the unchanged tree because
  lines 1-4, 8-11 of TRSO are ID's lines and a failed line 6 falls through to them (0 of 40 000 cases over seeds 0-2).
* **C05, the derived selection DIAGRAMS were never looked at** (d04 - every domain's diagram derived from the pooled surrogate outcomes -
  was caught only by exact evaluation, 856 failing inputs, because `get_nodes_to_transport` itself is unchanged).  New clause (e2): on
  every valid case `surrogate_to_transport` is called and every domain's diagram must be the graph plus exactly one parentless selection
  node `T_v -> v` for the `v` the independent rule marks.  d01-d04 now fail with a message that names the domain and the expected set.
* **C05, several domains passing line 6 together** (s13 was caught, 131 failing inputs, but only through the random stream): the
  two-domain generator of C06 now also feeds C05 (`two_domain`, 500 cases: nested experiments sharing a variable of X, the same experiment
  declared twice, disjoint experiments inside X; either insertion order) - 4 x as many failing inputs for s13, and s11 (line 6
  re-entered inside a source domain) fails on 23 % of the stream.
* **C05, a later line 6 after line 10 in the target domain** (c10 MISSED, silently: exit 0; 1 differing output in 6 000, 3 in 20 000 random
  queries - a domain passes the separation test but yields nothing, then line 10, then the mutant re-enters line 6 with the carried
  c-factor and raises NetworkXError).  The smallest witness is in the corpus (and therefore in the perturbation stream, ~180 relabelled /
  perturbed variants per quick run).
* Generator review of round 5 (coordinator's list), all appended AFTER the existing streams so that the cases of the old streams are
  unchanged: `multi_domain` (350: three or four source domains - one domain per outcome with |Y| = 3 in three districts, a bow with
  three domains of which one is usable, random ADMGs with 3-4 random domains), `nested_source` (250: every no-domain witness that reaches
  line 10, plus a fresh experimental root X0 in X and one domain with Z = {X0}: line 10 twice INSIDE a source domain, the carried
  branch of `trso_line10` and the pillow test on the second line 10; the reviewer's witness is in the corpus), `big_query` (60: 6-7
  nodes, |X| <= 4, |Y| <= 4), 120 activations of a Fraction nested in a Fraction / Sum / Product, malformed kinds `keys_extra`,
  `keys_renamed` (same size, different key), `outside_dom_any`; argument FORMS through harness/forms.py for every identify case (a
  deterministic function of the case): insertion order of the domain keys independently in `surrogate_outcomes` and
  `surrogate_interventions` (ascending / descending / rotated), the target graph through every public constructor / insertion order.
  NOT added: `frozenset` for X / Y / dictionary values (the signature says `set[Variable]`; `trso_line2` / `trso_line3` update the sets of a
  deepcopy in place, so a frozenset raises AttributeError - 2 837 of 13 746 cases when it was tried; reported, not judged), a source domain
  keyed by `TARGET_DOMAIN` (no documented behaviour to judge against), bare `Variable` arguments of `get_nodes_to_transport`.
  Z_i meeting W_i (seed C05d = mutant s09) occurs in about a quarter of the valid cases (reviewer's count: 2 600 of 9 712).

Initial guesses revised after analysis (the `why` column has the argument): f03 and c08 are *equivalent* (line 4 cannot fire inside a source
domain; interventions outside the graph are inert after line 10), c11 is *outside the property* (the pillow guard only refuses; the three
outputs it changes in 20 000 queries are all correct estimands), a10 changes only direct calls of the helper, m05 (guessed equivalent) and
s14 (guessed incompleteness only) *break* C05, v02 and v03 cannot return an estimand at all (Sum refuses counterfactual ranges with a
TypeError) and were replaced by v12.

Endless-recursion mutants after the guard: l06 and f02 are caught with a replay (2 187 / 2 619 failing inputs; 840 s / 1 104 s wall at a load
average above 100 on the shared machine: every failing case and every shrinking candidate still costs a 250-frame recursion through
`deepcopy`; about 4 minutes when run alone), s04, s10 (306 - 470 s) and s14 are caught.  s02 (same kind; in-process 39 of 300 random
queries fail with `raised RecursionError (endless recursion ...)` or NodeNotFound) was NOT re-run on the final harness for lack of machine
time: its row is the round-1 `timeout` and it is listed as not shown caught.

No mutant revealed a defect of the unchanged y0.  Observed and not judged: `identify_target_outcomes` with frozenset arguments raises
AttributeError (outside the documented signature).
""".split("\n")

# ---------------------------------------------------------------------------------------------------- running

def sh(*a, **k):
    return subprocess.run(list(a), capture_output=True, text=True, **k)


C06_SOURCES = None     # set per mutant by worker(): "trso" for the trso group unless --full-c06


def run_check(prop, repo, scratch, timeout, c06_sources=None):
    C06_SOURCES = c06_sources
    ev, rp = scratch / "ev", scratch / "rp"
    shutil.rmtree(rp, ignore_errors=True)
    env = dict(os.environ, Y0_REPO=str(repo), VERIF_EVIDENCE_DIR=str(ev), VERIF_REPLAY_DIR=str(rp), VERIF_NO_ESCALATE="1",
               PYTHONDONTWRITEBYTECODE="1")
    env.pop("VERIF_SEED", None)
    env.pop("VERIF_C06_SOURCES", None)
    if C06_SOURCES and prop == "C06":
        env["VERIF_C06_SOURCES"] = C06_SOURCES
    if os.environ.get("MUTD_SEED"):
        env["VERIF_SEED"] = os.environ["MUTD_SEED"]
    t0 = time.time()
    p = subprocess.Popen([str(VERIF / "check"), prop], stdout=subprocess.PIPE, stderr=subprocess.STDOUT, text=True, env=env,
                         cwd=str(VERIF), start_new_session=True)
    timed_out = False
    try:
        out, _ = p.communicate(timeout=timeout)
    except subprocess.TimeoutExpired:
        timed_out = True
        try:
            os.killpg(p.pid, signal.SIGKILL)       # only the session this tool started
        except ProcessLookupError:
            pass
        out, _ = p.communicate()
    wall = round(time.time() - t0, 1)
    viol = [ln for ln in out.splitlines() if ln.startswith("VIOLATION")]
    concrete = [ln for ln in viol if "no-failing-input-found" not in ln]
    summ = next((ln for ln in out.splitlines() if ln.startswith(f"[{prop}] tier=")), "")
    m = re.search(r"cases=(\d+) compared=(\d+) disagreements=(\d+) oracle_failures=(\d+)", summ)
    says, rcase = "", None
    if concrete:
        try:
            d = json.load(open(concrete[0].split("replay=")[1].split()[0]))
            says = str(d.get("oracle_says"))[:220]
            rcase = d.get("case")
        except Exception:  # noqa: BLE001
            pass
    elif viol:
        try:
            d = json.load(open(viol[0].split("replay=")[1].split()[0]))
            dis = d.get("correspondence_disagreements") or []
            he = d.get("harness_errors") or []
            if dis:
                says = "disagreement: " + json.dumps(dis[0])[:220]
            elif he:
                says = "harness error: " + he[0]["trace"][-200:]
        except Exception:  # noqa: BLE001
            pass
    outcome = "timeout" if timed_out else "caught-replay" if concrete else "correspondence-only" if viol else \
        "missed" if p.returncode == 0 else f"exit-{p.returncode}-without-violation"
    return {"prop": prop, "exit": p.returncode, "violation_lines": len(viol), "concrete_replay": bool(concrete), "outcome": outcome,
            "cases": int(m.group(1)) if m else None, "disagreements": int(m.group(3)) if m else None,
            "oracle_failures": int(m.group(4)) if m else None, "wall_s": wall, "says": says, "replay_case": rcase,
            "tail": "" if m else out[-600:]}


def worker(k, queue, results, args, lock):
    scratch = Path(f"/tmp/mutD-{os.getpid()}-{k}")
    repo = scratch / "repo"
    shutil.rmtree(scratch, ignore_errors=True)
    scratch.mkdir(parents=True)
    try:
        r = sh("git", "clone", "-q", "--no-hardlinks", str(args.repo), str(repo))
        if r.returncode != 0:
            raise RuntimeError("clone failed: " + r.stderr)
        while True:
            with lock:
                if not queue:
                    break
                m = queue.pop(0)
            f = repo / m["file"]
            src = f.read_text()
            n = src.count(m["old"])
            rec = {"id": m["id"], "group": m["group"], "file": m["file"], "expect": m["expect"], "why": m["why"], "runs": []}
            if n != 1:
                rec["error"] = f"pattern occurs {n} times"
            else:
                try:
                    f.write_text(src.replace(m["old"], m["new"]))
                    for p in m["run"]:
                        if args.only_prop and p != args.only_prop:
                            continue
                        res = run_check(p, repo, scratch, args.timeout,
                                        c06_sources="trso" if (m["group"] == "trso" and not args.full_c06) else None)
                        res["c06_sources"] = "trso" if (p == "C06" and m["group"] == "trso" and not args.full_c06) else "all"
                        rec["runs"].append(res)
                        with lock:
                            print(f"{m['id']:5s} {p} {res['outcome']:20s} fails={res['oracle_failures']} dis={res['disagreements']} "
                                  f"{res['wall_s']}s expect={m['expect']} {res['says'][:110]}", flush=True)
                finally:
                    f.write_text(src)
            with lock:
                results.append(rec)
    finally:
        shutil.rmtree(scratch, ignore_errors=True)


def suite_worker(k, queue, results, args, lock):
    """does the pinned 387-test suite (tools/baseline.py) kill the mutant?"""
    scratch = Path(f"/tmp/mutD-{os.getpid()}-s{k}")
    repo = scratch / "repo"
    shutil.rmtree(scratch, ignore_errors=True)
    scratch.mkdir(parents=True)
    try:
        r = sh("git", "clone", "-q", "--no-hardlinks", str(args.repo), str(repo))
        if r.returncode != 0:
            raise RuntimeError("clone failed: " + r.stderr)
        while True:
            with lock:
                if not queue:
                    break
                m = queue.pop(0)
            f = repo / m["file"]
            src = f.read_text()
            if src.count(m["old"]) != 1:
                continue
            try:
                f.write_text(src.replace(m["old"], m["new"]))
                t0 = time.time()
                cmd = ["python3", str(VERIF / "tools" / "baseline.py"), str(repo)]
                if m["file"] == TR and not args.full_suite:
                    cmd = ["python3", str(Path(__file__).resolve()), "--baseline-subset", str(repo)]
                p = subprocess.Popen(cmd, stdout=subprocess.PIPE,
                                     stderr=subprocess.STDOUT, text=True, start_new_session=True,
                                     env=dict(os.environ, PYTHONDONTWRITEBYTECODE="1"))
                try:
                    out, _ = p.communicate(timeout=1500)
                except subprocess.TimeoutExpired:
                    os.killpg(p.pid, signal.SIGKILL)
                    out, _ = p.communicate()
                    out += "\nTIMEOUT"
                mm = re.search(r"passed=(\d+) baseline=(\d+) baseline_missing=(\d+)", out)
                rec = {"id": m["id"], "suite_kills": p.returncode != 0, "baseline_missing": int(mm.group(3)) if mm else None,
                       "first_missing": [ln.strip()[8:] for ln in out.splitlines() if ln.strip().startswith("MISSING")][:3],
                       "wall_s": round(time.time() - t0, 1)}
                with lock:
                    results.append(rec)
                    print(f"{m['id']:5s} suite {'KILLS' if rec['suite_kills'] else 'survives'} missing={rec['baseline_missing']} "
                          f"{rec['wall_s']}s {rec['first_missing'][:1]}", flush=True)
            finally:
                f.write_text(src)
    finally:
        shutil.rmtree(scratch, ignore_errors=True)


def baseline_subset(repo, files=("tests/test_algorithm/test_transport.py",), prefix="tests.test_algorithm.test_transport."):
    """tools/baseline.py restricted to the pinned tests of the one test module that executes the functions mutated in transport.py
    (api.py of counterfactual_transport and two other test modules import only transport_variable / is_transport_node, which no
    mutant touches); same output format as baseline.py"""
    import tempfile
    import xml.etree.ElementTree as ET
    base = json.load(open("/root/.vp/BASELINE.json"))
    want = {t for t in base["stable_pass"] if t.startswith(prefix)}
    fd, path = tempfile.mkstemp(suffix=".xml")
    os.close(fd)
    env = dict(os.environ)
    env.pop("Y0_VERIF", None)
    env["PYTHONPATH"] = os.path.join(repo, "src")
    subprocess.run(["/venv/bin/python", "-m", "pytest", "-q", "-p", "no:cacheprovider", "--timeout=900", "-n", "2",
                    "--continue-on-collection-errors", f"--junitxml={path}", *files], cwd=repo, env=env, capture_output=True, text=True)
    passed = set()
    for tc in ET.parse(path).getroot().iter("testcase"):
        if not any(ch.tag in ("failure", "error", "skipped") for ch in tc):
            passed.add(f"{tc.get('classname')}::{tc.get('name')}")
    os.unlink(path)
    missing = sorted(want - passed)
    print(f"passed={len(passed)} baseline={len(want)} baseline_missing={len(missing)}")
    for t in missing[:40]:
        print("  MISSING", t)
    return 1 if missing else 0


def classify(rec, run):
    """one of: caught / corr-only / MISSED (property broken)  |  silent / corr-only / flagged (property not broken)"""
    broken = isinstance(rec["expect"], list) and run["prop"] in rec["expect"]
    o = run["outcome"]
    if broken:
        return {"caught-replay": "caught with replay", "correspondence-only": "correspondence only", "missed": "MISSED"}.get(o, o)
    return {"caught-replay": "flagged with replay", "correspondence-only": "correspondence only", "missed": "silent"}.get(o, o)


def summarise(results):
    """{prop: {"breaking": {class: n}, "not-breaking": {class: n}}}"""
    out = {}
    for rec in results:
        for run in rec.get("runs", []):
            broken = isinstance(rec["expect"], list) and run["prop"] in rec["expect"]
            d = out.setdefault(run["prop"], {"breaking": {}, "not-breaking": {}})["breaking" if broken else "not-breaking"]
            c = classify(rec, run)
            d[c] = d.get(c, 0) + 1
    return out


def write_md(path, results, before=None, suite=None):
    suite = suite or {}
    props = ["C05", "C06"]
    lines = ["# Mutation campaign D (C05, C06)", "",
             "Generated by `tools/mutants_D.py` (plain quick tier, `VERIF_NO_ESCALATE=1`, seed 0). One hand-written one-site mutant of y0 at a",
             "time in a scratch clone; `breaking` = the mutant violates the statement of the property, `not breaking` = equivalent or",
             "outside the property (see the `why` of each mutant in the tool).", ""]

    def table(title, summ):
        lines.append(f"## {title}")
        lines.append("")
        lines.append("| property | breaking: caught with replay | breaking: correspondence only | breaking: MISSED | not breaking: silent | not breaking: correspondence only | not breaking: flagged with replay | other |")
        lines.append("|---|---|---|---|---|---|---|---|")
        for p in props:
            s = summ.get(p)
            if not s:
                continue
            b, nb = s["breaking"], s["not-breaking"]
            known = {"caught with replay", "correspondence only", "MISSED"}
            other = {k: v for k, v in b.items() if k not in known}
            other.update({k: v for k, v in nb.items() if k not in {"silent", "correspondence only", "flagged with replay"}})
            lines.append(f"| {p} | {b.get('caught with replay', 0)} | {b.get('correspondence only', 0)} | {b.get('MISSED', 0)} | "
                         f"{nb.get('silent', 0)} | {nb.get('correspondence only', 0)} | {nb.get('flagged with replay', 0)} | {other or ''} |")
        lines.append("")

    if before:
        table(f"Before the harness fixes of this campaign (the {len(before)} mutants of round 1, final classification)", summarise(before))
        table(f"After ({len(results)} mutants: see the narrative for the ones added after round 1)", summarise(results))
    else:
        table("Result", summarise(results))
    lines += FIXES
    bmap0 = {(rec["id"], run["prop"]): classify(rec, run) for rec in before or [] for run in rec.get("runs", [])}
    fixed = [(rec, run) for rec in results for run in rec.get("runs", [])
             if classify(rec, run) == "caught with replay" and bmap0.get((rec["id"], run["prop"]), "caught with replay") != "caught with replay"]
    lines += ["## Mutants that break a property and were NOT caught with a replay before the fixes (class b)", "",
              "| id | check | before | after | what the change is | replay after the fix says |", "|---|---|---|---|---|---|"]
    for rec, run in fixed:
        lines.append(f"| {rec['id']} | {run['prop']} | {bmap0[(rec['id'], run['prop'])]} | caught with replay ({run['oracle_failures']} failing inputs) | {rec['why']} | "
                     f"{(run['says'] or '').replace('|', '/')[:200]} |")
    still = [(rec, run) for rec in results for run in rec.get("runs", []) if classify(rec, run) in ("MISSED", "correspondence only", "timeout")
             and isinstance(rec["expect"], list) and run["prop"] in rec["expect"]]
    lines += ["", f"Property-breaking mutants still not caught with a replay after the fixes: {len(still)}"
              + ("" if not still else " -- " + ", ".join(f"{r['id']}/{u['prop']}" for r, u in still)), ""]
    lines += ["## Mutants not caught with a replay because they do not break the property (class a)", "",
              "`silent` = the check exits 0; `correspondence only` = the model and the code differ on some input (exit 1, `no-failing-input-found`), which is",
              "what a behavioural change outside every clause of the property should produce; `pinned suite` = does `tools/baseline.py` (387 tests) kill it.", "",
              "| id | check | outcome | class | pinned suite | why it does not break the property |", "|---|---|---|---|---|---|"]
    for rec in sorted(results, key=lambda r: r["id"]):
        for run in rec.get("runs", []):
            broken = isinstance(rec["expect"], list) and run["prop"] in rec["expect"]
            if broken or run["outcome"] == "caught-replay":
                continue
            sk = suite.get(rec["id"])
            sk = "" if sk is None else ("kills" if sk["suite_kills"] else "survives")
            cls = rec["expect"] if not isinstance(rec["expect"], list) else f"equivalent for {run['prop']} (breaks {','.join(rec['expect'])})"
            lines.append(f"| {rec['id']} | {run['prop']} | {classify(rec, run)} | {cls} | {sk} | {rec['why']} |")
    flagged = [(rec, run) for rec in results for run in rec.get("runs", []) if classify(rec, run) == "flagged with replay"]
    lines += ["", "Mutants outside the property statement that a check nevertheless reports with a replay (a clause of the check that is taken from the",
              "documentation of the function, not from the property): " + (", ".join(f"{r['id']}/{u['prop']} ({(u['says'] or '')[:90]})" for r, u in flagged) or "none"), ""]
    if suite:
        caught_ids = {rec["id"] for rec in results if any(classify(rec, run) == "caught with replay" for run in rec.get("runs", []))}
        surv = sorted(i for i in caught_ids if i in suite and not suite[i]["suite_kills"])
        lines += [f"Pinned suite: of the {len(caught_ids)} mutants that a check catches with a replay, the 387 pinned tests kill "
                  f"{sum(1 for i in caught_ids if i in suite and suite[i]['suite_kills'])} and let {len(surv)} pass ({', '.join(surv)}).", ""]
    bmap = {}
    for rec in before or []:
        for run in rec.get("runs", []):
            bmap[(rec["id"], run["prop"])] = classify(rec, run)
    lines += ["## Every mutant", "", "| id | file | expect | check | outcome" + (" (before)" if before else "") + " | failing inputs / disagreements | wall | pinned suite | what the change is | first replay says |",
              "|---|---|---|---|---|---|---|---|---|---|"]
    for rec in sorted(results, key=lambda r: r["id"]):
        exp = ",".join(rec["expect"]) if isinstance(rec["expect"], list) else rec["expect"]
        if rec.get("error"):
            lines.append(f"| {rec['id']} | {Path(rec['file']).name} | {exp} | - | NOT APPLICABLE: {rec['error']} | | | | {rec['why']} | |")
        sk = suite.get(rec["id"])
        sk = "" if sk is None else ("hangs" if sk["baseline_missing"] is None else "kills" if sk["suite_kills"] else "survives")
        for run in rec.get("runs", []):
            c = classify(rec, run)
            b = bmap.get((rec["id"], run["prop"]))
            cb = f"{c} ({b})" if b and b != c else c
            lines.append(f"| {rec['id']} | {Path(rec['file']).name} | {exp} | {run['prop']} | {cb} | {run['oracle_failures']} / {run['disagreements']} | "
                         f"{run['wall_s']} s | {sk} | {rec['why']} | {(run['says'] or '').replace('|', '/')[:160]} |")
    Path(path).write_text("\n".join(lines) + "\n")


def main():
    ap = argparse.ArgumentParser()
    ap.add_argument("--repo", default=None)
    ap.add_argument("--group", default=None)
    ap.add_argument("--id", default=None, help="comma separated mutant ids")
    ap.add_argument("--only-prop", default=None)
    ap.add_argument("--jobs", type=int, default=4)
    ap.add_argument("--timeout", type=int, default=900)
    ap.add_argument("--json", default=None)
    ap.add_argument("--md", default=None)
    ap.add_argument("--before", default=None, help="result file of the run before the fixes (for the before/after table)")
    ap.add_argument("--merge", default=None, help="existing result file: re-run only the selected mutants, keep the other records")
    ap.add_argument("--verify", action="store_true")
    ap.add_argument("--full-suite", action="store_true", help="--suite: run all 387 pinned tests also for transport.py mutants (default: only the "
                    "pinned tests of tests/test_algorithm/test_transport.py, the only test module that executes a mutated function)")
    ap.add_argument("--baseline-subset", default=None, metavar="REPO", help=argparse.SUPPRESS)
    ap.add_argument("--full-c06", action="store_true", help="group trso: run the whole registered C06 check (default: only its TRSO sub-stream, "
                    "VERIF_C06_SOURCES=trso; the other four sub-streams never execute transport.py)")
    ap.add_argument("--fill-from", default=None, metavar="RESULTS", help="--render: take (mutant, check) pairs missing in --json from RESULTS")
    ap.add_argument("--render", action="store_true", help="only rewrite --md from the results in --json (and --before, suite file)")
    ap.add_argument("--suite", default=None, metavar="FILE",
                    help="instead of the checks run the pinned test suite (tools/baseline.py) on each selected mutant; results merged into FILE")
    ap.add_argument("--not-caught-in", default=None, metavar="RESULTS", help="select the mutants that RESULTS does not show caught with a replay by every check that ran")
    args = ap.parse_args()
    if args.baseline_subset:
        sys.exit(baseline_subset(args.baseline_subset))
    args.repo = Path(args.repo).resolve()
    if args.repo == Path("/repo"):
        sys.exit("refusing to use /repo")
    ids = [m["id"] for m in MUTANTS]
    assert len(ids) == len(set(ids)), "duplicate mutant ids"
    sel = [m for m in MUTANTS if (not args.group or m["group"] == args.group) and (not args.id or m["id"] in args.id.split(","))]
    if args.render:
        results = json.loads(Path(args.json).read_text())["results"]
        if args.fill_from:      # (mutant, check) pairs that the last run did not repeat: keep the earlier run, marked
            have = {(r["id"], run["prop"]) for r in results for run in r.get("runs", [])}
            byid = {r["id"]: r for r in results}
            for r in json.loads(Path(args.fill_from).read_text())["results"]:
                for run in r.get("runs", []):
                    if (r["id"], run["prop"]) not in have:
                        run = dict(run, says=("[round-1 run, not repeated] " + (run.get("says") or ""))[:220])
                        byid.setdefault(r["id"], dict(r, runs=[]))["runs"].append(run)
                        if byid[r["id"]] not in results:
                            results.append(byid[r["id"]])
            order = {m["id"]: i for i, m in enumerate(MUTANTS)}
            results.sort(key=lambda r: order.get(r["id"], 1 << 30))
        cur = {m["id"]: m for m in MUTANTS}
        for r in results:
            if r["id"] in cur:
                r["expect"], r["why"] = cur[r["id"]]["expect"], cur[r["id"]]["why"]
        before = json.loads(Path(args.before).read_text())["results"] if args.before else None
        for r in before or []:
            if r["id"] in cur:
                r["expect"] = cur[r["id"]]["expect"]
        sp = VERIF / "tools" / "mutants_D.suite.json"
        write_md(args.md, results, before, json.loads(sp.read_text()) if sp.exists() else None)
        head = json.loads(Path(args.json).read_text())
        head["results"], head["summary"] = results, summarise(results)
        Path(args.json).write_text(json.dumps(head, indent=1) + "\n")
        print(json.dumps(summarise(results)))
        return
    if args.verify:
        import ast
        bad = 0
        for m in sel:
            src = (args.repo / m["file"]).read_text()
            n = src.count(m["old"])
            ok = n == 1
            if ok:
                try:
                    ast.parse(src.replace(m["old"], m["new"]))
                except SyntaxError as e:
                    ok = False
                    n = f"syntax error {e}"
            if not ok:
                bad += 1
                print(f"{m['id']}: {n}")
        by = {}
        for m in MUTANTS:
            by[m["group"]] = by.get(m["group"], 0) + 1
        print(f"{len(sel)} mutants selected, {bad} problems; per group {by}")
        sys.exit(1 if bad else 0)
    if sh("git", "-C", str(args.repo), "status", "--porcelain", "--untracked-files=no").stdout.strip():
        sys.exit(f"{args.repo} has uncommitted changes")
    if args.not_caught_in:
        res = {r["id"]: r for r in json.loads(Path(args.not_caught_in).read_text())["results"]}
        sel = [m for m in sel if m["id"] in res and any(run["outcome"] != "caught-replay" for run in res[m["id"]]["runs"])]
    if args.suite:
        queue, results, lock = list(sel), [], threading.Lock()
        threads = [threading.Thread(target=suite_worker, args=(k, queue, results, args, lock)) for k in range(min(args.jobs, len(sel)))]
        for t in threads:
            t.start()
        for t in threads:
            t.join()
        old = json.loads(Path(args.suite).read_text()) if Path(args.suite).exists() else {}
        old.update({r["id"]: r for r in results})
        Path(args.suite).write_text(json.dumps(dict(sorted(old.items())), indent=1) + "\n")
        print(f"suite kills {sum(1 for r in results if r['suite_kills'])} of {len(results)} mutants")
        return
    queue, results, lock = list(sel), [], threading.Lock()
    t0 = time.time()
    threads = [threading.Thread(target=worker, args=(k, queue, results, args, lock)) for k in range(min(args.jobs, len(sel)))]
    for t in threads:
        t.start()
    for t in threads:
        t.join()
    order = {m["id"]: i for i, m in enumerate(MUTANTS)}
    if args.merge and Path(args.merge).exists():
        old = json.loads(Path(args.merge).read_text())["results"]
        new_ids = {r["id"] for r in results}
        redone = {(r["id"], run["prop"]) for r in results for run in r["runs"]}
        for r in old:
            if r["id"] not in new_ids:
                results.append(r)
            else:       # keep runs of checks that were not re-run (--only-prop)
                cur = next(x for x in results if x["id"] == r["id"])
                cur["runs"] += [run for run in r["runs"] if (r["id"], run["prop"]) not in redone]
    results.sort(key=lambda r: order.get(r["id"], 1 << 30))
    print(json.dumps(summarise(results), indent=1))
    print(f"total wall {time.time() - t0:.0f}s")
    if args.json:
        head = sh("git", "-C", str(args.repo), "rev-parse", "HEAD").stdout.strip()
        vhead = sh("git", "-C", str(VERIF), "rev-parse", "HEAD").stdout.strip()
        Path(args.json).write_text(json.dumps({"repo_head": head, "verif_head": vhead, "summary": summarise(results), "results": results}, indent=1) + "\n")
    if args.md:
        before = json.loads(Path(args.before).read_text())["results"] if args.before else None
        cur = {m["id"]: m["expect"] for m in MUTANTS}
        for r in before or []:      # the before-table uses the FINAL classification of each mutant (see `why` for the revised ones)
            r["expect"] = cur.get(r["id"], r["expect"])
        sp = VERIF / "tools" / "mutants_D.suite.json"
        write_md(args.md, results, before, json.loads(sp.read_text()) if sp.exists() else None)


if __name__ == "__main__":
    main()
