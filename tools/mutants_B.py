#!/usr/bin/env python3
"""Mutation campaign B: do the checks of C01, C02, C03, C17 turn a property-breaking ONE-SITE change of the ID / IDC /
Tian-Pearl IDENTIFY code of y0 into a `VIOLATION` line with a concrete replay?

    python3 tools/mutants_B.py --repo /work/mutB/repo [--group id|graph|utils|api|idc|tian] [--id i01,...] [--only-prop C01]
                               [--jobs 2] [--json tools/mutants_B.last.json] [--md tools/mutants_B.md] [--before FILE]
    python3 tools/mutants_B.py --repo /work/mutB/repo --verify       # every mutant applies at exactly one site and compiles
    python3 tools/mutants_B.py --repo /work/mutB/repo --suite tools/mutants_B.suite.json [--id ...]   # pinned 387-test suite

Same machinery as tools/mutants_A.py (see its docstring): each mutant is (id, group, file, old text, new text, expect, why, run);
`expect` is the list of properties whose STATEMENT the change breaks, or "equivalent" / "outside-property".  One mutant at a
time is applied to a scratch `git clone` of the given repo copy under /tmp/mutB-<pid>-<k> (removed at the end; never the repo
copy itself); the checks run in the PLAIN quick tier (`VERIF_NO_ESCALATE=1`) with evidence / replays redirected to the scratch
directory.

Reading of the statements used for `expect` (properties.jsonl):
  C01  only speaks about RETURNED estimands (value = P(y | do x) at every assignment; no dependence on other variables).
       A change that makes ID refuse or crash more often does not break C01 (it breaks C02).
  C02  valid query => estimand or the 'unidentifiable' refusal (raised, or None from identify_outcomes), nothing else;
       refusal <=> not identifiable; the caller's graph / query objects unchanged.
  C03  returned IDC estimand = P(y,z|do x)/P(z|do x); otherwise 'unidentifiable', never another failure.  There is NO
       completeness clause: a change that only makes IDC exchange FEWER conditions (rule 2 applied less often) still returns
       correct estimands or refuses, and is outside the property.
  C17  returned expression = Q[C] or FAIL (None); the c-factor routines compute Q of a district.  No completeness clause;
       an exception on an input that satisfies the preconditions is a failure.
"""
from __future__ import annotations

import argparse
import json
import os
import shutil
import subprocess
import sys
import threading
import time
from pathlib import Path

sys.path.insert(0, str(Path(__file__).resolve().parent))
import mutants_A as A  # noqa: E402  (run_check, sh, classify, summarise: the machinery is shared)

VERIF = Path(__file__).resolve().parent.parent
IDS = "src/y0/algorithm/identify/id_std.py"
IDC = "src/y0/algorithm/identify/id_c.py"
UT = "src/y0/algorithm/identify/utils.py"
API = "src/y0/algorithm/identify/api.py"
TI = "src/y0/algorithm/tian_id.py"
GR = "src/y0/graph.py"
PROPS = ["C01", "C02", "C03", "C17"]

GROUP_RUN = {"id": ["C01", "C02"], "graph": ["C01", "C02"], "utils": ["C01", "C02", "C03"], "api": ["C02", "C03"], "idc": ["C03"],
             "tian": ["C17"]}
EQ, OUT = "equivalent", "outside-property"


def M(id, group, file, old, new, expect, why, run=None):
    return {"id": id, "group": group, "file": file, "old": old, "new": new, "expect": expect, "why": why,
            "run": run or GROUP_RUN[group]}


MUTANTS = [
    # =============================================================== id_std.py: identify(), line_1 .. line_7, p_parents
    M("i01", "id", IDS, "        treatments=treatments & outcomes_and_ancestors,\n", "        treatments=treatments,\n", ["C02"],
      "dropped operand (line 2): treatments outside An(Y) stay in the query after they left the graph. Line 1 (`if not treatments`) is then "
      "skipped; when the ancestral graph is a single district line 5 refuses although X has no effect on Y (P(y|do x) = P(y)). Returned "
      "estimands stay correct (stale treatments are ignored by every graph operation), so C01 is not broken"),
    M("i02", "id", IDS, "        estimand=Sum.safe(expression=identification.estimand, ranges=not_outcomes_or_ancestors),\n",
      "        estimand=identification.estimand,\n", ["C01", "C03"],
      "dropped marginalisation (line 2): the carried distribution keeps the non-ancestors; line 1 afterwards sums over the nodes of the "
      "smaller graph only, so the estimand is P(y, w) with w free (treatments that are not ancestors of the outcomes)", run=["C01", "C02", "C03"]),
    M("i03", "id", IDS, "    outcome_ancestral_graph = graph.subgraph(outcomes_and_ancestors)\n",
      "    outcome_ancestral_graph = graph.subgraph(outcomes_and_ancestors | treatments)\n", ["C01", "C03"],
      "wrong graph (line 2): treatments that are not ancestors of Y stay in the graph although the carried estimand already sums them out and the "
      "query drops them; the next line 1 / line 2 sums over them AGAIN, and a sum over a variable that is not free multiplies by its cardinality "
      "(estimand = |dom(x)| * P(y)).  First classified as equivalent ('same up to a nested sum'); the C01 check showed otherwise"),
    M("i04", "id", IDS, "    # line 3\n    no_effect_on_outcome = graph.get_no_effect_on_outcomes(treatments, outcomes)\n",
      "    # line 3\n    no_effect_on_outcome = graph.get_no_effect_on_outcomes(outcomes, treatments)\n", ["C02", "C03"],
      "swapped arguments in identify()'s line-3 test: line_3() itself recomputes the set correctly, so either it raises ValueError (test fired, "
      "nothing to add: another failure) or line 3 is skipped and identifiable effects are refused; never a wrong estimand", run=["C01", "C02", "C03"]),
    M("i05", "id", IDS, "            ranges=vertices.difference(outcomes | treatments),\n", "            ranges=vertices.difference(outcomes),\n", ["C01", "C03"],
      "dropped operand (line 4): the treatments are summed out as well, the estimand no longer depends on x"),
    M("i06", "id", IDS, "    if not graph_without_treatments.is_connected():\n", "    if not graph.is_connected():\n", ["C02", "C03"],
      "wrong graph in the line-4 test (G instead of G minus X): line_4() raises ValueError when G minus X is one district, and a single-district G "
      "whose G minus X falls apart is refused by line 5"),
    M("i08", "id", IDS, "    if district_without_treatment in graph.districts():\n",
      "    if any(district_without_treatment <= d for d in graph.districts()):\n", ["C01", "C02"],
      "subset vs membership (line 6): always true, line 7 is never taken; the line-6 formula over S is returned when S is a proper subset of a "
      "district of G (wrong estimand; estimand where ID must refuse after line 7)"),
    M("i09", "id", IDS, "        ranges = district_without_treatment - outcomes\n", "        ranges = vertices - treatments - outcomes\n", EQ,
      "stale variable, harmless: at line 6 G minus X is one district, so V - X is that district"),
    M("i10", "id", IDS, "    if district_without_treatment in graph.districts():\n        parents = list(graph.topological_sort())\n",
      "    if district_without_treatment in graph.districts():\n        parents = sorted(graph.nodes(), key=lambda v: len(graph.ancestors_inclusive(v)))\n", EQ,
      "another valid topological order at line 6 (sorted by the number of ancestors): a different but equally correct product of conditionals"),
    M("i11", "id", IDS, "    return Sum.safe(estimand, ordering[index + 1 :]) / Sum.safe(estimand, ordering[index:])\n",
      "    return estimand / Sum.safe(estimand, ordering[index:])\n", ["C01"],
      "dropped marginalisation in the numerator of the conditional read off a carried estimand: wrong when the child is not last in the order"),
    M("i12", "id", IDS, "    return type(estimand) is Probability and not estimand.parents\n", "    return isinstance(estimand, Probability)\n", EQ,
      "weaker test: the carried estimand is P(V), a Sum of it, or a Product of >= 2 conditionals (line 7 needs a district of >= 2 nodes), never a "
      "conditional or population-tagged probability, when the caller passes no estimand of their own"),
    M("i13", "id", IDS, "    while isinstance(estimand, Sum):\n", "    if isinstance(estimand, Sum):\n", EQ,
      "one level only: a nested Sum (line 2 twice) is no longer recognised as a marginal of the joint and the conditional is written as the "
      "generic ratio of sums, which has the same value"),
    M("i15", "id", IDS, "                    p_parents(v, parents, identification.estimand) for v in district\n",
      "                    p_parents(v, parents, identification.estimand) for v in district_without_treatments\n", ["C01"],
      "stale variable (line 7): the carried product runs over S instead of S'"),
    M("i16", "id", IDS, "                treatments=treatments & district,\n", "                treatments=treatments,\n", EQ,
      "dropped operand (line 7), harmless: X meets S' anyway (so line 1 is not affected), stale treatments are ignored by every graph operation "
      "and removed by the next line 2 / 4 / 7; G[S'] is one district, so line 5 fires exactly as before"),
    M("i20", "id", IDS, "    outcomes_and_ancestors = graph.ancestors_inclusive(outcomes)\n    not_outcomes_or_ancestors = vertices.difference(outcomes_and_ancestors)\n    if not_outcomes_or_ancestors:\n",
      "    outcomes_and_ancestors = graph.ancestors_inclusive(outcomes | treatments)\n    not_outcomes_or_ancestors = vertices.difference(outcomes_and_ancestors)\n    if not_outcomes_or_ancestors:\n",
      ["C02"],
      "identify()'s line-2 test looks at the ancestors of X and Y (line_2() itself is unchanged and still right whenever it is called): a treatment that is not an "
      "ancestor of Y stays when every node is an ancestor of X or Y, and a single-district graph is then refused by line 5 although do(x) has no effect on Y. "
      "Lines 3-7 are sound without line 2, so no wrong estimand"),
    M("i23", "id", IDS, "            estimand=estimand,\n", "", EQ,
      "dropped argument (line 4): the sub-problems start from P(V(G)) instead of the carried estimand. Line 4 never follows line 7 (after line 7 "
      "G minus X stays one district), so the carried estimand at line 4 is P(V) or a marginal of it and denotes P(V(G)) anyway"),
    M("i27", "id", IDS, "    if districts == {frozenset(vertices)}:\n", "    if districts is {frozenset(vertices)}:\n", OUT,
      "== vs is in line_5(), a function identify() does not call (it has its own line-5 test)"),
    M("i28", "id", IDS, "    if not treatments:\n        return line_1(identification)\n", "    if treatments is None:\n        return line_1(identification)\n", ["C02"],
      "`is None` vs truthiness of the empty set: line 1 never fires; with no treatments left (after line 2) a single-district graph is refused by line 5; "
      "a graph with several districts goes through line 4 and gets a correct estimand"),
    M("i31", "id", IDS, "            p_parents(v, parents, identification.estimand) for v in district_without_treatment\n",
      "            p_parents(v, parents, P(graph.nodes())) for v in district_without_treatment\n", ["C01", "C03"],
      "defect F3 re-introduced at line 6: conditionals of the observational joint instead of the carried estimand (napkin)", run=["C01", "C02", "C03"]),
    M("i32", "id", IDS, "                    p_parents(v, parents, identification.estimand) for v in district\n",
      "                    p_parents(v, parents, P(graph.nodes())) for v in district\n", ["C01"],
      "defect F3 re-introduced at line 7 only: a SECOND line 7 (7 -> 2 -> 7) reads its conditionals off the observational joint"),
    M("i35", "id", IDS, "            parents = list(graph.topological_sort())\n            return Identification.from_parts(\n",
      "            parents = list(graph.subgraph(district).topological_sort())\n            return Identification.from_parts(\n", ["C01"],
      "wrong graph (line 7): the order of G[S'] instead of G, so the conditionals of the carried product lose the predecessors outside S' "
      "(napkin: P(x | w) instead of P(x | w, r)); added after round 1"),

    M("i36", "id", IDS, "    return Sum.safe(estimand, ordering[index + 1 :]) / Sum.safe(estimand, ordering[index:])\n",
      "    return Sum.safe(estimand, ordering[index + 1 :]) / Sum.safe(estimand, ordering[index : index + 2])\n", ["C01"],
      "off by one / truncated range in the denominator of the conditional read off a carried estimand: only the child and the NEXT variable are summed out, "
      "wrong when at least two variables follow the child (needs a carried estimand over >= 3 variables with the child at position <= n-3); added after round 1", run=["C01"]),

    # =============================================================== graph.py helpers used only by ID
    M("g01", "graph", GR, "        return self.remove_in_edges(interventions).ancestors_inclusive(outcomes)\n",
      "        return self.ancestors_inclusive(outcomes)\n", ["C02"],
      "wrong graph (G instead of G with the edges into X removed): after line 2 every node is an ancestor of Y, so line 3 never fires and "
      "effects that need it are refused; never a wrong estimand"),
    M("g02", "graph", GR, "        return self.remove_in_edges(interventions).ancestors_inclusive(outcomes)\n",
      "        return self.remove_out_edges(interventions).ancestors_inclusive(outcomes)\n", EQ,
      "edges OUT of X removed instead of edges INTO X: for a node outside X both say 'has a directed path to Y that avoids X', and "
      "get_no_effect_on_outcomes subtracts X itself; get_intervened_ancestors has no other caller"),
    M("g03", "graph", GR, "            set(self.nodes())\n            - interventions\n            - self.get_intervened_ancestors(interventions, outcomes)\n",
      "            set(self.nodes())\n            - self.get_intervened_ancestors(interventions, outcomes)\n", ["C02"],
      "dropped operand: a treatment that reaches Y only through another treatment (x1 -> x2 -> y) counts as 'no effect', line 3 adds it to X, "
      "nothing changes and ID recurses for ever (RecursionError)"),
    M("g04", "graph", GR, "        return cast(bool, nx.is_connected(self.undirected))\n", "        return cast(bool, nx.is_connected(self.disorient()))\n", ["C02"],
      "wrong graph: connectivity through all edges instead of the bidirected ones (lines 4 and 5): line 4 fires less often (when it fires it is right), line 5 "
      "refuses identifiable effects and _get_single_district raises RuntimeError; never a wrong estimand (first classified as breaking C01 too)"),
    M("g05", "graph", GR, "            - self.get_intervened_ancestors(interventions, outcomes)\n", "            - self.get_intervened_ancestors(outcomes, interventions)\n", ["C01", "C02"],
      "swapped arguments: ancestors of X in the graph with the edges into Y removed"),

    # =============================================================== utils.py: Query / Identification
    M("u01", "utils", UT, "        self.outcomes = _ensure_set(outcomes)\n",
      "        self.outcomes = outcomes if isinstance(outcomes, set) else _ensure_set(outcomes)\n", EQ,
      "missing copy of a set argument (aliasing): nothing in ID / IDC mutates a query set", run=["C02", "C03"]),
    M("u02", "utils", UT, "            treatments=self.treatments.union(extra_treatments),\n", "            treatments=set(extra_treatments),\n", ["C01", "C02"],
      "dropped operand in with_treatments (line 3): the original treatments are forgotten", run=["C01", "C02"]),
    M("u03", "utils", UT, "            treatments=self.treatments.union(extra_treatments),\n",
      "            treatments=self.treatments.update(extra_treatments) or self.treatments,\n", ["C02"],
      "in-place union: when line 3 fires in the FIRST call (no line 2 before it) the caller's Query.treatments grows; the result is unchanged", run=["C01", "C02"]),
    M("u04", "utils", UT, "            treatments=self.treatments | variables,\n", "            treatments=variables,\n", ["C03"],
      "dropped operand in exchange_observation_with_action: the treatments are lost when a condition is exchanged", run=["C03"]),
    M("u05", "utils", UT, "            conditions=self.conditions - variables,\n", "            conditions=self.conditions,\n", ["C03"],
      "dropped set difference in exchange_observation_with_action: the exchanged condition stays a condition, the next rule-2 test conditions on its own endpoint "
      "(networkx NodeNotFound) or recurses for ever", run=["C03"]),
    M("u06", "utils", UT, "            outcomes=self.outcomes | self.conditions,\n", "            outcomes=self.outcomes,\n", ["C03"],
      "dropped operand in uncondition: ID is asked for P(y | do x), the normalisation then gives 1 * that", run=["C03"]),
    M("u07", "utils", UT, "            outcomes=self.outcomes | self.conditions,\n", "            outcomes=self.outcomes.update(self.conditions) or self.outcomes,\n", ["C03"],
      "in-place union in uncondition: the query's outcomes now contain the conditions, so idc() normalises over Y and Z (estimand = joint / 1) and the caller's "
      "query object is modified", run=["C03"]),
    M("u08", "utils", UT, "        conditions = {parent.get_base() for parent in query.parents}\n", "        conditions = set()\n", ["C03"],
      "Query.from_expression forgets the conditions: an Identification built from P[X](Y | Z) is identified as P[X](Y)", run=["C03"]),
    M("u09", "utils", UT, "            treatments = {intervention.get_base() for intervention in first_child.interventions}\n",
      "            treatments = set(first_child.interventions)\n", ["C02"],
      "Query.from_expression keeps the Intervention objects: Query.__init__ -> _ensure_set rejects them with TypeError, so every Identification built from "
      "P[X](Y) / P(Y @ X) fails in another way (and `import y0.examples`, which builds such objects, raises).  No estimand is returned, so C01 is not broken "
      "(first classified as 'treatments silently ignored', breaking C01 too)", run=["C01", "C02"]),
    M("u10", "utils", UT, "        self.graph = str_nodes_to_variable_nodes(graph)\n", "        self.graph = graph\n", EQ,
      "missing copy of the graph (aliasing): no operation of ID / IDC mutates a graph, every surgery builds a new one", run=["C02", "C03"]),
    M("u14", "utils", UT, "        outcomes = {child.get_base() for child in query.children}  # clean counterfactuals\n",
      "        outcomes = {query.children[0].get_base()}  # clean counterfactuals\n", ["C01"],
      "Query.from_expression keeps the first child only: P[X](Y1, Y2) is identified as P[X](Y1)", run=["C01"]),
    M("u15", "utils", UT, "            treatments=self.treatments | variables,\n", "            treatments=self.treatments.update(variables) or self.treatments,\n", OUT,
      "in-place union in exchange_observation_with_action: the caller's Query.treatments grows when IDC exchanges a condition in its first call; the estimand is "
      "unchanged and C03 has no side-effect clause (C02's clause is about ID).  The C03 check compares the caller's objects anyway; added after round 1", run=["C03"]),

    # =============================================================== api.py: identify_outcomes
    M("p01", "api", API, "        if conditions is None:\n", "        if not conditions:\n", OUT,
      "truthiness vs `is None`: an EMPTY conditions collection selects ID instead of IDC-with-nothing-to-condition-on; E and E / Sum_Y E have the same value",
      run=["C02"]),
    M("p02", "api", API, "            rv = idc(identification)\n", "            rv = identify(identification)\n", ["C03"],
      "wrong callee: identify_outcomes(conditions=...) runs ID, which ignores the conditions", run=["C03"]),
    M("p03", "api", API, "    except Unidentifiable:\n        return None\n", "    except Unidentifiable:\n        raise\n", OUT,
      "identify_outcomes re-raises Unidentifiable instead of returning None: still the 'unidentifiable' refusal", run=["C02", "C03"]),
    M("p05", "api", API, "    query = Query(treatments=treatments, outcomes=outcomes, conditions=conditions)\n",
      "    query = Query(treatments=treatments, outcomes=outcomes)\n", ["C03"],
      "argument not forwarded: IDC runs on a query without conditions", run=["C03"]),

    # =============================================================== id_c.py: idc, rule_2_of_do_calculus_applies
    M("c01", "idc", IDC, "    conditions = treatments | (identification.conditions - {condition})\n", "    conditions = treatments | identification.conditions\n", ["C03"],
      "dropped set difference: the tested condition is in its own conditioning set (are_d_separated deletes it from the evidence graph: NodeNotFound)"),
    M("c02", "idc", IDC, "    conditions = treatments | (identification.conditions - {condition})\n", "    conditions = identification.conditions - {condition}\n", OUT,
      "dropped operand: the rule-2 test does not condition on the treatments. In the graph with the edges into X removed a treatment has no incoming edge of either kind, "
      "so it is never a collider nor a descendant of one: conditioning on it can only block paths. Without it the test sees at least the same connections: fewer exchanges, still sound"),
    M("c03", "idc", IDC, "    graph_mod = graph.remove_in_edges(treatments).remove_out_edges(condition)\n", "    graph_mod = graph.remove_out_edges(condition)\n", OUT,
      "dropped surgery (edges into X stay): a supergraph has at least the d-connections of the subgraph, so rule 2 is applied less often; no completeness clause in C03"),
    M("c04", "idc", IDC, "    graph_mod = graph.remove_in_edges(treatments).remove_out_edges(condition)\n", "    graph_mod = graph.remove_in_edges(treatments)\n", OUT,
      "dropped surgery (edges out of Z stay): rule 2 is applied only when Z is separated from Y in the larger graph, i.e. less often; still sound"),
    M("c05", "idc", IDC, "    graph_mod = graph.remove_in_edges(treatments).remove_out_edges(condition)\n",
      "    graph_mod = graph.remove_in_edges(treatments).remove_in_edges(condition)\n", ["C03"],
      "wrong surgery: edges INTO the condition removed (rule 3's graph): a confounded condition z <-> y is exchanged"),
    M("c06", "idc", IDC, "    graph_mod = graph.remove_in_edges(treatments).remove_out_edges(condition)\n",
      "    graph_mod = graph.remove_out_edges(treatments).remove_out_edges(condition)\n", OUT,
      "edges OUT of X removed instead of edges INTO X: a d-connecting path of the correct graph given X u W never touches X (X has only outgoing edges there and is "
      "conditioned on) and its colliders are opened through directed paths that avoid X, so it is d-connecting in the mutant's graph too: fewer exchanges, still sound"),
    M("c07", "idc", IDC, "    return all(\n", "    return any(\n", ["C03"],
      "any vs all: with two outcomes a condition is exchanged when ONE outcome is separated from it"),
    M("c08", "idc", IDC, "            return idc(identification.exchange_observation_with_action(condition))\n",
      "            identification = identification.exchange_observation_with_action(condition)\n", OUT,
      "dropped recursion: one pass over the conditions (the loop keeps iterating the ORIGINAL set), a condition refused before a later exchange is not retried: fewer exchanges, still sound"),
    M("c09", "idc", IDC, "    return id_estimand.normalize_marginalize(identification.outcomes)\n", "    return id_estimand.normalize_marginalize(identification.conditions)\n", ["C03"],
      "stale variable: normalised over the conditions instead of the outcomes"),
    M("c10", "idc", IDC, "    id_estimand = identify(identification.uncondition())\n", "    id_estimand = identify(identification)\n", ["C03"],
      "dropped call: ID runs on the outcomes only"),
    M("c12", "idc", IDC, "        for outcome in identification.outcomes\n", "        for outcome in list(identification.outcomes)[:1]\n", ["C03"],
      "wrong iteration target: only the outcome that the set happens to list first is tested (iteration-order dependent, needs two outcomes)"),
    M("c13", "idc", IDC, "        are_d_separated(graph_mod, outcome, condition, conditions=conditions)\n",
      "        are_d_separated(graph_mod, outcome, condition, conditions=treatments)\n", ["C03"],
      "stale variable: the rule-2 test conditions on the treatments only; a collider opened by another condition is overlooked; added after round 1"),
    M("c14", "idc", IDC, "            return idc(identification.exchange_observation_with_action(condition))\n",
      "            return identify(identification.exchange_observation_with_action(condition).uncondition())\n", ["C03"],
      "early return: after the first exchange the joint P(y, z' | do(x, z)) is returned without the normalisation (wrong as soon as a second condition remains); added after round 1"),

    # =============================================================== tian_id.py
    M("t01", "tian", TI, "    ancestral_set = frozenset(district_subgraph.ancestors_inclusive(input_variables))\n",
      "    ancestral_set = frozenset(graph.ancestors_inclusive(input_variables))\n", ["C17"],
      "wrong graph: ancestors in G instead of G_T; with a parent outside T the set is not inside T (NotImplementedError)"),
    M("t02", "tian", TI, "        ancestral_set_subgraph = graph.subgraph(vertices=ordered_ancestral_set)\n",
      "        ancestral_set_subgraph = district_subgraph.subgraph(vertices=ordered_ancestral_set)\n", EQ, "A is inside T: G_A = (G_T)_A"),
    M("t03", "tian", TI, "                input_variables.issubset(district) for district in ancestral_set_subgraph_districts\n",
      "                bool(input_variables & district) for district in ancestral_set_subgraph_districts\n", EQ,
      "meets vs inside: C induces one district, so it lies inside the one district of G_A it meets"),
    M("t04", "tian", TI, "            graph=graph,\n            topo=topo,\n", "            graph=ancestral_set_subgraph,\n            topo=topo,\n", EQ,
      "the recursion only takes subgraphs on subsets of T' which lies inside A"),
    M("t05", "tian", TI, "            ancestral_set_children = [world.get(a, a) for a in ordered_ancestral_set]\n",
      "            ancestral_set_children = [world.get(a, a) for a in topo if a in input_district]\n", EQ,
      "stale variable: Q[A] is written with the children of T on the Probability branch. Harmless: the only consumer is Lemma 1 (compute_c_factor on a Probability), "
      "which reads the parents and the intervention subscripts of the children and takes the variables from `subgraph_variables`, never the list of children "
      "(first classified as breaking C17; silent, no disagreement with the model in 20 480 cases)"),
    M("t06", "tian", TI, "            preceding_variables = [world.get(v, v) for v in topo[: topo.index(variable)]]\n            conditioned_variables = graph_probability_parents.union(preceding_variables)  # V^(i-1)\n            probability = P(",
      "            preceding_variables = [world.get(v, v) for v in topo[: topo.index(variable) + 1]]\n            conditioned_variables = graph_probability_parents.union(preceding_variables)  # V^(i-1)\n            probability = P(",
      ["C17"], "off by one in Lemma 1 (plain branch): the variable is conditioned on itself"),
    M("t08", "tian", TI, "        rv = Fraction(current_index_expr, previous_index_expr)\n", "        rv = current_index_expr / previous_index_expr\n", EQ,
      "operator instead of constructor: x / 1 = x and (a/b) re-associated, same value"),
    M("t09", "tian", TI, "        return One()\n", "        return Sum.safe(graph_probability, topo)\n", EQ,
      "Q[H^(0)] written as the sum of Q[H] over all of H, which is 1 for every c-factor"),
    M("t10", "tian", TI, "    subgraph_topo = [v for v in graph_topo if v in subgraph_variables]\n",
      "    subgraph_topo = [v for v in graph_topo if v in subgraph_variables or v in district]\n", EQ, "the district lies inside the subgraph"),
    M("t11", "tian", TI, "    marginalization_variables = [v for v in graph_topo if v in marginalization_set]\n",
      "    marginalization_variables = [v for v in graph_topo[1:] if v in marginalization_set]\n", ["C17"],
      "off by one in Lemma 3: the first variable of the order is never summed out (needs T minus A to contain the first variable of topo)"),
    M("t14", "tian", TI, "    if ancestral_set == input_variables:\n", "    if ancestral_set == input_variables and ancestral_set != input_district:\n", OUT,
      "A = C = T is reported as FAIL instead of returning Q[T]: allowed by 'or reports failure' (no completeness clause)"),
    M("t20", "tian", TI, "    if len(district_subgraph.districts()) > 1:\n", "    if len(graph.districts()) > 1:\n", ["C17"],
      "wrong graph in the validation: TypeError whenever G has two districts"),
    M("t21", "tian", TI, "    district_subgraph = graph.subgraph(vertices=input_district)  # $G_{T}$\n", "    district_subgraph = graph.subgraph(vertices=input_variables)  # $G_{T}$\n", ["C17"],
      "stale variable: G_C instead of G_T, so A = C always and Sum_{T-C} Q[T] is returned even when C is not ancestral in G_T"),
    M("t24", "tian", TI, "            ].index(True)\n        ]\n", "            ].index(True) * 0\n        ]\n", ["C17"],
      "first district of G_A in set-iteration order instead of the one that contains C (KeyError in the recursive call, hash-order dependent)"),
    M("t27", "tian", TI, "            input_district=targeted_ancestral_set_subgraph_district,\n", "            input_district=ancestral_set,\n", ["C17"],
      "stale variable in the recursive call: A is handed over as the district together with Q[T'] (TypeError when G_A has several districts); added after round 1"),
    M("t31", "tian", TI, "    ordered_ancestral_set = [a for a in topo if a in ancestral_set]\n", "    ordered_ancestral_set = [a for a in topo if a in input_variables]\n", ["C17"],
      "stale variable: G_C instead of G_A in the recursive branch, so T' = C and Lemma 1 / Lemma 4 are applied to C as if it were a district of G_A; added after round 1"),
    M("t32", "tian", TI, "    ranges = topo[topo.index(vertex) + 1 :]\n", "    ranges = topo[topo.index(vertex) + 1 :][:2]\n", ["C17"],
      "truncated range in Eq. 72: at most two later variables are summed out (needs a Lemma-4 form over >= 4 variables with the vertex at position <= n-4); added after round 1"),
]

FIXES = """## Narrative

**Round 1** (65 mutants, 100 check runs, plain quick tier, seed 0, harness as of e0ce07f).  Every property-breaking mutant was reported with a
`VIOLATION` line and a concrete replay by the check of each property it breaks, except two -- both of which the pinned suite kills:

* **u09** (C01, C02; `Query.from_expression` keeps the `Intervention` objects): *exit 1 without any VIOLATION line.*  `y0.examples` builds
  `Identification.from_expression(...)` objects at import time, the mutant makes that raise `TypeError`, and the checks of C01 / C02 import
  `y0.examples` for their corpus while *generating* the cases -- a traceback before the first case ran.  Suite: kills (166 tests).
* **g03** (C02; `get_no_effect_on_outcomes` forgets to subtract X, line 3 then re-adds a treatment for ever): *timeout (> 700 s).*  The oracle
  does classify `RecursionError` as a failure, but every failing input costs Python's full 1000 frames with ~5 graph rebuilds per frame, and
  shrinking repeats that for up to 8 x 300 candidates.  Suite: kills (19 tests).

Independently of the mutants, the coordinator handed over two seeded changes of `are_d_separated` (anchored for C03 too) that `./check C03`
MISSED in both tiers (0 disagreements) while C04 caught them:

* **seed C03c**: parents of DIFFERENT members of one district are no longer joined;  **seed C04c**: the clique of a fully conditioned district is
  skipped.  Both report `a -> c1 <-> c2 <- b` given `{c1, c2}` as separated.  For IDC the smallest trigger has 5 nodes and THREE conditions
  (`Z <- A -> C1 <-> C2 <- Y`, query `P(Y | Z, C1, C2)`): rule 2 is wrongly accepted for `Z` and the estimand is `P(y | c1, c2)`.  The C03
  stream had 1-2 conditions per random query and the `collider_family` stream a single opened collider.

**Changes to the checks** (files: `harness/props/c03.py`, `corpus/C03/c03c_collider_chain.json`, `harness/oracles/id_run.py`):

* **C03, `collider_chain_family`** (220 cases per quick run, 1 500 thorough, appended at the END of the stream so that the earlier cases of a seed are
  unchanged): `Z (<- A -> | <-> A ->) C1 <-> C2 (<-> C3) (<- Y | <- B <- Y | <- B -> Y | <- B <-> Y)`, every `Ci` a condition (3-4 conditions, 5-7 nodes),
  optional treatment `X` (parent of `Y`, `A` or `B`), optional `Z -> Y`, optional extra bidirected edge `A <-> C1` / `C1 <-> C3`, a control variant in which
  the last chain member is opened by a conditioned child instead, random relabelling, both entry points; plus the two demo inputs of the seeds as
  corpus entries.  On the unchanged tree all 220 cases return an estimand with 0 exchanges; under either seed 193 of 220 fail the exact-SCM oracle.
  Cost: 6 s of single-process time (about 1 s of wall with 8 processes).
* **ID family (C01, C02, C03, C06), non-termination guard** in `id_run.run_identify`: the recursion limit is lowered to *this frame + 100 + 10 per
  node* for the duration of the call (measured on 2 750 cases: the real recursion never goes deeper than 26 Python frames below `run_identify` for graphs
  with up to 8 nodes) and restored afterwards.  A run-away recursion is still reported as `RecursionError ... on a valid query`, 6-7 times cheaper.
* **ID family, `example_corpus`**: an exception while importing `y0.examples` no longer aborts the check; the corpus part is skipped with a `NOTE:` line
  and the generated stream -- which drives `Identification.from_expression` inside `run_identify`'s `try` -- names the failing input.

**Round 2** (71 mutants: i35, u15, c13, c14, t27, t31 were added after round 1 to probe shapes round 1 had not asked for -- predecessors outside S' at
line 7, a collider opened by ANOTHER condition, two conditions with one exchange, depth >= 1 IDENTIFY recursions with T' != C).  Re-run after the
changes: the two misses, the six new mutants, and every C03 run (the C03 stream changed); the C01 / C02 / C17 rows of the other mutants are the
round-1 runs (their checks changed only by the recursion guard, and C01 / C02 / C03 / C06 were re-run on the unchanged tree: exit 0, no VIOLATION line,
seeds 0, 1, 2 (C06: seed 0)).

Seeded changes (plain quick tier of C03, `VERIF_NO_ESCALATE=1`, and as registered):

| seed | C03 before | C03 after (plain) | C03 after (as registered) |
|---|---|---|---|
| C03c (parents of different members of one district not joined) | MISSED: exit 0, 0 disagreements in 3 026 (plain) and 20 000 (escalated) cases | caught with replay: 193 failing inputs of 3 249 cases, 5 VIOLATION lines | caught with replay: 1 160 failing inputs of 20 000 |
| C04c (clique of a fully conditioned district skipped) | MISSED (same runs) | caught with replay: 193 failing inputs, 5 VIOLATION lines | caught with replay: 1 160 failing inputs |

Initial guesses revised after the runs (the `why` column has the argument): **i03** was classified equivalent ("the same up to a nested sum") and is
not -- a sum over a variable that is no longer free multiplies by its cardinality; C01 and C03 report it with replays.  **g04** breaks C02 only (line 4
fires less often, never wrongly).  **t05** is equivalent (Lemma 1 never reads the list of children of the probability it is given; 0 disagreements with
the model in 20 480 cases).  **c02** (rule 2 without the treatments in the conditioning set) and **c03 / c04 / c06** only make rule 2 apply LESS often,
which C03 allows (no completeness clause): the check reports a correspondence disagreement and finds no failing input, as it should.
**g02** differs from the original only when X and Y overlap (outside the quantifier; 53 disagreements in C02's malformed stream).

**Round 2 result.**  u09 / C02: caught with replay (`ID failed with TypeError (can not use interventions here) on a valid query`, 4 365 failing
inputs, 50 s).  g03 / C02: caught with replay (`ID failed with RecursionError`, 2 974 failing inputs, 350 s on a machine with load 70; > 700 s
before).  The eight mutants added after round 1 (i35, i36, u15, c13, c14, t27, t31, t32) are all caught with replays by the checks of the properties
they break; u15 (a side effect only, outside C03's statement) is flagged by the C03 check's comparison of the caller's objects.  Still open: the
C01 check on g03 does not finish in 700 s -- g03 does not break C01 (no estimand is returned), so C01 has no failing input, starts its extended
search (24 000 cases of the thorough stream) and each run-away recursion still costs ~150 frames of graph rebuilds; C02 reports it.

**Streams added on the reviewer's list** (gap review round 5; all appended at the end of the case lists, so the cases a seed produced before are
unchanged and every seeded change caught before (C01c, C02d, C17d, ...) meets the same inputs as before):

* C03: `collider_chain_family` (above), `multi_exchange_family` (160 quick / 1 200 thorough: 2-4 exchangeable conditions in a row, optionally one that
  must be refused, optionally a treatment with a bow arc so that ALL exchanges succeed and the final ID call refuses; measured on the unchanged tree:
  2, 3 and 4 successive exchanges, 76 runs with >= 2 exchanges followed by a refusal), `idc_napkin_family` (120 / 1 000: napkin-like graphs of
  `napkin_family` with 1-2 extra conditions (parent / child / confounded parent of an outcome, or one of the napkin's own nodes); 90 of 120 final ID calls
  go 7 -> 6 on a carried estimand); 5-7 nodes, so n >= 6 now occurs.
* C01: `napkin_tower` (24 / 150: 2- and 3-level nested napkins, ID path 3,7,2,7,2,7,2,6 on 8 binary nodes = 256 states, one model), `multi_district_family`
  (150 / 1 200: line 4 into 2-3 two-node districts, outcomes in 2-3 districts, |Y| up to 4, 143 of 150 go through line 4 with multi-node districts),
  60 / 600 random 6-node graphs with |X|, |Y| <= 3 (binary, one model).
* C02: the same two families (300 / 2 000), half of the towers with one extra bidirected edge (38 refusals only after one, two or three line 7s:
  paths 3725, 372725, 37272725), and `big_query` on 6-8 nodes with |X| <= 4, |Y| <= 4 (1 200 / 8 000).
* C17: `_structured_graph(..., nm)`: outside MEDIATORS t1 -> m -> t2 (T is not a block of any topological order; G_T and the IDENTIFY trace are unchanged,
  only iprob / Lemma-1 product / Lemma-4 ratio forms denote Q[T]); appended stream of ~2 400 quick cases, 263 IDENTIFY calls on a non-block district with
  recursion depth 1-2 (476 return an expression).
* NOT added: new entry forms (`Query.from_str`, explicit `estimand=`, str-node graphs).  The form of every case is `options[crc(case) % len(options)]`
  (harness/forms.py), so a new option re-deals the forms of every case of C01 / C02 / C03 / C06 at once; that needs its own validation round
  (and `id_slots` is shared with C06, which is not mine).  |X| >= 4 / |Y| >= 3 for C01 beyond 6 nodes: not added (evaluation cost).

All four checks exit 0 with no VIOLATION line on the unchanged tree for VERIF_SEED = 0, 1, 2 after the changes (C06, which shares `id_run.py`: seed 0).

No mutant revealed a defect of the unchanged y0.
""".split("\n")


# ---------------------------------------------------------------------------------------------------- running (as in mutants_A)

def run_check(prop, repo, scratch, timeout):
    if os.environ.get("MUTB_SEED"):
        os.environ["MUTA_SEED"] = os.environ["MUTB_SEED"]
    return A.run_check(prop, repo, scratch, timeout)


def worker(k, queue, results, args, lock):
    scratch = Path(f"/tmp/mutB-{os.getpid()}-{k}")
    repo = scratch / "repo"
    shutil.rmtree(scratch, ignore_errors=True)
    scratch.mkdir(parents=True)
    try:
        r = A.sh("git", "clone", "-q", "--no-hardlinks", str(args.repo), str(repo))
        if r.returncode != 0:
            raise RuntimeError("clone failed: " + r.stderr)
        while True:
            with lock:
                if not queue:
                    break
                m = queue.pop(0)
            f = repo / m["file"]
            src = f.read_text()
            n = src.count(m["old"])
            rec = {"id": m["id"], "group": m["group"], "file": m["file"], "expect": m["expect"], "why": m["why"], "runs": []}
            if n != 1:
                rec["error"] = f"pattern occurs {n} times"
            else:
                try:
                    f.write_text(src.replace(m["old"], m["new"]))
                    for p in m["run"]:
                        if args.only_prop and p != args.only_prop:
                            continue
                        res = run_check(p, repo, scratch, args.timeout)
                        rec["runs"].append(res)
                        with lock:
                            print(f"{m['id']:5s} {p} {res['outcome']:20s} fails={res['oracle_failures']} dis={res['disagreements']} "
                                  f"{res['wall_s']}s expect={m['expect']} {res['says'][:110]}", flush=True)
                finally:
                    f.write_text(src)
            with lock:
                results.append(rec)
    finally:
        shutil.rmtree(scratch, ignore_errors=True)


def suite_worker(k, queue, results, args, lock):
    """does the pinned 387-test suite (tools/baseline.py) kill the mutant?"""
    import re
    import signal
    scratch = Path(f"/tmp/mutB-{os.getpid()}-s{k}")
    repo = scratch / "repo"
    shutil.rmtree(scratch, ignore_errors=True)
    scratch.mkdir(parents=True)
    try:
        r = A.sh("git", "clone", "-q", "--no-hardlinks", str(args.repo), str(repo))
        if r.returncode != 0:
            raise RuntimeError("clone failed: " + r.stderr)
        while True:
            with lock:
                if not queue:
                    break
                m = queue.pop(0)
            f = repo / m["file"]
            src = f.read_text()
            if src.count(m["old"]) != 1:
                continue
            try:
                f.write_text(src.replace(m["old"], m["new"]))
                t0 = time.time()
                p = subprocess.Popen(["python3", str(VERIF / "tools" / "baseline.py"), str(repo)], stdout=subprocess.PIPE,
                                     stderr=subprocess.STDOUT, text=True, start_new_session=True,
                                     env=dict(os.environ, PYTHONDONTWRITEBYTECODE="1"))
                try:
                    out, _ = p.communicate(timeout=1500)
                except subprocess.TimeoutExpired:
                    os.killpg(p.pid, signal.SIGKILL)
                    out, _ = p.communicate()
                    out += "\nTIMEOUT"
                mm = re.search(r"passed=(\d+) baseline=(\d+) baseline_missing=(\d+)", out)
                rec = {"id": m["id"], "suite_kills": p.returncode != 0, "baseline_missing": int(mm.group(3)) if mm else None,
                       "first_missing": [ln.strip()[8:] for ln in out.splitlines() if ln.strip().startswith("MISSING")][:3],
                       "wall_s": round(time.time() - t0, 1)}
                with lock:
                    results.append(rec)
                    print(f"{m['id']:5s} suite {'KILLS' if rec['suite_kills'] else 'survives'} missing={rec['baseline_missing']} "
                          f"{rec['wall_s']}s {rec['first_missing'][:1]}", flush=True)
            finally:
                f.write_text(src)
    finally:
        shutil.rmtree(scratch, ignore_errors=True)


classify, summarise = A.classify, A.summarise
SUITE_FILE = VERIF / "tools" / "mutants_B.suite.json"


def write_md(path, results, before=None, suite=None):
    suite = suite or {}
    lines = ["# Mutation campaign B (C01, C02, C03, C17)", "",
             "Generated by `tools/mutants_B.py` (plain quick tier, `VERIF_NO_ESCALATE=1`, seed 0). One hand-written one-site mutant of y0 at a",
             "time in a scratch clone; `breaking` = the mutant violates the statement of the property, `not breaking` = equivalent or",
             "outside the property (see the `why` of each mutant in the tool).  Anchored files: identify/id_std.py, id_c.py, utils.py, api.py,",
             "tian_id.py and the graph.py helpers only they use (get_intervened_ancestors, get_no_effect_on_outcomes, is_connected).", ""]

    def table(title, summ):
        lines.append(f"## {title}")
        lines.append("")
        lines.append("| property | breaking: caught with replay | breaking: correspondence only | breaking: MISSED | not breaking: silent | not breaking: correspondence only | not breaking: flagged with replay | other |")
        lines.append("|---|---|---|---|---|---|---|---|")
        for p in PROPS:
            s = summ.get(p)
            if not s:
                continue
            b, nb = s["breaking"], s["not-breaking"]
            known = {"caught with replay", "correspondence only", "MISSED"}
            other = {k: v for k, v in b.items() if k not in known}
            other.update({k: v for k, v in nb.items() if k not in {"silent", "correspondence only", "flagged with replay"}})
            lines.append(f"| {p} | {b.get('caught with replay', 0)} | {b.get('correspondence only', 0)} | {b.get('MISSED', 0)} | "
                         f"{nb.get('silent', 0)} | {nb.get('correspondence only', 0)} | {nb.get('flagged with replay', 0)} | {other or ''} |")
        lines.append("")

    if before:
        table(f"Round 1: before the harness changes of this campaign ({len(before)} mutants, final classification)", summarise(before))
        table(f"Round 2: after ({len(results)} mutants)", summarise(results))
    else:
        table("Result", summarise(results))
    lines += FIXES
    bmap0 = {(rec["id"], run["prop"]): classify(rec, run) for rec in before or [] for run in rec.get("runs", [])}
    fixed = [(rec, run) for rec in results for run in rec.get("runs", [])
             if classify(rec, run) == "caught with replay" and bmap0.get((rec["id"], run["prop"]), "caught with replay") != "caught with replay"]
    lines += ["## Mutants that break a property and were NOT caught with a replay before the fixes (class b)", "",
              "| id | check | before | after | what the change is | replay after the fix says |", "|---|---|---|---|---|---|"]
    for rec, run in fixed:
        lines.append(f"| {rec['id']} | {run['prop']} | {bmap0[(rec['id'], run['prop'])]} | caught with replay ({run['oracle_failures']} failing inputs) | {rec['why']} | "
                     f"{(run['says'] or '').replace('|', '/')[:200]} |")
    still = [(rec, run) for rec in results for run in rec.get("runs", []) if classify(rec, run) in ("MISSED", "correspondence only")
             and isinstance(rec["expect"], list) and run["prop"] in rec["expect"]]
    lines += ["", f"Property-breaking mutants still not caught with a replay after the fixes: {len(still)}"
              + ("" if not still else " -- " + ", ".join(f"{r['id']}/{u['prop']}" for r, u in still)), ""]
    lines += ["## Mutants not caught with a replay because they do not break the property (class a)", "",
              "`silent` = the check exits 0; `correspondence only` = the model and the code differ on some input (exit 1, `no-failing-input-found`), which is",
              "what a behavioural change outside every clause of the property should produce; `pinned suite` = does `tools/baseline.py` (387 tests) kill it.", "",
              "| id | check | outcome | class | pinned suite | why it does not break the property |", "|---|---|---|---|---|---|"]
    for rec in sorted(results, key=lambda r: r["id"]):
        for run in rec.get("runs", []):
            broken = isinstance(rec["expect"], list) and run["prop"] in rec["expect"]
            if broken or run["outcome"] == "caught-replay":
                continue
            sk = suite.get(rec["id"])
            sk = "" if sk is None else ("kills" if sk["suite_kills"] else "survives")
            cls = rec["expect"] if not isinstance(rec["expect"], list) else f"not breaking {run['prop']} (breaks {','.join(rec['expect'])})"
            lines.append(f"| {rec['id']} | {run['prop']} | {classify(rec, run)} | {cls} | {sk} | {rec['why']} |")
    flagged = [(rec, run) for rec in results for run in rec.get("runs", []) if classify(rec, run) == "flagged with replay"]
    lines += ["", "Mutants that do not break the statement of the property of a check which nevertheless reports them with a replay: "
              + (", ".join(f"{r['id']}/{u['prop']} ({(u['says'] or '')[:90]})" for r, u in flagged) or "none"), ""]
    if suite:
        caught_ids = {rec["id"] for rec in results if any(classify(rec, run) == "caught with replay" for run in rec.get("runs", []))}
        surv = sorted(i for i in caught_ids if i in suite and not suite[i]["suite_kills"])
        tested = [i for i in caught_ids if i in suite]
        lines += [f"Pinned suite: of the {len(caught_ids)} mutants that a check catches with a replay, {len(tested)} were run against the 387 pinned tests: they kill "
                  f"{sum(1 for i in tested if suite[i]['suite_kills'])} and let {len(surv)} pass ({', '.join(surv)}).", ""]
    bmap = {}
    for rec in before or []:
        for run in rec.get("runs", []):
            bmap[(rec["id"], run["prop"])] = classify(rec, run)
    lines += ["## Every mutant", "", "| id | file | expect | check | outcome" + (" (before)" if before else "") + " | failing inputs / disagreements | wall | pinned suite | what the change is | first replay says |",
              "|---|---|---|---|---|---|---|---|---|---|"]
    for rec in sorted(results, key=lambda r: r["id"]):
        exp = ",".join(rec["expect"]) if isinstance(rec["expect"], list) else rec["expect"]
        if rec.get("error"):
            lines.append(f"| {rec['id']} | {Path(rec['file']).name} | {exp} | - | NOT APPLICABLE: {rec['error']} | | | | {rec['why']} | |")
        sk = suite.get(rec["id"])
        sk = "" if sk is None else ("hangs" if sk["baseline_missing"] is None else "kills" if sk["suite_kills"] else "survives")
        for run in rec.get("runs", []):
            c = classify(rec, run)
            b = bmap.get((rec["id"], run["prop"]))
            cb = f"{c} ({b})" if b and b != c else c
            lines.append(f"| {rec['id']} | {Path(rec['file']).name} | {exp} | {run['prop']} | {cb} | {run['oracle_failures']} / {run['disagreements']} | "
                         f"{run['wall_s']} s | {sk} | {rec['why']} | {(run['says'] or '').replace('|', '/')[:160]} |")
    Path(path).write_text("\n".join(lines) + "\n")


def _load_suite():
    return json.loads(SUITE_FILE.read_text()) if SUITE_FILE.exists() else None


def main():
    ap = argparse.ArgumentParser()
    ap.add_argument("--repo", required=True)
    ap.add_argument("--group", default=None)
    ap.add_argument("--id", default=None, help="comma separated mutant ids")
    ap.add_argument("--only-prop", default=None)
    ap.add_argument("--jobs", type=int, default=2)
    ap.add_argument("--timeout", type=int, default=900)
    ap.add_argument("--json", default=None)
    ap.add_argument("--md", default=None)
    ap.add_argument("--before", default=None, help="result file of the run before the fixes (for the before/after table)")
    ap.add_argument("--merge", default=None, help="existing result file: re-run only the selected mutants, keep the other records")
    ap.add_argument("--verify", action="store_true")
    ap.add_argument("--render", action="store_true", help="only rewrite --md from the results in --json (and --before, suite file)")
    ap.add_argument("--suite", default=None, metavar="FILE",
                    help="instead of the checks run the pinned test suite (tools/baseline.py) on each selected mutant; results merged into FILE")
    ap.add_argument("--not-caught-in", default=None, metavar="RESULTS", help="select the mutants that RESULTS does not show caught with a replay by every check that ran")
    args = ap.parse_args()
    args.repo = Path(args.repo).resolve()
    if args.repo == Path("/repo"):
        sys.exit("refusing to use /repo")
    ids = [m["id"] for m in MUTANTS]
    assert len(ids) == len(set(ids)), "duplicate mutant ids"
    sel = [m for m in MUTANTS if (not args.group or m["group"] in args.group.split(",")) and (not args.id or m["id"] in args.id.split(","))]
    cur = {m["id"]: m for m in MUTANTS}
    if args.render:
        results = json.loads(Path(args.json).read_text())["results"]
        for r in results:
            if r["id"] in cur:
                r["expect"], r["why"] = cur[r["id"]]["expect"], cur[r["id"]]["why"]
        before = json.loads(Path(args.before).read_text())["results"] if args.before else None
        for r in before or []:
            if r["id"] in cur:
                r["expect"] = cur[r["id"]]["expect"]
        write_md(args.md, results, before, _load_suite())
        head = json.loads(Path(args.json).read_text())
        head["results"], head["summary"] = results, summarise(results)
        Path(args.json).write_text(json.dumps(head, indent=1) + "\n")
        print(json.dumps(summarise(results)))
        return
    if args.verify:
        import ast
        bad = 0
        for m in sel:
            src = (args.repo / m["file"]).read_text()
            n = src.count(m["old"])
            ok = n == 1
            if ok:
                try:
                    ast.parse(src.replace(m["old"], m["new"]))
                except SyntaxError as e:
                    ok = False
                    n = f"syntax error {e}"
            if not ok:
                bad += 1
                print(f"{m['id']}: {n}")
        by = {}
        for m in MUTANTS:
            by[m["group"]] = by.get(m["group"], 0) + 1
        print(f"{len(sel)} mutants selected, {bad} problems; per group {by}")
        sys.exit(1 if bad else 0)
    if A.sh("git", "-C", str(args.repo), "status", "--porcelain", "--untracked-files=no").stdout.strip():
        sys.exit(f"{args.repo} has uncommitted changes")
    if args.not_caught_in:
        res = {r["id"]: r for r in json.loads(Path(args.not_caught_in).read_text())["results"]}
        sel = [m for m in sel if m["id"] in res and any(run["outcome"] != "caught-replay" for run in res[m["id"]]["runs"])]
    if args.suite:
        queue, results, lock = list(sel), [], threading.Lock()
        threads = [threading.Thread(target=suite_worker, args=(k, queue, results, args, lock)) for k in range(min(args.jobs, len(sel)))]
        for t in threads:
            t.start()
        for t in threads:
            t.join()
        old = json.loads(Path(args.suite).read_text()) if Path(args.suite).exists() else {}
        old.update({r["id"]: r for r in results})
        Path(args.suite).write_text(json.dumps(dict(sorted(old.items())), indent=1) + "\n")
        print(f"suite kills {sum(1 for r in results if r['suite_kills'])} of {len(results)} mutants")
        return
    queue, results, lock = list(sel), [], threading.Lock()
    t0 = time.time()
    threads = [threading.Thread(target=worker, args=(k, queue, results, args, lock)) for k in range(min(args.jobs, len(sel)))]
    for t in threads:
        t.start()
    for t in threads:
        t.join()
    order = {m["id"]: i for i, m in enumerate(MUTANTS)}
    if args.merge and Path(args.merge).exists():
        old = json.loads(Path(args.merge).read_text())["results"]
        new_ids = {r["id"] for r in results}
        redone = {(r["id"], run["prop"]) for r in results for run in r["runs"]}
        for r in old:
            if r["id"] not in new_ids:
                results.append(r)
            else:       # keep runs of checks that were not re-run (--only-prop)
                c = next(x for x in results if x["id"] == r["id"])
                c["runs"] += [run for run in r["runs"] if (r["id"], run["prop"]) not in redone]
    results.sort(key=lambda r: order.get(r["id"], 1 << 30))
    print(json.dumps(summarise(results), indent=1))
    print(f"total wall {time.time() - t0:.0f}s")
    if args.json:
        head = A.sh("git", "-C", str(args.repo), "rev-parse", "HEAD").stdout.strip()
        vhead = A.sh("git", "-C", str(VERIF), "rev-parse", "HEAD").stdout.strip()
        Path(args.json).write_text(json.dumps({"repo_head": head, "verif_head": vhead, "summary": summarise(results), "results": results}, indent=1) + "\n")
    if args.md:
        before = json.loads(Path(args.before).read_text())["results"] if args.before else None
        for r in before or []:      # the before-table uses the FINAL classification of each mutant (see `why` for the revised ones)
            r["expect"] = cur[r["id"]]["expect"] if r["id"] in cur else r["expect"]
        write_md(args.md, results, before, _load_suite())


if __name__ == "__main__":
    main()
