#!/usr/bin/env python3
"""Rewrite the table between the markers <!-- SEEDED-TABLE-BEGIN/END --> in DESIGN.md from seeded/*/meta.json + last_run.json."""
import json, re
from pathlib import Path
root = Path(__file__).resolve().parent.parent
rows = ["| seed | property | what the change does | needs to manifest | registered quick check (escalated by the changed file) | plain quick tier (`VERIF_NO_ESCALATE=1`) |", "|---|---|---|---|---|---|"]
for d in sorted((root / "seeded").iterdir()):
    if not (d / "meta.json").exists():
        continue
    m = json.loads((d / "meta.json").read_text())
    lr = json.loads((d / "last_run.json").read_text()) if (d / "last_run.json").exists() else {"runs": {}}
    def cell(mode):
        out = []
        for k, v in lr["runs"].items():
            p, md = k.split(":")
            if md != mode:
                continue
            s = (v.get("summary") or [""])[0]
            mm = re.search(r"cases=(\d+).*disagreements=(\d+) oracle_failures=(\d+)", s)
            detail = f"{mm.group(3)} failing inputs / {mm.group(2)} disagreements in {mm.group(1)} cases" if mm else ""
            if v["exit"] == 1 and v["violation_lines"]:
                verdict = "caught (no-failing-input-found only)" if v.get("no_failing_input_only") else "caught"
            else:
                verdict = "MISSED"
            out.append(f"`{p}`: {verdict}" + (f" — {detail}" if detail else ""))
        return "<br>".join(out) or "not run"
    props = m["property"] + ("".join(", " + a for a in m.get("also", [])))
    rows.append(f"| {d.name} | {props} | {m['what']} | {m['needs']} | {cell('escalated')} | {cell('plain')} |")
txt = (root / "DESIGN.md").read_text()
b, e = "<!-- SEEDED-TABLE-BEGIN -->", "<!-- SEEDED-TABLE-END -->"
new = b + "\n" + "\n".join(rows) + "\n" + e
if b in txt:
    txt = txt[:txt.index(b)] + new + txt[txt.index(e) + len(e):]
else:
    txt += "\n" + new + "\n"
(root / "DESIGN.md").write_text(txt)
print(len(rows) - 2, "seeded changes tabulated")
