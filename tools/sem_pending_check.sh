#!/bin/bash
# Type-check lean/pending/C10SemId.lean on a scratch copy of the Lean tree in which the three clashing lemma names
# (Y0.mem_dedup', Y0.nodup_dedup' of Lemmas/DslList.lean; Y0.den_mkFrac of Lemmas/IdDen.lean) are renamed.
# usage: tools/sem_pending_check.sh [scratch-dir]      (default /tmp/sem_pending_scratch)
set -e
here="$(cd "$(dirname "$0")/.." && pwd)"
scratch="${1:-/tmp/sem_pending_scratch}"
rm -rf "$scratch"; mkdir -p "$scratch"
cp -r "$here/lean" "$scratch/lean"
cd "$scratch/lean"
# expr side: every file that imports (transitively) Lemmas/DslList.lean and mentions the two lemmas
for f in $(grep -rl "mem_dedup'\|nodup_dedup'" Y0/Lemmas/Dsl*.lean Y0/Lemmas/Sem*.lean Y0/Lemmas/Canon*.lean Y0/Lemmas/Print*.lean Y0/Props/C1[0-3]*.lean 2>/dev/null); do
  case "$f" in Y0/Lemmas/SemObs.lean) continue;; esac
  sed -i "s/\bmem_dedup'/mem_dedup_dsl/g; s/\bnodup_dedup'/nodup_dedup_dsl/g" "$f"
done
# id side: IdDen.lean and its users
for f in $(grep -rl "den_mkFrac\b" Y0/Lemmas/Id*.lean Y0/Lemmas/Idc*.lean Y0/Props/C0[1-6]*.lean 2>/dev/null); do
  sed -i "s/\bden_mkFrac\b/den_mkFrac_id/g" "$f"
done
cp pending/C10SemId.lean Y0/Props/C10SemId.lean
timeout 3000 lake build Y0.Props.C10SemId 2>&1 | tail -5
printf 'import Y0.Props.C10SemId\n#print axioms Y0.C10Sem.id_sound_canonical\n' > /tmp/sem_pending_ax.lean
lake env lean /tmp/sem_pending_ax.lean
