#!/usr/bin/env python3
"""Mutation table for property C09 (counterfactual transport, api.py).

Applies each one-line (one-statement) mutation of src/y0/algorithm/counterfactual_transport/api.py to the y0 worktree,
runs the PLAIN quick tier of ./check C09 (VERIF_NO_ESCALATE=1) and tabulates what the check said.  A mutation counts as
CAUGHT only when the check prints a `VIOLATION` line that carries a concrete replay file (a failing input); a line that
ends in `no-failing-input-found` (broken correspondence without a failing input) is reported separately as `weak`.

    Y0_REPO=/work/<me>/repo python3 tools/c09_mutants.py [--only id1,id2] [--seed 0] [--json out.json] [--list]

The worktree is ALWAYS restored (`git checkout -- <api.py>`), also on error / Ctrl-C.  Evidence and replay files of the
mutant runs go to a temporary directory, never to evidence/ or replays/ of the verification tree.

`expect`:  "catch"   the mutation violates C09 on some input (wrong value / wrong zero / crash after validation)
           "equiv"   the mutation cannot violate C09 as stated (it only refuses more, rejects more, or is an equivalent
                     rewrite): no concrete failing input exists, the check must NOT produce one
           "harmless" a behaviour-preserving rewrite: the check must stay silent (exit 0)
"""
from __future__ import annotations

import argparse
import json
import os
import re
import subprocess
import sys
import tempfile
import time
from pathlib import Path

VERIF = Path(__file__).resolve().parent.parent
API = "src/y0/algorithm/counterfactual_transport/api.py"

# (id, expectation, description, exact old text (must occur exactly once), new text)
MUTANTS = [
    # ------------------------------------------------------------------ Algorithm 4 (sigma-TR on one district)
    ("a4_drop_tnode_check", "catch", "Alg 4 usability test: selection-node check dropped",
     """        ) and _no_transportability_nodes_in_domain(
            district=district, domain_graph=domain_graphs[k][0]
        ):""",
     """        ) and (
            True
        ):"""),
    ("a4_drop_policy_check", "catch", "Alg 4 usability test: policy-variable check dropped",
     """        if _no_intervention_variables_in_domain(
            district=district, interventions=domain_data[k][0]
        ) and _no_transportability_nodes_in_domain(""",
     """        if (
            True
        ) and _no_transportability_nodes_in_domain("""),
    ("a4_usable_or", "catch", "Alg 4 usability test: `and` of the two checks became `or`",
     """        ) and _no_transportability_nodes_in_domain(
            district=district, domain_graph=domain_graphs[k][0]
        ):""",
     """        ) or _no_transportability_nodes_in_domain(
            district=district, domain_graph=domain_graphs[k][0]
        ):"""),
    ("a4_tnode_on_policy_set", "catch", "Alg 4: selection nodes tested on the policy variables instead of the district",
     """        ) and _no_transportability_nodes_in_domain(
            district=district, domain_graph=domain_graphs[k][0]
        ):""",
     """        ) and _no_transportability_nodes_in_domain(
            district=domain_data[k][0], domain_graph=domain_graphs[k][0]
        ):"""),
    ("a4_tnode_on_parents", "catch", "Alg 4: selection nodes tested on the district's parents instead of its members",
     """        ) and _no_transportability_nodes_in_domain(
            district=district, domain_graph=domain_graphs[k][0]
        ):""",
     """        ) and _no_transportability_nodes_in_domain(
            district={p for v in district for p in domain_graphs[k][0].directed.predecessors(v) if p.name[0] != "T"} - set(district),
            domain_graph=domain_graphs[k][0],
        ):"""),
    ("a4_tnode_on_all_vertices", "equiv", "Alg 4: selection nodes tested on ALL graph vertices (only refuses more)",
     """        ) and _no_transportability_nodes_in_domain(
            district=district, domain_graph=domain_graphs[k][0]
        ):""",
     """        ) and _no_transportability_nodes_in_domain(
            district=_remove_transportability_vertices(vertices=domain_graphs[k][0].nodes()),
            domain_graph=domain_graphs[k][0],
        ):"""),
    ("a4_policy_of_prev_domain", "catch", "Alg 4: policy check reads the policy variables of domain k-1 (off by one)",
     """        if _no_intervention_variables_in_domain(
            district=district, interventions=domain_data[k][0]
        ) and""",
     """        if _no_intervention_variables_in_domain(
            district=district, interventions=domain_data[k - 1][0]
        ) and"""),
    ("a4_data_of_last_domain", "catch", "Alg 4 line 3: distribution of the LAST domain with the chosen domain's graph",
     "                subgraph_probability=domain_data[k][1],",
     "                subgraph_probability=domain_data[-1][1],"),
    ("a4_data_of_prev_domain", "catch", "Alg 4 line 3: distribution of domain k-1 (off by one in the zip of graphs and data)",
     "                subgraph_probability=domain_data[k][1],",
     "                subgraph_probability=domain_data[k - 1][1],"),
    ("a4_graph_of_first_domain", "catch", "Alg 4: graph of the FIRST domain with the chosen domain's data",
     "            domain_graph = domain_graphs[k][0]\n",
     "            domain_graph = domain_graphs[0][0]\n"),
    ("a4_cfactor_of_district", "catch", "Alg 4 line 3: c-factor of `district` instead of `domain_graph_district`",
     "                district=domain_graph_district,  # district=district,",
     "                district=district,"),
    ("a4_ancestral_graph_stale_vars", "catch",
     "Alg 4: domain graph restricted to the district's ancestors, stale full variable set / topological order kept",
     "            domain_topo = domain_graphs[k][1]\n",
     "            domain_topo = domain_graphs[k][1]\n"
     "            domain_graph = domain_graph.subgraph(domain_graph.ancestors_inclusive(district))\n"),
    ("a4_topo_of_first_domain", "catch", "Alg 4: topological order of the FIRST domain instead of the chosen one",
     "            domain_topo = domain_graphs[k][1]\n",
     "            domain_topo = domain_graphs[0][1]\n"),
    ("a4_topo_reversed", "catch", "Alg 4: topological order reversed (children first)",
     "            domain_topo = domain_graphs[k][1]\n",
     "            domain_topo = domain_graphs[k][1][::-1]\n"),
    ("a4_identify_in_district", "catch", "Alg 4 line 4: IDENTIFY told that the input district is `district` itself",
     "                input_district=domain_graph_district,",
     "                input_district=frozenset(district),"),
    ("a4_tnode_any_to_all", "catch", "Alg 4: a district is refused only when ALL its members carry a selection node",
     "    return not any(transport_variable(v) in domain_graph.nodes() for v in district)",
     "    return not all(transport_variable(v) in domain_graph.nodes() for v in district)"),
    ("a4_policy_whole_district", "catch", "Alg 4: a district is refused only when ALL its members are policy variables",
     "    return len(set(district).intersection(interventions)) == 0",
     "    return not set(district) <= set(interventions)"),
    ("a4_identify_whole_district", "catch", "Alg 4 line 4: IDENTIFY asked for Q[B_i] (the domain-graph district) instead of Q[C_i]",
     "                input_variables=frozenset(district),",
     "                input_variables=domain_graph_district,"),
    ("a4_policy_check_inverted", "catch", "Alg 4: policy check inverted (a domain is usable only WITH a policy on the district)",
     "    return len(set(district).intersection(interventions)) == 0",
     "    return len(set(district).intersection(interventions)) != 0"),
    # ------------------------------------------------------------------ Algorithm 2 (ctfTRu)
    ("a2_sum_all_ancestors", "catch", "Alg 2 line 14: sum over ALL ancestors, outcome variables included",
     "        if (variable, value) not in simplified_event\n    }\n    transported_unconditional_query",
     "        if True\n    }\n    transported_unconditional_query"),
    ("a2_sum_excl_unsimplified", "catch", "Alg 2 line 14: summation range computed from the UNSIMPLIFIED event",
     "        if (variable, value) not in simplified_event\n    }\n    transported_unconditional_query",
     "        if (variable, value) not in event\n    }\n    transported_unconditional_query"),
    ("a2_sum_excl_by_name", "equiv", "Alg 2 line 14: summation range excludes event variables by NAME (differs only on multi-world queries = open finding)",
     "        if (variable, value) not in simplified_event\n    }\n    transported_unconditional_query",
     "        if variable.get_base() not in {v.get_base() for v, _ in simplified_event}\n    }\n"
     "    transported_unconditional_query"),
    ("a2_drop_sum", "catch", "Alg 2 line 14: the Sum is dropped",
     """    transported_unconditional_query = Sum.safe(
        Product.safe(district_probabilities_intervening_on_parents),
        ancestors_excluding_outcomes,
    )""",
     """    transported_unconditional_query = Product.safe(district_probabilities_intervening_on_parents)"""),
    ("a2_return_unsimplified_event", "catch", "Alg 2: the UNSIMPLIFIED event is returned with the expression",
     "        expression=transported_unconditional_query, event=simplified_event\n",
     "        expression=transported_unconditional_query, event=event\n"),
    ("a2_first_value_of_repeated", "equiv", "Alg 2 line 2: FIRST instead of last value of a repeated variable (SIMPLIFY leaves none)",
     "    outcome_value_dict = dict(event)\n",
     "    outcome_value_dict = dict(reversed(event))\n"),
    ("a2_skip_inconsistent_test", "catch", "Alg 2 line 3: the inconsistent-ctf-factor FAIL test is skipped",
     "    if any(\n        _counterfactual_factor_is_inconsistent(factor)",
     "    if False and any(\n        _counterfactual_factor_is_inconsistent(factor)"),
    ("a2_inconsistent_only_subscripts", "catch", "Def 4.1: only part (ii) (two subscript values) is tested, part (i) dropped",
     "    return _any_variable_values_inconsistent_with_interventions(\n        event\n    ) or _any_inconsistent_intervention_values(event)",
     "    return _any_inconsistent_intervention_values(event)"),
    ("a2_factors_on_full_graph", "catch", "Alg 2 line 2: ctf-factors computed on the full graph instead of the ancestral subgraph (IDENTIFY then crashes)",
     "            graph=outcome_ancestor_graph,\n",
     "            graph=graph,\n"),
    ("a2_ancestors_of_first_only", "catch", "Alg 2 line 2: ancestors of only the first event variable",
     "    for variable, _ in event:\n        ancestral_set.update(get_ancestors_of_counterfactual(variable, graph))",
     "    for variable, _ in event[:1]:\n        ancestral_set.update(get_ancestors_of_counterfactual(variable, graph))"),
    ("a2_district_keeps_parents", "catch", "Alg 2 line 5: the district handed to Alg 4 also contains the parents",
     "        district_without_interventions = {variable.get_base() for variable, _ in factor}\n",
     "        district_without_interventions = {variable.get_base() for variable, _ in factor} | {\n"
     "            p for variable, _ in factor for p in target_domain_graph.directed.predecessors(variable.get_base())}\n"),
    ("a2_zero_becomes_fail", "equiv", "Alg 2 line 1: an inconsistent event is refused (None) instead of answered by Zero",
     "        return UnconditionalCFTResult(expression=Zero(), event=simplified_event)\n",
     "        return None\n"),
    ("a2_simplify_skipped", "catch", "Alg 2 line 1: SIMPLIFY skipped (event used as given)",
     "    simplified_event: Event | None = simplify(event=event, graph=target_domain_graph)\n    if simplified_event is None:\n"
     "        # as specified by the output for Algorithm 1",
     "    simplified_event: Event | None = list(event)\n    if simplified_event is None:\n"
     "        # as specified by the output for Algorithm 1"),
    ("w_event_value_flipped", "catch", "public wrapper: the value of an event variable is read with the opposite star",
     "            value = Intervention(name=variable.name, star=variable.star)\n        else:\n            value = None",
     "            value = Intervention(name=variable.name, star=not variable.star)\n        else:\n            value = None"),
    # ------------------------------------------------------------------ Algorithm 3 (ctfTR)
    ("a3_denominator_minus_outcomes", "catch", "Alg 3 line 4: denominator sums over D* minus Y instead of D* minus X",
     "        outcome_variable_ancestral_component_variable_names - conditioned_variable_names\n",
     "        outcome_variable_ancestral_component_variable_names - {v.get_base() for v, _ in outcomes}\n"),
    ("a3_fraction_swapped", "catch", "Alg 3 line 4: numerator and denominator swapped",
     """        Sum.safe(
            transported_unconditional_query_expression,
            outcome_ancestral_component_variables_with_no_values,
        ),
        Sum.safe(
            transported_unconditional_query_expression,
            outcome_ancestral_component_variable_names_excluding_outcomes,
        ),""",
     """        Sum.safe(
            transported_unconditional_query_expression,
            outcome_ancestral_component_variable_names_excluding_outcomes,
        ),
        Sum.safe(
            transported_unconditional_query_expression,
            outcome_ancestral_component_variables_with_no_values,
        ),"""),
    ("a3_numerator_sums_conditions", "catch", "Alg 3 line 4: numerator sums over D* minus Y (conditions summed out)",
     "        outcome_variable_ancestral_component_variable_names - outcome_and_conditioned_variable_names\n",
     "        outcome_variable_ancestral_component_variable_names - {v.get_base() for v, _ in outcomes}\n"),
    ("a3_components_of_conditions_too", "catch",
     "Alg 3 line 2: component test with outcome_and_conditioned_variables (independent components join D*)",
     "        outcome_variables=outcome_variables,\n        outcome_variable_to_value_mappings=",
     "        outcome_variables=outcome_and_conditioned_variables,\n        outcome_variable_to_value_mappings="),
    ("a3_all_components", "catch", "Alg 3 line 2: D* is the union of ALL ancestral components",
     "        if any(variable in outcome_variables for variable in component):\n",
     "        if True:\n"),
    ("a3_first_component_only", "catch", "Alg 3 line 2: only the first outcome component is kept",
     "            outcome_variable_ancestral_component_variables.update(set(component))\n",
     "            outcome_variable_ancestral_component_variables.update(set(component))\n            break\n"),
    ("a3_drop_ctf_factor_form", "catch", "Alg 3 line 2: conversion of D* to ctf-factor form dropped",
     """        convert_to_counterfactual_factor_form(
            event=outcome_ancestral_component_variables_and_values, graph=target_domain_graph
        )
    )
    outcome_variable_ancestral_component_variable_names""",
     """        list(outcome_ancestral_component_variables_and_values)
    )
    outcome_variable_ancestral_component_variable_names"""),
    ("a3_event_omits_conditions", "catch", "Alg 3 line 4: returned event omits the conditions",
     """    ] + [
        (variable.get_base(), value)
        for variable, value in conditions
        if variable.get_base() in expression_variables
    ]""",
     """    ]"""),
    ("a3_revert_condition_filter", "catch", "Alg 3 line 4: every condition is put in the returned event (reverts fix 2ff6f8e)",
     "        for variable, value in conditions\n        if variable.get_base() in expression_variables\n",
     "        for variable, value in conditions\n"),
    ("a3_event_keeps_subscripts", "catch", "Alg 3 line 4: returned event keeps the outcomes' counterfactual variables (not their base names)",
     "        (variable.get_base(), value) for variable, value in outcomes\n",
     "        (variable, value) for variable, value in outcomes\n"),
    ("a3_components_ignore_conditions", "equiv", "Alg 3 line 1: ancestral components computed with an empty conditioning set (a larger D*: same value, refuses more)",
     "        conditioned_variables=conditioned_variables,\n        root_variables=outcome_and_conditioned_variables,",
     "        conditioned_variables=set(),\n        root_variables=outcome_and_conditioned_variables,"),
    # ------------------------------------------------------------------ validators
    ("vu_drop_event_in_graph", "catch", "ctfTRu validator: check 12 (event variable not in the target graph) removed",
     "    if any(variable.get_base() not in target_domain_graph.nodes() for variable, _ in event):",
     "    if False and any(variable.get_base() not in target_domain_graph.nodes() for variable, _ in event):"),
    ("vu_drop_empty_domains", "catch", "ctfTRu validator: check 7 (empty domain lists) removed",
     """    if len(domain_graphs) == 0 or len(domain_data) == 0:
        raise ValueError(
            "In _validate_transport_unconditional_counterfactual_query_input: empty list for""",
     """    if False and (len(domain_graphs) == 0 or len(domain_data) == 0):
        raise ValueError(
            "In _validate_transport_unconditional_counterfactual_query_input: empty list for"""),
    ("vu_drop_all_none", "equiv", "ctfTRu validator: check 6 (all values None) removed (such events are then answered correctly)",
     "    if all(value is None for _, value in event):",
     "    if False and all(value is None for _, value in event):"),
    ("vu_drop_topo_check", "equiv", "ctfTRu validator: check 10 (valid topological order) removed (inputs outside the quantifier)",
     """        if not _valid_topo_list(topo=domain_graphs[k][1], graph=domain_graphs[k][0]):
            raise ValueError(
                "In _validate_transport_unconditional_counterfactual_query_input: the provided""",
     """        if False and not _valid_topo_list(topo=domain_graphs[k][1], graph=domain_graphs[k][0]):
            raise ValueError(
                "In _validate_transport_unconditional_counterfactual_query_input: the provided"""),
    ("vu_drop_topo_vertices", "catch", "ctfTRu validator: check 14 (order and graph have the same vertices) removed: check 10 then raises KeyError",
     """        if topo_vertices != graph_vertices:
            raise ValueError(
                "In _validate_transport_unconditional_counterfactual_query_input: the vertices""",
     """        if False and topo_vertices != graph_vertices:
            raise ValueError(
                "In _validate_transport_unconditional_counterfactual_query_input: the vertices"""),
    ("vu_drop_policy_in_graph", "catch", "ctfTRu validator: check 15.5 (policy variable not in the graph) removed (Algorithm 4's own check then raises KeyError)",
     """        if not all(v in graph_vertices_without_transportability_nodes for v in policy_vertices):
            raise ValueError(
                "In _validate_transport_unconditional_counterfactual_query_input: the set of""",
     """        if False and not all(v in graph_vertices_without_transportability_nodes for v in policy_vertices):
            raise ValueError(
                "In _validate_transport_unconditional_counterfactual_query_input: the set of"""),
    ("vu_invert_value_base", "catch", "ctfTRu validator: check 13 inverted (every valued event is rejected; ctfTR then crashes in its call of Algorithm 2)",
     "        value is not None and variable.get_base() != value.get_base() for variable, value in event\n",
     "        value is not None and variable.get_base() == value.get_base() for variable, value in event\n"),
    ("vu_not_called", "catch", "ctfTRu: the procedure no longer calls its validator",
     """    _validate_transport_unconditional_counterfactual_query_input(
        event=event,
        target_domain_graph=target_domain_graph,  #: NxMixedGraph,""",
     """    (lambda **kw: None)(
        event=event,
        target_domain_graph=target_domain_graph,  #: NxMixedGraph,"""),
    ("vc_drop_outcome_in_graph", "catch", "ctfTR validator: check 12 for the outcomes removed",
     "    if any(variable.get_base() not in target_domain_graph.nodes() for variable, _ in outcomes):",
     "    if False and any(variable.get_base() not in target_domain_graph.nodes() for variable, _ in outcomes):"),
    ("vc_drop_condition_in_graph", "catch", "ctfTR validator: check 12 for the conditions removed",
     "    if any(variable.get_base() not in target_domain_graph.nodes() for variable, _ in conditions):",
     "    if False and any(variable.get_base() not in target_domain_graph.nodes() for variable, _ in conditions):"),
    ("vc_drop_empty_outcomes", "catch", "ctfTR validator: check 5 (empty outcomes) removed",
     "    if len(outcomes) == 0:\n",
     "    if False and len(outcomes) == 0:\n"),
    ("vc_drop_policy_in_graph", "catch", "ctfTR validator: check 15.5 removed (Algorithm 2's validator then raises)",
     """        if not all(v in graph_vertices_without_transportability_nodes for v in policy_vertices):
            raise ValueError(
                "In _validate_transport_conditional_counterfactual_query_input: the set of""",
     """        if False and not all(v in graph_vertices_without_transportability_nodes for v in policy_vertices):
            raise ValueError(
                "In _validate_transport_conditional_counterfactual_query_input: the set of"""),
    ("vc_drop_topo_check", "catch", "ctfTR validator: check 10 removed (Algorithm 2's validator then raises)",
     """        if not _valid_topo_list(topo=domain_graphs[k][1], graph=domain_graphs[k][0]):
            raise ValueError(
                "In _validate_transport_conditional_counterfactual_query_input: the provided""",
     """        if False and not _valid_topo_list(topo=domain_graphs[k][1], graph=domain_graphs[k][0]):
            raise ValueError(
                "In _validate_transport_conditional_counterfactual_query_input: the provided"""),
    # ------------------------------------------------------------------ harmless rewrites (must raise no alarm)
    ("h_rename_local", "harmless", "rename a local (`domain_topo` -> `order_k` in Alg 4)",
     None, None),   # handled by _apply_special
    ("h_reorder_statements", "harmless", "Alg 4: compute the topological order before the variable set (independent statements)",
     """            domain_graph_variables = _remove_transportability_vertices(
                vertices=domain_graph.nodes()
            )
            domain_topo = domain_graphs[k][1]
""",
     """            domain_topo = domain_graphs[k][1]
            domain_graph_variables = _remove_transportability_vertices(
                vertices=domain_graph.nodes()
            )
"""),
    ("h_comprehension_to_loop", "harmless", "Alg 2: set comprehension replaced by an equivalent loop",
     "        district_without_interventions = {variable.get_base() for variable, _ in factor}\n",
     "        district_without_interventions = set()\n"
     "        for variable, _ in factor:\n"
     "            district_without_interventions.add(variable.get_base())\n"),
    # The next two change WHICH of several equally valid expressions Algorithm 4 returns (another order of the chain rule /
    # another usable domain).  For Algorithm 2 that is invisible (expressions are compared by exact value).  Algorithm 3,
    # however, reads the SYNTAX of the expression: its returned event keeps a condition only if the expression mentions its
    # vertex, and its final check 5 raises KeyError otherwise; so on inputs of the open findings crash:ctfTR-final-check /
    # value:outcome-also-condition the verdict (answer vs KeyError) moves.  With the complete model of Algorithm 3 the
    # correspondence reports the change (no failing input outside the known classes): `equiv`, not `harmless`.
    ("h_other_valid_topo", "equiv", "Alg 4: another valid topological order of the same domain graph is used",
     "            domain_topo = domain_graphs[k][1]\n",
     "            domain_topo = domain_graph.topological_sort()\n"),
    ("h_last_usable_domain", "equiv", "Alg 4: the LAST usable domain is taken instead of the first (any usable domain gives Q[C_i])",
     "    for k in range(len(domain_graphs)):\n        # Also Line 1",
     "    for k in reversed(range(len(domain_graphs))):\n        # Also Line 1"),
    ("h_usable_test_swapped", "harmless", "Alg 4: the two conjuncts of the usability test evaluated in the other order",
     """        if _no_intervention_variables_in_domain(
            district=district, interventions=domain_data[k][0]
        ) and _no_transportability_nodes_in_domain(
            district=district, domain_graph=domain_graphs[k][0]
        ):""",
     """        if _no_transportability_nodes_in_domain(
            district=district, domain_graph=domain_graphs[k][0]
        ) and _no_intervention_variables_in_domain(
            district=district, interventions=domain_data[k][0]
        ):"""),
]


def _apply(src: str, mid: str, old, new) -> str:
    if mid == "h_rename_local":
        lo = src.index("def transport_district_intervening_on_parents(")
        hi = src.index("def _transport_unconditional_counterfactual_query_line_2(")
        body = src[lo:hi]
        if "domain_topo" not in body or "order_k" in body:
            raise SystemExit(f"{mid}: cannot rename")
        return src[:lo] + re.sub(r"\bdomain_topo\b", "order_k", body) + src[hi:]
    n = src.count(old)
    if n != 1:
        raise SystemExit(f"mutant {mid}: old text occurs {n} times (need exactly 1)")
    return src.replace(old, new)


def _run_check(repo: Path, seed: int, timeout: int):
    tmp = Path(tempfile.mkdtemp(prefix="c09mut_"))
    env = dict(os.environ, Y0_REPO=str(repo), VERIF_NO_ESCALATE="1", VERIF_SEED=str(seed),
               VERIF_EVIDENCE_DIR=str(tmp / "evidence"), VERIF_REPLAY_DIR=str(tmp / "replays"))
    t0 = time.time()
    try:
        p = subprocess.run([str(VERIF / "check"), "C09"], cwd=VERIF, env=env, capture_output=True, text=True, timeout=timeout)
        out, code = p.stdout + p.stderr, p.returncode
    except subprocess.TimeoutExpired as e:
        out, code = (e.stdout or b"").decode() if isinstance(e.stdout, bytes) else (e.stdout or ""), 124
    wall = time.time() - t0
    concrete, weak = [], 0
    for ln in out.splitlines():
        if ln.startswith("VIOLATION"):
            if ln.rstrip().endswith("no-failing-input-found"):
                weak += 1
                continue
            m = re.search(r"replay=(\S+)", ln)
            try:
                d = json.load(open(m.group(1)))
                c = d["case"]
                shape = {"kind": c["kind"], "stream": c.get("stream", "random"), "malformed": c.get("malformed"),
                         "n_nodes": len({v for e in c["g"]["di"] + c["g"]["bi"] for v in e} | set(c["g"]["nodes"])),
                         "n_domains": len(c["domains"]), "oracle_says": (d.get("oracle_says") or "")[:400], "case": c}
            except Exception as e:  # noqa: BLE001
                shape = {"error": str(e)}
            concrete.append(shape)
    summary = next((ln for ln in out.splitlines() if ln.startswith("[C09]")), out[-300:])
    return {"exit": code, "concrete": concrete, "weak": weak, "summary": summary, "wall_s": round(wall, 1)}


def _mechanism(says: str) -> str:
    if says.startswith("value differs"):
        return "oracle:value"
    if says.startswith("returned Zero()"):
        return "oracle:zero"
    if "after the procedure's own validation accepted" in says:
        return "oracle:trichotomy(crash)"
    if says.startswith("validation raises"):
        return "oracle:trichotomy(validator bypassed)"
    if says.startswith("returned event"):
        return "oracle:event"
    if says.startswith("expression cannot be read"):
        return "oracle:unreadable"
    return "oracle:" + says[:30]


def main():
    ap = argparse.ArgumentParser()
    ap.add_argument("--only", default="")
    ap.add_argument("--seed", type=int, default=0)
    ap.add_argument("--json", default="")
    ap.add_argument("--timeout", type=int, default=900)
    ap.add_argument("--list", action="store_true")
    ap.add_argument("--copy", action="store_true",
                    help="mutate a temporary copy (git archive HEAD) of $Y0_REPO instead of the worktree (parallel runs)")
    args = ap.parse_args()
    repo = Path(os.environ.get("Y0_REPO", "")).resolve()
    if args.copy:
        tmp = Path(tempfile.mkdtemp(prefix="c09mut_repo_"))
        subprocess.run(f"git -C {repo} archive HEAD | tar -x -C {tmp}", shell=True, check=True)
        subprocess.run("git init -q . && git add -A && git -c user.name=x -c user.email=x@x commit -qm copy", shell=True, cwd=tmp, check=True)
        repo = tmp
    if not os.environ.get("Y0_REPO") or not (repo / API).exists():  # noqa: SIM102
        raise SystemExit("set Y0_REPO to the y0 worktree to mutate")
    if str(repo) in ("/repo",) or str(repo).startswith("/verif"):
        raise SystemExit("refusing to mutate the shared checkout")
    if args.list:
        for m in MUTANTS:
            print(f"{m[0]:34s} {m[1]:8s} {m[2]}")
        return 0
    dirty = subprocess.run(["git", "-C", str(repo), "status", "--porcelain"], capture_output=True, text=True).stdout.strip()
    if dirty:
        raise SystemExit(f"worktree {repo} is not clean:\n{dirty}")
    only = [x for x in args.only.split(",") if x]
    pristine = (repo / API).read_text()
    # every old text must match exactly once BEFORE anything is run
    for mid, _exp, _what, old, new in MUTANTS:
        _apply(pristine, mid, old, new)
    rows = []
    try:
        for mid, exp, what, old, new in MUTANTS:
            if only and mid not in only:
                continue
            try:
                (repo / API).write_text(_apply(pristine, mid, old, new))
                r = _run_check(repo, args.seed, args.timeout)
            finally:
                (repo / API).write_text(pristine)
                subprocess.run(["git", "-C", str(repo), "checkout", "--", "."], check=False)
            verdict = "CAUGHT" if r["concrete"] else ("weak" if r["weak"] else ("silent" if r["exit"] == 0 else f"exit{r['exit']}"))
            mech = sorted({_mechanism(c.get("oracle_says", "")) for c in r["concrete"]})
            rows.append({"id": mid, "expect": exp, "what": what, "verdict": verdict, "mechanism": mech, **r})
            ok = {"catch": verdict == "CAUGHT", "equiv": verdict != "CAUGHT", "harmless": verdict == "silent"}[exp]
            print(f"{mid:34s} expect={exp:8s} -> {verdict:7s} {'ok ' if ok else 'BAD'} {','.join(mech):40s} "
                  f"{r['wall_s']:6.1f}s  {r['summary'][:150]}", flush=True)
    finally:
        (repo / API).write_text(pristine)
        subprocess.run(["git", "-C", str(repo), "checkout", "--", "."], check=False)
    if args.json:
        Path(args.json).write_text(json.dumps(rows, indent=1))
    bad = [r["id"] for r in rows if not {"catch": r["verdict"] == "CAUGHT", "equiv": r["verdict"] != "CAUGHT",
                                         "harmless": r["verdict"] == "silent"}[r["expect"]]]
    print(f"\n{len(rows)} mutants, {sum(r['verdict'] == 'CAUGHT' for r in rows)} caught with a concrete replay; "
          f"not as expected: {bad or 'none'}")
    return 1 if bad else 0


if __name__ == "__main__":
    sys.exit(main())
