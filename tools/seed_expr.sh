#!/bin/sh
# tools/seed_expr.sh <repo-worktree> : apply each seeded expression-family bug, run the plain quick tier, report failing cases
repo="${1:-/work/expr2/repo}"
cd "$(dirname "$0")/.." || exit 2
for s in C10a C11a C13a; do
  p=$(echo $s | cut -c1-3)
  git -C "$repo" apply "$PWD/seeded/$s/patch.diff" || { echo "$s: patch does not apply"; continue; }
  printf "%s: " $s
  VERIF_NO_ESCALATE=1 Y0_REPO="$repo" timeout 900 ./check $p 2>&1 | grep "^\[" 
  git -C "$repo" checkout -- .
done
