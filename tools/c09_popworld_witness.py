#!/venv/bin/python
"""C09, Algorithm 3 (conditional_cft): replay of the crash-class witness `a3Shared` of lean/Y0/Props/C09.lean §6 on the
real y0 (the class hypothesis `OutcomeNotCondition` of ctfTR_no_internal_error_partial IS needed for arbitrary domain
distributions).

    Y0_REPO=/work/ctftr4/repo /venv/bin/python tools/c09_popworld_witness.py        exit 0 = the crash reproduces

Target graph X -> Y; one domain with the same graph, no policy, no selection node, whose distribution lists a
counterfactual variable next to its own vertex: PP[pi1](X, Y, Y_x).  Query P*(Y = y | Y = y'): the outcome shares its
vertex with the condition.  Both validators accept the input; Lemma 1 of Tian's IDENTIFY writes the c-factor of Y in the
world of the LAST child on the vertex Y ({child.get_base(): child for child in children}), i.e. as PP[pi1](Y_x | X); the
vertex Y then occurs neither in Q nor as a range of the two sums of line 4 (it is a condition vertex), and check 5 of
_validate_transport_conditional_counterfactual_query_line_4_output raises KeyError.

The same query on PP[pi1](X, Y) is answered, and so is P*(Y = y | X = x') on PP[pi1](X, Y, Y_x).
The case format of harness/props/c09.py cannot express this input (its domains always carry PP[pi](V)), so the witness
lives here and in the Lean file; for distributions over plain variables the Lean theorem
ctfTR_no_internal_error_plain_partial excludes the crash.
"""
import logging
import os
import sys
import traceback

sys.path.insert(0, os.path.join(os.environ.get("Y0_REPO", "/repo"), "src"))
logging.disable(logging.CRITICAL)

from y0.algorithm.counterfactual_transport import api  # noqa: E402
from y0.algorithm.counterfactual_transport.api import CFTDomain, conditional_cft  # noqa: E402
from y0.dsl import PP, CounterfactualVariable, Intervention, Pi1, X, Y  # noqa: E402
from y0.graph import NxMixedGraph  # noqa: E402


def run(pop, outs, conds):
    g = NxMixedGraph.from_edges(directed=[(X, Y)])
    dom = CFTDomain(graph=g, population=pop, policy_variables=set(), ordering=[X, Y])
    try:
        api._validate_transport_conditional_counterfactual_query_input(
            outcomes=api._event_from_counterfactuals_strict(outs),
            conditions=api._event_from_counterfactuals_strict(conds),
            target_domain_graph=g, domain_graphs=[(g, [X, Y])], domain_data=[(set(), pop)])
        validation = "accepted"
    except Exception as e:  # noqa: BLE001
        validation = "rejected:" + type(e).__name__
    try:
        r = conditional_cft(outcomes=outs, conditions=conds, target_domain_graph=g, domains=[dom])
        return validation, "fail" if r is None else "answer", None
    except Exception as e:  # noqa: BLE001
        tb = traceback.extract_tb(e.__traceback__)
        where = next((f.name for f in reversed(tb) if "/y0/" in f.filename), "?")
        return validation, type(e).__name__, where


def main():
    y_x = CounterfactualVariable(name="Y", star=None, interventions=frozenset({Intervention(name="X", star=False)}))
    world = PP[Pi1](X, Y, y_x)
    plain = PP[Pi1](X, Y)
    rows = [
        ("PP[pi1](X, Y, Y_x)   P*(Y = y | Y = y')", run(world, [-Y], [+Y])),
        ("PP[pi1](X, Y, Y_x)   P*(Y = y | Y = y)", run(world, [-Y], [-Y])),
        ("PP[pi1](X, Y, Y_x)   P*(Y = y | X = x')", run(world, [-Y], [+X])),
        ("PP[pi1](X, Y)        P*(Y = y | Y = y')", run(plain, [-Y], [+Y])),
    ]
    for name, r in rows:
        print(name, "->", r)
    expect = [("accepted", "KeyError", "_validate_transport_conditional_counterfactual_query_line_4_output")] * 2 + \
        [("accepted", "answer", None)] * 2
    ok = [r for _, r in rows] == expect
    print("REPRODUCED" if ok else "NOT REPRODUCED")
    return 0 if ok else 1


if __name__ == "__main__":
    sys.exit(main())
