#!/bin/sh
# tools/integrate.sh <family> [props...]   (integrator only)
# merge branch <family> into /verif main, cherry-pick its fix commits into /repo main, rebuild, refresh fingerprints.
set -e
fam="$1"; shift
cd /verif
git merge --no-edit "$fam" || echo "merge already done or conflicted: continuing (resolve first if conflicted)"
for c in $(git -C /repo log --reverse --format=%h main..fix-$fam); do
  s=$(git -C /repo log -1 --format=%s $c)
  if git -C /repo log --format=%s main | grep -qxF "$s"; then echo "skip (already on main): $s"; continue; fi
  git -C /repo cherry-pick $c >/dev/null || { echo "CHERRY-PICK CONFLICT at $c: $s"; exit 1; }
  echo "picked $c $s"
done
(cd lean && lake build 2>&1 | grep -v "^info\|^WARNING\|warning:\|^  \|^$\|consider\|omit\|Note:" | tail -5)
(cd lean && lake build >/dev/null 2>&1) || { echo "!!!!!!!! LAKE BUILD FAILED after merging $fam: fix the build BEFORE anything else (main is broken) !!!!!!!!"; exit 3; }
tools/update_fingerprints.py
python3 tools/gen_audit.py >/dev/null
/venv/bin/python tools/gen_manifest.py
python3 tools/fix_hashes.py
