#!/bin/sh
# tools/integrate.sh <family> [props...]   (integrator only)
# merge branch <family> into /verif main, cherry-pick its fix commits into /repo main, rebuild, refresh fingerprints.
set -e
fam="$1"; shift
cd /verif
git merge --no-edit "$fam" || { echo "MERGE CONFLICT: resolve, then re-run the remaining steps by hand"; git status --short | grep '^U\|^AA' ; exit 1; }
for c in $(git -C /repo log --reverse --format=%h main..fix-$fam); do
  s=$(git -C /repo log -1 --format=%s $c)
  if git -C /repo log --format=%s main | grep -qxF "$s"; then echo "skip (already on main): $s"; continue; fi
  git -C /repo cherry-pick $c >/dev/null || { echo "CHERRY-PICK CONFLICT at $c: $s"; exit 1; }
  echo "picked $c $s"
done
(cd lean && lake build 2>&1 | grep -v "^info\|^WARNING\|warning:\|^  \|^$\|consider\|omit\|Note:" | tail -5)
tools/update_fingerprints.py
python3 tools/gen_audit.py >/dev/null
python3 tools/gen_manifest.py
python3 tools/fix_hashes.py
