"""C07 — where is the boundary of correctness of the real id_star?

Measures, per syntactic feature of the event (and per route through the algorithm), the failure rate of the REAL
`y0.algorithm.identify.id_star` against the exact functional-SCM oracle of harness/props/c07.py, on the thorough stream of
that module (several seeds) plus the exhaustive small-scope slice.  Prints one table per feature and the table of feature
COMBINATIONS (sorted), with for each failing combination the located finding keys.

    Y0_REPO=/work/cf4/repo /venv/bin/python tools/c07_boundary.py [--seeds 0,1,2] [--n 6000] [--procs 8] [--out file.json]
"""
from __future__ import annotations

import argparse
import collections
import json
import multiprocessing as mp
import os
import random
import sys

sys.path.insert(0, os.path.dirname(os.path.dirname(os.path.abspath(__file__))))

from harness.props import c07 as P      # noqa: E402
from harness.props import c18 as C18    # noqa: E402
from harness.oracles import cf_common as K   # noqa: E402


def features(case):
    """syntactic features of the event (no run of the code)"""
    ev = case["event"]
    worlds = sorted({json.dumps(sorted([int(n), s] for n, s in var[4])) for var, _ in ev})
    cw = [json.loads(w) for w in worlds if json.loads(w)]
    factual = any(not var[4] for var, _ in ev)
    names_of = [frozenset(n for n, _ in w) for w in cw]
    share = any(names_of[i] & names_of[j] for i in range(len(cw)) for j in range(i + 1, len(cw)))
    # a variable that one world intervenes on and that is a KEY (outcome) in another world (incl. the factual one)
    keys_by_world = collections.defaultdict(set)
    for var, _ in ev:
        keys_by_world[json.dumps(sorted([int(n), s] for n, s in var[4]))].add(int(var[1]))
    cross = False
    for w in cw:
        wn = {n for n, _ in w}
        for w2, ks in keys_by_world.items():
            if w2 != json.dumps(w) and ks & wn:
                cross = True
    bases = [int(var[1]) for var, _ in ev]
    f = {
        "starred_value": any(val == "p" for _, val in ev),
        "starred_subscript": any(s == "p" for var, _ in ev for _, s in var[4]),
        "n_cf_worlds": len(cw),
        "factual_key": factual,
        "n_worlds_total": len(cw) + (1 if factual else 0),
        "worlds_share_variable": share,
        "intervened_var_is_key_elsewhere": cross,
        "two_copies_of_a_variable": len(set(bases)) < len(bases),
        "self_intervention": any(int(var[1]) in {int(n) for n, _ in var[4]} for var, _ in ev),
    }
    return f


def route(case, strategy):
    """which lines of the real code fired (top call and recursion)"""
    try:
        node = P._call_tree(case, strategy)
    except Exception:
        return "crash"
    seen = set()

    def walk(n, top):
        if n["l6"]:
            seen.add("line6" if top else "line6-nested")
        elif n["cg"] is not None and n["cg"][1] is None:
            seen.add("line5")
        elif n["cg"] is not None and not n["children"]:
            seen.add("line9" if not isinstance(n["result"], Exception) else "line8")
        for ch in n["children"]:
            walk(ch, top and not n["l6"] and n["cg"] is None)   # the line-3 recursion keeps "top"
    walk(node, True)
    if not seen:
        return "lines1-3"
    return "+".join(sorted(seen))


def one(case):
    try:
        if case.get("malformed") or not C18._in_domain(case):
            return None
        r = P._evaluate(case, with_unpatched=False)
        f = features(case)
        f["route"] = route(case, K.id_strategies(case["event"])[0])
        f["frag1"] = bool(r["in_fragment"])
        f["fragment"] = ("1" if r["in_fragment"] else "2" if r["in_fragment2_strict"] else "2R" if r["in_fragment2r"] else
                         "3" if r["in_fragment3"] else "single-world-outside" if r["one_world"] else "multi-world-outside")
        f["fragment3_flag"] = bool(r["in_fragment3"])
        key = None
        if r["fail"]:
            key = P._coarse_key(case, dict(r, in_fragment=False, in_fragment2=False))
        first = r["by_order"][0]
        f["answer"] = "unid" if first == ["unidentifiable"] else "err" if first == ["err"] else \
            ("zero" if first[1] == "zero" else "one" if first[1] == "one" else "estimand")
        return {"f": f, "fail": r["kind"] if r["fail"] else None, "key": key, "case": case if r["fail"] else None}
    except Exception as e:   # noqa: BLE001
        return {"f": {"route": "harness-error"}, "fail": None, "key": None, "case": None, "err": repr(e)}


def gen(seeds, n, exhaustive):
    out = []
    for s in seeds:
        rng = random.Random(s)
        for _ in range(n):
            big = rng.random() < 0.3
            if rng.random() < 0.12:
                g, ev = P._gen_districts(rng)
                out.append({"g": g, "event": ev, "seed": rng.randrange(1 << 30)})
                continue
            g = K.rand_admg(rng, 1, 5 if big else 4)
            ev = K.rand_event(rng, g, max_worlds=3 if rng.random() < 0.3 else 2, max_items=4 if big else 3)
            out.append({"g": g, "event": ev, "seed": rng.randrange(1 << 30)})
    if exhaustive:
        out += K.exhaustive_event_cases(2, 2)
    return out


def main():
    ap = argparse.ArgumentParser()
    ap.add_argument("--seeds", default="0,1,2")
    ap.add_argument("--n", type=int, default=6000)
    ap.add_argument("--procs", type=int, default=8)
    ap.add_argument("--exhaustive", action="store_true")
    ap.add_argument("--out", default=None)
    a = ap.parse_args()
    cases = gen([int(s) for s in a.seeds.split(",")], a.n, a.exhaustive)
    with mp.Pool(a.procs) as pool:
        res = [r for r in pool.imap_unordered(one, cases, chunksize=20) if r is not None]
    print(f"cases in domain: {len(res)}  failures: {sum(1 for r in res if r['fail'])}")
    feats = sorted({k for r in res for k in r["f"]})
    for k in feats:
        tab = collections.defaultdict(lambda: [0, 0])
        for r in res:
            t = tab[str(r["f"].get(k))]
            t[0] += 1
            t[1] += bool(r["fail"])
        print(f"\n== {k}")
        for val, (n_, bad) in sorted(tab.items()):
            print(f"   {val:28s} n={n_:6d} fail={bad:5d} ({100.0 * bad / n_:5.1f}%)")
    combo_keys = ["starred_value", "starred_subscript", "n_worlds_total", "worlds_share_variable",
                  "intervened_var_is_key_elsewhere", "two_copies_of_a_variable", "route"]
    tab = collections.defaultdict(lambda: [0, 0, collections.Counter()])
    for r in res:
        c = tuple(str(r["f"].get(k)) for k in combo_keys)
        t = tab[c]
        t[0] += 1
        t[1] += bool(r["fail"])
        if r["fail"]:
            t[2][r["key"] or "unlocated"] += 1
    print("\n== combinations:", combo_keys)
    for c, (n_, bad, keys) in sorted(tab.items(), key=lambda kv: (kv[1][1] > 0, kv[0])):
        ks = "; ".join(f"{k} x{v}" for k, v in keys.most_common(4))
        print(f"   {' '.join(x[:5].ljust(5) for x in c[:-1])} {c[-1]:22s} n={n_:6d} fail={bad:5d}  {ks}")
    if a.out:
        with open(a.out, "w") as fh:
            json.dump(res, fh)


if __name__ == "__main__":
    main()
