#!/usr/bin/env python3
"""Write MANIFEST.json from the property modules under harness/props (each declares MANIFEST = {...})."""
import importlib, json, sys
from pathlib import Path
root = Path(__file__).resolve().parent.parent
sys.path.insert(0, str(root))
props = [json.loads(l)["id"] for l in (root / "properties.jsonl").read_text().splitlines() if l.strip()]
checks, na = [], []
pending_file = root / "tools" / "pending.txt"
pending = set(pending_file.read_text().split()) if pending_file.exists() else set()
for pid in props:
    f = root / "harness" / "props" / f"{pid.lower()}.py"
    if not f.exists() or pid in pending:
        na.append({"property_id": pid, "reason": "not claimed yet: the model/correspondence for this property is not built in the committed state (see DESIGN.md section 4 for the plan); no technique other than Lean proof + correspondence will be substituted"})
        continue
    m = importlib.import_module(f"harness.props.{pid.lower()}")
    meta = m.MANIFEST
    checks.append({
        "property_id": pid,
        "quick_cmd": f"./check {pid} --tier quick",
        "thorough_cmd": f"./check {pid} --tier thorough",
        "evidence_file": f"evidence/{pid}.json",
        "replay_cmd_template": f"./check {pid} --replay {{path}}",
        "engine": "lean-model+correspondence",
        "level_claimed": {"category": "proof", "text": meta["text"], "design_ref": meta.get("design_ref", f"DESIGN.md section 4, {pid}")},
        "level_note": meta["note"],
        "technique": meta.get("technique", "Lean 4 theorems about a hand-written executable model + differential correspondence check against the Python"),
    })
man = {
    "version": 1,
    "setup_cmd": "cd lean && lake build",
    "hooks": {
        "guard": "Y0_VERIF",
        "enable": "no source hooks are needed: the harness imports y0 in-process from /repo/src and observes it from outside (Y0_VERIF=1 is exported by the harness but nothing in /repo reads it)",
        "baseline_off_cmd": "cd /repo && /venv/bin/python -m pytest -ra -q -p no:cacheprovider --timeout=900 --continue-on-collection-errors",
        "source_commits": [],
        "add_only": True,
    },
    "engines": [{
        "name": "lean-model+correspondence", "path": "lean/ , harness/ , check",
        "serves_properties": [c["property_id"] for c in checks],
        "kind_free_text": "Lean 4 (4.33, Mathlib modules for proofs only) executable models + property theorems; compiled model driver spoken to over a line protocol; Python harness runs the real y0 in-process on the same generated inputs, diffs the outputs, and runs an independent oracle to find a concrete failing input when a proof obligation or the correspondence breaks",
    }],
    "checks": checks,
    "not_applicable": na,
    "notes": "See DESIGN.md. `fix:` commits in /repo repair genuine defects found by these checks; known_findings.jsonl lists the ones recorded instead of repaired.",
}
(root / "MANIFEST.json").write_text(json.dumps(man, indent=1) + "\n")
print("checks:", [c["property_id"] for c in checks], "not_applicable:", len(na))
