#!/usr/bin/env python3
"""Form-specific mutations of y0 (harness/forms.py): does each check notice a change that only shows for ONE way of
passing an argument (one-shot iterable, bare Variable, str name, empty vs None, another constructor, ...)?

    python3 tools/form_mutations.py --repo /work/<me>/repo [--only C14] [--id m14_]

Each mutation is a textual replacement in one file of the repo WORKTREE GIVEN BY --repo (never /repo), applied one at a
time and undone with `git checkout -- <file>` afterwards.  The registered quick check of each listed property is run
with the fingerprint escalation switched off (VERIF_NO_ESCALATE=1: the plain quick tier has to catch it), evidence
and replays redirected to a scratch directory.  Prints one table row per (mutation, property).
"""
from __future__ import annotations

import argparse
import json
import os
import re
import subprocess
import sys
import tempfile
from pathlib import Path

VERIF = Path(__file__).resolve().parent.parent

G = "src/y0/graph.py"
CI = "src/y0/algorithm/conditional_independencies.py"
UT = "src/y0/algorithm/identify/utils.py"
API = "src/y0/algorithm/identify/api.py"
IDC = "src/y0/algorithm/identify/id_c.py"
IDS = "src/y0/algorithm/identify/id_std.py"
DSL = "src/y0/dsl.py"
CAN = "src/y0/mutate/canonicalize_expr.py"
SIG = "src/y0/algorithm/separation/sigma_separation.py"
LAT = "src/y0/algorithm/simplify_latent.py"
CTA = "src/y0/algorithm/counterfactual_transport/api.py"
CTU = "src/y0/algorithm/counterfactual_transport/ancestor_utils.py"

MUTATIONS = [
    # ---------------------------------------------------------------- graph.py (C14 and every consumer)
    {"id": "m14_ensure_set_validate_then_normalise", "props": ["C14"], "file": G,
     "what": "_ensure_set checks for interventions on the argument itself before set(): a one-shot iterable is consumed (seeded/C04b pattern)",
     "old": "    rv = {vertices} if isinstance(vertices, Variable) else set(vertices)\n    if any(isinstance(v, Intervention) for v in rv):",
     "new": "    if not isinstance(vertices, Variable) and any(isinstance(v, Intervention) for v in vertices):\n        raise TypeError(\"can not use interventions here\")\n    rv = {vertices} if isinstance(vertices, Variable) else set(vertices)\n    if any(isinstance(v, Intervention) for v in rv):"},
    {"id": "m14_blanket_iterates_twice", "props": ["C14"], "file": G,
     "what": "get_markov_blanket no longer copies an iterable into a set: it is iterated for the blanket and again for the difference",
     "old": "        else:\n            nodes = set(nodes)\n        blanket = set()",
     "new": "        blanket = set()"},
    {"id": "m14_paths_single_means_not_a_set", "props": ["C14"], "file": G,
     "what": "get_nodes_in_directed_paths wraps every targets argument that is not a `set` into a one-element set (frozenset / tuple / list callers)",
     "old": "    targets = _ensure_set(targets)\n    if nx.is_directed_acyclic_graph",
     "new": "    targets = targets if isinstance(targets, set) else ({targets} if isinstance(targets, Variable | frozenset) else set(targets))\n    if nx.is_directed_acyclic_graph"},
    {"id": "m14_subgraph_bare_variable", "props": ["C14"], "file": G,
     "what": "subgraph normalises with set(vertices): a bare Variable is no longer accepted",
     "old": "        vertices = _ensure_set(vertices)\n        return self.from_edges(\n            nodes=vertices,\n            directed=_include_adjacent(self.directed, vertices),",
     "new": "        vertices = set(vertices)\n        return self.from_edges(\n            nodes=vertices,\n            directed=_include_adjacent(self.directed, vertices),"},
    {"id": "m14_pre_default_truthiness", "props": ["C14"], "file": G,
     "what": "pre() tests `if not nodes` before normalising: an empty query returns [] instead of the whole order",
     "old": "        node_set = _ensure_set(nodes)\n        pre = []",
     "new": "        if not isinstance(nodes, Variable) and not nodes:\n            return []\n        node_set = _ensure_set(nodes)\n        pre = []"},
    {"id": "m14_from_adj_key_without_neighbours", "props": ["C14"], "file": G,
     "what": "from_adj no longer adds the keys of the undirected adjacency as nodes: an isolated node named only by an empty adjacency entry is lost",
     "old": "        for u, vs in (undirected or {}).items():\n            rv.add_node(u)\n            for v in vs:",
     "new": "        for u, vs in (undirected or {}).items():\n            for v in vs:"},
    {"id": "m14_from_edges_validates_edges_first", "props": ["C14"], "file": G,
     "what": "from_edges validates that every directed edge is a pair before the loop that adds them: a generator of edges is consumed by the validation",
     "old": "        rv = cls()\n        for n in nodes or []:\n            rv.add_node(n)\n        for u, v in directed or []:",
     "new": "        rv = cls()\n        if directed is not None and any(len(e) != 2 for e in directed):\n            raise ValueError(\"edges must be pairs\")\n        for n in nodes or []:\n            rv.add_node(n)\n        for u, v in directed or []:"},
    {"id": "m14_lvdag_custom_tag_ignored", "props": ["C14"], "file": G,
     "what": "from_latent_variable_dag reads the latent flag under the default key when iterating (custom tag honoured only by the validation)",
     "old": "        for node, data in graph.nodes.items():\n            if data[tag]:\n                for a, b in itt.combinations(graph.successors(node), 2):",
     "new": "        for node, data in graph.nodes.items():\n            if data.get(DEFAULT_TAG, False):\n                for a, b in itt.combinations(graph.successors(node), 2):"},
    {"id": "m14_add_edge_str_not_normalised", "props": ["C14"], "file": G,
     "what": "add_undirected_edge no longer normalises its second endpoint: a str name stays a str node next to the Variable of the same name",
     "old": "        u = Variable.norm(u)\n        v = Variable.norm(v)\n        self.undirected.add_edge(u, v, **attr)",
     "new": "        u = Variable.norm(u)\n        self.undirected.add_edge(u, v, **attr)"},
    {"id": "h14_harmless_rewrite", "props": ["C14"], "file": G,
     "what": "CONTROL (must NOT be reported): _ensure_set written with an if statement and a renamed local",
     "old": "    rv = {vertices} if isinstance(vertices, Variable) else set(vertices)\n    if any(isinstance(v, Intervention) for v in rv):\n        raise TypeError(\"can not use interventions here\")\n    return rv",
     "new": "    if isinstance(vertices, Variable):\n        result = {vertices}\n    else:\n        result = set(vertices)\n    if any(isinstance(v, Intervention) for v in result):\n        raise TypeError(\"can not use interventions here\")\n    return result"},
    # ---------------------------------------------------------------- are_d_separated / DSeparationJudgement (C04)
    {"id": "m04_validate_then_normalise", "props": ["C04"], "file": CI,
     "what": "seeded/C04b: conditions = set(conditions) moved after the validation that iterates over it",
     "old": "        conditions = set()\n    conditions = set(conditions)\n    if not isinstance(a, Variable):",
     "new": "        conditions = set()\n    if not isinstance(a, Variable):"
     },
    {"id": "m04_default_none_removed", "props": ["C04"], "file": CI,
     "what": "the None default is no longer replaced by an empty set (callers that omit conditions or pass None)",
     "old": "    if conditions is None:\n        conditions = set()\n    conditions = set(conditions)\n    if not isinstance(a, Variable):",
     "new": "    conditions = set(conditions)\n    if not isinstance(a, Variable):"},
    {"id": "m04_keyword_renamed", "props": ["C04"], "file": CI,
     "what": "parameters a, b renamed to left, right: callers that pass them by keyword break",
     "old": "    a: Variable,\n    b: Variable,\n    *,\n    conditions: Iterable[Variable] | None = None,\n) -> DSeparationJudgement:",
     "new": "    left: Variable,\n    right: Variable,\n    *,\n    conditions: Iterable[Variable] | None = None,\n) -> DSeparationJudgement:\n    a, b = left, right\n    return _are_d_separated(graph, a, b, conditions=conditions)\n\n\ndef _are_d_separated(\n    graph: NxMixedGraph,\n    a: Variable,\n    b: Variable,\n    *,\n    conditions: Iterable[Variable] | None = None,\n) -> DSeparationJudgement:"},
    {"id": "m04_create_len", "props": ["C04"], "file": "src/y0/struct.py",
     "what": "DSeparationJudgement.create short-cuts an empty conditioning set with len(): one-shot iterables have no len()",
     "old": "        conditions = tuple(sorted(set(conditions), key=str))\n        return cls(separated, left, right, conditions)",
     "new": "        conditions = tuple(sorted(set(conditions), key=str)) if len(conditions) else ()\n        return cls(separated, left, right, conditions)"},
    {"id": "m04_create_sorts_the_argument", "props": ["C04"], "file": "src/y0/struct.py",
     "what": "DSeparationJudgement.create checks for emptiness by iterating once, then sorts: a one-shot iterable loses its first element",
     "old": "        conditions = tuple(sorted(set(conditions), key=str))\n        return cls(separated, left, right, conditions)",
     "new": "        if not any(True for _ in conditions):\n            return cls(separated, left, right, ())\n        conditions = tuple(sorted(set(conditions), key=str))\n        return cls(separated, left, right, conditions)"},
    # ---------------------------------------------------------------- get_conditional_independencies / powerset (C15)
    {"id": "m15_powerset_len_of_argument", "props": ["C15"], "file": "src/y0/util/combinatorics.py",
     "what": "powerset takes len() of its argument instead of the list it made: one-shot iterables have no len()",
     "old": "    s = list(iterable)\n    n = len(s)", "new": "    s = list(iterable)\n    n = len(iterable)"},
    {"id": "m15_powerset_iterates_twice", "props": ["C15"], "file": "src/y0/util/combinatorics.py",
     "what": "powerset counts the elements by iterating, then lists them: a one-shot iterable is empty the second time",
     "old": "    s = list(iterable)\n    n = len(s)", "new": "    n = sum(1 for _ in iterable)\n    s = list(iterable)"},
    {"id": "m15_graph_keyword_renamed", "props": ["C15"], "file": CI,
     "what": "get_conditional_independencies: parameter graph renamed (keyword callers break)",
     "old": "def get_conditional_independencies(\n    graph: NxMixedGraph,\n    *,",
     "new": "def get_conditional_independencies(\n    admg: NxMixedGraph,\n    *,\n    graph: None = None,"},
    {"id": "m15_policy_none_not_defaulted", "props": ["C15"], "file": CI,
     "what": "get_conditional_independencies only computes the topological policy when the argument is omitted (sentinel), an explicit policy=None reaches min(key=None) on judgements",
     "old": "    if policy is None:\n        policy = get_topological_policy(graph)\n    return minimal(",
     "new": "    if policy is None and max_conditions is not None:\n        policy = get_topological_policy(graph)\n    if policy is None:\n        return {min(vs) for _, vs in groupby(sorted(d_separations(graph, max_conditions=max_conditions, **kwargs), key=_judgement_grouper), _judgement_grouper)}\n    return minimal("},
    # ---------------------------------------------------------------- are_sigma_separated (C20)
    {"id": "m20_conditions_not_copied", "props": ["C20"], "file": SIG,
     "what": "are_sigma_separated keeps the caller's iterable instead of set(conditions): a one-shot iterable is consumed by the first membership test",
     "old": "    if conditions is None:\n        conditions = set()\n    else:\n        conditions = set(conditions)\n\n    sigma = get_equivalence_classes(graph)",
     "new": "    if conditions is None:\n        conditions = set()\n\n    sigma = get_equivalence_classes(graph)"},
    {"id": "m20_default_none_removed", "props": ["C20"], "file": SIG,
     "what": "are_sigma_separated no longer replaces conditions=None (omitted / explicit None)",
     "old": "    if conditions is None:\n        conditions = set()\n    else:\n        conditions = set(conditions)\n\n    sigma = get_equivalence_classes(graph)",
     "new": "    conditions = set(conditions)\n\n    sigma = get_equivalence_classes(graph)"},
    {"id": "m20_keyword_renamed", "props": ["C20"], "file": SIG,
     "what": "are_sigma_separated: parameters left/right renamed to a/b (keyword callers break)",
     "old": "    graph: NxMixedGraph,\n    left: Variable,\n    right: Variable,\n    *,\n    conditions: Iterable[Variable] | None = None,\n    cutoff: int | None = None,\n) -> bool:\n    \"\"\"Test if two variables are sigma-separated.",
     "new": "    graph: NxMixedGraph,\n    a: Variable,\n    b: Variable,\n    *,\n    conditions: Iterable[Variable] | None = None,\n    cutoff: int | None = None,\n) -> bool:\n    \"\"\"Test if two variables are sigma-separated.\"\"\"\n    return _are_sigma_separated(graph, a, b, conditions=conditions, cutoff=cutoff)\n\n\ndef _are_sigma_separated(\n    graph: NxMixedGraph,\n    left: Variable,\n    right: Variable,\n    *,\n    conditions: Iterable[Variable] | None = None,\n    cutoff: int | None = None,\n) -> bool:\n    \"\"\"Test if two variables are sigma-separated."},
    {"id": "m20_cutoff_none_is_zero", "props": ["C20"], "file": SIG,
     "what": "an explicit cutoff=None is coerced with `cutoff or 0`-style arithmetic only when the argument is passed... modelled as: cutoff defaults to the number of nodes minus 2 when None (paths through every node are cut)",
     "old": "        for path in nx.all_simple_paths(graph.disorient(), left, right, cutoff=cutoff)",
     "new": "        for path in nx.all_simple_paths(graph.disorient(), left, right, cutoff=cutoff if cutoff is not None else max(len(graph) - 2, 1))"},
    # ---------------------------------------------------------------- ID / IDC entry points (C01, C02, C03)
    {"id": "mid_api_validate_then_normalise", "props": ["C01", "C02", "C03"], "file": API,
     "what": "identify_outcomes checks that every treatment is a node before _ensure_set: a one-shot iterable of treatments is consumed, the query is answered without treatments",
     "old": "    treatments = _ensure_set(treatments)\n    outcomes = _ensure_set(outcomes)\n",
     "new": "    if not isinstance(treatments, Variable) and any(t not in graph for t in treatments):\n        raise KeyError(\"treatment not in graph\")\n    treatments = _ensure_set(treatments)\n    outcomes = _ensure_set(outcomes)\n"},
    {"id": "mid_query_validate_then_normalise", "props": ["C01", "C02", "C03"], "file": UT,
     "what": "Query.__init__ looks for counterfactual outcomes before _ensure_set: a one-shot iterable of outcomes is consumed",
     "old": "        self.outcomes = _ensure_set(outcomes)\n        self.treatments = _ensure_set(treatments)",
     "new": "        if not isinstance(outcomes, Variable) and any(isinstance(o, CounterfactualVariable) for o in outcomes):\n            raise ValueError(\"outcomes must be plain variables\")\n        self.outcomes = _ensure_set(outcomes)\n        self.treatments = _ensure_set(treatments)"},
    {"id": "mid_query_positional_order", "props": ["C01", "C02", "C03"], "file": UT,
     "what": "Query.__init__ lists treatments before outcomes: positional callers silently swap them",
     "old": "        outcomes: Variable | set[Variable],\n        treatments: Variable | set[Variable],\n        conditions: None | Variable | set[Variable] = None,\n    ) -> None:",
     "new": "        treatments: Variable | set[Variable],\n        outcomes: Variable | set[Variable],\n        conditions: None | Variable | set[Variable] = None,\n    ) -> None:"},
    {"id": "mid_from_parts_drops_conditions", "props": ["C03"], "file": UT,
     "what": "Identification.from_parts does not forward conditions to the Query",
     "old": "            query=Query(outcomes=outcomes, treatments=treatments, conditions=conditions),\n            graph=graph,\n            estimand=estimand,",
     "new": "            query=Query(outcomes=outcomes, treatments=treatments),\n            graph=graph,\n            estimand=estimand,"},
    {"id": "mid_from_expression_keeps_subscripts", "props": ["C03"], "file": UT,
     "what": "Query.from_expression keeps the intervention subscripts on the conditions (no get_base)",
     "old": "        conditions = {parent.get_base() for parent in query.parents}",
     "new": "        conditions = set(query.parents)"},
    {"id": "mid_from_expression_first_child_only", "props": ["C01", "C02"], "file": UT,
     "what": "Query.from_expression takes the outcomes without their interventions only for plain variables (counterfactual children keep their subscripts)",
     "old": "        outcomes = {child.get_base() for child in query.children}  # clean counterfactuals",
     "new": "        outcomes = set(query.children)"},
    {"id": "mid_api_conditions_must_be_iterable", "props": ["C03"], "file": API,
     "what": "identify_outcomes copies conditions with set(): a bare Variable (allowed by the signature) is rejected",
     "old": "    query = Query(treatments=treatments, outcomes=outcomes, conditions=conditions)",
     "new": "    query = Query(treatments=treatments, outcomes=outcomes, conditions=None if conditions is None else set(conditions))"},
    {"id": "mid_query_conditions_truthiness", "props": ["C03"], "file": UT,
     "what": "Query.__init__ tests `if conditions` on the argument and then builds the set from it a second time through a generator expression filter",
     "old": "        self.conditions = _ensure_set(conditions or set())",
     "new": "        self.conditions = _ensure_set(conditions) if (isinstance(conditions, Variable) or (conditions is not None and any(True for _ in conditions))) else set()"},
    {"id": "mid_from_expression_estimand_is_query", "props": ["C06", "C01"], "file": UT,
     "what": "Identification.from_expression uses the query expression itself as the starting estimand when none is given (interventional term carried into the result)",
     "old": "            query=Query.from_expression(query),\n            graph=graph,\n            estimand=estimand,",
     "new": "            query=Query.from_expression(query),\n            graph=graph,\n            estimand=query if estimand is None else estimand,"},
    # ---------------------------------------------------------------- canonicalize(expr, ordering) (C10, C11)
    {"id": "mcan_validate_then_normalise", "props": ["C10", "C11"], "file": DSL,
     "what": "ensure_ordering type-checks the elements of the ordering before _upgrade_ordering: a one-shot ordering is consumed",
     "old": "    if ordering is not None:\n        return _upgrade_ordering(ordering)",
     "new": "    if ordering is not None:\n        if any(not isinstance(v, str | Variable) for v in ordering):\n            raise TypeError(\"ordering must hold names or variables\")\n        return _upgrade_ordering(ordering)"},
    {"id": "mcan_sorted_before_upgrade", "props": ["C10", "C11"], "file": DSL,
     "what": "_upgrade_ordering de-duplicates and sorts before upgrading str names to Variables: sorted() of mixed str / Variable",
     "old": "    return _sorted_variables(set(_upgrade_variables(variables)))",
     "new": "    if isinstance(variables, str | Variable):\n        return _upgrade_variables(variables)\n    return _sorted_variables(_upgrade_variables(sorted(set(variables))))"},
    {"id": "mcan_str_names_not_upgraded", "props": ["C10", "C11"], "file": DSL,
     "what": "ensure_ordering only sorts the given ordering by name (str names are no longer upgraded to Variables)",
     "old": "    if ordering is not None:\n        return _upgrade_ordering(ordering)",
     "new": "    if ordering is not None:\n        return tuple(sorted(set(ordering), key=lambda v: v if isinstance(v, str) else v.name))"},
    {"id": "mcan_keyword_renamed", "props": ["C10", "C11"], "file": CAN,
     "what": "canonicalize: parameter ordering renamed to order (keyword callers break)",
     "old": "    expression: Expression, ordering: Sequence[str | Variable] | None = None\n) -> Expression:",
     "new": "    expression: Expression, order: Sequence[str | Variable] | None = None\n) -> Expression:\n    ordering = order"},
    {"id": "mcan_len_of_ordering", "props": ["C10", "C11"], "file": CAN,
     "what": "canonicalize short-cuts an empty ordering with len(): one-shot iterables and dict views behave differently",
     "old": "    canonicalizer = Canonicalizer(ensure_ordering(expression, ordering=ordering))",
     "new": "    if ordering is not None and len(ordering) == 0:\n        ordering = None\n    canonicalizer = Canonicalizer(ensure_ordering(expression, ordering=ordering))"},
    # ---------------------------------------------------------------- LV-DAG conversion / Evans simplification (C16)
    {"id": "m16_simplify_tag_not_forwarded", "props": ["C16"], "file": LAT,
     "what": "simplify_latent_dag calls the widow rule without the tag: a DAG tagged under a custom key is read under the default key",
     "old": "    _, widows = remove_widow_latents(graph, tag=tag)",
     "new": "    _, widows = remove_widow_latents(graph)"},
    {"id": "m16_evans_tag_not_forwarded", "props": ["C16"], "file": LAT,
     "what": "evans_simplify builds the LV-DAG with the default tag and simplifies it under the requested one",
     "old": "    lv_dag = NxMixedGraph.to_latent_variable_dag(graph, tag=tag)",
     "new": "    lv_dag = NxMixedGraph.to_latent_variable_dag(graph)"},
    {"id": "m16_evans_latents_bare_variable", "props": ["C16"], "file": LAT,
     "what": "evans_simplify copies the extra latents with set(): a bare Variable (allowed by the signature) is rejected",
     "old": "        latents = _ensure_set(latents)\n        for node, data in lv_dag.nodes(data=True):",
     "new": "        latents = set(latents)\n        for node, data in lv_dag.nodes(data=True):"},
    {"id": "m16_evans_latents_validate_then_normalise", "props": ["C16"], "file": LAT,
     "what": "evans_simplify checks that the extra latents are nodes before _ensure_set: a one-shot iterable is consumed and no node is marked",
     "old": "        latents = _ensure_set(latents)\n        for node, data in lv_dag.nodes(data=True):",
     "new": "        if not isinstance(latents, Variable) and any(node not in lv_dag for node in latents):\n            raise KeyError(\"latent is not a node\")\n        latents = _ensure_set(latents)\n        for node, data in lv_dag.nodes(data=True):"},
    {"id": "m16_from_lv_tag_keyword_only", "props": ["C16"], "file": G,
     "what": "from_latent_variable_dag makes tag keyword-only (positional callers break)",
     "old": "    def from_latent_variable_dag(cls, graph: nx.DiGraph, tag: str | None = None) -> NxMixedGraph:",
     "new": "    def from_latent_variable_dag(cls, graph: nx.DiGraph, *, tag: str | None = None) -> NxMixedGraph:"},
    {"id": "m16_to_lv_tag_none_not_defaulted", "props": ["C16"], "file": G,
     "what": "_latent_dag only fills in the default tag when the argument is falsy-or-missing via `tag = tag or DEFAULT_TAG` AFTER labelling the observed nodes (an explicit tag=None labels them under the key None)",
     "old": "    if tag is None:\n        tag = DEFAULT_TAG\n    if prefix is None:\n        prefix = DEFULT_PREFIX\n\n    bi_edges_list = list(bi_edges)\n\n    rv = nx.DiGraph()\n    rv.add_nodes_from(nodes or ())\n    rv.add_nodes_from(itt.chain.from_iterable(bi_edges_list))\n    rv.add_edges_from(di_edges)\n    nx.set_node_attributes(rv, False, tag)",
     "new": "    if prefix is None:\n        prefix = DEFULT_PREFIX\n\n    bi_edges_list = list(bi_edges)\n\n    rv = nx.DiGraph()\n    rv.add_nodes_from(nodes or ())\n    rv.add_nodes_from(itt.chain.from_iterable(bi_edges_list))\n    rv.add_edges_from(di_edges)\n    nx.set_node_attributes(rv, False, tag)\n    if tag is None:\n        tag = DEFAULT_TAG"},
    # ---------------------------------------------------------------- counterfactual transport helpers (C19)
    {"id": "m19_minimize_event_copies_with_copy", "props": ["C19"], "file": CTA,
     "what": "minimize_event copies the event with .copy() before the comprehension: an event given as a tuple has no .copy()",
     "old": "    return [(minimize_counterfactual(variable, graph), value) for variable, value in event]",
     "new": "    return [(minimize_counterfactual(variable, graph), value) for variable, value in event.copy()]"},
    {"id": "m19_factors_set_difference", "props": ["C19"], "file": CTA,
     "what": "get_counterfactual_factors removes nothing from the event with a set difference (`event - set()`): callers passing a list / tuple / dict view break",
     "old": "    district_mappings: defaultdict[frozenset[Variable], set[Variable]] = defaultdict(set)\n    for variable in event:\n        district_mappings[graph.get_district(variable.get_base())].add(variable)\n\n    # TODO if there",
     "new": "    district_mappings: defaultdict[frozenset[Variable], set[Variable]] = defaultdict(set)\n    for variable in event - set():\n        district_mappings[graph.get_district(variable.get_base())].add(variable)\n\n    # TODO if there"},
    {"id": "m19_minimize_keyword_renamed", "props": ["C19"], "file": CTU,
     "what": "minimize_counterfactual: parameter variable renamed (keyword callers break)",
     "old": "def minimize_counterfactual(variable: Variable, graph: NxMixedGraph) -> Variable:",
     "new": "def minimize_counterfactual(var: Variable, graph: NxMixedGraph) -> Variable:\n    variable = var"},
    {"id": "m19_components_pops_roots", "props": ["C19"], "file": CTU,
     "what": "get_ancestral_components drains the caller's root collection with .pop() (needs a mutable set: frozenset / tuple / dict-view callers break)",
     "old": "        for v in root_variables\n    }\n    logger.debug(\"In _get_ancestral_components: ancestral_sets = \"",
     "new": "        for v in [root_variables.pop() for _ in range(len(root_variables))]\n    }\n    logger.debug(\"In _get_ancestral_components: ancestral_sets = \""},
    # ---------------------------------------------------------------- DSL builders, alternative argument forms (C12)
    {"id": "m12_str_names_kept_in_iterables", "props": ["C12"], "file": DSL,
     "what": "_upgrade_variables no longer upgrades the str names inside an iterable (P(['A', 'B']), Y @ ['X'])",
     "old": "        return tuple(Variable.norm(variable) for variable in variables)",
     "new": "        return tuple(variables)"},
    {"id": "m12_single_str_is_iterated", "props": ["C12"], "file": DSL,
     "what": "_upgrade_variables drops the special case for a single str: 'X1' is iterated character by character",
     "old": "    if isinstance(variables, str):\n        return (Variable(variables),)\n    elif isinstance(variables, Variable):",
     "new": "    if isinstance(variables, Variable):"},
    {"id": "m12_generator_consumed_by_check", "props": ["C12"], "file": DSL,
     "what": "_upgrade_variables rejects empty hints by iterating once before building the tuple: a generator hint is consumed",
     "old": "        return tuple(Variable.norm(variable) for variable in variables)",
     "new": "        if not any(True for _ in variables):\n            raise ValueError(\"no variables given\")\n        return tuple(Variable.norm(variable) for variable in variables)"},
]


def run(cmd, env=None, timeout=1500):
    return subprocess.run(cmd, capture_output=True, text=True, env=env, timeout=timeout)


def main():
    ap = argparse.ArgumentParser()
    ap.add_argument("--repo", required=True)
    ap.add_argument("--only", default=None, help="only this property")
    ap.add_argument("--id", default=None, help="only mutations whose id contains this text")
    ap.add_argument("--escalate", action="store_true", help="leave the fingerprint escalation on (the registered behaviour)")
    ap.add_argument("--json", default=None)
    args = ap.parse_args()
    repo = Path(args.repo).resolve()
    if repo == Path("/repo"):
        sys.exit("refusing to mutate /repo")
    rows = []
    for m in MUTATIONS:
        if args.id and args.id not in m["id"]:
            continue
        props = [p for p in m["props"] if not args.only or p == args.only]
        if not props:
            continue
        f = repo / m["file"]
        if run(["git", "-C", str(repo), "status", "--porcelain", m["file"]]).stdout.strip():
            sys.exit(f"{m['file']} is not clean in {repo}")
        src = f.read_text()
        if src.count(m["old"]) != 1:
            rows.append((m["id"], "-", "NOT APPLICABLE (pattern occurs %d times)" % src.count(m["old"]), ""))
            continue
        try:
            f.write_text(src.replace(m["old"], m["new"]))
            for p in props:
                with tempfile.TemporaryDirectory() as tmp:
                    env = dict(os.environ, Y0_REPO=str(repo), VERIF_EVIDENCE_DIR=tmp + "/ev", VERIF_REPLAY_DIR=tmp + "/rp")
                    if not args.escalate:
                        env["VERIF_NO_ESCALATE"] = "1"
                    r = run([str(VERIF / "check"), p], env=env)
                    out = r.stdout + r.stderr
                    viol = [ln for ln in out.splitlines() if ln.startswith("VIOLATION")]
                    concrete = [ln for ln in viol if "no-failing-input-found" not in ln]
                    summ = next((ln for ln in out.splitlines() if ln.startswith(f"[{p}] tier=")), "")
                    ms = re.search(r"disagreements=(\d+) oracle_failures=(\d+)", summ)
                    says = ""
                    if concrete:
                        try:
                            rp = concrete[0].split("replay=")[1].split()[0]
                            d = json.load(open(rp))
                            says = (json.dumps(d.get("case", {}).get("forms", {})) + " " + str(d.get("oracle_says"))[:140])
                        except Exception:  # noqa: BLE001
                            pass
                    verdict = ("CAUGHT (replay)" if concrete else "caught (no-failing-input-found only)" if viol else "MISSED")
                    rows.append((m["id"], p, verdict + (f" oracle_failures={ms.group(2)} disagreements={ms.group(1)}" if ms else "")
                                 + f" rc={r.returncode}", says))
        finally:
            run(["git", "-C", str(repo), "checkout", "--", m["file"]])
    for r in rows:
        print(" | ".join(r))
    if args.json:
        Path(args.json).write_text(json.dumps(rows, indent=1))


if __name__ == "__main__":
    main()
