#!/usr/bin/env python3
"""known_findings.jsonl `fixed:` lines name the commit made on a family's fix branch; after cherry-picking into
/repo main the hash changes.  Rewrite each such hash to the commit on /repo main with the same subject."""
import re, subprocess
from pathlib import Path
p = Path(__file__).resolve().parent.parent / "known_findings.jsonl"
def git(*a):
    return subprocess.run(["git", "-C", "/repo", *a], capture_output=True, text=True)
main = {}
for line in git("log", "--format=%h\t%s", "main").stdout.splitlines():
    h, s = line.split("\t", 1); main.setdefault(s, h)
main_hashes = set(main.values())
out = []
for line in p.read_text().splitlines():
    m = re.match(r"^(fixed: property=\S+ )([0-9a-f]{7,40})( .*)$", line)
    if m and not any(h.startswith(m.group(2)) or m.group(2).startswith(h) for h in main_hashes):
        s = git("log", "-1", "--format=%s", m.group(2)).stdout.strip()
        if s in main:
            line = m.group(1) + main[s] + m.group(3) + f" [was {m.group(2)} on the family branch]"
            print("rewrote", m.group(2), "->", main[s], s)
        else:
            print("NO MATCH on main for", m.group(2), s)
    out.append(line)
seen, ded = set(), []
for l in out:
    k = re.sub(r" \[was [0-9a-f]+ on the family branch\]", "", l)
    k = re.sub(r"^(fixed: property=\S+ )[0-9a-f]{7,40} ", r"\1", k)
    if k in seen:
        continue
    seen.add(k); ded.append(l)
p.write_text("\n".join(ded) + "\n")
