#!/bin/sh
# Re-run every registered quick check on the unchanged /repo tree so that the committed evidence files describe such runs.
cd "$(dirname "$0")/.." || exit 2
git -C /repo status --porcelain --untracked-files=no | grep -q . && { echo "/repo is not clean"; exit 2; }
rc=0
for p in $(/venv/bin/python -c "import json; print(' '.join(c['property_id'] for c in json.load(open('MANIFEST.json'))['checks']))"); do
  out=$(VERIF_SEED=${VERIF_SEED:-1} timeout 1800 ./check $p --tier quick 2>&1); r=$?
  echo "$out" | grep "^\[$p\] tier=" | tail -1
  [ $r -ne 0 ] && { echo "!! $p exit $r"; echo "$out" | grep VIOLATION | head -3; rc=1; }
done
exit $rc
