#!/venv/bin/python
"""Record the AST fingerprint of every anchored source file of /repo (or $Y0_REPO) in fingerprints.json.
Run by the integrator after every `fix:` commit in /repo.  The checks compare the working tree with this record
and escalate their search depth when an anchored file changed (harness/common.py changed_anchor_files)."""
import json, sys
from pathlib import Path
sys.path.insert(0, str(Path(__file__).resolve().parent.parent))
from harness import common as C
files = set()
for line in (C.VERIF / "properties.jsonl").read_text().splitlines():
    if line.strip():
        files |= set(json.loads(line)["anchors"]["files"])
rec = {f: C.ast_fingerprint(C.REPO / f) for f in sorted(files)}
C.FINGERPRINTS.write_text(json.dumps(rec, indent=1) + "\n")
print(len(rec), "files fingerprinted from", C.REPO)
