#!/usr/bin/env python3
"""Run the repository's pinned test suite (guard OFF) and compare with /root/.vp/BASELINE.json stable_pass.
usage: baseline.py [repo_dir]   -> exit 0 iff every stable_pass test passes."""
import json, os, subprocess, sys, tempfile, xml.etree.ElementTree as ET
repo = sys.argv[1] if len(sys.argv) > 1 else "/repo"
base = json.load(open("/root/.vp/BASELINE.json"))
want = set(base["stable_pass"])
fd, path = tempfile.mkstemp(suffix=".xml"); os.close(fd)
env = dict(os.environ); env.pop("Y0_VERIF", None)
env["PYTHONPATH"] = os.path.join(repo, "src")
p = subprocess.run(["/venv/bin/python", "-m", "pytest", "-q", "-p", "no:cacheprovider", "--timeout=900", "-n", "8",
                    "--continue-on-collection-errors", f"--junitxml={path}", "tests"], cwd=repo, env=env,
                   capture_output=True, text=True)
passed = set()
for tc in ET.parse(path).getroot().iter("testcase"):
    if not any(ch.tag in ("failure", "error", "skipped") for ch in tc):
        passed.add(f"{tc.get('classname')}::{tc.get('name')}")
os.unlink(path)
missing = sorted(want - passed)
print(f"passed={len(passed)} baseline={len(want)} baseline_missing={len(missing)}")
for m in missing[:40]: print("  MISSING", m)
sys.exit(1 if missing else 0)
