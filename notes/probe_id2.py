import random, itertools as itt, sys, collections
sys.path.insert(0, "/tmp/scratch")
from oracle import *
from y0.algorithm.identify import identify_outcomes
from y0.examples import napkin
def check(nodes, di, bi, g, xs, ys, rng):
    est = identify_outcomes(g, treatments=xs, outcomes=ys)
    if est is None: return "unid", None
    scm = SCM(nodes, di, bi, rng); ev = Ev(scm)
    for vals in itt.product(*[range(2) for _ in nodes]):
        env = dict(zip(nodes, vals))
        got = ev.ev(est, env)
        jd = scm.joint_do({x: env[x] for x in xs})
        want = marg(jd, nodes, {y: env[y] for y in ys})
        if got != want: return "WRONG", est
    return "ok", est
rng = random.Random(5)
nodes = [Z2, Z1, X, Y]; di = [(Z2, Z1), (Z1, X), (X, Y)]; bi = [(Z2, X), (Z2, Y)]
print("napkin", check(nodes, di, bi, napkin, {X}, {Y}, rng))
stats = collections.Counter(); bad = []
for trial in range(1500):
    n = rng.randint(4, 6)
    nodes, di, bi, g = rand_admg(rng, n, pd=0.45, pb=0.35)
    xs = set(rng.sample(nodes, 1)); rest = [v for v in nodes if v not in xs]
    ys = set(rng.sample(rest, 1))
    try:
        r, est = check(nodes, di, bi, g, xs, ys, rng)
    except Exception as e:
        r = "exc:" + type(e).__name__; est = None
    stats[r] += 1
    if r == "WRONG" and len(bad) < 10: bad.append((di, bi, xs, ys, str(est)))
print(stats)
for b in bad: print(b)
