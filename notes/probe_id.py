import random, itertools as itt, sys, collections
sys.path.insert(0, "/tmp/scratch")
from oracle import *
from y0.algorithm.identify import identify_outcomes
rng = random.Random(1)
stats = collections.Counter(); bad = []
for trial in range(400):
    n = rng.randint(2, 5)
    nodes, di, bi, g = rand_admg(rng, n)
    k = rng.randint(1, min(2, n-1)); xs = set(rng.sample(nodes, k))
    rest = [v for v in nodes if v not in xs]
    ys = set(rng.sample(rest, rng.randint(1, min(2, len(rest)))))
    try:
        est = identify_outcomes(g, treatments=xs, outcomes=ys)
    except Exception as e:
        stats["exc:" + type(e).__name__] += 1
        if len(bad) < 40: bad.append(("EXC", type(e).__name__, str(e)[:60], di, bi, xs, ys))
        continue
    if est is None:
        stats["unid"] += 1; continue
    scm = SCM(nodes, di, bi, rng)
    ev = Ev(scm)
    ok = True
    for vals in itt.product(*[range(2) for _ in nodes]):
        env = dict(zip(nodes, vals))
        try:
            got = ev.ev(est, env)
        except Exception as e:
            ok = False; stats["evalexc:" + type(e).__name__] += 1; break
        jd = scm.joint_do({x: env[x] for x in xs})
        want = marg(jd, nodes, {y: env[y] for y in ys})
        if got != want:
            ok = False; break
    stats["ok" if ok else "WRONG"] += 1
    if not ok and len(bad) < 40: bad.append(("WRONG", di, bi, xs, ys, str(est)))
print(stats)
for b in bad[:25]: print(b)
