import Lt.Spec
open Finset

theorem sumVar_comm (card : Name → Nat) (x y : Name) (h : x ≠ y) (f : Val → ℚ) (σ : Val) :
    sumVar card x (sumVar card y f) σ = sumVar card y (sumVar card x f) σ := by
  simp only [sumVar]
  rw [Finset.sum_comm]
  refine Finset.sum_congr rfl fun k _ => Finset.sum_congr rfl fun j _ => ?_
  rw [Function.update_comm h]

theorem sumVar_mul_left (card : Name → Nat) (x : Name) (g f : Val → ℚ) (σ : Val)
    (hg : ∀ τ k, g (Function.update τ x k) = g τ) :
    sumVar card x (fun τ => g τ * f τ) σ = g σ * sumVar card x f σ := by
  simp only [sumVar]
  rw [Finset.mul_sum]
  exact Finset.sum_congr rfl fun k _ => by rw [hg]

/-- one-variable core of the (sink) lemma -/
theorem sink_core (card : Name → Nat) (x : Name) (g k : Val → ℚ) (σ : Val)
    (hg : ∀ τ j, g (Function.update τ x j) = g τ) (hk : ∀ τ, sumVar card x k τ = 1) :
    sumVar card x (fun τ => g τ * k τ) σ = g σ := by
  rw [sumVar_mul_left card x g k σ hg, hk, mul_one]

#print axioms sink_core
