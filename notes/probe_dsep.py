import random, itertools as itt, sys, collections
sys.path.insert(0, "/tmp/scratch")
from oracle import *
import networkx as nx
from y0.algorithm.conditional_independencies import are_d_separated, get_conditional_independencies
from y0.algorithm.separation.sigma_separation import are_sigma_separated
rng = random.Random(2)
stats = collections.Counter(); bad = []; bad2 = []
def latent_dag(nodes, di, bi):
    g = nx.DiGraph(); g.add_nodes_from(nodes); g.add_edges_from(di)
    for i, (a, b) in enumerate(bi):
        g.add_edge(("U", i), a); g.add_edge(("U", i), b)
    return g
for trial in range(300):
    n = rng.randint(2, 5)
    nodes, di, bi, g = rand_admg(rng, n)
    ld = latent_dag(nodes, di, bi)
    for a, b in itt.permutations(nodes, 2):
        rest = [v for v in nodes if v not in (a, b)]
        for r in range(len(rest)+1):
            for c in itt.combinations(rest, r):
                want = nx.is_d_separator(ld, {a}, {b}, set(c))
                got = bool(are_d_separated(g, a, b, conditions=c))
                stats["dsep_ok" if got == want else ("dsep_FALSE_SEP" if got else "dsep_FALSE_CONN")] += 1
                if got != want and len(bad) < 5: bad.append((di, bi, a, b, c, got, want))
                try:
                    sg = are_sigma_separated(g, a, b, conditions=c)
                    stats["sig_ok" if sg == want else ("sig_FALSE_SEP" if sg else "sig_FALSE_CONN")] += 1
                    if sg != want and len(bad2) < 5: bad2.append((di, bi, a, b, c, sg, want))
                except Exception as e:
                    stats["sig_exc:" + type(e).__name__] += 1
print(stats)
for b in bad: print("DSEP", b)
for b in bad2: print("SIGMA", b)
