import random, itertools as itt, sys, collections
from y0.dsl import *
from y0.dsl import Probability, Product, Sum, Fraction, One, Zero, PP
from y0.mutate import canonicalize
from y0.parser import parse_y0
# C11 permutation
a = P(A | B) * P(A | C); b = P(A | C) * P(A | B)
print("perm:", canonicalize(a, [A, B, C]), "|", canonicalize(b, [A, B, C]), canonicalize(a,[A,B,C]) == canonicalize(b,[A,B,C]))
# idempotence with ordering not alphabetical
e = Sum[A](P(A, B, C))
c1 = canonicalize(e, [C, B, A]); c2 = canonicalize(c1, [C, B, A])
print("idem:", c1, "|", c2, c1 == c2)
e = Sum[A](P(A, B) * P(C))
print(canonicalize(e, [A,B,C]))
# fraction
e = Fraction(P(A), Product((P(B), P(C))))
print("print:", str(e)); 
try:
    p = parse_y0(str(e)); print("parsed:", p, p == e)
except Exception as ex: print("parse exc", ex)
for e in [One(), Zero(), Sum[A](One()), P(A)/P(B), P(A)*One(), Fraction(One(), P(A)), Fraction(P(A)*P(B), P(C)), Sum[B](P(A|B)/P(B)) , P(A @ B), P(A @ (B, C) | D @ (B,C)), P(A @ B, C), PP[Pi1](A | B), PP[Pi1][X](A), P(+A | -B), P(A @ +B), P(A @ ~B), Q[A](B, C), Fraction(P(A), Fraction(P(B), P(C))), Product((P(A), Product((P(B), P(C))))), Product((Fraction(P(A), P(B)), P(C)))]:
    s = str(e)
    try:
        p = parse_y0(s); print(repr(s), "->", repr(str(p)), p == e)
    except Exception as ex: print(repr(s), "EXC", type(ex).__name__, ex)
