import random, itertools as itt, sys, collections
sys.path.insert(0, "/tmp/scratch")
from oracle import *
import networkx as nx
from y0.graph import NxMixedGraph, set_latent
from y0.algorithm.simplify_latent import simplify_latent_dag, evans_simplify
from y0.algorithm.conditional_independencies import get_conditional_independencies
from y0.algorithm.counterfactual_transport.ancestor_utils import minimize_counterfactual, get_ancestral_components, get_ancestors_of_counterfactual
g = NxMixedGraph.from_edges(nodes=[A,B,C], directed=[(A,B)], undirected=[(B,C)])
print("remove_in_edges(B):", g.remove_in_edges({B}).nodes(), "expected all A,B,C")
print("remove_out_edges(A):", g.remove_out_edges({A}).nodes())
print("remove_nodes_from(A):", g.remove_nodes_from({A}).nodes())
print("subgraph(A,C):", g.subgraph({A,C}).nodes())
g2 = NxMixedGraph.from_edges(nodes=[A,B,C,D], directed=[(A,B)], undirected=[(B,C)])
rt = NxMixedGraph.from_latent_variable_dag(g2.to_latent_variable_dag())
print("LV roundtrip equal:", rt == g2, rt.nodes(), g2.nodes())
g3 = NxMixedGraph.from_edges(directed=[(A,B)], undirected=[])
print("LV roundtrip no bidirected:", NxMixedGraph.from_latent_variable_dag(g3.to_latent_variable_dag()) == g3)
# evans idempotence nested
d = nx.DiGraph(); d.add_edges_from([(U1, U2), (A, B)]); 
for n in d.nodes: d.nodes[n]["hidden"] = n in (U1, U2)
r1 = simplify_latent_dag(d.copy()).graph
r2 = simplify_latent_dag(r1.copy()).graph
print("evans nested:", sorted(map(str, r1.nodes)), sorted(map(str, r2.nodes)))
d = nx.DiGraph(); d.add_edges_from([(A, U1), (U1, U2), (U2, B), (U2, C), (U1, D)])
for n in d.nodes: d.nodes[n]["hidden"] = n in (U1, U2)
try:
    r1 = simplify_latent_dag(d.copy()).graph
    print("evans nested2:", sorted((str(u), str(v)) for u, v in r1.edges), {str(n): r1.nodes[n] for n in r1.nodes})
    print(NxMixedGraph.from_latent_variable_dag(r1).directed.edges, NxMixedGraph.from_latent_variable_dag(r1).undirected.edges)
except Exception as e: print("EXC", type(e).__name__, e)
# CI max_conditions
g4 = NxMixedGraph.from_edges(directed=[(A,B),(B,C)])
print("CI max=1:", get_conditional_independencies(g4, max_conditions=1), " max=2:", get_conditional_independencies(g4, max_conditions=2), "none:", get_conditional_independencies(g4))
# minimize
g5 = NxMixedGraph.from_edges(directed=[(X,Y)], nodes=[X,Y,Z])
for v in [Y @ -Z, Y @ -X, Y @ (-X, -Z)]:
    try: print("min", v, "->", minimize_counterfactual(v, g5))
    except Exception as e: print("min", v, "EXC", type(e).__name__, e)
g6 = NxMixedGraph.from_edges(directed=[(X,Y)], undirected=[(Z, Y)])
try: print("min", minimize_counterfactual(Y @ -Z, g6))
except Exception as e: print("min EXC", type(e).__name__, e)
# ancestral components with bidirected edges leaving
g7 = NxMixedGraph.from_edges(nodes=[A,B,C,D], directed=[(C, D)], undirected=[(A, C), (B, C)])
print("anc comps:", get_ancestral_components(conditioned_variables=set(), root_variables={A, B}, graph=g7))
