import random, itertools as itt, sys, collections
sys.path.insert(0, "/tmp/scratch")
from oracle import rand_admg
from fscm import *
from y0.algorithm.identify import id_star, Unidentifiable
rng = random.Random(3)
stats = collections.Counter(); bad = []
def rand_event(rng, nodes):
    ev = {}
    for _ in range(rng.randint(1, 3)):
        v = rng.choice(nodes)
        others = [w for w in nodes]
        k = rng.randint(0, 2)
        subs = rng.sample(others, min(k, len(others)))
        iv = [(+s if rng.random() < 0.4 else -s) for s in subs]
        var = v @ iv if iv else v
        ev[var] = (+v if rng.random() < 0.4 else -v)
    return ev
for trial in range(600):
    n = rng.randint(2, 4)
    nodes, di, bi, g = rand_admg(rng, n, pd=0.5, pb=0.3)
    event = rand_event(rng, nodes)
    try:
        est = id_star(g, dict(event))
    except Unidentifiable:
        stats["unid"] += 1; continue
    except Exception as e:
        stats["exc:" + type(e).__name__] += 1
        if len(bad) < 12: bad.append(("EXC", type(e).__name__, str(e)[:50], di, bi, event))
        continue
    m = FSCM(nodes, di, bi, rng)
    sigma = {v: rng.randint(0, 1) for v in nodes}
    items = []
    for var, val in event.items():
        do = {Variable(i.name): val_of(i, sigma) for i in var.interventions} if isinstance(var, CounterfactualVariable) else {}
        items.append((Variable(var.name), do, val_of(val, sigma)))
    want = m.prob_event(items)
    # env: event outcome base variables read with event's values
    env = {}
    for var, val in event.items(): env[Variable(var.name)] = val_of(val, sigma)
    try:
        got = CEv(m).ev(est, env, sigma)
    except ZeroDivisionError:
        stats["zerodiv"] += 1; continue
    except Exception as e:
        stats["evalexc:" + type(e).__name__] += 1; continue
    if got == want: stats["ok" + ("_zero" if isinstance(est, Zero) else "")] += 1
    else:
        stats["WRONG" + ("_zero" if isinstance(est, Zero) else "")] += 1
        if len(bad) < 12: bad.append(("WRONG", di, bi, event, str(est), got, want))
print(stats)
for b in bad: print(b)
