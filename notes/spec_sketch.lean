import Mathlib.Algebra.BigOperators.Ring.Finset
import Mathlib.Algebra.Order.Field.Rat
import Mathlib.Logic.Relation

open Finset

abbrev Name := Nat
abbrev Val := Name → Nat

/-- Mixed graph as the code stores it: insertion-ordered lists. -/
structure MG where
  nodes : List Name
  di : List (Name × Name)
  bi : List (Name × Name)

namespace MG
def DiEdge (G : MG) (u v : Name) : Prop := (u, v) ∈ G.di
def BiEdge (G : MG) (u v : Name) : Prop := (u, v) ∈ G.bi ∨ (v, u) ∈ G.bi
def Anc (G : MG) (S : List Name) (v : Name) : Prop := ∃ s ∈ S, Relation.ReflTransGen G.DiEdge v s
def SameDistrict (G : MG) (u v : Name) : Prop := Relation.EqvGen G.BiEdge u v
def Acyclic (G : MG) : Prop := ∀ v, ¬ Relation.TransGen G.DiEdge v v
def pa (G : MG) (v : Name) : List Name := (G.di.filter (·.2 == v)).map (·.1)
end MG

/-- sum over the values of one variable / a list of variables -/
def sumVar (card : Name → Nat) (x : Name) (f : Val → ℚ) (σ : Val) : ℚ :=
  ∑ k ∈ range (card x), f (Function.update σ x k)
def sumVars (card : Name → Nat) : List Name → (Val → ℚ) → Val → ℚ
  | [], f => f
  | x :: xs, f => sumVar card x (sumVars card xs f)

def DependsOnly (f : Val → ℚ) (S : List Name) : Prop :=
  ∀ σ τ : Val, (∀ v ∈ S, σ v = τ v) → f σ = f τ

/-- Semi-Markovian model compatible with `G`. Latent names are disjoint from `G.nodes`. -/
structure Scm (G : MG) where
  card : Name → Nat
  card_pos : ∀ v, 0 < card v
  lat : List Name
  lat_nodup : lat.Nodup
  lat_fresh : ∀ u ∈ lat, u ∉ G.nodes
  prior : Name → Val → ℚ                -- p_u(σ u)
  prior_dep : ∀ u ∈ lat, DependsOnly (prior u) [u]
  prior_pos : ∀ u ∈ lat, ∀ σ, 0 < prior u σ
  prior_sum : ∀ u ∈ lat, ∀ σ, sumVar card u (prior u) σ = 1
  latOf : Name → List Name              -- latent parents of an observed node
  latOf_sub : ∀ v, ∀ u ∈ latOf v, u ∈ lat
  kern : Name → Val → ℚ                 -- k_v(σ v | σ pa, σ latOf)
  kern_dep : ∀ v ∈ G.nodes, DependsOnly (kern v) (v :: G.pa v ++ latOf v)
  kern_pos : ∀ v ∈ G.nodes, ∀ σ, 0 < kern v σ
  kern_sum : ∀ v ∈ G.nodes, ∀ σ, sumVar card v (kern v) σ = 1
  compat : ∀ v ∈ G.nodes, ∀ w ∈ G.nodes, v ≠ w → (∃ u, u ∈ latOf v ∧ u ∈ latOf w) → G.BiEdge v w

namespace Scm
variable {G : MG} (M : Scm G)
/-- Tian's c-factor of a set of observed variables. -/
def Q (S : List Name) : Val → ℚ :=
  sumVars M.card M.lat (fun σ => (M.lat.map (fun u => M.prior u σ)).prod * (S.map (fun v => M.kern v σ)).prod)
/-- observational joint and interventional distribution (truncated factorisation) -/
def obs : Val → ℚ := M.Q G.nodes
def doProb (X Y : List Name) : Val → ℚ :=
  sumVars M.card (G.nodes.filter (fun v => !X.contains v && !Y.contains v)) (M.Q (G.nodes.filter (fun v => !X.contains v)))
end Scm

/-- a path with chosen edge marks, for m-connection -/
inductive Mark | tail | head deriving DecidableEq
structure Step where
  src : Name
  dst : Name
  atSrc : Mark
  atDst : Mark
def Step.inGraph (G : MG) (s : Step) : Prop :=
  (s.atSrc = .tail ∧ s.atDst = .head ∧ G.DiEdge s.src s.dst) ∨
  (s.atSrc = .head ∧ s.atDst = .tail ∧ G.DiEdge s.dst s.src) ∨
  (s.atSrc = .head ∧ s.atDst = .head ∧ G.BiEdge s.src s.dst)
/-- consecutive steps chain, inner colliders are ancestors of C, inner non-colliders avoid C -/
def OpenChain (G : MG) (C : List Name) : List Step → Prop
  | [] => True
  | [_] => True
  | s :: t :: rest => s.dst = t.src ∧
      (if s.atDst = .head ∧ t.atSrc = .head then G.Anc C s.dst else s.dst ∉ C) ∧ OpenChain G C (t :: rest)
def MConn (G : MG) (a b : Name) (C : List Name) : Prop :=
  ∃ p : List Step, p ≠ [] ∧ (∀ s ∈ p, s.inGraph G) ∧ (p.head?.map (·.src) = some a) ∧
    (p.getLast?.map (·.dst) = some b) ∧ OpenChain G C p

/-- target statement of C01 (shape only; `idModel` and `den` come from the model files) -/
def IdSoundStatement (idModel : MG → List Name → List Name → Option ((G : MG) → Scm G → Val → ℚ)) : Prop :=
  ∀ (G : MG) (X Y : List Name), G.Acyclic → (∀ x ∈ X, x ∉ Y) → Y ≠ [] →
    ∀ e, idModel G X Y = some e → ∀ (M : Scm G) σ, e G M σ = M.doProb X Y σ
