"""Functional SCM with explicit exogenous noise, exact rationals. Binary observed variables."""
import itertools as itt, random
from fractions import Fraction as F
from y0.dsl import *
from y0.dsl import Probability, Product, Sum, Fraction, One, Zero, CounterfactualVariable, Intervention

class FSCM:
    def __init__(self, nodes, di, bi, rng):
        import networkx as nx
        self.nodes = list(nodes)
        g = nx.DiGraph(); g.add_nodes_from(self.nodes); g.add_edges_from(di)
        self.order = list(nx.topological_sort(g))
        self.pa = {v: sorted([u for (u, w) in di if w == v], key=str) for v in self.nodes}
        self.exo = []  # names
        self.lat_of = {v: [] for v in self.nodes}
        for i, (a, b) in enumerate(bi):
            u = ("U", i); self.exo.append(u); self.lat_of[a].append(u); self.lat_of[b].append(u)
        for v in self.nodes:
            e = ("E", v); self.exo.append(e); self.lat_of[v].append(e)
        self.pexo = {}
        for u in self.exo:
            w = [rng.randint(1, 4), rng.randint(1, 4)]; s = sum(w); self.pexo[u] = [F(x, s) for x in w]
        self.f = {}
        for v in self.nodes:
            k = len(self.pa[v]) + len(self.lat_of[v])
            self.f[v] = {key: rng.randint(0, 1) for key in itt.product(range(2), repeat=k)}
        self.exo_space = list(itt.product(range(2), repeat=len(self.exo)))
        self.exo_p = []
        for ev in self.exo_space:
            p = F(1)
            for u, x in zip(self.exo, ev): p *= self.pexo[u][x]
            self.exo_p.append(p)
    def solve(self, exo_vals, do):
        ea = dict(zip(self.exo, exo_vals)); a = {}
        for v in self.order:
            if v in do: a[v] = do[v]
            else:
                key = tuple(a[p] for p in self.pa[v]) + tuple(ea[u] for u in self.lat_of[v])
                a[v] = self.f[v][key]
        return a
    def prob_event(self, items):
        """items: list of (var, do-dict, value). Probability of conjunction across worlds."""
        tot = F(0)
        for ev, p in zip(self.exo_space, self.exo_p):
            cache = {}
            ok = True
            for var, do, val in items:
                k = tuple(sorted((str(x), y) for x, y in do.items()))
                if k not in cache: cache[k] = self.solve(ev, do)
                if cache[k][var] != val: ok = False; break
            if ok: tot += p
        return tot

def val_of(iv, sigma):
    """Intervention/value object -> concrete value; star False = sigma, star True = other."""
    b = sigma[Variable(iv.name)]
    return b if not iv.star else 1 - b

class CEv:
    """Evaluate expressions whose Probability leaves are single-world interventional terms."""
    def __init__(self, m): self.m = m
    def prob(self, e, env, sigma):
        items = []; pitems = []
        def conv(v):
            do = {}
            if isinstance(v, CounterfactualVariable):
                for i in v.interventions: do[Variable(i.name)] = val_of(i, sigma) if Variable(i.name) not in env.get("_bound", ()) else None
            return do
        for coll, tgt in ((e.children, items), (e.parents, pitems)):
            for v in coll:
                do = {}
                if isinstance(v, CounterfactualVariable):
                    for i in v.interventions:
                        ib = Variable(i.name)
                        if ib in env.get("_bound", ()):
                            do[ib] = env[ib] if not i.star else 1 - env[ib]
                        else:
                            do[ib] = val_of(i, sigma)
                base = Variable(v.name)
                if v.star is None: val = env[base] if base in env else sigma[base]
                else: val = val_of(v, sigma)
                tgt.append((base, do, val))
        num = self.m.prob_event(items + pitems)
        if not pitems: return num
        return num / self.m.prob_event(pitems)
    def ev(self, e, env, sigma):
        if isinstance(e, Probability): return self.prob(e, env, sigma)
        if isinstance(e, Product):
            r = F(1)
            for x in e.expressions: r *= self.ev(x, env, sigma)
            return r
        if isinstance(e, Sum):
            rs = sorted(e.ranges, key=str); tot = F(0)
            for vals in itt.product(range(2), repeat=len(rs)):
                env2 = dict(env); env2.update(zip(rs, vals))
                env2["_bound"] = set(env.get("_bound", ())) | set(rs)
                tot += self.ev(e.expression, env2, sigma)
            return tot
        if isinstance(e, Fraction): return self.ev(e.numerator, env, sigma) / self.ev(e.denominator, env, sigma)
        if isinstance(e, One): return F(1)
        if isinstance(e, Zero): return F(0)
        raise TypeError(type(e))
