"""Scratch exact-rational SCM oracle for probing y0 (design-phase experiments only)."""
import itertools as itt, random
from fractions import Fraction as F
from y0.dsl import *
from y0.dsl import Probability, Product, Sum, Fraction, One, Zero, PopulationProbability, CounterfactualVariable
from y0.graph import NxMixedGraph

class SCM:
    def __init__(self, nodes, di, bi, rng, card=2, extra_latents=()):
        self.nodes = list(nodes)
        self.card = {v: card for v in self.nodes}
        self.pa = {v: sorted([u for (u, w) in di if w == v], key=str) for v in self.nodes}
        self.latents = []
        self.lat_of = {v: [] for v in self.nodes}
        for i, (a, b) in enumerate(bi):
            u = ("U", i)
            self.latents.append(u)
            self.lat_of[a].append(u); self.lat_of[b].append(u)
        self.lcard = {u: 2 for u in self.latents}
        self.pu = {}
        for u in self.latents:
            w = [rng.randint(1, 5) for _ in range(self.lcard[u])]
            s = sum(w); self.pu[u] = [F(x, s) for x in w]
        self.kern = {}
        for v in self.nodes:
            doms = [range(self.card[p]) for p in self.pa[v]] + [range(self.lcard[u]) for u in self.lat_of[v]]
            for key in itt.product(*doms):
                w = [rng.randint(1, 6) for _ in range(self.card[v])]
                s = sum(w); self.kern[(v, key)] = [F(x, s) for x in w]
        self.order = None
    def topo(self):
        import networkx as nx
        g = nx.DiGraph(); g.add_nodes_from(self.nodes)
        for v in self.nodes:
            for p in self.pa[v]: g.add_edge(p, v)
        return list(nx.topological_sort(g))
    def joint_do(self, do):  # returns dict assignment(tuple over self.nodes order) -> prob, under do(dict)
        res = {}
        ldoms = [range(self.lcard[u]) for u in self.latents]
        vdoms = [range(self.card[v]) for v in self.nodes]
        for vals in itt.product(*vdoms):
            a = dict(zip(self.nodes, vals))
            if any(a[x] != xv for x, xv in do.items()):
                res[vals] = F(0); continue
            tot = F(0)
            for lv in itt.product(*ldoms):
                la = dict(zip(self.latents, lv))
                p = F(1)
                for u in self.latents: p *= self.pu[u][la[u]]
                for v in self.nodes:
                    if v in do: continue
                    key = tuple(a[q] for q in self.pa[v]) + tuple(la[u] for u in self.lat_of[v])
                    p *= self.kern[(v, key)][a[v]]
                tot += p
            res[vals] = tot
        return res

def marg(joint, nodes, assign):
    """P(assign) for partial assignment dict var->val."""
    idx = {v: i for i, v in enumerate(nodes)}
    items = [(idx[v], val) for v, val in assign.items()]
    return sum(p for vals, p in joint.items() if all(vals[i] == val for i, val in items))

class Ev:
    def __init__(self, scm, joint=None, pops=None):
        self.scm = scm; self.nodes = scm.nodes
        self.joint = joint if joint is not None else scm.joint_do({})
        self.pops = pops or {}
        self.do_cache = {}
    def prob(self, e, env):
        ch = {}; pa = {}
        dos = None
        for coll, tgt in ((e.children, ch), (e.parents, pa)):
            for v in coll:
                if isinstance(v, CounterfactualVariable):
                    d = frozenset(i.get_base() for i in v.interventions)
                else:
                    d = frozenset()
                if dos is None: dos = d
                elif dos != d: raise ValueError("mixed worlds")
                tgt[v.get_base()] = env[v.get_base()]
        if dos:
            key = tuple(sorted((str(x), env[x]) for x in dos))
            if key not in self.do_cache:
                self.do_cache[key] = self.scm.joint_do({x: env[x] for x in dos})
            joint = self.do_cache[key]
        else:
            joint = self.joint
        num = marg(joint, self.nodes, {**ch, **pa})
        if not pa: return num
        den = marg(joint, self.nodes, pa)
        return num / den
    def ev(self, e, env):
        if isinstance(e, Probability): return self.prob(e, env)
        if isinstance(e, Product):
            r = F(1)
            for x in e.expressions: r *= self.ev(x, env)
            return r
        if isinstance(e, Sum):
            rs = sorted(e.ranges, key=str)
            tot = F(0)
            for vals in itt.product(*[range(self.scm.card[r]) for r in rs]):
                env2 = dict(env); env2.update(zip(rs, vals))
                tot += self.ev(e.expression, env2)
            return tot
        if isinstance(e, Fraction): return self.ev(e.numerator, env) / self.ev(e.denominator, env)
        if isinstance(e, One): return F(1)
        if isinstance(e, Zero): return F(0)
        raise TypeError(type(e))

def rand_admg(rng, n, pd=0.4, pb=0.3, names="ABCDEFGH"):
    nodes = [Variable(names[i]) for i in range(n)]
    perm = nodes[:]; rng.shuffle(perm)
    di = [(perm[i], perm[j]) for i in range(n) for j in range(i+1, n) if rng.random() < pd]
    bi = [(perm[i], perm[j]) for i in range(n) for j in range(i+1, n) if rng.random() < pb]
    ins = nodes[:]; rng.shuffle(ins)
    rng.shuffle(di); rng.shuffle(bi)
    return nodes, di, bi, NxMixedGraph.from_edges(nodes=ins, directed=di, undirected=bi)
