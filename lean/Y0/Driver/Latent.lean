/- line-protocol handlers of the "latent" family (C16): LV-DAG conversion and Evans simplification -/
import Y0.Model.Graph
import Y0.Model.Latent
import Y0.Driver.Graph

namespace Y0.Driver
open Y0 Sexp

/-- `(lv (nodes…) ((u v)…) (latent…) (untagged…))`; node and edge lists are taken in insertion order,
repeated entries are ignored the way `add_node` / `add_edge` ignore them -/
def parseLV : Sexp → Option LV
  | .list [.atom "lv", ns, es, ls, us] => do
      let ns ← asNats? ns
      let es ← asPairs? es
      let ls ← asNats? ls
      let us ← asNats? us
      let ns := dedup' (ns ++ es.flatMap (fun e => [e.1, e.2]))
      pure { nodes := ns, edges := dedup' es, latent := dedup' (ls.filter (· ∈ ns)),
             untagged := dedup' (us.filter (fun n => n ∈ ns ∧ n ∉ ls)) }
  | _ => none

def lvToSexp (D : LV) : Sexp :=
  tagged "lv" [ofNats D.nodes, pairsToSexp D.edges, ofNats D.latent, ofNats D.untagged]

/-- naming table sent by the harness: the i-th entry is the name of `u_i` -/
def freshOf (tbl : List Nat) (i : Nat) : Nat :=
  match tbl[i]? with
  | some n => n
  | none => 1000000 + i

/-- naming table sent by the harness: `(v v')` pairs, `v'` the name of `v_prime` -/
def primeOf (tbl : List (Nat × Nat)) (v : Nat) : Nat :=
  match tbl.lookup v with
  | some n => n
  | none => 2000000 + v

def resultsToSexp (r : LV.SimplifyResults) : Sexp :=
  .list [lvToSexp r.graph, ofNats r.widows, ofNats r.unidirectional, ofNats r.redundant]

def handleLatent (op : String) (args : List Sexp) : Option Sexp := do
  match op, args with
  | "to_lv", [g, fr] =>
      pure (tagged "ok" [lvToSexp (LV.ofMG (freshOf (← asNats? fr)) (← parseGraph g))])
  | "from_lv", [d] => pure (exceptToSexp graphToSexp (← parseLV d).toMG?)
  | "roundtrip", [g, fr] =>
      let D := LV.ofMG (freshOf (← asNats? fr)) (← parseGraph g)
      pure (exceptToSexp (fun G => .list [lvToSexp D, graphToSexp G]) D.toMG?)
  | "simplify", [d, pr] =>
      pure (exceptToSexp resultsToSexp ((← parseLV d).simplify (primeOf (← asPairs? pr))))
  | "transform", [d, pr] =>
      pure (exceptToSexp lvToSexp ((← parseLV d).transformLatentsWithParents (primeOf (← asPairs? pr))))
  | "widows", [d] => pure (exceptToSexp (fun r => lvToSexp r.1) (← parseLV d).removeWidowLatents)
  | "unidirectional", [d] => pure (exceptToSexp (fun r => lvToSexp r.1) (← parseLV d).removeUnidirectionalLatents)
  | "redundant", [d] => pure (exceptToSexp (fun r => lvToSexp r.1) (← parseLV d).removeRedundantLatents)
  | "evans", [g, ex, fr, pr] =>
      pure (exceptToSexp graphToSexp
        (LV.evansSimplify (freshOf (← asNats? fr)) (primeOf (← asPairs? pr)) (← parseGraph g) (← asNats? ex)))
  | "design", [d, pr, c, e] =>
      -- ID's verdict does not depend on the topological order (`id_verdict_equiv_congr`): the model of
      -- `nx.topological_sort` is used
      pure (exceptToSexp (fun r => .list [.atom (if r.identifiable then "true" else "false"), nat r.preNodes,
          nat r.preEdges, nat r.postNodes, nat r.postEdges])
        ((← parseLV d).getResult (primeOf (← asPairs? pr)) (fun G => G.topologicalSort) (← asNat? c) (← asNat? e)))
  | _, _ => none

end Y0.Driver
