/- line-protocol handlers of the "latent" family (stub: filled in by the family's model) -/
import Y0.Model.Graph
import Y0.Model.Expr
import Y0.Driver.Graph

namespace Y0.Driver
open Y0 Sexp

def handleLatent (op : String) (args : List Sexp) : Option Sexp :=
  match op, args with
  | _, _ => none

end Y0.Driver
