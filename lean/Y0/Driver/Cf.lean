/- line-protocol handlers of the "cf" family: counterfactual graph (C18), ID* (C07), IDC* (C08) -/
import Y0.Model.Graph
import Y0.Model.Expr
import Y0.Model.Cg
import Y0.Model.IdStar
import Y0.Model.IdcStar
import Y0.Driver.Graph

namespace Y0.Driver
open Y0 Sexp Y0.Cf

/-- `(var value)` with value `m` | `p` (the key's own name) or `(name m|p)` -/
def eventItemOf? : Sexp → Option (Var × Iv)
  | .list [v, .atom "m"] => do let v ← Codec.varOf? v; pure (v, ⟨v.name, false⟩)
  | .list [v, .atom "p"] => do let v ← Codec.varOf? v; pure (v, ⟨v.name, true⟩)
  | .list [v, iv] => do pure (← Codec.varOf? v, ← Codec.ivOf? iv)
  | _ => none

def eventOf? : Sexp → Option Event
  | .list xs => do pure (Event.ofList (← xs.mapM eventItemOf?))
  | _ => none

def eventItemToSexp (p : Var × Iv) : Sexp :=
  if p.2.name = p.1.name then .list [Codec.varToSexp p.1, .atom (if p.2.star then "p" else "m")]
  else .list [Codec.varToSexp p.1, Codec.ivToSexp p.2]

def eventToSexp (ev : Event) : Sexp := .list (ev.map eventItemToSexp)

def cfGraphToSexp (G : MG Var) : Sexp :=
  tagged "cfgraph" [.list (G.nodes.map Codec.varToSexp),
    .list (G.di.map fun e => .list [Codec.varToSexp e.1, Codec.varToSexp e.2]),
    .list (G.bi.map fun e => .list [Codec.varToSexp e.1, Codec.varToSexp e.2])]

def boolOf? : Sexp → Option Bool
  | .atom "1" => some true
  | .atom "true" => some true
  | .atom "0" => some false
  | .atom "false" => some false
  | _ => none

def cgResultToSexp : Except Err (MG Var × Option Event) → Sexp
  | .ok (_, none) => tagged "ok" [.atom "inconsistent"]
  | .ok (g, some ev) => tagged "ok" [cfGraphToSexp g, eventToSexp ev]
  | .error e => e.toSexp

def handleCf (op : String) (args : List Sexp) : Option Sexp := do
  match op, args with
  | "make_cg", [g, ev, rev, rot] =>
      pure (cgResultToSexp (makeCounterfactualGraph (orderWorlds (← boolOf? rev) (← asNat? rot)) (← parseGraph g) (← eventOf? ev)))
  | "make_cg_all", [g, ev, .list strategies] => do
      let G ← parseGraph g
      let e ← eventOf? ev
      let rs ← strategies.mapM fun s => match s with
        | .list [rev, rot] => do
            pure (cgResultToSexp (makeCounterfactualGraph (orderWorlds (← boolOf? rev) (← asNat? rot)) G e))
        | _ => none
      pure (tagged "ok" rs)
  | "id_star_all", [g, ev, .list strategies] => do
      let G ← parseGraph g
      let e ← eventOf? ev
      let rs ← strategies.mapM fun s => match s with
        | .list [rev, rot, drev] => do
            pure (exceptToSexp Codec.exprToSexp
              (idStar (orderWorlds (← boolOf? rev) (← asNat? rot)) (orderDistrict (← boolOf? drev)) G e))
        | _ => none
      pure (tagged "ok" rs)
  | "idc_star_all", [g, outs, conds, .list strategies] => do
      let G ← parseGraph g
      let o ← eventOf? outs
      let c ← eventOf? conds
      let rs ← strategies.mapM fun s => match s with
        | .list [rev, rot, drev] => do
            let d ← boolOf? drev
            pure (exceptToSexp Codec.exprToSexp
              (idcStar (orderWorlds (← boolOf? rev) (← asNat? rot)) (orderDistrict d) (orderDistrict d) G o c))
        | _ => none
      pure (tagged "ok" rs)
  | "pw_graph", [g, ev] =>
      pure (tagged "ok" [cfGraphToSexp (makeParallelWorldsGraph (← parseGraph g)
        (sortWorlds (extractInterventions (← eventOf? ev).keys)))])
  | _, _ => none

end Y0.Driver
