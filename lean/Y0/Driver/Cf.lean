/- line-protocol handlers of the "cf" family: counterfactual graph (C18), ID* (C07), IDC* (C08) -/
import Y0.Model.Graph
import Y0.Model.Expr
import Y0.Model.Cg
import Y0.Model.IdStar
import Y0.Model.IdcStar
import Y0.Spec.Fscm
import Y0.Driver.Graph

namespace Y0.Driver
open Y0 Sexp Y0.Cf

/-- `(var value)` with value `m` | `p` (the key's own name) or `(name m|p)` -/
def eventItemOf? : Sexp → Option (Var × Iv)
  | .list [v, .atom "m"] => do let v ← Codec.varOf? v; pure (v, ⟨v.name, false⟩)
  | .list [v, .atom "p"] => do let v ← Codec.varOf? v; pure (v, ⟨v.name, true⟩)
  | .list [v, iv] => do pure (← Codec.varOf? v, ← Codec.ivOf? iv)
  | _ => none

def eventOf? : Sexp → Option Event
  | .list xs => do pure (Event.ofList (← xs.mapM eventItemOf?))
  | _ => none

def eventItemToSexp (p : Var × Iv) : Sexp :=
  if p.2.name = p.1.name then .list [Codec.varToSexp p.1, .atom (if p.2.star then "p" else "m")]
  else .list [Codec.varToSexp p.1, Codec.ivToSexp p.2]

def eventToSexp (ev : Event) : Sexp := .list (ev.map eventItemToSexp)

def cfGraphToSexp (G : MG Var) : Sexp :=
  tagged "cfgraph" [.list (G.nodes.map Codec.varToSexp),
    .list (G.di.map fun e => .list [Codec.varToSexp e.1, Codec.varToSexp e.2]),
    .list (G.bi.map fun e => .list [Codec.varToSexp e.1, Codec.varToSexp e.2])]

def boolOf? : Sexp → Option Bool
  | .atom "1" => some true
  | .atom "true" => some true
  | .atom "0" => some false
  | .atom "false" => some false
  | _ => none

def cgResultToSexp : Except Err (MG Var × Option Event) → Sexp
  | .ok (_, none) => tagged "ok" [.atom "inconsistent"]
  | .ok (g, some ev) => tagged "ok" [cfGraphToSexp g, eventToSexp ev]
  | .error e => e.toSexp

/-! ### `fscm_prob`: evaluate the SPECIFICATION (Y0/Spec/Fscm.lean) on an explicit model sent by the harness, so that the
Python oracle (harness/oracles/cf_fscm.py) and the Lean definition of "probability of a counterfactual event" are compared
on every run.  Model encoding:
`(model (order…) ((pmf as (num den)…)…) ((v (pa…) (lat…) ((key… value)…))…))`, base values `((v x x')…)`. -/

def cfRatOf? : Sexp → Option Rat
  | .list [n, d] => do pure ((Int.ofNat (← asNat? n) : Rat) / (Int.ofNat (← asNat? d) : Rat))
  | _ => none

structure MechRow where
  v : Nat
  pa : List Nat
  lat : List Nat
  table : List (List Nat × Nat)

def mechOf? : Sexp → Option MechRow
  | .list [v, pa, lat, .list rows] => do
      let rows ← rows.mapM fun r => match r with
        | .list [k, x] => do pure (← asNats? k, ← asNat? x)
        | _ => none
      pure { v := ← asNat? v, pa := ← asNats? pa, lat := ← asNats? lat, table := rows }
  | _ => none

def modelOf? : Sexp → Option Fscm.Model
  | .list [.atom "model", order, .list pmfs, .list mechs] => do
      let order ← asNats? order
      let pmfs ← pmfs.mapM fun p => match p with
        | .list xs => xs.mapM cfRatOf?
        | _ => none
      let ms ← mechs.mapM mechOf?
      let find (v : Nat) : Option MechRow := ms.find? (fun m => m.v == v)
      pure { order := order, noise := pmfs,
             pa := fun v => match find v with | some m => m.pa | none => [],
             lat := fun v => match find v with | some m => m.lat | none => [],
             f := fun v ps us => match find v with
               | some m => match m.table.find? (fun r => r.1 == ps ++ us) with
                 | some r => r.2
                 | none => 0
               | none => 0 }
  | _ => none

def baseValuesOf? : Sexp → Option Fscm.BaseValues
  | .list rows => do
      let rows ← rows.mapM fun r => match r with
        | .list [v, x, x'] => do pure (← asNat? v, ← asNat? x, ← asNat? x')
        | _ => none
      pure fun n b => match rows.find? (fun r => r.1 == n) with
        | some r => if b then r.2.2 else r.2.1
        | none => 0
  | _ => none

def handleCf (op : String) (args : List Sexp) : Option Sexp := do
  match op, args with
  | "make_cg", [g, ev, rev, rot] =>
      pure (cgResultToSexp (makeCounterfactualGraph (orderWorlds (← boolOf? rev) (← asNat? rot)) (← parseGraph g) (← eventOf? ev)))
  | "make_cg_all", [g, ev, .list strategies] => do
      let G ← parseGraph g
      let e ← eventOf? ev
      let rs ← strategies.mapM fun s => match s with
        | .list [rev, rot] => do
            pure (cgResultToSexp (makeCounterfactualGraph (orderWorlds (← boolOf? rev) (← asNat? rot)) G e))
        | _ => none
      pure (tagged "ok" rs)
  | "id_star_all", [g, ev, .list strategies] => do
      let G ← parseGraph g
      let e ← eventOf? ev
      let rs ← strategies.mapM fun s => match s with
        | .list [rev, rot, drev] => do
            pure (exceptToSexp Codec.exprToSexp
              (idStar (orderWorlds (← boolOf? rev) (← asNat? rot)) (orderDistrict (← boolOf? drev)) G e))
        | _ => none
      pure (tagged "ok" rs)
  | "id_star_all_frag", [g, ev, .list strategies] => do
      -- as `id_star_all`, preceded by the membership of the event in the fragments of Props/C07.lean
      -- (fragment 1, fragment 2, single-world, fragment 2R, fragment 3): the harness compares them with its own membership tests
      let G ← parseGraph g
      let e ← eventOf? ev
      let rs ← strategies.mapM fun s => match s with
        | .list [rev, rot, drev] => do
            pure (exceptToSexp Codec.exprToSexp
              (idStar (orderWorlds (← boolOf? rev) (← asNat? rot)) (orderDistrict (← boolOf? drev)) G e))
        | _ => none
      let b (x : Bool) : Sexp := .atom (if x then "1" else "0")
      pure (tagged "ok" (tagged "frag" [b (!e.isEmpty && inFragmentB G e), b (!e.isEmpty && inFragment2B sortWorlds G e),
        b (!e.isEmpty && oneWorldB G e), b (!e.isEmpty && inFragment2RB sortWorlds G e),
        b (!e.isEmpty && inFragment3B sortWorlds G e)] :: rs))
  | "idc_star_all", [g, outs, conds, .list strategies] => do
      let G ← parseGraph g
      let o ← eventOf? outs
      let c ← eventOf? conds
      let rs ← strategies.mapM fun s => match s with
        | .list [rev, rot, drev] => do
            let d ← boolOf? drev
            pure (exceptToSexp Codec.exprToSexp
              (idcStar (orderWorlds (← boolOf? rev) (← asNat? rot)) (orderDistrict d) (orderDistrict false) G o c))
        | _ => none
      pure (tagged "ok" rs)
  | "idc_star_checked", [g, outs, conds, .list strategies] => do
      -- as `idc_star_all`, preceded by the model's own verdict on the two fragments of Props/C08.lean
      -- (`inFragmentCB`, `inFragmentXB`: canonical orders; they are about factual queries, where no order matters)
      let G ← parseGraph g
      let o ← eventOf? outs
      let c ← eventOf? conds
      let rs ← strategies.mapM fun s => match s with
        | .list [rev, rot, drev] => do
            let d ← boolOf? drev
            pure (exceptToSexp Codec.exprToSexp
              (idcStar (orderWorlds (← boolOf? rev) (← asNat? rot)) (orderDistrict d) (orderDistrict false) G o c))
        | _ => none
      let b := fun (x : Bool) => Sexp.atom (if x then "1" else "0")
      pure (tagged "ok" (.list [.atom "frag", b (inFragmentCB sortWorlds (orderDistrict false) G o c),
        b (inFragmentXB sortWorlds G o c), b (disjointNamesB o c || idcInvB G o c)] :: rs))
  | "idc_star_trace", [g, outs, conds, rev, rot, drev, fuel] => do
      -- termination search: sizes (|outcomes|, |conditions|) of every level of the line-4 recursion
      let G ← parseGraph g
      let o ← eventOf? outs
      let c ← eventOf? conds
      let dr ← boolOf? drev
      let r := idcStarTrace (orderWorlds (← boolOf? rev) (← asNat? rot)) (orderDistrict dr) (orderDistrict dr) G (← asNat? fuel) o c
      pure (tagged "ok" [.atom (if r.2 then "1" else "0"),
        .list (r.1.map fun p => .list (p.map fun n => .atom (toString n)))])
  | "fscm_prob", [m, nu, ev] => do
      let r := Fscm.probEvent (← modelOf? m) (← baseValuesOf? nu) (← eventOf? ev)
      pure (tagged "ok" [.atom (toString r.num), .atom (toString r.den)])
  | "pw_graph", [g, ev] =>
      pure (tagged "ok" [cfGraphToSexp (makeParallelWorldsGraph (← parseGraph g)
        (sortWorlds (extractInterventions (← eventOf? ev).keys)))])
  | _, _ => none

end Y0.Driver
