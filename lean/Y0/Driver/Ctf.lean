/- line-protocol handlers of the "ctf" family (property C19): counterfactual minimisation, SIMPLIFY, counterfactual
ancestors, ancestral components, ctf-factor form and factorisation -/
import Y0.Model.Ctf
import Y0.Model.CtfSimplify
import Y0.Model.CtfFactor
import Y0.Driver.Graph
import Y0.Spec.CtfSem

namespace Y0.Driver
open Y0 Y0.Ctf Sexp

namespace CtfIO

/-- a `CounterfactualVariable` is never an `Intervention`: normalise the flag so that structural equality is `==` -/
def varOf? (s : Sexp) : Option Var := do
  let v ← Codec.varOf? s
  pure (if v.ivs.isEmpty then v else { v with isIv := false })

def varsOf? : Sexp → Option (List Var)
  | .list xs => xs.mapM varOf?
  | _ => none

def valOf? : Sexp → Option Val
  | .atom "n" => some none
  | s => do pure (some (← Codec.ivOf? s))

def valToSexp : Val → Sexp
  | none => .atom "n"
  | some i => Codec.ivToSexp i

def itemOf? : Sexp → Option (Var × Val)
  | .list [v, x] => do pure (← varOf? v, ← valOf? x)
  | _ => none

def eventOf? : Sexp → Option Event
  | .list xs => xs.mapM itemOf?
  | _ => none

def setsOf? : Sexp → Option (List (List Var))
  | .list xs => xs.mapM varsOf?
  | _ => none

def itemToSexp (p : Var × Val) : Sexp := .list [Codec.varToSexp p.1, valToSexp p.2]
def eventToSexp (e : Event) : Sexp := .list (e.map itemToSexp)
def varsToSexp (vs : List Var) : Sexp := .list (vs.map Codec.varToSexp)
def setsToSexp (ss : List (List Var)) : Sexp := .list (ss.map varsToSexp)
def boolToSexp (b : Bool) : Sexp := .atom (if b then "true" else "false")

def optEventToSexp : Option Event → Sexp
  | none => .atom "none"
  | some e => tagged "some" [eventToSexp e]

/-! ### transfer of a functional SCM (spec cross-check `sem_values`): the harness sends the model it evaluates with its
own exact evaluator, the driver evaluates `probEventOpt` and `factorisedValue` of Y0/Spec/CtfSem.lean on it -/

def natListOf? : Sexp → Option (List Nat) := asNats?

/-- `(v (pa…) (lat…) (((args…) val) …))` -/
def mechOf? : Sexp → Option (Nat × List Nat × List Nat × List (List Nat × Nat))
  | .list [v, pa, lat, .list rows] => do
      let rows ← rows.mapM (fun r => match r with
        | .list [k, x] => do pure (← asNats? k, ← asNat? x)
        | _ => none)
      pure (← asNat? v, ← asNats? pa, ← asNats? lat, rows)
  | _ => none

/-- `(model (order…) ((w…)…) (mech…))`: exogenous variable `j` takes the value `x` with probability `w_j[x] / Σ w_j` -/
def modelOf? : Sexp → Option Fscm.Model
  | .list [.atom "model", order, .list noise, .list mechs] => do
      let order ← asNats? order
      let ws ← noise.mapM asNats?
      let ms ← mechs.mapM mechOf?
      let find := fun (v : Nat) => ms.find? (fun m => m.1 == v)
      pure {
        order := order
        noise := ws.map (fun w => let tot := w.foldl (· + ·) 0; w.map (fun x => mkRat (Int.ofNat x) tot))
        pa := fun v => match find v with | some m => m.2.1 | none => []
        lat := fun v => match find v with | some m => m.2.2.1 | none => []
        f := fun v pa lat => match find v with
          | some m => match m.2.2.2.find? (fun r => r.1 == pa ++ lat) with
            | some r => r.2
            | none => 0
          | none => 0 }
  | _ => none

/-- `((n v0 v1) …)`: the reading of `-n` and `+n` -/
def nuOf? : Sexp → Option Fscm.BaseValues
  | .list rows => do
      let rows ← rows.mapM (fun r => match r with
        | .list [n, a, b] => do pure (← asNat? n, ← asNat? a, ← asNat? b)
        | _ => none)
      pure (fun n st => match rows.find? (fun r => r.1 == n) with
        | some r => if st then r.2.2 else r.2.1
        | none => 0)
  | _ => none

def cardOf? : Sexp → Option (Nat → Nat)
  | .list rows => do
      let rows ← rows.mapM asPair?
      pure (fun n => match rows.find? (fun r => r.1 == n) with | some r => r.2 | none => 0)
  | _ => none

def ratToSexp (q : Rat) : Sexp := .list [.atom (toString q.num), .atom (toString q.den)]

end CtfIO
open CtfIO

def handleCtf (op : String) (args : List Sexp) : Option Sexp := do
  match op, args with
  | "minimize", [g, v] =>
      pure (exceptToSexp Codec.varToSexp (minimize (← parseGraph g) (← varOf? v)))
  | "minimize_event", [g, e] =>
      pure (exceptToSexp eventToSexp (minimizeEvent (← parseGraph g) (← eventOf? e)))
  | "simplify", [g, e] =>
      pure (exceptToSexp optEventToSexp (simplify (← parseGraph g) (← eventOf? e)))
  | "ancestors", [g, v] =>
      pure (exceptToSexp varsToSexp (ctfAncestors (← parseGraph g) (← varOf? v)))
  | "ancestral_set_after", [g, c, r] =>
      pure (exceptToSexp varsToSexp (ancestralSetAfter (← parseGraph g) (← varsOf? c) (← varOf? r)))
  | "cond_in_ancestral_set", [g, c, r] =>
      pure (exceptToSexp ofNats (condInAncestralSet (← parseGraph g) (← varsOf? c) (← varOf? r)))
  | "merge_common", [_, ss] =>
      pure (tagged "ok" [setsToSexp (mergeCommon (← setsOf? ss))])
  | "merge_bidirected", [g, ss] =>
      pure (tagged "ok" [setsToSexp (mergeBidirected (← parseGraph g) (← setsOf? ss))])
  | "components_from_sets", [g, ss] =>
      pure (tagged "ok" [setsToSexp (componentsFromSets (← parseGraph g) (← setsOf? ss))])
  | "ancestral_components", [g, c, r] =>
      pure (exceptToSexp setsToSexp (ancestralComponents (← parseGraph g) (← varsOf? c) (← varsOf? r)))
  | "is_factor_form", [g, vs] =>
      pure (exceptToSexp boolToSexp (isCtfFactorForm (← parseGraph g) (dedup' (← varsOf? vs))))
  | "factors", [g, vs] =>
      pure (exceptToSexp setsToSexp (ctfFactors (← parseGraph g) (← varsOf? vs)))
  | "factors_values", [g, e] =>
      pure (exceptToSexp (fun fs => .list (fs.map eventToSexp)) (ctfFactorsValues (← parseGraph g) (← eventOf? e)))
  | "convert", [g, e] =>
      pure (exceptToSexp eventToSexp (convertEvent (← parseGraph g) (← eventOf? e)))
  | "factorize", [g, e] =>
      pure (exceptToSexp (fun r => .list [Codec.exprToSexp r.1, eventToSexp r.2])
        (factorize (← parseGraph g) (← eventOf? e)))
  | "factorize_classes", [g, e] =>
      let ev ← eventOf? e
      pure (exceptToSexp (fun r => .list [boolToSexp r.1, boolToSexp r.2.1, boolToSexp r.2.2, boolToSexp (readableQuery ev)])
        (factorizeClasses (← parseGraph g) ev))
  | "sem_values", [g, e, m, nu, card] =>
      let gr ← parseGraph g
      let ev ← eventOf? e
      let M ← modelOf? m
      let ν ← nuOf? nu
      let c ← cardOf? card
      pure (exceptToSexp (fun r => .list [ratToSexp (probEventOpt M ν ev), ratToSexp (factorisedValue M ν c r.1 r.2)])
        (factorize gr ev))
  | "simplify_factorize", [g, e] =>
      let gr ← parseGraph g
      let ev ← eventOf? e
      let r : Except Err Sexp := do
        match ← simplify gr ev with
        | none => pure (.atom "none")
        | some s =>
          let f ← factorize gr s
          pure (tagged "some" [eventToSexp s, .list [Codec.exprToSexp f.1, eventToSexp f.2]])
      pure (exceptToSexp id r)
  | _, _ => none

end Y0.Driver
