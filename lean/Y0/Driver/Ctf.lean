/- line-protocol handlers of the "ctf" family (property C19): counterfactual minimisation, SIMPLIFY, counterfactual
ancestors, ancestral components, ctf-factor form and factorisation -/
import Y0.Model.Ctf
import Y0.Model.CtfSimplify
import Y0.Model.CtfFactor
import Y0.Driver.Graph

namespace Y0.Driver
open Y0 Y0.Ctf Sexp

namespace CtfIO

/-- a `CounterfactualVariable` is never an `Intervention`: normalise the flag so that structural equality is `==` -/
def varOf? (s : Sexp) : Option Var := do
  let v ← Codec.varOf? s
  pure (if v.ivs.isEmpty then v else { v with isIv := false })

def varsOf? : Sexp → Option (List Var)
  | .list xs => xs.mapM varOf?
  | _ => none

def valOf? : Sexp → Option Val
  | .atom "n" => some none
  | s => do pure (some (← Codec.ivOf? s))

def valToSexp : Val → Sexp
  | none => .atom "n"
  | some i => Codec.ivToSexp i

def itemOf? : Sexp → Option (Var × Val)
  | .list [v, x] => do pure (← varOf? v, ← valOf? x)
  | _ => none

def eventOf? : Sexp → Option Event
  | .list xs => xs.mapM itemOf?
  | _ => none

def setsOf? : Sexp → Option (List (List Var))
  | .list xs => xs.mapM varsOf?
  | _ => none

def itemToSexp (p : Var × Val) : Sexp := .list [Codec.varToSexp p.1, valToSexp p.2]
def eventToSexp (e : Event) : Sexp := .list (e.map itemToSexp)
def varsToSexp (vs : List Var) : Sexp := .list (vs.map Codec.varToSexp)
def setsToSexp (ss : List (List Var)) : Sexp := .list (ss.map varsToSexp)
def boolToSexp (b : Bool) : Sexp := .atom (if b then "true" else "false")

def optEventToSexp : Option Event → Sexp
  | none => .atom "none"
  | some e => tagged "some" [eventToSexp e]

end CtfIO
open CtfIO

def handleCtf (op : String) (args : List Sexp) : Option Sexp := do
  match op, args with
  | "minimize", [g, v] =>
      pure (exceptToSexp Codec.varToSexp (minimize (← parseGraph g) (← varOf? v)))
  | "minimize_event", [g, e] =>
      pure (exceptToSexp eventToSexp (minimizeEvent (← parseGraph g) (← eventOf? e)))
  | "simplify", [g, e] =>
      pure (exceptToSexp optEventToSexp (simplify (← parseGraph g) (← eventOf? e)))
  | "ancestors", [g, v] =>
      pure (exceptToSexp varsToSexp (ctfAncestors (← parseGraph g) (← varOf? v)))
  | "ancestral_set_after", [g, c, r] =>
      pure (exceptToSexp varsToSexp (ancestralSetAfter (← parseGraph g) (← varsOf? c) (← varOf? r)))
  | "cond_in_ancestral_set", [g, c, r] =>
      pure (exceptToSexp ofNats (condInAncestralSet (← parseGraph g) (← varsOf? c) (← varOf? r)))
  | "merge_common", [_, ss] =>
      pure (tagged "ok" [setsToSexp (mergeCommon (← setsOf? ss))])
  | "merge_bidirected", [g, ss] =>
      pure (tagged "ok" [setsToSexp (mergeBidirected (← parseGraph g) (← setsOf? ss))])
  | "components_from_sets", [g, ss] =>
      pure (tagged "ok" [setsToSexp (componentsFromSets (← parseGraph g) (← setsOf? ss))])
  | "ancestral_components", [g, c, r] =>
      pure (exceptToSexp setsToSexp (ancestralComponents (← parseGraph g) (← varsOf? c) (← varsOf? r)))
  | "is_factor_form", [g, vs] =>
      pure (exceptToSexp boolToSexp (isCtfFactorForm (← parseGraph g) (dedup' (← varsOf? vs))))
  | "factors", [g, vs] =>
      pure (exceptToSexp setsToSexp (ctfFactors (← parseGraph g) (← varsOf? vs)))
  | "factors_values", [g, e] =>
      pure (exceptToSexp (fun fs => .list (fs.map eventToSexp)) (ctfFactorsValues (← parseGraph g) (← eventOf? e)))
  | "convert", [g, e] =>
      pure (exceptToSexp eventToSexp (convertEvent (← parseGraph g) (← eventOf? e)))
  | "factorize", [g, e] =>
      pure (exceptToSexp (fun r => .list [Codec.exprToSexp r.1, eventToSexp r.2])
        (factorize (← parseGraph g) (← eventOf? e)))
  | "factorize_classes", [g, e] =>
      let ev ← eventOf? e
      pure (exceptToSexp (fun r => .list [boolToSexp r.1, boolToSexp r.2.1, boolToSexp r.2.2, boolToSexp (readableQuery ev)])
        (factorizeClasses (← parseGraph g) ev))
  | "simplify_factorize", [g, e] =>
      let gr ← parseGraph g
      let ev ← eventOf? e
      let r : Except Err Sexp := do
        match ← simplify gr ev with
        | none => pure (.atom "none")
        | some s =>
          let f ← factorize gr s
          pure (tagged "some" [eventToSexp s, .list [Codec.exprToSexp f.1, eventToSexp f.2]])
      pure (exceptToSexp id r)
  | _, _ => none

end Y0.Driver
