/- line-protocol handlers of the "sep" family: d-separation, CI enumeration (Y0.Model.Sep),
   sigma-separation (Y0.Model.Sigma) -/
import Y0.Model.Graph
import Y0.Model.Sep
import Y0.Model.Sigma
import Y0.Driver.Graph

namespace Y0.Driver
open Y0 Sexp

def boolSexp (b : Bool) : Sexp := .atom (if b then "true" else "false")

def asBool? : Sexp → Option Bool
  | .atom "true" => some true
  | .atom "false" => some false
  | _ => none

/-- `none` or a number -/
def asOptNat? : Sexp → Option (Option Nat)
  | .atom "none" => some none
  | s => (asNat? s).map some

def judgementToSexp (j : Judgement) : Sexp :=
  tagged "j" [boolSexp j.separated, nat j.left, nat j.right, ofNats j.conditions]

def judgementsToSexp (js : List Judgement) : Sexp := .list (js.map judgementToSexp)

def asListOfNats? : Sexp → Option (List (List Nat))
  | .list xs => xs.mapM asNats?
  | _ => none

/-- verdicts for every ordered pair of distinct nodes and every conditioning set among the other nodes, in the
order `a ∈ V, b ∈ V, C ∈ powerset (V ∖ {a, b})` (V sorted): one character each, `t`/`f`/`e` -/
def sepTable (f : Nat → Nat → List Nat → Except Err Bool) (V : List Nat) : Sexp :=
  let cells := V.flatMap fun a => V.flatMap fun b =>
    if a = b then [] else
      (powerset (V.filter (fun v => v ≠ a ∧ v ≠ b)) 0 none).map fun c =>
        match f a b c with
        | .ok true => 't'
        | .ok false => 'f'
        | .error _ => 'e'
  .atom (String.ofList ('#' :: cells))

def handleSep (op : String) (args : List Sexp) : Option Sexp := do
  match op, args with
  | "are_d_separated", [g, a, b, c] =>
      pure (exceptToSexp judgementToSexp ((← parseGraph g).areDSeparated (← asNat? a) (← asNat? b) (← asNats? c)))
  | "evidence", [g, a, b, c] =>
      pure (exceptToSexp graphToSexp ((← parseGraph g).dSepEvidence (← asNat? a) (← asNat? b) (← asNats? c)))
  | "is_canonical", [s, l, r, c] =>
      pure (tagged "ok" [boolSexp (Judgement.isCanonical ⟨← asBool? s, ← asNat? l, ← asNat? r, ← asNats? c⟩)])
  | "create", [l, r, c] =>
      pure (tagged "ok" [judgementToSexp (Judgement.create (← asNat? l) (← asNat? r) (← asNats? c) true)])
  | "powerset", [s, start, stop] =>
      pure (tagged "ok" [.list ((powerset (← asNats? s) (← asNat? start) (← asOptNat? stop)).map ofNats)])
  | "d_separations", [g, k, all] =>
      pure (exceptToSexp judgementsToSexp ((← parseGraph g).dSeparations (← asOptNat? k) (← asBool? all)))
  | "get_ci", [g, topo, k, all] =>
      pure (exceptToSexp judgementsToSexp
        ((← parseGraph g).conditionalIndependencies (← asBool? topo) (← asOptNat? k) (← asBool? all)))
  | "dsep_table", [g] =>
      let G ← parseGraph g
      pure (tagged "ok" [sepTable G.dSeparated G.vertexList])
  | "sigma_table", [g] =>
      let G ← parseGraph g
      pure (tagged "ok" [sepTable G.sigmaSeparated G.vertexList])
  | "sigma", [g, a, b, c] =>
      pure (exceptToSexp boolSexp ((← parseGraph g).sigmaSeparated (← asNat? a) (← asNat? b) (← asNats? c)))
  | "sigma_classes", [g] =>
      let G ← parseGraph g
      pure (exceptToSexp (fun (m : List (Nat × List Nat)) => .list (m.map fun p => .list [nat p.1, ofNats p.2]))
        G.equivalenceClasses)
  | "sigma_open", [g, p, c] =>
      let G ← parseGraph g
      let path ← asNats? p
      let C ← asNats? c
      pure (exceptToSexp boolSexp (G.equivalenceClasses >>= fun sg => G.isZSigmaOpen sg C path))
  | _, _ => none

end Y0.Driver
