/- line-protocol handlers of the "transport" family (C05 TRSO, C06 transport vocabulary, C09 ctfTRu / ctfTR) -/
import Y0.Model.Graph
import Y0.Model.Expr
import Y0.Model.Trso
import Y0.Driver.Graph

namespace Y0.Driver
open Y0 Sexp Y0.Trso

/-- `((pop (v …)) …)` -/
def parseAssoc : Sexp → Option (List (Nat × List Nat))
  | .list xs => xs.mapM fun
      | .list [p, vs] => do pure (← asNat? p, ← asNats? vs)
      | _ => none
  | _ => none

def optExprToSexp : Except Err (Option Expr) → Sexp
  | .ok (some e) => tagged "ok" [Codec.exprToSexp e]
  | .ok none => tagged "none" []
  | .error e => e.toSexp

def exprResult : Except Err Expr → Sexp
  | .ok e => tagged "ok" [Codec.exprToSexp e]
  | .error e => e.toSexp

def boolSexp (b : Bool) : Sexp := .atom (if b then "true" else "false")

def handleTransport (op : String) (args : List Sexp) : Option Sexp := do
  match op, args with
  | "identify", [g, y, x, so, si] =>
      pure (optExprToSexp (identifyTargetOutcomes dSeparated (← parseGraph g) (← asNats? y) (← asNats? x)
        (← parseAssoc so) (← parseAssoc si)))
  | "nodes_to_transport", [g, z, w] =>
      pure (exceptToSexp ofNats (getNodesToTransport (← parseGraph g) (← asNats? z) (← asNats? w)))
  | "transport_diagram", [g, ns] =>
      pure (tagged "ok" [graphToSexp (createTransportDiagram (← parseGraph g) (← asNats? ns))])
  | "separated", [g, x, y] =>
      pure (exceptToSexp boolSexp (allTransportsDSeparated dSeparated (← parseGraph g) (← asNats? x) (← asNats? y)))
  | "d_separated", [g, a, b, c] =>
      pure (exceptToSexp boolSexp (dSeparated (← parseGraph g) (← asNat? a) (← asNat? b) (← asNats? c)))
  | "activate", [e, zs, d] =>
      pure (exprResult (activate (← asNats? zs) (← asNat? d) (← Codec.exprOf? e)))
  | "canonicalize", [e] => pure (exprResult (TrDsl.canonicalize (← Codec.exprOf? e)))
  | "mul", [a, b] => pure (exprResult (TrDsl.mul (← Codec.exprOf? a) (← Codec.exprOf? b)))
  | "truediv", [a, b] => pure (exprResult (TrDsl.truediv (← Codec.exprOf? a) (← Codec.exprOf? b)))
  | "sum_safe", [e, r, s] =>
      pure (tagged "ok" [Codec.exprToSexp (TrDsl.sumSafe (← Codec.exprOf? e) ((← asNats? r).map Var.plain) (s == .atom "true"))])
  | "product_safe", [.list es] =>
      pure (tagged "ok" [Codec.exprToSexp (TrDsl.productSafe (← es.mapM Codec.exprOf?))])
  | _, _ => none

end Y0.Driver
