/- line-protocol handlers of the "transport" family (C05 TRSO, C06 transport vocabulary, C09 ctfTRu / ctfTR) -/
import Y0.Model.Graph
import Y0.Model.Expr
import Y0.Model.Trso
import Y0.Model.TrsoUse
import Y0.Model.CtfTr
import Y0.Driver.Graph

namespace Y0.Driver
open Y0 Sexp Y0.Trso

/-- `((pop (v …)) …)` -/
def tr_parseAssoc : Sexp → Option (List (Nat × List Nat))
  | .list xs => xs.mapM fun
      | .list [p, vs] => do pure (← asNat? p, ← asNats? vs)
      | _ => none
  | _ => none

def tr_optExprToSexp : Except Err (Option Expr) → Sexp
  | .ok (some e) => tagged "ok" [Codec.exprToSexp e]
  | .ok none => tagged "none" []
  | .error e => e.toSexp

def tr_exprResult : Except Err Expr → Sexp
  | .ok e => tagged "ok" [Codec.exprToSexp e]
  | .error e => e.toSexp

def tr_boolSexp (b : Bool) : Sexp := .atom (if b then "true" else "false")

/-- `(v name star isIv ivs)` with a value star -> (base variable, value) as `_event_from_counterfactuals` does -/
def tr_eventOf? : Sexp → Option Ctf.Event
  | .list xs => xs.mapM fun x => do
      let v ← Codec.varOf? x
      pure ({ v with star := none }, v.star.map fun s => (⟨v.name, s⟩ : Iv))
  | _ => none

/-- `((pop graph (topo…) (policy…)) …)`; the population expression is `PP[pop](regular nodes)` -/
def tr_domainsOf? : Sexp → Option (List CtfTr.Domain)
  | .list xs => xs.mapM fun
      | .list [p, g, t, z] => do
          let G ← parseGraph g
          let pop ← asNat? p
          pure { graph := G, topo := ← asNats? t, policy := ← asNats? z,
                 pop := .prob (some (Var.plain pop)) (TrDsl.plainVars (CtfTr.regular G)) [] }
      | _ => none
  | _ => none

def tr_eventToSexp (e : Ctf.Event) : Sexp :=
  .list (e.map fun p => Codec.varToSexp { p.1 with star := p.2.map (·.star) })

def tr_answerSexp : Except Err (Option CtfTr.Answer) → Sexp
  | .ok (some (e, ev)) => tagged "ok" [Codec.exprToSexp e, match ev with | some x => tr_eventToSexp x | none => .atom "none"]
  | .ok none => tagged "fail" []
  | .error e => e.toSexp

def tr_unitSexp : Except Err Unit → Sexp
  | .ok () => tagged "ok" []
  | .error e => e.toSexp

def handleTransport (op : String) (args : List Sexp) : Option Sexp := do
  match op, args with
  | "identify", [g, y, x, so, si] =>
      pure (tr_optExprToSexp (identifyTargetOutcomes dSeparated (← parseGraph g) (← asNats? y) (← asNats? x)
        (← tr_parseAssoc so) (← tr_parseAssoc si)))
  | "uses_line6", [g, y, x, so, si] =>
      -- the hypothesis of `trso_no_usable_surrogate_iff_id` (Props/C05Usable): does the run find a usable source domain at line 6?
      -- two answers: the EXACT predicate (`identifyUsesLine6x`: line 4 inspects a later component only if every earlier one
      -- returned an estimand, as the Python loop does) and the over-approximation `identifyUsesLine6`
      let G ← parseGraph g; let Y ← asNats? y; let X ← asNats? x; let o ← tr_parseAssoc so; let i ← tr_parseAssoc si
      pure (tagged "ok" [tr_boolSexp (identifyUsesLine6x dSeparated G Y X o i), tr_boolSexp (identifyUsesLine6 dSeparated G Y X o i)])
  | "nodes_to_transport", [g, z, w] =>
      pure (exceptToSexp ofNats (getNodesToTransport (← parseGraph g) (← asNats? z) (← asNats? w)))
  | "transport_diagram", [g, ns] =>
      pure (tagged "ok" [graphToSexp (createTransportDiagram (← parseGraph g) (← asNats? ns))])
  | "separated", [g, x, y] =>
      pure (exceptToSexp tr_boolSexp (allTransportsDSeparated dSeparated (← parseGraph g) (← asNats? x) (← asNats? y)))
  | "d_separated", [g, a, b, c] =>
      pure (exceptToSexp tr_boolSexp (dSeparated (← parseGraph g) (← asNat? a) (← asNat? b) (← asNats? c)))
  | "activate", [e, zs, d] =>
      pure (tr_exprResult (activate (← asNats? zs) (← asNat? d) (← Codec.exprOf? e)))
  | "canonicalize", [e] => pure (tr_exprResult (TrDsl.canonicalize (← Codec.exprOf? e)))
  | "mul", [a, b] => pure (tr_exprResult (TrDsl.mul (← Codec.exprOf? a) (← Codec.exprOf? b)))
  | "truediv", [a, b] => pure (tr_exprResult (TrDsl.truediv (← Codec.exprOf? a) (← Codec.exprOf? b)))
  | "sum_safe", [e, r, s] =>
      pure (tagged "ok" [Codec.exprToSexp (TrDsl.sumSafe (← Codec.exprOf? e) ((← asNats? r).map Var.plain) (s == .atom "true"))])
  | "product_safe", [.list es] =>
      pure (tagged "ok" [Codec.exprToSexp (TrDsl.productSafe (← es.mapM Codec.exprOf?))])
  | "ctf_validate_u", [g, ds, ev] =>
      pure (tr_unitSexp (CtfTr.validateU (← parseGraph g) (← tr_domainsOf? ds) (← tr_eventOf? ev)))
  | "ctf_validate_c", [g, ds, o, c] =>
      pure (tr_unitSexp (CtfTr.validateC (← parseGraph g) (← tr_domainsOf? ds) (← tr_eventOf? o) (← tr_eventOf? c)))
  | "ctf_uncond", [g, ds, ev] =>
      pure (tr_answerSexp (CtfTr.ctfTRu (← parseGraph g) (← tr_domainsOf? ds) (← tr_eventOf? ev)))
  | _, _ => none

end Y0.Driver
