/- line-protocol handlers for the graph model (C14) -/
import Y0.Model.Graph

namespace Y0.Driver
open Y0 Sexp

def parseGraph : Sexp → Option (MG Nat)
  | .list [.atom "graph", ns, di, bi] => do
      pure (MG.fromEdges (← asNats? ns) (← asPairs? di) (← asPairs? bi))
  | _ => none

def pairsToSexp (ps : List (Nat × Nat)) : Sexp := .list (ps.map fun p => .list [nat p.1, nat p.2])

def graphToSexp (G : MG Nat) : Sexp :=
  tagged "graph" [ofNats G.nodes, pairsToSexp G.di, pairsToSexp G.bi]

def exceptToSexp {α} (f : α → Sexp) : Except Err α → Sexp
  | .ok a => tagged "ok" [f a]
  | .error e => e.toSexp

def handleGraph (op : String) (args : List Sexp) : Option Sexp := do
  match op, args with
  | "subgraph", [g, s] => pure (tagged "ok" [graphToSexp ((← parseGraph g).subgraph (← asNats? s))])
  | "remove_in_edges", [g, s] => pure (tagged "ok" [graphToSexp ((← parseGraph g).removeInEdges (← asNats? s))])
  | "remove_out_edges", [g, s] => pure (tagged "ok" [graphToSexp ((← parseGraph g).removeOutEdges (← asNats? s))])
  | "remove_nodes_from", [g, s] => pure (tagged "ok" [graphToSexp ((← parseGraph g).removeNodes (← asNats? s))])
  | "intervene", [g, s] => pure (exceptToSexp graphToSexp ((← parseGraph g).intervene id (← asNats? s)))
  | "ancestors_inclusive", [g, s] => pure (exceptToSexp ofNats ((← parseGraph g).ancestorsInclusive (← asNats? s)))
  | "descendants_inclusive", [g, s] => pure (exceptToSexp ofNats ((← parseGraph g).descendantsInclusive (← asNats? s)))
  | "districts", [g] => pure (tagged "ok" [.list ((← parseGraph g).districts.map ofNats)])
  | "get_district", [g, v] => pure (exceptToSexp ofNats ((← parseGraph g).getDistrict (← asNat? v)))
  | "get_markov_pillow", [g, s] => pure (exceptToSexp ofNats ((← parseGraph g).markovPillow (← asNats? s)))
  | "get_markov_blanket", [g, s] => pure (exceptToSexp ofNats ((← parseGraph g).markovBlanket (← asNats? s)))
  | "moralize", [g] => pure (tagged "ok" [graphToSexp (← parseGraph g).moralize])
  | "disorient", [g] => pure (tagged "ok" [graphToSexp (← parseGraph g).disorient])
  | "topological_sort", [g] => pure (exceptToSexp ofNats (← parseGraph g).topologicalSort)
  | "pre", [g, s] => pure (exceptToSexp ofNats ((← parseGraph g).pre (← asNats? s) none))
  | "pre_order", [g, s, o] => pure (exceptToSexp ofNats ((← parseGraph g).pre (← asNats? s) (some (← asNats? o))))
  | "nodes_in_directed_paths", [g, s, t] =>
      pure (exceptToSexp ofNats ((← parseGraph g).nodesInDirectedPaths (← asNats? s) (← asNats? t)))
  | "graph_eq", [g, h] => pure (.atom (toString ((← parseGraph g).equiv (← parseGraph h))))
  | _, _ => none

end Y0.Driver
