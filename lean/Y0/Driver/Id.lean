/- line-protocol handlers of the "id" family (ID, IDC)

  (id identify <graph> (x…) (y…) <tape>)            -> (ok <expr>) | (err …)
  (id identify_outcomes <graph> (x…) (y…) <tape>)   -> (ok none) | (ok (some <expr>)) | (err …)
  (id idc <graph> (x…) (y…) (z…) <tape>)             -> (ok <expr>) | (err …)       z in the order the real run tried them
  (id identify_outcomes_c <graph> (x…) (y…) (z…) <tape>)

  <tape> = (((node…) (order…)) …): the topological orders the real run obtained from networkx, keyed by the
  node set of the graph that was sorted (`Identification` rebuilds its graph from a *set* of nodes, so the
  order is hash-seed dependent).  A graph not on the tape is sorted by the model of `topological_sort`.
-/
import Y0.Model.Graph
import Y0.Model.Expr
import Y0.Model.Id
import Y0.Model.Idc
import Y0.Model.Sep
import Y0.Driver.Graph

namespace Y0.Driver
open Y0 Sexp

def parseTape : Sexp → Option (List (List Nat × List Nat))
  | .list xs => xs.mapM fun
      | .list [a, b] => do pure (← asNats? a, ← asNats? b)
      | _ => none
  | _ => none

def topoFromTape (tape : List (List Nat × List Nat)) (G : MG Nat) : Except Err (List Nat) :=
  match tape.find? (fun p => seteq' p.1 G.nodes) with
  | some p => .ok p.2
  | none => G.topologicalSort

def optExprToSexp : Option Expr → Sexp
  | none => .atom "none"
  | some e => tagged "some" [Codec.exprToSexp e]

def handleId (op : String) (args : List Sexp) : Option Sexp := do
  match op, args with
  | "identify", [g, x, y, t] =>
      pure (exceptToSexp Codec.exprToSexp
        (identify (topoFromTape (← parseTape t)) (← parseGraph g) (dedup' (← asNats? x)) (dedup' (← asNats? y))))
  | "identify_outcomes", [g, x, y, t] =>
      pure (exceptToSexp optExprToSexp
        (identifyOutcomes (topoFromTape (← parseTape t)) (← parseGraph g) (dedup' (← asNats? x)) (dedup' (← asNats? y))))
  | "idc", [g, x, y, z, t] =>
      pure (exceptToSexp Codec.exprToSexp
        (idc (fun G a b C => G.dSeparated a b C) (topoFromTape (← parseTape t)) (← parseGraph g)
          (dedup' (← asNats? x)) (dedup' (← asNats? y)) (dedup' (← asNats? z))))
  | "identify_outcomes_c", [g, x, y, z, t] =>
      pure (exceptToSexp optExprToSexp
        (identifyOutcomesC (fun G a b C => G.dSeparated a b C) (topoFromTape (← parseTape t)) (← parseGraph g)
          (dedup' (← asNats? x)) (dedup' (← asNats? y)) (dedup' (← asNats? z))))
  | _, _ => none

end Y0.Driver
