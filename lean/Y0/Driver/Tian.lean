/- line-protocol handlers of the "tian" family (C17): Y0.Model.Tian -/
import Y0.Model.Tian
import Y0.Driver.Graph

namespace Y0.Driver
open Y0 Sexp Codec

def tianOptExprToSexp : Option Expr → Sexp
  | none => .atom "none"
  | some e => exprToSexp e

/-- `()` is `None`, `(v)` is the vertex `v` -/
def tianOptNat? : Sexp → Option (Option Nat)
  | .list [] => some none
  | .list [x] => do pure (some (← asNat? x))
  | _ => none

def handleTian (op : String) (args : List Sexp) : Option Sexp := do
  match op, args with
  | "identify", [g, c, t, q, topo] =>
      pure (exceptToSexp tianOptExprToSexp
        (Tian.identify (← parseGraph g) (← asNats? c) (← asNats? t) (← exprOf? q) (← asNats? topo)))
  | "c_factor", [d, h, q, topo] =>
      pure (exceptToSexp exprToSexp (Tian.computeCFactor (← asNats? d) (← asNats? h) (← exprOf? q) (← asNats? topo)))
  | "lemma1", [d, q, topo] =>
      pure (exceptToSexp exprToSexp (Tian.lemma1 (← asNats? d) (← exprOf? q) (← asNats? topo)))
  | "lemma4", [d, q, topo] =>
      pure (exceptToSexp exprToSexp (Tian.lemma4 (← asNats? d) (← exprOf? q) (← asNats? topo)))
  | "low_index", [v, q, topo] =>
      pure (exceptToSexp exprToSexp (Tian.lowIndex (← tianOptNat? v) (← exprOf? q) (← asNats? topo)))
  | "ancestral", [a, h, q, topo] =>
      pure (exceptToSexp exprToSexp (Tian.ancestralQ (← asNats? a) (← asNats? h) (← exprOf? q) (← asNats? topo)))
  | _, _ => none

end Y0.Driver
