/- line-protocol handlers of Algorithm 3 (ctfTR, property C09): the complete conditional procedure

     (ctftr cond  <target graph> <domains> <outcomes> <conditions>)
        -> (ok  <order-sensitive: true|false> <in the class of ctfTR_sound_partial: true|false> <answer>)
           answer = (ok <expr> <event>|none) | (fail) | (err …)
     (ctftr classes <target graph> <domains> <outcomes> <conditions>)
        -> (ok <OutcomesFound> <DstarOneWorld> <OutcomeNotCondition> <popsCoverCheck> <qGoodCheck>)
           the hypotheses of `ctfTR_no_internal_error_partial` that are decidable predicates on the input
     (ctftr condclass <target graph> <domains> <outcomes> <conditions>)
        -> (ok <the eight conjuncts of ctfTRInClass, see CtfTr.ctfTRClassFlags>…)      diagnostics only
     (ctftr uncond <target graph> <domains> <event>)
        -> (ok <in the class of ctfTRu_sound_partial: true|false> <answer of ctfTRu>)
     (ctftr line2 <target graph> <outcomes> <conditions>)
        -> (ok <derived event D* in ctf-factor form> (<vertices of D*>…)) | (err …)

   The parsing helpers are those of Y0.Driver.Transport. -/
import Y0.Model.CtfTr
import Y0.Driver.Graph
import Y0.Driver.Transport

namespace Y0.Driver
open Y0 Sexp

def ctftr_line2Sexp : Except Err (Ctf.Event × List Name) → Sexp
  | .ok (ev, names) => tagged "ok" [tr_eventToSexp ev, ofNats names]
  | .error e => e.toSexp

def handleCtfTr (op : String) (args : List Sexp) : Option Sexp := do
  match op, args with
  | "cond", [g, ds, o, c] =>
      let G ← parseGraph g
      let D ← tr_domainsOf? ds
      let O ← tr_eventOf? o
      let Cn ← tr_eventOf? c
      pure (tagged "ok" [tr_boolSexp (CtfTr.ctfTROrderSensitive G D O Cn), tr_boolSexp (CtfTr.ctfTRInClass G D O Cn),
        tr_answerSexp (CtfTr.ctfTR G D O Cn)])
  | "uncond", [g, ds, ev] =>
      let G ← parseGraph g
      let D ← tr_domainsOf? ds
      let E ← tr_eventOf? ev
      pure (tagged "ok" [tr_boolSexp (CtfTr.ctfTRuInClass G D E), tr_answerSexp (CtfTr.ctfTRu G D E)])
  | "line2", [g, o, c] =>
      pure (ctftr_line2Sexp (CtfTr.line2C (← parseGraph g) (← tr_eventOf? o) (← tr_eventOf? c)))
  | "classes", [g, ds, o, c] =>
      let G ← parseGraph g
      let D ← tr_domainsOf? ds
      let O ← tr_eventOf? o
      let Cn ← tr_eventOf? c
      pure (tagged "ok" [tr_boolSexp (CtfTr.OutcomesFound G O Cn), tr_boolSexp (CtfTr.DstarOneWorld G O Cn),
        tr_boolSexp (CtfTr.OutcomeNotCondition O Cn), tr_boolSexp (CtfTr.popsCoverCheck G D),
        tr_boolSexp (CtfTr.qGoodCheck G D O Cn)])
  | "condclass", [g, ds, o, c] =>
      let G ← parseGraph g
      let D ← tr_domainsOf? ds
      let O ← tr_eventOf? o
      let Cn ← tr_eventOf? c
      pure (tagged "ok" ((CtfTr.ctfTRClassFlags G D O Cn).map tr_boolSexp))
  | _, _ => none

end Y0.Driver
