/- line-protocol handlers of the "sem" family: evaluate the semantic SPECIFICATIONS on an explicit functional SCM sent
by tools/sem_crosscheck.py —
   (sem fscm_pr      model cards atoms)        (M.fscmEnv card).pr none atoms          (Y0/Spec/FscmEnv.lean)
   (sem fscm_pr_raw  model cards atoms)        (M.fscmEnvRaw card).pr none atoms
   (sem toscm_prdo   model cards base graph dos ev)   (M.toScm card base).prDo G dos ev   (Y0/Spec/FscmToScm.lean, Scm.lean)
   (sem toscm_env    model cards base graph atoms)    ((M.toScm card base).env G).pr none atoms
   (sem toscm_envx   model cards base graph atoms)    ((M.toScm card base).envX G).pr none atoms   (Y0/Spec/ScmEnvX.lean)
 model: as in `cf fscm_prob` (Y0/Driver/Cf.lean); cards: ((v c)…) (default 1); atom: (name ((x k)…) val). -/
import Y0.Driver.Cf
import Y0.Spec.FscmEnv
import Y0.Spec.FscmToScm
import Y0.Spec.ScmEnvX

namespace Y0.Driver
open Y0 Sexp

def semCardsOf? (s : Sexp) : Option (Name → Nat) := do
  let rows ← asPairs? s
  pure fun n => match rows.find? (fun r => r.1 == n) with
    | some r => r.2
    | none => 1

def semAtomOf? : Sexp → Option Atom
  | .list [n, dos, v] => do pure { name := ← asNat? n, dos := ← asPairs? dos, val := ← asNat? v }
  | _ => none

def semAtomsOf? : Sexp → Option (List Atom)
  | .list xs => xs.mapM semAtomOf?
  | _ => none

def semRatToSexp (r : Rat) : Sexp := tagged "ok" [.atom (toString r.num), .atom (toString r.den)]

def handleSem (op : String) (args : List Sexp) : Option Sexp := do
  match op, args with
  | "fscm_pr", [m, cards, atoms] =>
      pure (semRatToSexp (((← modelOf? m).fscmEnv (← semCardsOf? cards)).pr none (← semAtomsOf? atoms)))
  | "fscm_pr_raw", [m, cards, atoms] =>
      pure (semRatToSexp (((← modelOf? m).fscmEnvRaw (← semCardsOf? cards)).pr none (← semAtomsOf? atoms)))
  | "toscm_prdo", [m, cards, base, g, dos, ev] =>
      pure (semRatToSexp (((← modelOf? m).toScm (← semCardsOf? cards) (← asNat? base)).prDo (← parseGraph g)
        (← asPairs? dos) (← asPairs? ev)))
  | "toscm_env", [m, cards, base, g, atoms] =>
      pure (semRatToSexp ((((← modelOf? m).toScm (← semCardsOf? cards) (← asNat? base)).env (← parseGraph g)).pr none
        (← semAtomsOf? atoms)))
  | "toscm_envx", [m, cards, base, g, atoms] =>
      pure (semRatToSexp ((((← modelOf? m).toScm (← semCardsOf? cards) (← asNat? base)).envX (← parseGraph g)).pr none
        (← semAtomsOf? atoms)))
  | _, _ => none

end Y0.Driver
