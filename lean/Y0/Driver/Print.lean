/- line-protocol handlers of the "print" family (C12): printers, Python-grammar parser, eval over LOCALS

   tokens : natural number = variable name | P PP Sum Q One Zero TARGET_DOMAIN | lp rp lb rb cm pl mi ti at st sl ba am
   ast    : (n 5) | (k P) | (call f a…) | (sub f i) | (tup x…) | (un pos|neg|inv a) | (bin bor|band|add|sub|mul|div|matmul l r)
   ops    : (print rt pinned|total <ast | none> <expr>)  ->  (ok <built> <tokens> <ast> <reparsed> <domain> <simple> <namesOnce>)
              built    = (ok expr) | (err …) | none     model of evaluating the construction AST with the DSL operators
              tokens   = (t …)                          Print.expr of the GIVEN expr
              ast      = (ok ast) | (err …)             PyParse.parse of those tokens
              reparsed = (ok expr) | (err …)            PyEval.parseY0 of those tokens
              domain   = true | false                   wf e && built e (hypotheses of the theorems, on the GIVEN expr)
              simple   = true | false                   simple e
              namesOnce= true | false | none            PyEval.namesOnce of the construction AST (hypothesis of built_of_eval)
            (print parse (t …))  ->  (ok ast) | (err syntax)
            (print eval pinned|total <ast>)   ->  (ok expr) | (err …)
-/
import Y0.Model.PyEval
import Y0.Model.Dsl

namespace Y0.Driver
open Y0 Sexp

namespace PrintCodec

def kwToStr : Kw → String
  | .P => "P" | .PP => "PP" | .Sum => "Sum" | .Q => "Q" | .One => "One" | .Zero => "Zero" | .TargetDomain => "TARGET_DOMAIN"

def kwOf? : String → Option Kw
  | "P" => some .P | "PP" => some .PP | "Sum" => some .Sum | "Q" => some .Q | "One" => some .One | "Zero" => some .Zero
  | "TARGET_DOMAIN" => some .TargetDomain
  | _ => none

def tokToSexp : Tok → Sexp
  | .name n => nat n
  | .kw k => atom (kwToStr k)
  | .lpar => atom "lp" | .rpar => atom "rp" | .lbr => atom "lb" | .rbr => atom "rb" | .comma => atom "cm"
  | .plus => atom "pl" | .minus => atom "mi" | .tilde => atom "ti" | .at => atom "at" | .star => atom "st"
  | .slash => atom "sl" | .bar => atom "ba" | .amp => atom "am"

def tokOf? : Sexp → Option Tok
  | atom "lp" => some .lpar | atom "rp" => some .rpar | atom "lb" => some .lbr | atom "rb" => some .rbr
  | atom "cm" => some .comma | atom "pl" => some .plus | atom "mi" => some .minus | atom "ti" => some .tilde
  | atom "at" => some .at | atom "st" => some .star | atom "sl" => some .slash | atom "ba" => some .bar
  | atom "am" => some .amp
  | atom s => match kwOf? s with
    | some k => some (.kw k)
    | none => (s.toNat?).map .name
  | _ => none

def uopToStr : UOp → String
  | .pos => "pos" | .neg => "neg" | .inv => "inv"
def uopOf? : String → Option UOp
  | "pos" => some .pos | "neg" => some .neg | "inv" => some .inv | _ => none
def bopToStr : BOp → String
  | .bor => "bor" | .band => "band" | .add => "add" | .sub => "sub" | .mul => "mul" | .div => "div" | .matmul => "matmul"
def bopOf? : String → Option BOp
  | "bor" => some .bor | "band" => some .band | "add" => some .add | "sub" => some .sub | "mul" => some .mul
  | "div" => some .div | "matmul" => some .matmul | _ => none

partial def astToSexp : Ast → Sexp
  | .name n => list [atom "n", nat n]
  | .kw k => list [atom "k", atom (kwToStr k)]
  | .call f args => list (atom "call" :: astToSexp f :: args.map astToSexp)
  | .sub f i => list [atom "sub", astToSexp f, astToSexp i]
  | .tuple xs => list (atom "tup" :: xs.map astToSexp)
  | .un op a => list [atom "un", atom (uopToStr op), astToSexp a]
  | .bin op l r => list [atom "bin", atom (bopToStr op), astToSexp l, astToSexp r]

partial def astOf? : Sexp → Option Ast
  | list [atom "n", n] => do pure (.name (← asNat? n))
  | list [atom "k", atom k] => do pure (.kw (← kwOf? k))
  | list (atom "call" :: f :: args) => do pure (.call (← astOf? f) (← args.mapM astOf?))
  | list [atom "sub", f, i] => do pure (.sub (← astOf? f) (← astOf? i))
  | list (atom "tup" :: xs) => do pure (.tuple (← xs.mapM astOf?))
  | list [atom "un", atom op, a] => do pure (.un (← uopOf? op) (← astOf? a))
  | list [atom "bin", atom op, l, r] => do pure (.bin (← bopOf? op) (← astOf? l) (← astOf? r))
  | _ => none

end PrintCodec

open PrintCodec

def clean (s : String) : String :=
  String.ofList (s.toList.filter fun c => c.isAlphanum || c == '_')

def errOrOk {α} (f : α → Sexp) : Except Err α → Sexp
  | .ok a => tagged "ok" [f a]
  | .error .unidentifiable => tagged "err" [atom "unidentifiable"]
  | .error (.invalidInput k) => tagged "err" [atom "invalid", atom (clean k)]
  | .error (.internal k) => tagged "err" [atom "internal", atom (clean k)]

/-- which model of `Expression.__lt__` (`_get_key`) the real code under test has: the pinned one or the total
structural key of the `expr` family's fix (the harness looks at the code and says which) -/
def orderOf? : Sexp → Option (Expr → Expr → Bool)
  | atom "pinned" => some PyEval.exprLt
  | atom "total" => some Expr.ltE
  | _ => none

def handlePrint (op : String) (args : List Sexp) : Option Sexp := do
  match op, args with
  | "rt", [order, build, e] =>
    let lt ← orderOf? order
    let e ← Codec.exprOf? e
    let (built, once) : Sexp × Sexp ← (match build with
      | atom "none" => some (atom "none", atom "none")
      | b => do
        let a ← astOf? b
        pure (errOrOk Codec.exprToSexp (PyEval.evalExpr lt a), atom (toString (PyEval.namesOnce a))))
    let toks := Print.expr e
    let ast : Sexp := match PyParse.parse toks with
      | .ok a => tagged "ok" [astToSexp a]
      | .error m => tagged "err" [atom "syntax", atom (clean m)]
    let re := errOrOk Codec.exprToSexp (PyEval.parseY0 lt toks)
    pure (tagged "ok" [built, list (atom "t" :: toks.map tokToSexp), ast, re,
      atom (toString (Print.wf e && PyEval.built lt e)), atom (toString (PyEval.simple e)), once])
  | "parse", [list (atom "t" :: ts)] =>
    let toks ← ts.mapM tokOf?
    pure (match PyParse.parse toks with
      | .ok a => tagged "ok" [astToSexp a]
      | .error m => tagged "err" [atom "syntax", atom (clean m)])
  | "eval", [order, a] =>
    let lt ← orderOf? order
    let a ← astOf? a
    pure (errOrOk Codec.exprToSexp (PyEval.evalExpr lt a))
  | "tokens", [e] =>
    let e ← Codec.exprOf? e
    pure (tagged "ok" [list (atom "t" :: (Print.expr e).map tokToSexp)])
  | _, _ => none

end Y0.Driver
