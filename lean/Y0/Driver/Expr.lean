/- line-protocol handlers of the "expr" family: DSL constructors/operators, canonicaliser, mutate helpers,
   and evaluation of the specification's `den` on a concrete (mixture-of-products) environment -/
import Y0.Model.Graph
import Y0.Model.Expr
import Y0.Model.Dsl
import Y0.Model.Canon
import Y0.Model.Mutate
import Y0.Spec.Sem
import Y0.Lemmas.SemScope
import Y0.Lemmas.SemScopeW
import Y0.Driver.Graph

namespace Y0.Driver
open Y0 Sexp Codec

def okE (e : Expr) : Sexp := tagged "ok" [exprToSexp e]

def replyE : Except Err Expr → Sexp
  | .ok e => okE e
  | .error err => err.toSexp

def replyB : Except Err Bool → Sexp
  | .ok b => tagged "ok" [atom (if b then "true" else "false")]
  | .error err => err.toSexp

def exprBoolOf? : Sexp → Option Bool
  | atom "true" => some true
  | atom "false" => some false
  | _ => none

/-- `none` | `(some v…)` -/
def optVarsOf? : Sexp → Option (Option (List Var))
  | atom "none" => some none
  | list (atom "some" :: vs) => do pure (some (← vs.mapM varOf?))
  | _ => none

def wfExpr? (s : Sexp) : Option Expr := do
  let e ← exprOf? s
  if e.wf then some e else none

/-! ### a concrete environment: finite mixture of product measures over the counterfactual variables -/

def ratOf? : Sexp → Option Rat
  | list [n, d] => do
      let n ← (match n with | atom s => s.toInt? | _ => none)
      let d ← asNat? d
      pure ((n : Rat) / (d : Rat))
  | _ => none

abbrev CfKey := Option Name × Name × List (Name × Nat)

def pairLt (a b : Name × Nat) : Bool := a.1 < b.1 || (a.1 == b.1 && a.2 < b.2)

def cfKeyOf? : Sexp → Option CfKey
  | list [pop, n, dos] => do
      let pop ← (match pop with | atom "none" => some none | p => (asNat? p).map some)
      pure (pop, ← asNat? n, sortBy pairLt (← asPairs? dos))
  | _ => none

structure Comp where
  w : Rat
  rows : List (CfKey × List Rat)

def compOf? : Sexp → Option Comp
  | list [w, list rows] => do
      let rows ← rows.mapM (fun r => match r with
        | list [k, list ps] => do pure (← cfKeyOf? k, ← ps.mapM ratOf?)
        | _ => none)
      pure { w := ← ratOf? w, rows := rows }
  | _ => none

def lookupPmf (rows : List (CfKey × List Rat)) (k : CfKey) : Option (List Rat) :=
  (rows.find? (fun r => r.1 == k)).map (·.2)

/-- missing table entries give this sentinel so that a mismatch with the oracle is visible -/
def sentinel : Rat := -1000003

def mixPr (card : Name → Nat) (comps : List Comp) (pop : Option Name) (atoms : List Atom) : Rat :=
  let atoms := dedup' (atoms.map fun a => ({ a with dos := sortBy pairLt a.dos } : Atom))
  if atoms.any (fun a => atoms.any (fun b => a.conflicts b)) then 0
  else if atoms.any (fun a => card a.name ≤ a.val) then 0
  else
    (comps.map fun c =>
      c.w * (atoms.map fun a =>
        match lookupPmf c.rows (pop, a.name, a.dos) with
        | some pmf => (match pmf[a.val]? with | some p => p | none => sentinel)
        | none => sentinel).foldl (· * ·) 1).foldl (· + ·) 0

def envOf? : Sexp → Option Env
  | list [atom "env", list (atom "cards" :: cs), list (atom "mix" :: comps)] => do
      let cs ← cs.mapM asPair?
      let comps ← comps.mapM compOf?
      let card : Name → Nat := fun n => match cs.find? (fun p => p.1 == n) with | some p => p.2 | none => 2
      pure { card := card, pr := mixPr card comps, q := fun _ _ => 0 }
  | _ => none

def valOf? (s : Sexp) : Option Val := do
  let ps ← asPairs? s
  pure (fun n => match ps.find? (fun p => p.1 == n) with | some p => p.2 | none => 0)

def ratToSexp (r : Rat) : Sexp := list [atom (toString r.num), atom (toString r.den)]

/-! ### dispatch -/

def handleExpr (op : String) (args : List Sexp) : Option Sexp :=
  match op, args with
  | "canonicalize", [e, o] => do
      let e ← wfExpr? e
      let o ← optVarsOf? o
      pure (replyE (canonicalize e o))
  | "canonicalize_twice", [e, o] => do
      let e ← wfExpr? e
      let o ← varsOf? o
      pure (match canon (upgradeOrdering o) e with
        | .ok c1 => (match canon (upgradeOrdering o) c1 with
            | .ok c2 => tagged "ok" [exprToSexp c1, exprToSexp c2]
            | .error err => err.toSexp)
        | .error err => err.toSexp)
  | "canonicalize_pair", [a, b, o] => do
      let a ← wfExpr? a
      let b ← wfExpr? b
      let o ← varsOf? o
      pure (match canon (upgradeOrdering o) a, canon (upgradeOrdering o) b with
        | .ok ca, .ok cb => tagged "ok" [exprToSexp ca, exprToSexp cb]
        | .error err, _ => err.toSexp
        | _, .error err => err.toSexp)
  | "canonicalize_twice_opt", [e, o] => do   -- the public entry point, `ordering=None` allowed (recomputed at each call)
      let e ← wfExpr? e
      let o ← optVarsOf? o
      pure (match canonicalize e o with
        | .ok c1 => (match canonicalize c1 o with
            | .ok c2 => tagged "ok" [exprToSexp c1, exprToSexp c2]
            | .error err => err.toSexp)
        | .error err => err.toSexp)
  | "canonicalize_pair_opt", [a, b, o] => do
      let a ← wfExpr? a
      let b ← wfExpr? b
      let o ← optVarsOf? o
      pure (match canonicalize a o, canonicalize b o with
        | .ok ca, .ok cb => tagged "ok" [exprToSexp ca, exprToSexp cb]
        | .error err, _ => err.toSexp
        | _, .error err => err.toSexp)
  | "canonical_equal", [a, b] => do pure (replyB (canonicalExprEqual (← wfExpr? a) (← wfExpr? b)))
  | "mul", [a, b] => do pure (replyE ((← wfExpr? a).mul (← wfExpr? b)))
  | "div", [a, b] => do pure (replyE ((← wfExpr? a).div (← wfExpr? b)))
  | "lt", [a, b] => do pure (replyB (.ok ((← wfExpr? a).ltE (← wfExpr? b))))
  | "eq", [a, b] => do pure (replyB (.ok ((← wfExpr? a).eqb (← wfExpr? b))))
  | "product_safe", [list es] => do pure (okE (productSafe (← es.mapM wfExpr?)))
  | "sum_safe", [e, r, s] => do pure (okE (sumSafe (← wfExpr? e) (← varsOf? r) (← exprBoolOf? s)))
  | "marginalize", [e, r] => do pure (okE ((← wfExpr? e).marginalize (← varsOf? r)))
  | "normalize_marginalize", [e, r] => do pure (replyE ((← wfExpr? e).normalizeMarginalize (← varsOf? r)))
  | "conditional", [e, r] => do pure (replyE ((← wfExpr? e).conditional (← varsOf? r)))
  | "simplify", [e] => do pure (replyE (← wfExpr? e).simplify)
  | "chain_expand", [p, r, o] => do pure (replyE (chainExpand (← wfExpr? p) (← exprBoolOf? r) (← optVarsOf? o)))
  | "fraction_expand", [p] => do pure (replyE (fractionExpand (← wfExpr? p)))
  | "bayes_expand", [p] => do pure (replyE (bayesExpand (← wfExpr? p)))
  | "contract", [e] => do pure (okE (contract (← wfExpr? e)))
  | "recursive_contract", [e] => do pure (replyE (recursiveContract (← wfExpr? e)))
  | "markov", [e] => do pure (replyB (hasMarkovPostcondition (← wfExpr? e)))
  | "well_scoped", [e] => do pure (replyB (.ok (WellScoped (← exprOf? e))))
  | "well_scoped_mw", [e] => do pure (replyB (.ok (WellScopedW (← exprOf? e))))
  | "den", [e, env, s, s'] => do
      let e ← exprOf? e
      let env ← envOf? env
      pure (tagged "ok" [ratToSexp (den env (← valOf? s') e (← valOf? s))])
  | _, _ => none

end Y0.Driver
