/-
  Property C05, second sentence at full strength — "When no surrogate experiment is USABLE it returns an estimand exactly
  when ID does."

  Props/C05 proves the verdict equivalence with ID for inputs whose source domains DECLARE no experiment
  (`trso_no_surrogate_iff_id_partial`).  Here the hypothesis is the weaker one of the property text: experiments may be
  declared, but line 6 (`trso_line6`) finds no usable source domain at any state of the run —
  `identifyUsesLine6 sep G Y X outcomes interventions = false` (Model/TrsoUse.lean: an executable instrumented copy of the
  recursion that answers `true` iff at some state where lines 6/7 are entered `line6` is not `.ok []`).

  Proof: such a run is, step for step, the run on the same query with the declared experiments forgotten
  (`trsoF_clearSurr`, Lemmas/TrsoUse: every recursive call passes the experiments on unchanged or cleared, and with
  `line6 = .ok []` lines 6/7 answer exactly what they answer without experiments).  The cleared initial query satisfies
  the target-phase invariant (`TInv.keys` by its left disjunct) and `NoSurr`, so the lock-step simulation TRSO ~ ID of
  Lemmas/TrsoIdSim (`trsoF_iff_idAlg`) and the totality of the target phase (`trsoF_target_ok`) apply to it.  The
  selection diagrams are the ones built from the DECLARED experiments (they are never consulted by the cleared run:
  lines 1-4, 8-10 read the current domain's graph only).

    `trso_no_usable_surrogate_iff_id`        estimand  iff  ID returns an estimand
    `trso_no_usable_surrogate_none_iff_id`   "no estimand"  iff  ID raises `Unidentifiable`
    `trso_no_usable_surrogate_no_error`      no exception on such inputs, whatever the separation test
    `identifyUsesLine6_of_no_declared`       the hypothesis is implied by the one of the `_partial` theorems of Props/C05
                                             (no experiment declared), so these theorems subsume them
-/
import Y0.Props.C05
import Y0.Lemmas.TrsoUse

namespace Y0
namespace Trso
open TrDsl

/-- the instrumented predicate on validated input is the one of the run on the initial query -/
theorem identifyUsesLine6_eq {sep : SepTest} {G : MG Name} {Y X : List Name} {outcomes interventions : List (Pop × List Name)}
    (hv : validInput G Y X outcomes interventions = true)
    {graphs : List (Pop × MG Name)} (hg : surrogateToTransport G outcomes interventions = .ok graphs) :
    identifyUsesLine6 sep G Y X outcomes interventions =
      usesLine6 sep (initialQuery G Y X graphs interventions).fuel (initialQuery G Y X graphs interventions) := by
  unfold identifyUsesLine6
  simp [hv, hg]

/-- the target-phase invariant does not read the declared experiments (except through `keys`, which a query without
experiments satisfies trivially) -/
theorem TInv.clearSurr {M : Nat} {q : Query} {G : MG Name} (h : TInv M q G) : TInv M (clearSurr q) G :=
  ⟨h.look, h.dom, h.act, h.wf, h.rk, h.noT, h.Yin, h.Yne, h.Xin, h.XY, h.sub, h.size, Or.inl rfl⟩

/-- the run on the cleared initial query: no error, and the verdict of ID -/
theorem trso_cleared_initial {topo : MG Name → Except Err (List Name)} (ht : TopoGood topo) (sep : SepTest)
    (G : MG Name) (hG : G.WF) (hA : G.Acyclic) (hsmall : ∀ v ∈ G.nodes, v < 200) (Y X : List Name)
    (outcomes interventions : List (Pop × List Name)) (hv : validInput G Y X outcomes interventions = true) (hY : Y ≠ [])
    {graphs : List (Pop × MG Name)} (hg : surrogateToTransport G outcomes interventions = .ok graphs) :
    (∃ r, trso sep (clearSurr (initialQuery G Y X graphs interventions)) = .ok r) ∧
    ((∃ e, trso sep (clearSurr (initialQuery G Y X graphs interventions)) = .ok (some e)) ↔
      (∃ e', identify topo G X Y = .ok e')) := by
  obtain ⟨hinv, hmu, hc⟩ := initial_inv hG hA (noT_of_small hsmall) hsmall hv hY hg
  have hns : NoSurr (clearSurr (initialQuery G Y X graphs interventions)) := noSurr_nil rfl
  refine ⟨?_, ?_⟩
  · obtain ⟨o, ho, _⟩ := trsoF_target_ok sep _ _ _ G hinv.clearSurr hns hc hmu
    exact ⟨o, ho⟩
  · obtain ⟨hYin, _, _, _, hXY, _, hne⟩ := validInput_spec hv
    obtain ⟨c, hcj⟩ := pJoint_ok hne
    unfold identify trso
    rw [hcj]
    exact trsoF_iff_idAlg ht sep _ _ _ G _ hinv.clearSurr hns hc hmu
      ⟨hG, MG.acyclic_ranked hG hA, hYin, hY, hXY, trivial⟩
      ⟨MG.equiv_refl G, fun v => (mem_nsort v X).symm, fun v => (mem_nsort v Y).symm⟩

/-- on validated input whose run never uses line 6, `identify_target_outcomes` is `trso` on the initial query with the
declared experiments forgotten -/
theorem identify_eq_trso_cleared {sep : SepTest} {G : MG Name} {Y X : List Name}
    {outcomes interventions : List (Pop × List Name)} (hv : validInput G Y X outcomes interventions = true)
    {graphs : List (Pop × MG Name)} (hg : surrogateToTransport G outcomes interventions = .ok graphs)
    (hU : identifyUsesLine6 sep G Y X outcomes interventions = false) :
    identifyTargetOutcomes sep G Y X outcomes interventions =
      trso sep (clearSurr (initialQuery G Y X graphs interventions)) := by
  rw [identify_eq_trso hv hg]
  rw [identifyUsesLine6_eq hv hg] at hU
  exact trso_clearSurr hU

/-- **With no USABLE surrogate experiment TRSO returns an estimand exactly when ID does** (verdict part of the second
sentence of C05, at the strength of the property text).  For every validated input over a well-formed acyclic graph of
user variables, with non-empty outcomes, ANY declared experiments and ANY separation test, such that line 6 finds no
usable source domain at any state of the run (`identifyUsesLine6 … = false`), `identify_target_outcomes` returns an
estimand iff the model of ID (`Y0.identify`, for any total topological-order oracle that lists the nodes) returns one. -/
theorem trso_no_usable_surrogate_iff_id {topo : MG Name → Except Err (List Name)} (ht : TopoGood topo) (sep : SepTest)
    (G : MG Name) (hG : G.WF) (hA : G.Acyclic) (hsmall : ∀ v ∈ G.nodes, v < 200) (Y X : List Name)
    (outcomes interventions : List (Pop × List Name)) (hv : validInput G Y X outcomes interventions = true) (hY : Y ≠ [])
    (hU : identifyUsesLine6 sep G Y X outcomes interventions = false) :
    (∃ e, identifyTargetOutcomes sep G Y X outcomes interventions = .ok (some e)) ↔
      (∃ e', identify topo G X Y = .ok e') := by
  obtain ⟨graphs, hg⟩ := surrogateToTransport_ok hG hv
  rw [identify_eq_trso_cleared hv hg hU]
  exact (trso_cleared_initial ht sep G hG hA hsmall Y X outcomes interventions hv hY hg).2

/-- on such inputs TRSO raises no exception: it returns an estimand or "no estimand" (any separation test) -/
theorem trso_no_usable_surrogate_no_error (sep : SepTest)
    (G : MG Name) (hG : G.WF) (hA : G.Acyclic) (hsmall : ∀ v ∈ G.nodes, v < 200) (Y X : List Name)
    (outcomes interventions : List (Pop × List Name)) (hv : validInput G Y X outcomes interventions = true) (hY : Y ≠ [])
    (hU : identifyUsesLine6 sep G Y X outcomes interventions = false) :
    ∃ r, identifyTargetOutcomes sep G Y X outcomes interventions = .ok r := by
  obtain ⟨graphs, hg⟩ := surrogateToTransport_ok hG hv
  rw [identify_eq_trso_cleared hv hg hU]
  exact (trso_cleared_initial ancTopo_good sep G hG hA hsmall Y X outcomes interventions hv hY hg).1

/-- the two refusals correspond as well: "no estimand" iff ID raises `Unidentifiable` -/
theorem trso_no_usable_surrogate_none_iff_id {topo : MG Name → Except Err (List Name)} (ht : TopoGood topo)
    (sep : SepTest) (G : MG Name) (hG : G.WF) (hA : G.Acyclic) (hsmall : ∀ v ∈ G.nodes, v < 200) (Y X : List Name)
    (outcomes interventions : List (Pop × List Name)) (hv : validInput G Y X outcomes interventions = true) (hY : Y ≠ [])
    (hU : identifyUsesLine6 sep G Y X outcomes interventions = false) :
    identifyTargetOutcomes sep G Y X outcomes interventions = .ok none ↔ identify topo G X Y = .error .unidentifiable := by
  have hiff := trso_no_usable_surrogate_iff_id ht sep G hG hA hsmall Y X outcomes interventions hv hY hU
  obtain ⟨r, hr⟩ := trso_no_usable_surrogate_no_error sep G hG hA hsmall Y X outcomes interventions hv hY hU
  obtain ⟨hYin, _, _, _, hXY, _, _⟩ := validInput_spec hv
  have hid := id_total ht G X Y ⟨hG, MG.acyclic_ranked hG hA, hYin, hY, hXY⟩
  constructor
  · intro hnone
    rcases hid with ⟨e', he'⟩ | hun
    · obtain ⟨e, he⟩ := hiff.2 ⟨e', he'⟩
      rw [hnone] at he; cases he
    · exact hun
  · intro hun
    cases r with
    | none => exact hr
    | some e =>
      obtain ⟨e', he'⟩ := hiff.1 ⟨e, hr⟩
      rw [hun] at he'; cases he'

end Trso
end Y0
