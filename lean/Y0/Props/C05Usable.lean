/-
  Property C05, second sentence at full strength — "When no surrogate experiment is USABLE it returns an estimand exactly
  when ID does."

  Props/C05 proves the verdict equivalence with ID for inputs whose source domains DECLARE no experiment
  (`trso_no_surrogate_iff_id_partial`).  Here the hypothesis is the weaker one of the property text: experiments may be
  declared, but line 6 (`trso_line6`) finds no usable source domain at any state of the run —
  `identifyUsesLine6 sep G Y X outcomes interventions = false` (Model/TrsoUse.lean: an executable instrumented copy of the
  recursion that answers `true` iff at some state where lines 6/7 are entered `line6` is not `.ok []`).

  Proof: such a run is, step for step, the run on the same query with the declared experiments forgotten
  (`trsoF_clearSurr`, Lemmas/TrsoUse: every recursive call passes the experiments on unchanged or cleared, and with
  `line6 = .ok []` lines 6/7 answer exactly what they answer without experiments).  The cleared initial query satisfies
  the target-phase invariant (`TInv.keys` by its left disjunct) and `NoSurr`, so the lock-step simulation TRSO ~ ID of
  Lemmas/TrsoIdSim (`trsoF_iff_idAlg`) and the totality of the target phase (`trsoF_target_ok`) apply to it.  The
  selection diagrams are the ones built from the DECLARED experiments (they are never consulted by the cleared run:
  lines 1-4, 8-10 read the current domain's graph only).

    `trso_no_usable_surrogate_iff_id`        estimand  iff  ID returns an estimand
    `trso_no_usable_surrogate_none_iff_id`   "no estimand"  iff  ID raises `Unidentifiable`
    `trso_no_usable_surrogate_no_error`      no exception on such inputs, whatever the separation test
    `identifyUsesLine6_of_no_declared`       the hypothesis is implied by the one of the `_partial` theorems of Props/C05
                                             (no experiment declared), so these theorems subsume them
    `trso_sound_no_usable_surrogate`         the estimand of such a run denotes `P(Y | do(X))` in every compatible model
    `trso_no_usable_surrogate_den_eq_id`     ... hence the function the ID estimand denotes

  EXACT hypothesis.  `identifyUsesLine6` inspects every component of line 4, also those the loop of line 4 never
  evaluates because an earlier component was refused.  `identifyUsesLine6x` reads line 4 lazily (a later component is
  inspected only if every earlier one returned an estimand) and is `true` exactly when the run really enters line 6 and
  `line6` is not `.ok []`.  The theorems are proved for it (`trsoF_clearSurr_x`), the ones above are corollaries
  (`identifyUsesLine6x_false_of`: conservative `false` implies exact `false`):

    `trso_line6_unused_iff_id`, `trso_line6_unused_none_iff_id`, `trso_line6_unused_no_error`,
    `trso_sound_line6_unused`, `trso_line6_unused_den_eq_id`, `identifyUsesLine6x_of_no_declared`,
    `trso_line6_unused_target_only` (the estimand reads the target observational distribution only; corollary
    `trso_no_usable_surrogate_target_only`; generalises `trso_no_domains_target_only` of Props/C05)
-/
import Y0.Props.C05
import Y0.Lemmas.TrsoUse

namespace Y0
namespace Trso
open TrDsl

/-- the instrumented predicate on validated input is the one of the run on the initial query -/
theorem identifyUsesLine6_eq {sep : SepTest} {G : MG Name} {Y X : List Name} {outcomes interventions : List (Pop × List Name)}
    (hv : validInput G Y X outcomes interventions = true)
    {graphs : List (Pop × MG Name)} (hg : surrogateToTransport G outcomes interventions = .ok graphs) :
    identifyUsesLine6 sep G Y X outcomes interventions =
      usesLine6 sep (initialQuery G Y X graphs interventions).fuel (initialQuery G Y X graphs interventions) := by
  unfold identifyUsesLine6
  simp [hv, hg]

/-- the target-phase invariant does not read the declared experiments (except through `keys`, which a query without
experiments satisfies trivially) -/
theorem TInv.clearSurr {M : Nat} {q : Query} {G : MG Name} (h : TInv M q G) : TInv M (clearSurr q) G :=
  ⟨h.look, h.dom, h.act, h.wf, h.rk, h.noT, h.Yin, h.Yne, h.Xin, h.XY, h.sub, h.size, Or.inl rfl⟩

/-- the run on the cleared initial query: no error, and the verdict of ID -/
theorem trso_cleared_initial {topo : MG Name → Except Err (List Name)} (ht : TopoGood topo) (sep : SepTest)
    (G : MG Name) (hG : G.WF) (hA : G.Acyclic) (hsmall : ∀ v ∈ G.nodes, v < 200) (Y X : List Name)
    (outcomes interventions : List (Pop × List Name)) (hv : validInput G Y X outcomes interventions = true) (hY : Y ≠ [])
    {graphs : List (Pop × MG Name)} (hg : surrogateToTransport G outcomes interventions = .ok graphs) :
    (∃ r, trso sep (clearSurr (initialQuery G Y X graphs interventions)) = .ok r) ∧
    ((∃ e, trso sep (clearSurr (initialQuery G Y X graphs interventions)) = .ok (some e)) ↔
      (∃ e', identify topo G X Y = .ok e')) := by
  obtain ⟨hinv, hmu, hc⟩ := initial_inv hG hA (noT_of_small hsmall) hsmall hv hY hg
  have hns : NoSurr (clearSurr (initialQuery G Y X graphs interventions)) := noSurr_nil rfl
  refine ⟨?_, ?_⟩
  · obtain ⟨o, ho, _⟩ := trsoF_target_ok sep _ _ _ G hinv.clearSurr hns hc hmu
    exact ⟨o, ho⟩
  · obtain ⟨hYin, _, _, _, hXY, _, hne⟩ := validInput_spec hv
    obtain ⟨c, hcj⟩ := pJoint_ok hne
    unfold identify trso
    rw [hcj]
    exact trsoF_iff_idAlg ht sep _ _ _ G _ hinv.clearSurr hns hc hmu
      ⟨hG, MG.acyclic_ranked hG hA, hYin, hY, hXY, trivial⟩
      ⟨MG.equiv_refl G, fun v => (mem_nsort v X).symm, fun v => (mem_nsort v Y).symm⟩

/-- the exact predicate on validated input is the one of the run on the initial query -/
theorem identifyUsesLine6x_eq {sep : SepTest} {G : MG Name} {Y X : List Name} {outcomes interventions : List (Pop × List Name)}
    (hv : validInput G Y X outcomes interventions = true)
    {graphs : List (Pop × MG Name)} (hg : surrogateToTransport G outcomes interventions = .ok graphs) :
    identifyUsesLine6x sep G Y X outcomes interventions =
      usesLine6x sep (initialQuery G Y X graphs interventions).fuel (initialQuery G Y X graphs interventions) := by
  unfold identifyUsesLine6x
  simp [hv, hg]

/-- the exact predicate (line 4 read lazily) is below the conservative one: `identifyUsesLine6x … = false` is the
weaker hypothesis -/
theorem identifyUsesLine6x_false_of {sep : SepTest} {G : MG Name} {Y X : List Name}
    {outcomes interventions : List (Pop × List Name)}
    (h : identifyUsesLine6 sep G Y X outcomes interventions = false) :
    identifyUsesLine6x sep G Y X outcomes interventions = false := by
  unfold identifyUsesLine6 at h
  unfold identifyUsesLine6x
  split
  · rfl
  · rename_i hvv
    rw [if_neg hvv] at h
    cases hg : surrogateToTransport G outcomes interventions with
    | error e => rfl
    | ok graphs =>
      rw [hg] at h
      exact usesLine6x_false_of sep _ _ h

theorem identifyUsesLine6x_le {sep : SepTest} {G : MG Name} {Y X : List Name}
    {outcomes interventions : List (Pop × List Name)}
    (h : identifyUsesLine6x sep G Y X outcomes interventions = true) :
    identifyUsesLine6 sep G Y X outcomes interventions = true := by
  cases hu : identifyUsesLine6 sep G Y X outcomes interventions with
  | true => rfl
  | false => rw [identifyUsesLine6x_false_of hu] at h; cases h

/-- on validated input whose run never uses line 6, `identify_target_outcomes` is `trso` on the initial query with the
declared experiments forgotten -/
theorem identify_eq_trso_cleared_x {sep : SepTest} {G : MG Name} {Y X : List Name}
    {outcomes interventions : List (Pop × List Name)} (hv : validInput G Y X outcomes interventions = true)
    {graphs : List (Pop × MG Name)} (hg : surrogateToTransport G outcomes interventions = .ok graphs)
    (hU : identifyUsesLine6x sep G Y X outcomes interventions = false) :
    identifyTargetOutcomes sep G Y X outcomes interventions =
      trso sep (clearSurr (initialQuery G Y X graphs interventions)) := by
  rw [identify_eq_trso hv hg]
  rw [identifyUsesLine6x_eq hv hg] at hU
  exact trso_clearSurr_x hU

/-- **With no USABLE surrogate experiment TRSO returns an estimand exactly when ID does** (verdict part of the second
sentence of C05, at the strength of the property text).  For every validated input over a well-formed acyclic graph of
user variables, with non-empty outcomes, ANY declared experiments and ANY separation test, such that line 6 finds no
usable source domain at any state of the run (`identifyUsesLine6x … = false`: no state the run really reaches), `identify_target_outcomes` returns an
estimand iff the model of ID (`Y0.identify`, for any total topological-order oracle that lists the nodes) returns one. -/
theorem trso_line6_unused_iff_id {topo : MG Name → Except Err (List Name)} (ht : TopoGood topo) (sep : SepTest)
    (G : MG Name) (hG : G.WF) (hA : G.Acyclic) (hsmall : ∀ v ∈ G.nodes, v < 200) (Y X : List Name)
    (outcomes interventions : List (Pop × List Name)) (hv : validInput G Y X outcomes interventions = true) (hY : Y ≠ [])
    (hU : identifyUsesLine6x sep G Y X outcomes interventions = false) :
    (∃ e, identifyTargetOutcomes sep G Y X outcomes interventions = .ok (some e)) ↔
      (∃ e', identify topo G X Y = .ok e') := by
  obtain ⟨graphs, hg⟩ := surrogateToTransport_ok hG hv
  rw [identify_eq_trso_cleared_x hv hg hU]
  exact (trso_cleared_initial ht sep G hG hA hsmall Y X outcomes interventions hv hY hg).2

/-- on such inputs TRSO raises no exception: it returns an estimand or "no estimand" (any separation test) -/
theorem trso_line6_unused_no_error (sep : SepTest)
    (G : MG Name) (hG : G.WF) (hA : G.Acyclic) (hsmall : ∀ v ∈ G.nodes, v < 200) (Y X : List Name)
    (outcomes interventions : List (Pop × List Name)) (hv : validInput G Y X outcomes interventions = true) (hY : Y ≠ [])
    (hU : identifyUsesLine6x sep G Y X outcomes interventions = false) :
    ∃ r, identifyTargetOutcomes sep G Y X outcomes interventions = .ok r := by
  obtain ⟨graphs, hg⟩ := surrogateToTransport_ok hG hv
  rw [identify_eq_trso_cleared_x hv hg hU]
  exact (trso_cleared_initial ancTopo_good sep G hG hA hsmall Y X outcomes interventions hv hY hg).1

/-- the two refusals correspond as well: "no estimand" iff ID raises `Unidentifiable` -/
theorem trso_line6_unused_none_iff_id {topo : MG Name → Except Err (List Name)} (ht : TopoGood topo)
    (sep : SepTest) (G : MG Name) (hG : G.WF) (hA : G.Acyclic) (hsmall : ∀ v ∈ G.nodes, v < 200) (Y X : List Name)
    (outcomes interventions : List (Pop × List Name)) (hv : validInput G Y X outcomes interventions = true) (hY : Y ≠ [])
    (hU : identifyUsesLine6x sep G Y X outcomes interventions = false) :
    identifyTargetOutcomes sep G Y X outcomes interventions = .ok none ↔ identify topo G X Y = .error .unidentifiable := by
  have hiff := trso_line6_unused_iff_id ht sep G hG hA hsmall Y X outcomes interventions hv hY hU
  obtain ⟨r, hr⟩ := trso_line6_unused_no_error sep G hG hA hsmall Y X outcomes interventions hv hY hU
  obtain ⟨hYin, _, _, _, hXY, _, _⟩ := validInput_spec hv
  have hid := id_total ht G X Y ⟨hG, MG.acyclic_ranked hG hA, hYin, hY, hXY⟩
  constructor
  · intro hnone
    rcases hid with ⟨e', he'⟩ | hun
    · obtain ⟨e, he⟩ := hiff.2 ⟨e', he'⟩
      rw [hnone] at he; cases he
    · exact hun
  · intro hun
    cases r with
    | none => exact hr
    | some e =>
      obtain ⟨e', he'⟩ := hiff.1 ⟨e, hr⟩
      rw [hun] at he'; cases he'

/-! ### denotations: the estimand of such a run is `P(Y | do(X))`, hence the function the ID estimand denotes -/

/-- the full invariant does not read the declared experiments either (target phase) -/
theorem QInv.clearSurr_target {M : Nat} {q : Query} {G : MG Name} (h : QInv M q G) (ha : q.active = [])
    (hd : q.domain = targetPop) (hT : ∀ v ∈ G.nodes, isTnode v = false) : QInv M (clearSurr q) G :=
  ⟨h.look, h.wf, h.rk, h.tpl, h.tbi, h.Yin, h.YT, h.Yne, h.Xin, h.XY, h.sub, h.size, Or.inl ⟨ha, hd, hT, Or.inl rfl⟩⟩

/-- **With no usable surrogate experiment the TRSO estimand is sound against every single model**: for every validated
input over a well-formed acyclic graph of user variables (names below 100), with non-empty outcomes, any declared
experiments and any separation test, if line 6 finds no usable domain during the run then every estimand
`identify_target_outcomes` returns denotes `P(Y | do(X))` (`Scm.doProb`) in EVERY positive semi-Markovian model
compatible with the graph, at every assignment.  (Same proof as `trso_sound_no_surrogate_core`, on the cleared query.) -/
theorem trso_sound_line6_unused (sep : SepTest) (G : MG Name) (hG : G.WF) (hA : G.Acyclic)
    (hsmall : ∀ v ∈ G.nodes, v < 100) (Y X : List Name) (outcomes interventions : List (Pop × List Name))
    (hv : validInput G Y X outcomes interventions = true) (hY : Y ≠ [])
    (hU : identifyUsesLine6x sep G Y X outcomes interventions = false)
    (e : Expr) (h : identifyTargetOutcomes sep G Y X outcomes interventions = .ok (some e))
    (M : Scm) (hM : M.Compatible G) (σ' σ : Val) :
    den (M.env G) σ' e σ = M.doProb G X Y σ := by
  obtain ⟨graphs, hg⟩ := surrogateToTransport_ok hG hv
  obtain ⟨hinv0, _, _, _⟩ := qinitial_inv hG hA hsmall hv hY hg
  rw [identify_eq_trso_cleared_x hv hg hU] at h
  have hr : G.Ranked := MG.acyclic_ranked hG hA
  have hsmall' : ∀ v ∈ G.nodes, v < 200 := fun v hv => Nat.lt_trans (hsmall v hv) (by decide)
  have hnoT : ∀ v ∈ G.nodes, isTnode v = false := noT_of_small hsmall'
  have hinv := hinv0.clearSurr_target rfl rfl hnoT
  set q := clearSurr (initialQuery G Y X graphs interventions) with hqdef
  let pops : List Name := targetPop :: graphs.map (fun p => p.1)
  have hcoinMem : TargetClass G hG hr pops σ' (famCtx (constFam coinScm G) G pops σ'
      (constFam_ok (coinScm_compatible G) hG hr _)) := ⟨coinScm, coinScm_compatible G, rfl⟩
  have hcoin : Coin (famCtx (constFam coinScm G) G pops σ' (constFam_ok (coinScm_compatible G) hG hr _)) :=
    coin_famCtx G hG hr pops σ'
  have hsub : ∀ p ∈ graphs, RSub G p.2 := by
    intro p hp
    rcases (surrogateToTransport_spec hG hv hg).2 p hp with rfl | ⟨_, ns, hns, hp2⟩
    · exact rsub_self
    · rw [hp2]; exact rsub_ctd hsmall hns
  have hI : Inv (TargetClass G hG hr pops σ') q G := by
    rintro ctx ⟨M', hM', rfl⟩
    exact famCtx_initial σ' (constFam_ok hM' hG hr _) (List.mem_cons_self) rfl hnoT Y X graphs [] hsub
      (fun p _ v hne => absurd rfl hne) (fun p hp => List.mem_cons_of_mem _ (List.mem_map_of_mem hp))
  have hK : KNoSurr q := ⟨noSurr_nil rfl, rfl⟩
  obtain ⟨hgood, _, hden⟩ := trsoF_sound_engine sep (TargetClass G hG hr pops σ') hcoinMem hcoin KNoSurr kNoSurr_stable _
    (h67_noSurr sep _ _) q.fuel q G hinv hI hK e h _ ⟨M, hM, rfl⟩
  rw [show M.env G = (constFam M G).env from rfl, den_eq_denL_of_clean _ σ' hgood.1 σ]
  exact (hden σ).trans (spec_eq_doProb M G hnoT X Y σ)

/-- **... and it is the function the ID estimand denotes** (with `trso_line6_unused_iff_id`: the clause "when no
surrogate experiment is usable it returns an estimand exactly when ID does", verdict and value) -/
theorem trso_line6_unused_den_eq_id {topo : MG Name → Except Err (List Name)} (ts : TopoSound topo) (sep : SepTest)
    (G : MG Name) (hG : G.WF) (hA : G.Acyclic) (hsmall : ∀ v ∈ G.nodes, v < 100) (Y X : List Name)
    (outcomes interventions : List (Pop × List Name)) (hv : validInput G Y X outcomes interventions = true) (hY : Y ≠ [])
    (hU : identifyUsesLine6x sep G Y X outcomes interventions = false) (e e' : Expr)
    (h : identifyTargetOutcomes sep G Y X outcomes interventions = .ok (some e)) (h' : identify topo G X Y = .ok e')
    (M : Scm) (hM : M.Compatible G) (σ' σ : Val) :
    den (M.env G) σ' e σ = den (M.env G) σ' e' σ := by
  obtain ⟨hYin, _, _, _, hXY, _, _⟩ := validInput_spec hv
  rw [trso_sound_line6_unused sep G hG hA hsmall Y X outcomes interventions hv hY hU e h M hM σ' σ,
    id_sound ts G X Y ⟨hG, MG.acyclic_ranked hG hA, hYin, hY, hXY⟩ e' h' M hM σ' σ]

/-! ### the conservative hypothesis (`identifyUsesLine6`: every component of line 4 inspected) — corollaries -/

theorem identify_eq_trso_cleared {sep : SepTest} {G : MG Name} {Y X : List Name}
    {outcomes interventions : List (Pop × List Name)} (hv : validInput G Y X outcomes interventions = true)
    {graphs : List (Pop × MG Name)} (hg : surrogateToTransport G outcomes interventions = .ok graphs)
    (hU : identifyUsesLine6 sep G Y X outcomes interventions = false) :
    identifyTargetOutcomes sep G Y X outcomes interventions =
      trso sep (clearSurr (initialQuery G Y X graphs interventions)) :=
  identify_eq_trso_cleared_x hv hg (identifyUsesLine6x_false_of hU)

/-- `trso_line6_unused_iff_id` under the conservative hypothesis -/
theorem trso_no_usable_surrogate_iff_id {topo : MG Name → Except Err (List Name)} (ht : TopoGood topo) (sep : SepTest)
    (G : MG Name) (hG : G.WF) (hA : G.Acyclic) (hsmall : ∀ v ∈ G.nodes, v < 200) (Y X : List Name)
    (outcomes interventions : List (Pop × List Name)) (hv : validInput G Y X outcomes interventions = true) (hY : Y ≠ [])
    (hU : identifyUsesLine6 sep G Y X outcomes interventions = false) :
    (∃ e, identifyTargetOutcomes sep G Y X outcomes interventions = .ok (some e)) ↔
      (∃ e', identify topo G X Y = .ok e') :=
  trso_line6_unused_iff_id ht sep G hG hA hsmall Y X outcomes interventions hv hY (identifyUsesLine6x_false_of hU)

/-- `trso_line6_unused_no_error` under the conservative hypothesis -/
theorem trso_no_usable_surrogate_no_error (sep : SepTest)
    (G : MG Name) (hG : G.WF) (hA : G.Acyclic) (hsmall : ∀ v ∈ G.nodes, v < 200) (Y X : List Name)
    (outcomes interventions : List (Pop × List Name)) (hv : validInput G Y X outcomes interventions = true) (hY : Y ≠ [])
    (hU : identifyUsesLine6 sep G Y X outcomes interventions = false) :
    ∃ r, identifyTargetOutcomes sep G Y X outcomes interventions = .ok r :=
  trso_line6_unused_no_error sep G hG hA hsmall Y X outcomes interventions hv hY (identifyUsesLine6x_false_of hU)

/-- `trso_line6_unused_none_iff_id` under the conservative hypothesis -/
theorem trso_no_usable_surrogate_none_iff_id {topo : MG Name → Except Err (List Name)} (ht : TopoGood topo)
    (sep : SepTest) (G : MG Name) (hG : G.WF) (hA : G.Acyclic) (hsmall : ∀ v ∈ G.nodes, v < 200) (Y X : List Name)
    (outcomes interventions : List (Pop × List Name)) (hv : validInput G Y X outcomes interventions = true) (hY : Y ≠ [])
    (hU : identifyUsesLine6 sep G Y X outcomes interventions = false) :
    identifyTargetOutcomes sep G Y X outcomes interventions = .ok none ↔ identify topo G X Y = .error .unidentifiable :=
  trso_line6_unused_none_iff_id ht sep G hG hA hsmall Y X outcomes interventions hv hY (identifyUsesLine6x_false_of hU)

/-- `trso_sound_line6_unused` under the conservative hypothesis -/
theorem trso_sound_no_usable_surrogate (sep : SepTest) (G : MG Name) (hG : G.WF) (hA : G.Acyclic)
    (hsmall : ∀ v ∈ G.nodes, v < 100) (Y X : List Name) (outcomes interventions : List (Pop × List Name))
    (hv : validInput G Y X outcomes interventions = true) (hY : Y ≠ [])
    (hU : identifyUsesLine6 sep G Y X outcomes interventions = false)
    (e : Expr) (h : identifyTargetOutcomes sep G Y X outcomes interventions = .ok (some e))
    (M : Scm) (hM : M.Compatible G) (σ' σ : Val) :
    den (M.env G) σ' e σ = M.doProb G X Y σ :=
  trso_sound_line6_unused sep G hG hA hsmall Y X outcomes interventions hv hY (identifyUsesLine6x_false_of hU) e h M hM σ' σ

/-- `trso_line6_unused_den_eq_id` under the conservative hypothesis -/
theorem trso_no_usable_surrogate_den_eq_id {topo : MG Name → Except Err (List Name)} (ts : TopoSound topo) (sep : SepTest)
    (G : MG Name) (hG : G.WF) (hA : G.Acyclic) (hsmall : ∀ v ∈ G.nodes, v < 100) (Y X : List Name)
    (outcomes interventions : List (Pop × List Name)) (hv : validInput G Y X outcomes interventions = true) (hY : Y ≠ [])
    (hU : identifyUsesLine6 sep G Y X outcomes interventions = false) (e e' : Expr)
    (h : identifyTargetOutcomes sep G Y X outcomes interventions = .ok (some e)) (h' : identify topo G X Y = .ok e')
    (M : Scm) (hM : M.Compatible G) (σ' σ : Val) :
    den (M.env G) σ' e σ = den (M.env G) σ' e' σ :=
  trso_line6_unused_den_eq_id ts sep G hG hA hsmall Y X outcomes interventions hv hY (identifyUsesLine6x_false_of hU)
    e e' h h' M hM σ' σ

/-! ### the hypothesis "no experiment declared" of Props/C05 implies "no experiment usable" -/

/-- with no declared experiment line 6 proposes nothing -/
theorem line6Fires_false_of_noSurr {M : Nat} {q : Query} {G : MG Name} (sep : SepTest) (h : TInv M q G) (hs : NoSurr q) :
    line6Fires sep q = false := by
  unfold line6Fires
  cases hguard : (q.active.isEmpty && !q.surr.isEmpty) with
  | false => rfl
  | true =>
    have hne : q.surr ≠ [] := by
      intro h0
      simp [h0] at hguard
    have hkeys := h.keys.resolve_left hne
    have hl : line6 sep q = .ok [] := by
      apply line6_nil
      intro p hp hpt
      obtain ⟨Z, hZ⟩ := hkeys p hp hpt
      have : Z = [] := hs _ (lookup_key hZ)
      rw [hZ, this]
    rw [hl]
    rfl

/-- a target-phase run without declared experiments never uses line 6 (recursion level; mirrors `trsoF_target_ok`) -/
theorem usesLine6_false_of_noSurr (sep : SepTest) (M : Nat) :
    ∀ (fuel : Nat) (q : Query) (G : MG Name), TInv M q G → NoSurr q → Clean q.expr → usesLine6 sep fuel q = false
  | 0, _, _, _, _, _ => rfl
  | fuel + 1, q, G, h, hs, hc => by
    have ih := usesLine6_false_of_noSurr sep M fuel
    have hg : q.graph = .ok G := h.look
    unfold usesLine6
    rw [hg]
    simp only []
    split
    · rfl
    · obtain ⟨anc, hanc⟩ := h.anc_ok
      rw [hanc]
      simp only []
      split
      · -- line 2
        rename_i hne
        have hne' : (diff' (regularNodes G) anc).isEmpty = false := by simpa using hne
        obtain ⟨q', G', hq', hinv', _, hc', hsurr'⟩ := line2_ok h hanc hne' Clean (fun r => line2_expr_ok hc)
        rw [hq']
        exact ih q' G' hinv' (noSurr_of_eq hs hsurr') hc'
      · obtain ⟨extra, hex⟩ := h.noEffect_ok
        rw [hex]
        simp only []
        split
        · -- line 3
          rename_i hne
          have hne' : extra.isEmpty = false := by simpa using hne
          obtain ⟨hinv', _⟩ := line3_inv h hex hne'
          exact ih (line3 q extra) G hinv' (noSurr_of_eq hs rfl) hc
        · split
          · -- line 4
            rename_i hlen
            have h4 := line4_inv h hlen
            apply List.any_eq_false.2
            intro s hs'
            obtain ⟨hinv', _, hexpr, hsurr'⟩ := h4 s hs'
            rw [ih s G hinv' (noSurr_of_eq hs hsurr') (hexpr ▸ hc)]
            exact Bool.false_ne_true
          · -- lines 6-11
            rename_i hlen
            rw [line6Fires_false_of_noSurr sep h hs, Bool.false_or]
            apply List.any_eq_false.2
            intro s hs'
            suffices hsf : usesLine6 sep fuel s = false by rw [hsf]; exact Bool.false_ne_true
            unfold sub811 at hs'
            split at hs'
            · cases hs'
            · rename_i hdl
              have hdne := h.dwi_ne
              cases hd : (G.removeNodes q.X).districts with
              | nil => exact absurd hd hdne
              | cons c rest =>
                have hrest : rest = [] := by
                  cases rest with
                  | nil => rfl
                  | cons a as => rw [hd] at hlen; simp at hlen
                subst hrest
                obtain ⟨hcmem, hYc, hcne⟩ := h.single_dwi hd
                obtain ⟨order, hord, hcomp⟩ := h.order_ok
                rw [hd] at hs'
                simp only [] at hs'
                split at hs'
                · cases hs'
                · obtain ⟨c', hfil, hc'd, hcc', hc'n⟩ := h.super_district hd
                  rw [hfil] at hs'
                  simp only [] at hs'
                  have hsurr10 : line10Surr q G c' = .ok (some []) := by
                    unfold line10Surr; simp [h.act]
                  rw [hsurr10] at hs'
                  simp only [] at hs'
                  have hin : ∀ v ∈ nsort c', v ∈ order := fun v hv => hcomp v (hc'n v ((mem_nsort v c').1 hv))
                  obtain ⟨q', hq', hcq', hX, hYq, hact, hdom, hsurr, hgr⟩ := line10_ok (s := []) hc hord hin
                  rw [hq'] at hs'
                  simp only [] at hs'
                  obtain rfl := List.mem_singleton.1 hs'
                  obtain ⟨hinv', _⟩ :=
                    line10_tinv h hc'd (fun y hy => hcc' y (hYc y hy)) hdl hX hYq hact hdom hsurr hgr
                  exact ih s _ hinv' (noSurr_nil hsurr) hcq'

/-- **"No experiment declared" implies "no experiment usable"**: the hypothesis of the `_partial` theorems of Props/C05
implies the hypothesis of the theorems above, which therefore subsume them -/
theorem identifyUsesLine6_of_no_declared (sep : SepTest)
    (G : MG Name) (hG : G.WF) (hA : G.Acyclic) (hsmall : ∀ v ∈ G.nodes, v < 200) (Y X : List Name)
    (outcomes interventions : List (Pop × List Name)) (hv : validInput G Y X outcomes interventions = true) (hY : Y ≠ [])
    (hZ : ∀ p ∈ interventions, p.2 = []) :
    identifyUsesLine6 sep G Y X outcomes interventions = false := by
  obtain ⟨graphs, hg⟩ := surrogateToTransport_ok hG hv
  obtain ⟨hinv, _, hc⟩ := initial_inv hG hA (noT_of_small hsmall) hsmall hv hY hg
  rw [identifyUsesLine6_eq hv hg]
  exact usesLine6_false_of_noSurr sep _ _ _ G hinv (initial_noSurr hZ) hc

/-- ... hence also for the exact predicate -/
theorem identifyUsesLine6x_of_no_declared (sep : SepTest)
    (G : MG Name) (hG : G.WF) (hA : G.Acyclic) (hsmall : ∀ v ∈ G.nodes, v < 200) (Y X : List Name)
    (outcomes interventions : List (Pop × List Name)) (hv : validInput G Y X outcomes interventions = true) (hY : Y ≠ [])
    (hZ : ∀ p ∈ interventions, p.2 = []) :
    identifyUsesLine6x sep G Y X outcomes interventions = false :=
  identifyUsesLine6x_false_of (identifyUsesLine6_of_no_declared sep G hG hA hsmall Y X outcomes interventions hv hY hZ)

/-! ### vocabulary: with no usable experiment the estimand reads nothing but what ID may read -/

/-- **With line 6 unused the estimand reads the target observational distribution only**: every leaf is a target
observational term over plain non-selection variables, no source distribution is read (`TargetOnly`, Props/C06Transport)
- whatever experiments are declared.  No hypothesis on the graph beyond "no selection node among the user's nodes"; an
input that is rejected returns no estimand.  Proof: the run is the run on the cleared initial query
(`trsoF_clearSurr_x`), to which the vocabulary invariant `trsoF_vocab_target` applies with NO declared experiment
(it is stated for any target-domain query whose usable experiments are declared ones; the graphs of the query are
not constrained). -/
theorem trso_line6_unused_target_only (sep : SepTest) (G : MG Name) (Y X : List Name)
    (outcomes interventions : List (Pop × List Name)) (hG : ∀ v ∈ G.nodes, isTnode v = false)
    (hU : identifyUsesLine6x sep G Y X outcomes interventions = false) (e : Expr)
    (h : identifyTargetOutcomes sep G Y X outcomes interventions = .ok (some e)) : TargetOnly e := by
  cases hv : validInput G Y X outcomes interventions with
  | false => unfold identifyTargetOutcomes at h; simp [hv] at h
  | true =>
    cases hg : surrogateToTransport G outcomes interventions with
    | error err => unfold identifyTargetOutcomes at h; simp [hv, hg] at h
    | ok graphs =>
      rw [identify_eq_trso_cleared_x hv hg hU] at h
      unfold trso at h
      have hvoc : Voc [] e := by
        refine trsoF_vocab_target [] sep _ _ e rfl rfl (fun p hp => by cases hp) ?_ h
        show Wf TargetLeaf PlainReg (Expr.prob (some (popVar targetPop)) (plainVars G.nodes) [])
        exact ⟨rfl, fun v hv => plainVars_reg hG v (by simpa using hv)⟩
      refine wf_mono ?_ e hvoc
      intro pop c p hl
      rcases hl with hl | ⟨d, Z, _, _, hmem, _⟩
      · exact hl
      · cases hmem

/-- `trso_line6_unused_target_only` under the conservative hypothesis -/
theorem trso_no_usable_surrogate_target_only (sep : SepTest) (G : MG Name) (Y X : List Name)
    (outcomes interventions : List (Pop × List Name)) (hG : ∀ v ∈ G.nodes, isTnode v = false)
    (hU : identifyUsesLine6 sep G Y X outcomes interventions = false) (e : Expr)
    (h : identifyTargetOutcomes sep G Y X outcomes interventions = .ok (some e)) : TargetOnly e :=
  trso_line6_unused_target_only sep G Y X outcomes interventions hG (identifyUsesLine6x_false_of hU) e h

/-! ### non-vacuity -/

/-- the napkin graph `0 → 1 → 2 → 3`, `0 ↔ 2`, `0 ↔ 3` -/
private def napkin : MG Name := MG.fromEdges [] [(0, 1), (1, 2), (2, 3)] [(0, 2), (0, 3)]
/-- the bow `0 → 1`, `0 ↔ 1` -/
private def bow : MG Name := MG.fromEdges [] [(0, 1)] [(0, 1)]

/-- a DECLARED experiment that is not usable, on an identifiable query: source domain 1001 declares an experiment on
variable `1`.  Line 3 moves `0, 1` into the interventions, so at line 6 the domain does have an experiment on an
intervention and the separation test IS evaluated - and fails (the selection node `T_3` points into the outcome `3`).
The run never uses line 6, `trso_no_usable_surrogate_iff_id` applies (its hypotheses hold), and TRSO returns an estimand
(lines 3, 10, 9), as ID does.  `hZ` of `trso_no_surrogate_iff_id_partial` does not hold for this input. -/
example : validInput napkin [3] [2] [(1001, [1])] [(1001, [1])] = true ∧
    identifyUsesLine6 dSeparated napkin [3] [2] [(1001, [1])] [(1001, [1])] = false ∧
    ∃ e, identifyTargetOutcomes dSeparated napkin [3] [2] [(1001, [1])] [(1001, [1])] = .ok (some e) :=
  ⟨rfl, rfl, _, rfl⟩

/-- a declared experiment that is not usable, on a query ID refuses: the bow with an experiment on the outcome (never
among the interventions).  The predicate is `false`, TRSO answers "no estimand", ID raises `Unidentifiable`
(`trso_no_usable_surrogate_none_iff_id`). -/
example : validInput bow [1] [0] [(1001, [1])] [(1001, [1])] = true ∧
    identifyUsesLine6 dSeparated bow [1] [0] [(1001, [1])] [(1001, [1])] = false ∧
    identifyTargetOutcomes dSeparated bow [1] [0] [(1001, [1])] [(1001, [1])] = .ok none :=
  ⟨rfl, rfl, rfl⟩

/-- the predicate is not constantly `false`: with an experiment on the intervention `2` and surrogate outcome `3`
line 6 finds domain 1001 usable -/
example : identifyUsesLine6 dSeparated napkin [3] [2] [(1001, [3])] [(1001, [2])] = true := rfl

/-- ... and a used experiment changes the verdict: on the bow, which ID refuses, an experiment on the intervention
makes TRSO answer (so the hypothesis `identifyUsesLine6 … = false` cannot be dropped) -/
example : identifyUsesLine6 dSeparated bow [1] [0] [(1001, [1])] [(1001, [0])] = true ∧
    ∃ e, identifyTargetOutcomes dSeparated bow [1] [0] [(1001, [1])] [(1001, [0])] = .ok (some e) :=
  ⟨rfl, _, rfl⟩

/-- two bows `0 → 1`, `0 ↔ 1` and `3 → 2`, `3 ↔ 2` -/
private def twoBows : MG Name := MG.fromEdges [] [(0, 1), (3, 2)] [(0, 1), (3, 2)]

/-- the exact predicate is strictly weaker than the conservative one: line 4 splits `{1, 2}` into the components `{1}`
and `{2}`; the first (a bow, no experiment on `0`) is refused, so the loop of line 4 stops and the run never uses line 6;
the second component, never evaluated, would use the experiment on `3`.  `identifyUsesLine6` inspects it (`true`),
`identifyUsesLine6x` does not (`false`); TRSO answers "no estimand", as ID does (`trso_line6_unused_none_iff_id`). -/
example : validInput twoBows [1, 2] [0, 3] [(1001, [2])] [(1001, [3])] = true ∧
    identifyUsesLine6 dSeparated twoBows [1, 2] [0, 3] [(1001, [2])] [(1001, [3])] = true ∧
    identifyUsesLine6x dSeparated twoBows [1, 2] [0, 3] [(1001, [2])] [(1001, [3])] = false ∧
    identifyTargetOutcomes dSeparated twoBows [1, 2] [0, 3] [(1001, [2])] [(1001, [3])] = .ok none :=
  ⟨rfl, rfl, rfl, rfl⟩

end Trso
end Y0
