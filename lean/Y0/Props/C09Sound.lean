/-
  Property C09, value clause — "the expression evaluated on the declared domain distributions with the returned
  event's values equals the target-domain probability of the queried counterfactual event in every compatible
  multi-domain model family".

  Theorems about the executable model `Y0.CtfTr.ctfTRu` (Algorithm 2 of Correa, Lee & Bareinboim 2022 as implemented in
  api.py), for families of FUNCTIONAL structural causal models (Y0/Spec/CtfFamilySpec.lean).  Proved here, with no
  hypothesis left about any part of the algorithm:

    `cfactor_transportability`   the transportability lemma: a source domain whose model agrees with the target's outside
                                 `Δ` has the same c-factor `Q[C]` for every `C` disjoint from `Δ`;
    `sigmaTR_sound_family`       Algorithm 4: the expression returned for a district, evaluated on the declared domain
                                 distributions, is `Q*[district]` of the TARGET model;
    `ctf_factorisation_cfactors` the ctf-factor factorisation as a sum of products of c-factors (from C19);
    `ctfTRu_sound_partial`       **the value clause for Algorithm 2**: for every validated input whose simplified event
                                 has no valueless item and is in the decidable class `ctfSoundClass`, and every family of
                                 functional SCMs compatible with the declared domains,
                                     den (F.env graphs) σ' x σ = P*(queried event);
    `ctfTRu_sound_free_partial`  the same with valueless items read as free variables of the answer;
    `ctfTRu_sound_fun`           the same as an identity between functions of the valuation (what line 4 of Algorithm 3
                                 sums over);
    `ctfTRu_correct_partial`     the three clauses of C09 for Algorithm 2 in one statement (no other error; zero only for
                                 impossible events; value);
    `ctfTR_line4_of_parts`       the normalisation step of Algorithm 3 on top of it;
    `ctfTR_sound_of_parts`       Algorithm 3: the returned fraction is `P*(y_* | x_*)` given the two
                                 marginalisation-and-independence identities;
    `ctfTR_sound_partial`        **the value clause for Algorithm 3**: both identities discharged (`ctfTR_link`:
                                 composition axiom for the edges cut at conditioned ancestors, consistency of the members
                                 of the ancestral sets, marginalisation, independence of the ancestral components that hold
                                 no outcome) for every validated conditional query in the decidable class `ctfTRSoundClass`,
                                 every compatible family in which the conditions have positive probability;
    `ctfTR_zero_sound_partial`   Algorithm 3 answers `Zero()` only for impossible events (one-world `D_*`);
    `ctfTR_correct_partial`      the three clauses of C09 for Algorithm 3 in one statement.

  Reading guide (definitions are short and meant to be read):
    Fscm.FscmFamily, FscmFamily.CompatibleWith, Proper, AgreesOutside, SelectionInert, Model.cfactor, FscmFamily.env
                               Y0/Spec/CtfFamilySpec.lean
    declsOf ds                 the declarations the domains of the query stand for: tag of `d.pop`, selection diagram
                               `d.graph`, `Δ = {v regular | T_v is a node of d.graph ∨ v ∈ d.policy}`, selection nodes
    DomainsDeclared ds         what the validator does NOT check about the domains: graphs built by `from_edges` (`WF`),
                               orders without repetition, no bidirected edge at a selection node, and the declared
                               distribution of every domain is `P^t(V)` over the regular variables of its diagram
    EventVarsPlain e           the event is what `_event_from_counterfactuals` builds (Y0/Lemmas/CtfTrTotal.lean)
    ctfSoundClass g q          decidable class of (simplified) events: `readableQuery q` and none of `multiWorld`,
                               `literalBound`, `outcomeParentValue` (C19, Y0/Model/CtfFactor.lean) nor `starBound`
                               (a starred literal subscript `+X` naming a summed vertex; Y0/Lemmas/CtfTrSoundFinal.lean)
    Ctf.EventReading ν σ q     the reading `σ` of the free names of the answer gives every event variable its event value
                               and every subscript its literal value under the value symbols `ν` ("the returned event's
                               values"; exists iff no name receives two values)
    Ctf.fillEvent q            every valueless item `(W_s, None)` becomes `(W_s, -W)`
    ctfTRSoundClass g o c      decidable class of conditional queries (Y0/Model/CtfTr.lean), on graph and query only (one world
                               across ALL ancestral components; outcomes found under their own name, two outcomes
                               over one vertex identical; no self-intervention, consistent subscripts; no literal
                               subscript names a vertex of the components unless it names a condition); the simplified
                               `D_*` is then in `ctfSoundClass` (`dstar_in_ctfSoundClass`)
    CondSem, cond_parts        the semantic core of Algorithm 3, free of syntax (Y0/Lemmas/CtfTrCondSem.lean,
                               CtfTrCondSplit.lean)
-/
import Y0.Lemmas.CtfTrSoundFinal
import Y0.Lemmas.CtfTrCond
import Y0.Lemmas.CtfTrExampleFamily
import Y0.Lemmas.CtfTrCondLink3
import Y0.Lemmas.CtfTrCondJ
import Y0.Lemmas.CtfTrCondDstarClass
import Y0.Props.C09

namespace Y0
namespace CtfTr
open Fscm Ctf
open Trso (isTnode tnode nsort)

/-- **Transportability lemma.**  If the model `S` of a source domain agrees with the target model `T` outside `Δ` (same
exogenous distributions; same mechanism at every variable not in `Δ`), every set `C` of target variables that avoids `Δ`
has the same c-factor `Q[C](ρ) = P_{do(V∖C := ρ)}(C = ρ)` in both domains. -/
theorem cfactor_transportability {T S : Fscm.Model} {card : Name → Nat} {base : Nat} {G G' : MG Name}
    (hT : Proper T card base G) (hS : Proper S card base G') (Δ : List Name) (hag : AgreesOutside T S Δ)
    (C : List Name) (hCT : ∀ v ∈ C, v ∈ T.order) (hCS : ∀ v ∈ C, v ∈ S.order) (hΔ : ∀ v ∈ C, v ∉ Δ) (ρ : Val) :
    S.cfactor C ρ = T.cfactor C ρ :=
  cfactor_transport hT.toScmOK hS.toScmOK Δ hag C hCT hCS hΔ ρ

/-- **Algorithm 4 is sound over a compatible family**: the expression returned for a district — computed from a domain
with no selection node into the district and no policy variable inside it — denotes, on the declared domain
distributions, the c-factor `Q*[district]` of the TARGET model (composition of `sigmaTR_uses_usable_domain`, C17
`cfactor_sound` + `tian_sound`, the induced semi-Markovian model, and the transportability lemma). -/
theorem sigmaTR_sound_family (F : FscmFamily) (G : MG Name) (graphs : Option Name → MG Name) (ds : List Domain)
    (hF : F.CompatibleWith G graphs (declsOf ds)) (hds : DomainsSpecOK ds)
    (σ' : Val) (district : List Name) (hne : district ≠ []) (hreg : ∀ d ∈ ds, ∀ v ∈ district, v ∈ regular d.graph)
    (hdT : ∀ v ∈ district, v ∈ F.target.order)
    (e : Expr) (h : sigmaTR district ds = .ok (some e)) :
    ∀ σ, (∀ v ∈ district, σ v < F.card v) → den (F.env graphs) σ' e σ = F.target.cfactor (nsort district) σ :=
  sigmaTR_family_sound F G graphs ds hF hds σ' district hne hreg hdT e h

/-- **the ctf-factor factorisation as a sum of products of c-factors** (C19 `factorisation_den_partial` + "a ctf-factor
`P(⋀ W_{pa_W} = w)` is the c-factor `Q[W…](w, pa)`"): for a query outside the classes in which every item has a value,
`P(⋀ Y_x = y) = Σ_{d_* ∖ y_*} Π_j Q[C_j]`, the sum and the c-factors read at the valuation `σ`. -/
theorem ctf_factorisation_cfactors (g : MG Name) (hg : g.WF) (q : Event) (e : Expr) (ev : Event)
    (h : factorize g q = .ok (e, ev)) (hnone : ∀ p ∈ q, p.2 ≠ none) (hclass : ctfSoundClass g q = .ok true)
    (M : Fscm.Model) (hM : Fscm.Compatible M g) (hnorm : ∀ pmf ∈ M.noise, pmf.sum = 1)
    (card : Name → Nat) (hcard : ∀ v pa lat, M.f v pa lat < card v) (ν : BaseValues) (σ : Val)
    (hσ : EventReading ν σ q) :
    ∃ (D cs : List Var) (fs : List (List Var)),
      ancestralSet g q = .ok D ∧ D.mapM (convertOne g) = .ok cs ∧
      ctfFactors (g.subgraph (dedup' ((dedup' cs).map (·.name)))) (dedup' cs) = .ok fs ∧
      probEventOpt M ν q =
        sumVars card ((dedup' ((dedup' cs).map (·.name))).filter (fun n => decide (n ∉ dedup' (q.map (·.1.name)))))
          (fun τ => (fs.map fun F => M.cfactor ((sortBy Var.keyLt F).map (·.name)) τ).prod) σ := by
  obtain ⟨hread, hcls, hstar⟩ := ctfSoundClass_true g q hclass
  obtain ⟨D, cs, fs, h1, h2, h3, _, h5⟩ :=
    factorisation_cfactors g hg q e ev h hread hcls M hM hnorm card hcard ν σ hσ hnone hstar
  exact ⟨D, cs, fs, h1, h2, h3, h5⟩

/-- **C09, value clause, Algorithm 2 (ctfTRu).**  Whenever `ctfTRu` returns an expression `x` together with the
simplified event `ev`, for an input built by the public wrapper (`EventVarsPlain`) without a self-intervened variable,
on a target graph built by `from_edges`, with domains as declared (`DomainsDeclared`), such that no item of `ev` is
valueless and `ev` is in the decidable class `ctfSoundClass` — then in EVERY family `F` of functional SCMs compatible
with the target graph and the declared domains, for every reading `ν` of the value symbols with `-X ≠ +X` and every
valuation `σ` of the free names of `x` that carries the returned event's values (`EventReading`), the expression
evaluated on the declared domain distributions equals the target probability of the QUERIED event. -/
theorem ctfTRu_sound_partial (target : MG Name) (ds : List Domain) (e ev : Event) (x : Expr)
    (h : ctfTRu target ds e = .ok (some (x, some ev)))
    (hwf : target.WF) (hdecl : DomainsDeclared ds) (hplain : EventVarsPlain e)
    (hrefl : ∀ p ∈ e, selfIntervened p.1 = false)
    (hnone : ∀ p ∈ ev, p.2 ≠ none)
    (hclass : ctfSoundClass target ev = .ok true)
    (F : FscmFamily) (graphs : Option Name → MG Name) (hF : F.CompatibleWith target graphs (declsOf ds))
    (ν : BaseValues) (hν : ν.Distinct) (σ σ' : Val) (hσr : ∀ x, σ x < F.card x) (hσ : EventReading ν σ ev) :
    den (F.env graphs) σ' x σ = probEventOpt F.target ν e :=
  ctfTRu_value target ds e ev x h hwf hdecl hplain hrefl hnone hclass F graphs hF ν hν σ σ' hσr hσ

/-- the same for simplified events WITH valueless items, read as the harness reads them: a valueless variable `W` stays
a free variable of the answer, read at `σ W = ν W -` — the answer is the target probability of the simplified event in
which every valueless `W_s` is given the value `-W` -/
theorem ctfTRu_sound_free_partial (target : MG Name) (ds : List Domain) (e ev : Event) (x : Expr)
    (h : ctfTRu target ds e = .ok (some (x, some ev)))
    (hwf : target.WF) (hdecl : DomainsDeclared ds) (hplain : EventVarsPlain e)
    (hrefl : ∀ p ∈ e, selfIntervened p.1 = false)
    (hclass : ctfSoundClass target (fillEvent ev) = .ok true)
    (F : FscmFamily) (graphs : Option Name → MG Name) (hF : F.CompatibleWith target graphs (declsOf ds))
    (ν : BaseValues) (σ σ' : Val) (hσr : ∀ x, σ x < F.card x) (hσ : EventReading ν σ (fillEvent ev)) :
    den (F.env graphs) σ' x σ = probEventOpt F.target ν (fillEvent ev) :=
  ctfTRu_value_filled target ds e ev x h hwf hdecl hplain hrefl hclass F graphs hF ν σ σ' hσr hσ

/-- the value clause as an identity between FUNCTIONS of the valuation: at every in-range `τ` the answer of Algorithm 2
is the target probability that every variable of the simplified event takes its value in `τ` -/
theorem ctfTRu_sound_fun (target : MG Name) (ds : List Domain) (e ev : Event) (x : Expr)
    (h : ctfTRu target ds e = .ok (some (x, some ev)))
    (hwf : target.WF) (hdecl : DomainsDeclared ds) (hplain : EventVarsPlain e)
    (hrefl : ∀ p ∈ e, selfIntervened p.1 = false)
    (hvalev : ∀ p ∈ ev, ∀ i, p.2 = some i → i.name = p.1.name)
    (hclass : ctfSoundClass target (fillEvent ev) = .ok true)
    (F : FscmFamily) (graphs : Option Name → MG Name) (hF : F.CompatibleWith target graphs (declsOf ds))
    (σ' : Val) :
    ∀ τ, (∀ x, τ x < F.card x) → den (F.env graphs) σ' x τ = probEventOpt F.target (nuOf τ) (fillEvent ev) :=
  ctfTRu_value_fun target ds e ev x h hwf hdecl hplain hrefl hvalev hclass F graphs hF σ'

/-- **"the returned event's values" exist** exactly when the decidable test `readingExists` says so (no name receives
two different value symbols, as event value or subscript): then for every reading `ν` of the value symbols some valuation
`σ` satisfies the hypothesis `EventReading ν σ q` of the value theorems -/
theorem ctf_reading_exists (q : Event) (hval : ∀ p ∈ q, ∀ i, p.2 = some i → i.name = p.1.name)
    (h : readingExists q = true) (ν : BaseValues) : ∃ σ, EventReading ν σ q :=
  eventReading_exists q hval h ν

/-- **Normalisation step of Algorithm 3 (line 4) on top of the value clause of Algorithm 2.**  `Q` is the answer of
Algorithm 2 for the derived event `D_*`, `A = V(D_*) ∖ (V(Y_*) ∪ V(X_*))` and `B = V(D_*) ∖ V(X_*)` the two summation
ranges.  With `J τ = P*_τ(D_* = τ)` (`ctfTRu_sound_fun`), the returned fraction denotes `(Σ_A J) / (Σ_B J)`; it is the
conditional probability `P*(y_* | x_*)` as soon as the two marginalisation-and-independence identities `hnum`, `hden`
hold — THE MISSING LINK of `ctfTR_sound`, named here as hypotheses: `Σ_A J · c = P*(y_*, x_*)` and
`Σ_B J · c = P*(x_*)` for the same non-zero `c` (the probability of the conditions whose ancestral component contains no
outcome: independent of `D_*`, Correa et al. Lemma 3). -/
theorem ctfTR_line4_of_parts (env : Env) (σ' σ : Val) (Q : Expr) (A B : List Name) (hA : A.Nodup) (hB : B.Nodup)
    (J : Val → Rat) (hQ : ∀ τ, den env σ' Q τ = J τ)
    (c Pjoint Pcond : Rat) (hc : c ≠ 0)
    (hnum : sumVars env.card A J σ * c = Pjoint) (hden : sumVars env.card B J σ * c = Pcond) :
    den env σ' (.frac (TrDsl.sumSafe Q (A.map Var.plain)) (TrDsl.sumSafe Q (B.map Var.plain))) σ = Pjoint / Pcond := by
  rw [den_line4 env σ' σ Q A B hA hB]
  have h1 : (fun τ => den env σ' Q τ) = J := funext hQ
  rw [h1]
  exact line4_normalise _ _ c Pjoint Pcond hc hnum hden

/-- **C09 for Algorithm 2, the three clauses together.**  For an input accepted by the validator, built by the public
wrapper, without a self-intervened variable, on graphs built by `from_edges` with domains as declared and selection
diagrams that agree with the target graph (`DomainsAgree`): `ctfTRu` raises no error, and its result is
* FAIL, or
* `Zero()` without an event — and then the queried event has probability 0 in every compatible functional SCM, or
* an expression `x` with the simplified event `ev` — and then, if no item of `ev` is valueless and `ev` is in the class
  `ctfSoundClass`, `x` evaluated on the declared domain distributions of ANY compatible family at ANY valuation carrying
  the returned event's values is the target probability of the queried event. -/
theorem ctfTRu_correct_partial (target : MG Name) (ds : List Domain) (e : Event)
    (hv : validateU target ds e = .ok ()) (hwf : target.WF) (hdecl : DomainsDeclared ds) (hplain : EventVarsPlain e)
    (hrefl : ∀ p ∈ e, selfIntervened p.1 = false) (hdom : DomainsAgree target ds) :
    ctfTRu target ds e = .ok none ∨
    (ctfTRu target ds e = .ok (some (.zero, none)) ∧
      ∀ (M : Fscm.Model), Fscm.Compatible M target → ∀ ν : BaseValues, ν.Distinct → probEventOpt M ν e = 0) ∨
    (∃ x ev, ctfTRu target ds e = .ok (some (x, some ev)) ∧
      ((∀ p ∈ ev, p.2 ≠ none) → ctfSoundClass target ev = .ok true →
        ∀ (F : FscmFamily) (graphs : Option Name → MG Name), F.CompatibleWith target graphs (declsOf ds) →
        ∀ (ν : BaseValues), ν.Distinct → ∀ (σ σ' : Val), (∀ x, σ x < F.card x) → EventReading ν σ ev →
          den (F.env graphs) σ' x σ = probEventOpt F.target ν e)) := by
  rcases ctfTRu_answers_or_fails target ds e hv hwf hdecl.wf hplain hdom with ⟨⟨x, oev⟩, ha⟩ | hf
  · cases oev with
    | none =>
      refine Or.inr (Or.inl ?_)
      have hz := ctfTRu_zero_only_from_simplify target ds e x ha
      refine ⟨by rw [ha, hz.1], fun M hM ν hν => ?_⟩
      exact (ctf_zero_sound_partial target ds e x ha hrefl (validateU_values target ds e hv) M hM ν hν).2
    | some ev =>
      refine Or.inr (Or.inr ⟨x, ev, ha, fun hnone hclass F graphs hF ν hν σ σ' hσr hσ => ?_⟩)
      exact ctfTRu_sound_partial target ds e ev x ha hwf hdecl hplain hrefl hnone hclass F graphs hF ν hν σ σ' hσr hσ
  · exact Or.inl hf

/-- the entries of the derived event `D_*` of Algorithm 3 are what Algorithm 2's theorems ask of an input event: plain
ctf-factor-form variables, none of them self-intervened (the target graph is acyclic) -/
theorem dstar_plain (target : MG Name) (ds : List Domain) (o c : Event) (hv : validateC target ds o c = .ok ())
    (hwf : target.WF) (hplain : EventVarsPlain (o ++ c)) (dstar : Event) (dNames : List Name)
    (h2 : line2C target o c = .ok (dstar, dNames)) :
    EventVarsPlain dstar ∧ (∀ p ∈ dstar, selfIntervened p.1 = false) ∧
      (∀ p ∈ dstar, ∀ i, p.2 = some i → i.name = p.1.name) ∧ dNames.Nodup ∧ ∀ n ∈ dNames, n ∈ target.nodes := by
  obtain ⟨_, _, _, hnodes, hvm, hac, _⟩ := validateC_facts target ds o c hv
  have hloop : ∀ v, ¬ target.DiEdge v v := fun v hvv =>
    ((MG.isAcyclic_iff target hwf).1 hac) v (Relation.TransGen.single hvv)
  have hok : ∀ p ∈ o ++ c, VarOK target p.1 := by
    intro p hp
    refine ⟨hnodes p ?_, Or.inr ⟨(hplain p hp).2.1, (hplain p hp).1⟩⟩
    rcases List.mem_append.1 hp with h | h
    · exact List.mem_append_right _ h
    · exact List.mem_append_left _ h
  obtain ⟨lk, D, dstar', dNames', _, hrel, _, _, h2', hDn, hfacts⟩ := line2C_ok target hwf o c
    (fun p hp => hok p (List.mem_append_left _ hp)) (fun p hp => hok p (List.mem_append_right _ hp))
    (fun p hp => (hplain p (List.mem_append_left _ hp)).1)
  rw [h2] at h2'
  simp only [Except.ok.injEq, Prod.mk.injEq] at h2'
  obtain ⟨rfl, rfl⟩ := h2'
  refine ⟨?_, ?_, ?_, ?_, ?_⟩
  rotate_left 3
  · rw [hfacts.names]; exact nodup_dedup' _
  · intro n hn
    obtain ⟨q, hq, rfl⟩ := (hfacts.mem_names n).1 hn
    exact (hfacts.var hDn q hq).1
  · intro q hq
    obtain ⟨_, hs, hi, hnd, _⟩ := hfacts.var hDn q hq
    exact ⟨hs, hi, hnd⟩
  · intro q hq
    obtain ⟨_, _, _, _, hpar⟩ := hfacts.var hDn q hq
    simp only [selfIntervened, List.any_eq_false, beq_iff_eq]
    intro i hi hin
    have := hpar i hi
    rw [hin] at this
    exact hloop _ this
  · intro q hq i hi
    obtain ⟨p', hp', hpn', hpv', _⟩ := hfacts.value q hq i hi
    obtain ⟨p, hp, hpn0, hpv0⟩ := hrel.of_lk p' hp'
    have hpn : p.1.name = q.1.name := by rw [← hpn0, hpn']
    have hpv : p.2 = some i := by rw [← hpv0, hpv']
    have hm : valueMismatch (c ++ o) = false := hvm
    unfold valueMismatch at hm
    simp only [List.any_eq_false] at hm
    have := hm p (List.mem_append_right _ hp)
    rw [hpv] at this
    rw [← hpn]
    simpa using this

/-- **C09, value clause, Algorithm 3 (ctfTR), from parts.**  Whenever `ctfTR` returns an expression with an event, for
a validated query built by the public wrapper on a target graph built by `from_edges` with domains as declared, such
that the simplified derived event `D_*` (valueless ancestors read as free variables) is in the decidable class
`ctfSoundClass`: in every family of functional SCMs compatible with the declared domains the returned fraction is
`P*(y_*, x_*) / P*(x_*)`, PROVIDED the two identities `hnum`, `hden` hold for `J τ = P*_τ(D_* = τ)` — the named missing
link (marginalisation over `V(D_*) ∖ (V(Y_*) ∪ V(X_*))` resp. `V(D_*) ∖ V(X_*)`, and independence of the conditions whose
ancestral component contains no outcome). -/
theorem ctfTR_sound_of_parts (target : MG Name) (ds : List Domain) (o c : Event) (x : Expr) (rev : Event)
    (h : ctfTR target ds o c = .ok (some (x, some rev)))
    (hwf : target.WF) (hdecl : DomainsDeclared ds) (hplain : EventVarsPlain (o ++ c))
    (hclass : ∀ dstar dNames q simplified, line2C target o c = .ok (dstar, dNames) →
      ctfTRu target ds dstar = .ok (some (q, some simplified)) →
      ctfSoundClass target (fillEvent simplified) = .ok true ∧
        ∀ p ∈ simplified, ∀ i, p.2 = some i → i.name = p.1.name)
    (F : FscmFamily) (graphs : Option Name → MG Name) (hF : F.CompatibleWith target graphs (declsOf ds))
    (σ σ' : Val) (hσr : ∀ x, σ x < F.card x)
    (cOut Pjoint Pcond : Rat) (hc : cOut ≠ 0)
    (hlink : ∀ dstar dNames q simplified, line2C target o c = .ok (dstar, dNames) →
      ctfTRu target ds dstar = .ok (some (q, some simplified)) →
      sumVars F.card (diff' dNames (eventNames (c ++ o)))
          (fun τ => probEventOpt F.target (nuOf τ) (fillEvent simplified)) σ * cOut = Pjoint ∧
      sumVars F.card (diff' dNames (eventNames c))
          (fun τ => probEventOpt F.target (nuOf τ) (fillEvent simplified)) σ * cOut = Pcond) :
    den (F.env graphs) σ' x σ = Pjoint / Pcond := by
  obtain ⟨dstar, dNames, q, simplified, h2, hu, hx, _⟩ := ctfTR_answer_shape target ds o c x rev h
  have hv : validateC target ds o c = .ok () := by
    unfold ctfTR at h
    cases hvc : validateC target ds o c with
    | error e => rw [hvc] at h; cases h
    | ok u => rfl
  obtain ⟨hDplain, hDrefl, _, hDnd, hDnodes⟩ := dstar_plain target ds o c hv hwf hplain dstar dNames h2
  obtain ⟨hcls, hvalev⟩ := hclass dstar dNames q simplified h2 hu
  obtain ⟨hnum, hden⟩ := hlink dstar dNames q simplified h2 hu
  have hfun := ctfTRu_sound_fun target ds dstar simplified q hu hwf hdecl hDplain hDrefl hvalev hcls F graphs hF σ'
  rw [hx, den_line4 (F.env graphs) σ' σ q _ _ (nodup_diff' hDnd _) (nodup_diff' hDnd _)]
  have hTp := hF.target
  -- the two sums range over observed variables of the target: same cardinalities, in-range valuations
  have hsum : ∀ R : List Name, (∀ n ∈ R, n ∈ dNames) →
      sumVars (F.env graphs).card R (fun τ => den (F.env graphs) σ' q τ) σ =
        sumVars F.card R (fun τ => probEventOpt F.target (nuOf τ) (fillEvent simplified)) σ := by
    intro R hR
    symm
    apply Fscm.sumVars_congr_card F.card (F.env graphs).card (fun τ => ∀ x, τ x < F.card x)
    · intro τ x k hτ hk y
      by_cases hy : y = x
      · subst hy; rw [Val.set_same]; exact hk
      · rw [Val.set_other _ _ hy]; exact hτ y
    · intro n hn
      show F.card n = F.target.cardS F.card F.base n
      rw [Fscm.cardS_node F.target F.card
        (hTp.base_gt n ((hTp.compat.perm.mem_iff).2 (hDnodes n (hR n hn))))]
    · intro τ hτ
      exact (hfun τ hτ).symm
    · exact hσr
  have hsub : ∀ (m : List Name), ∀ n ∈ diff' dNames m, n ∈ dNames := fun m n hn => by
    unfold diff' at hn
    exact (List.mem_filter.1 hn).1
  rw [hsum (diff' dNames (eventNames (c ++ o))) (hsub _), hsum (diff' dNames (eventNames c)) (hsub _)]
  exact line4_normalise _ _ cOut Pjoint Pcond hc hnum hden

/-- **C09, value clause, Algorithm 3 (ctfTR).**  Whenever `ctfTR` returns an expression `x` with an event, for a
validated conditional query built by the public wrapper on a target graph built by `from_edges` with domains as declared,
inside the decidable class `ctfTRSoundClass` (Y0/Model/CtfTr.lean, a predicate on target graph and query: one world across
the ancestral components, outcomes found under their own name, no self-intervened variable, no literal subscript naming a
summed vertex; that `D_*` is then in Algorithm 2's class `ctfSoundClass` is proved: `dstar_in_ctfSoundClass`) — then in EVERY family `F`
of functional SCMs compatible with the target graph and the declared domains, for every reading `ν` of the value symbols
and every valuation `σ` that carries the values and literal subscripts of the query (`EventReading ν σ (o ++ c)`: the
returned event repeats the outcomes' and conditions' values on base variables; a subscript is read from the query), if
the conditions have positive probability in the target domain, the returned fraction evaluated on the declared domain
distributions is the target conditional probability `P*(outcomes ∧ conditions) / P*(conditions)`.

Both identities of `ctfTR_sound_of_parts` are DISCHARGED (`ctfTR_link`, Y0/Lemmas/CtfTrCondLink3.lean): composition axiom
for the cut edges of Def. 4.2, consistency of the members of the ancestral sets, marginalisation over the valueless
ancestors and over the outcomes, independence of the two groups of ancestral components; `J = Q[V(D_*)]`
(`dstar_prob_eq_cfactor`). -/
theorem ctfTR_sound_partial (target : MG Name) (ds : List Domain) (o c : Event) (x : Expr) (rev : Event)
    (h : ctfTR target ds o c = .ok (some (x, some rev)))
    (hwf : target.WF) (hdecl : DomainsDeclared ds) (hplain : EventVarsPlain (o ++ c))
    (hclass : ctfTRSoundClass target o c = true)
    (F : FscmFamily) (graphs : Option Name → MG Name) (hF : F.CompatibleWith target graphs (declsOf ds))
    (ν : BaseValues) (σ σ' : Val) (hσr : ∀ x, σ x < F.card x) (hσ : EventReading ν σ (o ++ c))
    (hpos : probEventOpt F.target ν c ≠ 0) :
    den (F.env graphs) σ' x σ = probEventOpt F.target ν (o ++ c) / probEventOpt F.target ν c := by
  obtain ⟨dstar, dNames, q, simplified, h2, hu, _, _⟩ := ctfTR_answer_shape target ds o c x rev h
  have hv : validateC target ds o c = .ok () := by
    unfold ctfTR at h
    cases hvc : validateC target ds o c with
    | error e => rw [hvc] at h; cases h
    | ok u => rfl
  obtain ⟨hvalued, _, _, hnodes, _, _, _⟩ := validateC_facts target ds o c hv
  -- the class: `D_*` is in Algorithm 2's class
  have hlinkcls := hclass
  have hcls : ctfSoundClass target (fillEvent simplified) = .ok true :=
    dstar_in_ctfSoundClass target ds o c hv hwf hplain hclass dstar dNames h2 q simplified hu
  obtain ⟨_, _, hDval, _, _⟩ := dstar_plain target ds o c hv hwf hplain dstar dNames h2
  have hsimp := ctfTRu_event_is_simplified target ds dstar simplified q hu
  have hvalev : ∀ p ∈ simplified, ∀ i, p.2 = some i → i.name = p.1.name := by
    intro p hp i hi
    obtain ⟨q0, hq0, hname, hval⟩ := simplify_output_values target dstar simplified hsimp p hp
    rw [← hname]
    exact hDval q0 hq0 i (by rw [hval]; exact hi)
  -- the two identities
  have hT := hF.target
  -- inside the class every outcome is its own lookup key: lines 1-2 are `line2CRaw`
  have h2raw : line2CRaw target o c = .ok (dstar, dNames) := by
    obtain ⟨comps, cls⟩ := linkClass_of target o c hclass
    have hok : ∀ p ∈ o ++ c, VarOK target p.1 := by
      intro p hp
      refine ⟨hnodes p ?_, Or.inr ⟨(hplain p hp).2.1, (hplain p hp).1⟩⟩
      rcases List.mem_append.1 hp with h' | h'
      · exact List.mem_append_right _ h'
      · exact List.mem_append_left _ h'
    have hself := lookup_self target hwf o c comps cls
      (fun p hp => hok p (List.mem_append_left _ hp)) (fun p hp => hok p (List.mem_append_right _ hp))
      (fun p hp => (hplain p (List.mem_append_left _ hp)).1)
    rw [← (line2C_eq_raw target o c hself).1]
    exact h2
  obtain ⟨cOut, hnum, hden⟩ := ctfTR_link target hwf o c
    (fun p hp => hnodes p (by rcases List.mem_append.1 hp with h' | h' <;> simp [h'])) hvalued hlinkcls dstar dNames h2raw
    F.target hT.compat hT.wf.noise_sum F.card hT.wf.f_range ν σ hσ
  have hc0 : cOut ≠ 0 := by
    intro h0
    rw [h0, mul_zero] at hden
    exact hpos hden
  have hJ : (fun τ => probEventOpt F.target (nuOf τ) (fillEvent simplified)) = localProb F.target dNames := by
    funext τ
    rw [dstar_prob_eq_cfactor target ds o c hv hwf hplain dstar dNames h2 q simplified hu F.target hT.compat τ]
    obtain ⟨_, _, _, _, hDnodes⟩ := dstar_plain target ds o c hv hwf hplain dstar dNames h2
    exact cfactor_eq_local hT.compat dNames (fun n hn => (hT.compat.perm.mem_iff).2 (hDnodes n hn)) τ
  refine ctfTR_sound_of_parts target ds o c x rev h hwf hdecl hplain ?_ F graphs hF σ σ' hσr cOut _ _ hc0 ?_
  · intro dstar' dNames' q' simplified' h2' hu'
    rw [h2] at h2'
    simp only [Except.ok.injEq, Prod.mk.injEq] at h2'
    obtain ⟨rfl, rfl⟩ := h2'
    rw [hu] at hu'
    simp only [Except.ok.injEq, Option.some.injEq, Prod.mk.injEq] at hu'
    obtain ⟨rfl, rfl⟩ := hu'
    exact ⟨hcls, hvalev⟩
  · intro dstar' dNames' q' simplified' h2' hu'
    rw [h2] at h2'
    simp only [Except.ok.injEq, Prod.mk.injEq] at h2'
    obtain ⟨rfl, rfl⟩ := h2'
    rw [hu] at hu'
    simp only [Except.ok.injEq, Option.some.injEq, Prod.mk.injEq] at hu'
    obtain ⟨rfl, rfl⟩ := hu'
    rw [hJ]
    exact ⟨hnum.symm, hden.symm⟩

/-- **Zero only for impossible events, Algorithm 3** (one-world `D_*`): `ctfTR` answers `Zero()` only when two outcomes
give one counterfactual variable two different values — then the queried event `outcomes ∧ conditions` has probability 0
in every functional SCM compatible with the target graph, for every reading of the value symbols with `-X ≠ +X`.
(Without `DstarOneWorld` the clause is FALSE of the current code: finding `cond:zero:multi_world`.) -/
theorem ctfTR_zero_sound_partial (target : MG Name) (ds : List Domain) (o c : Event) (x : Expr)
    (h : ctfTR target ds o c = .ok (some (x, none)))
    (hwf : target.WF) (hplain : EventVarsPlain (o ++ c)) (hone : DstarOneWorld target o c = true)
    (hfound : OutcomesFound target o c = true)
    (M : Fscm.Model) (ν : BaseValues) (hν : ν.Distinct) :
    x = .zero ∧ probEventOpt M ν (o ++ c) = 0 := by
  obtain ⟨hx, dstar, dNames, h2, hs⟩ := ctfTR_zero_only_from_simplify target ds o c x h
  refine ⟨hx, ?_⟩
  have hv : validateC target ds o c = .ok () := by
    unfold ctfTR at h
    cases hvc : validateC target ds o c with
    | error e => rw [hvc] at h; cases h
    | ok u => rfl
  obtain ⟨_, _, _, hnodes, hvm, _, _⟩ := validateC_facts target ds o c hv
  have hok : ∀ p ∈ o ++ c, VarOK target p.1 := by
    intro p hp
    refine ⟨hnodes p ?_, Or.inr ⟨(hplain p hp).2.1, (hplain p hp).1⟩⟩
    rcases List.mem_append.1 hp with h' | h'
    · exact List.mem_append_right _ h'
    · exact List.mem_append_left _ h'
  obtain ⟨lk, D, dstar', dNames', _, hrel, hlkD, hDv, h2', _, hfacts⟩ := line2C_ok target hwf o c
    (fun p hp => hok p (List.mem_append_left _ hp)) (fun p hp => hok p (List.mem_append_right _ hp))
    (fun p hp => (hplain p (List.mem_append_left _ hp)).1)
  rw [h2] at h2'
  simp only [Except.ok.injEq, Prod.mk.injEq] at h2'
  obtain ⟨rfl, rfl⟩ := h2'
  have hDnd : (D.map (·.name)).Nodup := by
    unfold DstarOneWorld at hone
    rw [hDv] at hone
    simpa using hone
  -- every outcome is its own lookup key: both are variables of the one-world `D_*` over the same vertex
  have hlkeq : lk = o := by
    apply forall₂_eq_of hrel
    intro p hp p' hp' ⟨hn, hv'⟩
    have hpD : p.1 ∈ D := by
      unfold OutcomesFound at hfound
      rw [hDv] at hfound
      exact (mem'_iff _ _).1 (List.all_eq_true.1 hfound p hp)
    exact Prod.ext (List.inj_on_of_nodup_map hDnd (hlkD p' hp') hpD hn) hv'
  rw [hlkeq] at hfacts
  obtain ⟨_, hDrefl, _, _, _⟩ := dstar_plain target ds o c hv hwf hplain dstar dNames h2
  -- two entries of `D_*` that minimise to the same variable carry different values
  have hconf : ∃ w i j, i ≠ j ∧ (w, some i) ∈ o ∧ (w, some j) ∈ o := by
    unfold simplify at hs
    split at hs
    · simp [bind, Except.bind, throw, throwThe, MonadExceptOf.throw] at hs
    · simp only [bind, Except.bind] at hs
      cases hme : minimizeEvent target dstar with
      | error err => rw [hme] at hs; cases hs
      | ok me =>
        rw [hme] at hs
        simp only at hs
        have hmem := minimizeEvent_mem target dstar me hme
        have hrefl' : ∀ p ∈ me, selfIntervened p.1 = false := by
          rintro ⟨k, y⟩ hp
          obtain ⟨v, hv', hm⟩ := (hmem k y).1 hp
          have hwf' := minimize_wf target v k hm
          have h0 := hDrefl (v, y) hv'
          simp only [selfIntervened, List.any_eq_false, beq_iff_eq] at h0 ⊢
          intro i hi
          rw [hwf'.1]
          exact h0 i (hwf'.2.2.1 i hi)
        obtain ⟨k, i, j, hij, hi, hj⟩ := (simplifyCore_spec me hrefl').1 hs
        obtain ⟨v, hvi, hmv⟩ := (hmem k (some i)).1 hi
        obtain ⟨v', hvj, hmv'⟩ := (hmem k (some j)).1 hj
        obtain ⟨p, hp, hpn, hpv, hpD⟩ := hfacts.value (v, some i) hvi i rfl
        obtain ⟨p', hp', hpn', hpv', hpD'⟩ := hfacts.value (v', some j) hvj j rfl
        have hnn : p.1.name = p'.1.name := by
          rw [hpn, hpn']
          show v.name = v'.name
          rw [← (minimize_wf target v k hmv).1, ← (minimize_wf target v' k hmv').1]
        have hsame : p.1 = p'.1 := List.inj_on_of_nodup_map hDnd hpD hpD' hnn
        refine ⟨p.1, i, j, hij, ?_, ?_⟩
        · rw [← hpv]; exact hp
        · rw [hsame, ← hpv']; exact hp'
  obtain ⟨w, i, j, hij, hi, hj⟩ := hconf
  apply probEventOpt_zero
  intro u hE
  have e1 := hE (w, some i) (List.mem_append_left _ hi) i rfl
  have e2 := hE (w, some j) (List.mem_append_left _ hj) j rfl
  have hm : valueMismatch (c ++ o) = false := hvm
  unfold valueMismatch at hm
  simp only [List.any_eq_false] at hm
  have n1 : i.name = w.name := by simpa using hm (w, some i) (List.mem_append_right _ hi)
  have n2 : j.name = w.name := by simpa using hm (w, some j) (List.mem_append_right _ hj)
  have hstar : i.star ≠ j.star := by
    intro hst
    apply hij
    cases i; cases j
    simp only at n1 n2 hst
    subst hst
    rw [n1, n2]
  simp only at e1 e2
  rw [e1] at e2
  unfold ivValue at e2
  rw [n1, n2] at e2
  cases hb : i.star <;> cases hb' : j.star <;> rw [hb, hb'] at e2 hstar
  · exact hstar rfl
  · exact hν w.name e2
  · exact hν w.name e2.symm
  · exact hstar rfl

/-- domains as declared carry a distribution over plain variables (`PopsPlain`: the hypothesis under which
`OutcomesFound` is the only crash class of Algorithm 3, `ctfTR_no_internal_error_plain_partial`) -/
theorem popsPlain_of_declared (ds : List Domain) (hdecl : DomainsDeclared ds) : PopsPlain ds := by
  intro d hd
  obtain ⟨t, ht⟩ := hdecl.pop d hd
  rw [ht]
  intro x hx
  have hx' : x ∈ TrDsl.sortVars ((regular d.graph).map Var.plain) := hx
  rw [CtfTr.mem_sortVars] at hx'
  obtain ⟨n, _, rfl⟩ := List.mem_map.1 hx'
  rfl

/-- **C09 for Algorithm 3, the three clauses together.**  For a conditional query accepted by the validator, built by the
public wrapper, on graphs built by `from_edges` with domains as declared and selection diagrams that agree with the target
graph — NO class of queries excluded for the first clause (after `fix:` f335599, `ctfTR_no_internal_error`): `ctfTR` raises
no error, and its result is
* FAIL, or
* `Zero()` without an event — and then, if every outcome is given in the minimal form the components store
  (`OutcomesFound`) and `D_*` names every vertex in one world, `outcomes ∧ conditions` has probability 0 in every
  functional SCM, or
* an expression `x` with an event — and then, if the query is in the decidable class `ctfTRSoundClass`, `x` evaluated on
  the declared domain distributions of ANY compatible family in which the conditions have positive probability, at ANY
  valuation carrying the query's values and literal subscripts, is `P*(outcomes ∧ conditions) / P*(conditions)`. -/
theorem ctfTR_correct_partial (target : MG Name) (ds : List Domain) (o c : Event)
    (hv : validateC target ds o c = .ok ()) (hwf : target.WF) (hdecl : DomainsDeclared ds)
    (hplain : EventVarsPlain (o ++ c)) (hdom : DomainsAgree target ds) :
    ctfTR target ds o c = .ok none ∨
    (ctfTR target ds o c = .ok (some (.zero, none)) ∧
      (OutcomesFound target o c = true → DstarOneWorld target o c = true →
        ∀ (M : Fscm.Model) (ν : BaseValues), ν.Distinct → probEventOpt M ν (o ++ c) = 0)) ∨
    (∃ x rev, ctfTR target ds o c = .ok (some (x, some rev)) ∧
      (ctfTRSoundClass target o c = true →
        ∀ (F : FscmFamily) (graphs : Option Name → MG Name), F.CompatibleWith target graphs (declsOf ds) →
        ∀ (ν : BaseValues) (σ σ' : Val), (∀ x, σ x < F.card x) → EventReading ν σ (o ++ c) →
          probEventOpt F.target ν c ≠ 0 →
          den (F.env graphs) σ' x σ = probEventOpt F.target ν (o ++ c) / probEventOpt F.target ν c)) := by
  rcases ctfTR_answers_or_fails target ds o c hv hwf hdecl.wf hdom hplain
      (popsPlain_of_declared ds hdecl) with ⟨⟨x, oev⟩, ha⟩ | hf
  · cases oev with
    | none =>
      refine Or.inr (Or.inl ?_)
      have hx := (ctfTR_zero_only_from_simplify target ds o c x ha).1
      refine ⟨by rw [ha, hx], fun hfound hone M ν hν => ?_⟩
      exact (ctfTR_zero_sound_partial target ds o c x ha hwf hplain hone hfound M ν hν).2
    | some rev =>
      refine Or.inr (Or.inr ⟨x, rev, ha, fun hclass F graphs hF ν σ σ' hσr hσ hpos => ?_⟩)
      exact ctfTR_sound_partial target ds o c x rev ha hwf hdecl hplain hclass F graphs hF ν σ σ' hσr hσ hpos
  · exact Or.inl hf

-- OPEN: ctfTRu_sound (ALL validated inputs)
--   FALSE of the current code outside `ctfSoundClass` (known findings value:two_values / multi_world / literal_bound /
--   reflexive, inherited from C19's factorisation findings) — see the witnesses in corpus/C09.  Inside the class the
--   clause is PROVED (`ctfTRu_sound_partial`, `ctfTRu_sound_free_partial`); what the theorem assumes beyond the class:
--   * `DomainsDeclared`: the declared distribution of each domain is the joint `P^t(V)` of its regular variables (the
--     public `CFTDomain` allows any `PopulationProbability`; a conditional or interventional one is not covered);
--   * the model class of Y0/Spec/CtfFamilySpec.lean: positive discrete functional SCMs, selection nodes inert, a source
--     domain differs from the target only in the mechanisms of `Δ` (a differing noise distribution is represented by
--     extra exogenous variables that the target does not read).
-- OPEN: ctfTR_sound (ALL validated conditional queries)
--   theorem ctfTR_sound (h : ctfTR target ds outcomes conditions = .ok (some (x, some rev))) … :
--       den (F.env graphs) σ' x σ = probEventOpt F.target ν (outcomes ++ conditions) / probEventOpt F.target ν conditions
--   PROVED inside the decidable class `ctfTRSoundClass` (`ctfTR_sound_partial`; both identities of `ctfTR_sound_of_parts`
--   are discharged by `ctfTR_link`).  Outside the class:
--   * FALSE of the current code on the inputs of the open findings cond:value:two_values (no reading exists),
--     cond:value:multi_world (a vertex in two worlds: the class asks for ONE world across all ancestral components),
--     cond:value:literal_bound (a literal subscript naming a summed vertex);
--   * NOT DECIDED where the class is stricter than the code needs (quick stream, seed 0: 1322 answered conditional cases
--     with an event, 379 in the class, 175 without any reading; tools/c09_condclass.py): a literal subscript that names a
--     vertex of the components which is not a condition (65 cases excluded by this clause alone, 61 accepted by the oracle:
--     e.g. the subscript names an OUTCOME with the same value, `P(Y_x = y, X = x | Z = z)` — the denominator's sum over `X`
--     also moves the subscript, harmless by composition — or sits on a condition whose component holds no outcome), a vertex
--     in two worlds on which the vertex-wise bookkeeping happens to be right, e.g. `P(Y_x = y | X = x, Y = y)` (15, all
--     accepted), and — since repo f335599 — an outcome that is not given in minimal form (`OutcomesFound = false`: a
--     causally irrelevant subscript; the code now looks it up under `‖Y_x‖` of the cut graph, the former findings
--     cond:value:outcome-lookup-miss / outcome-also-condition are fixed and the exact oracle accepts these answers, but the
--     theorem is proved for queries whose outcomes are their own lookup keys, `lookup_self`).
--   The ZERO clause (`ctfTR_zero_sound_partial`) now needs `OutcomesFound` next to `DstarOneWorld`: two outcomes `Y_x`, `Y`
--   whose lookup keys coincide (X → Z → Y, condition `Z_x`: the key of `Y_x` is `Y`) with different values make SIMPLIFY
--   answer Zero although `P(Y_x = y, Y = y' | Z_x = z) > 0` (the condition is in another world; harness class
--   cond:zero:multi_world).
--     The cases without a reading (a name with two value symbols: finding cond:value:two_values) are outside every reading
--     of "the returned event's values".

/-! ## Non-vacuity: a two-domain family on `X → Y` with a selection node on `X`

Target `π*`: `X := u₀` with `P(u₀ = 1) = 2/3`, `Y := X ⊕ u₁`.  Source `π¹` (tag 1001, selection diagram `T_X → X → Y`):
`X := 1 - u₀` — a different distribution of `X` — and the same mechanism at `Y`.  `P*(Y_x = y)` is answered by
`P^{π¹}(Y | X)`; the theorem says this IS the target probability. -/

example : ctfTRu exFG [exFDom] exFEvent = .ok (some (exFExpr, some exFEv)) := exF_answer
example : ctfSoundClass exFG exFEv = .ok true := by decide
example : exFam.CompatibleWith exFG exFGraphs (declsOf [exFDom]) := exFam_compatible
/-- the two domains genuinely differ at `X` -/
example (σ : Val) (h : σ 0 < 2) :
    exFT.kernOf exFCard 500 0 σ = (if σ 0 = 0 then 1/3 else 2/3) ∧
    exFS.kernOf exFCard 500 0 σ = (if σ 0 = 0 then 2/3 else 1/3) := ⟨exFT_kern0 σ h, exFS_kern0 σ h⟩

def exFNu : BaseValues := fun _ b => if b then 1 else 0
def exFSigma : Val := fun _ => 0

/-- the value clause applied to the concrete family: `P^{π¹}(Y = 0 | X = 0)` read on the source model equals
`P*(Y_{X=0} = 0)` of the target model -/
example : den (exFam.env exFGraphs) exFSigma exFExpr exFSigma = probEventOpt exFT exFNu exFEvent :=
  ctfTRu_sound_partial exFG [exFDom] exFEvent exFEv exFExpr exF_answer (MG.wf_fromEdges _ _ _) exFDom_declared
    exFEvent_plain exFEvent_notSelf exFEv_valued (by decide) exFam exFGraphs exFam_compatible exFNu
    (by intro n; simp [exFNu]) exFSigma exFSigma
    (by intro x; show 0 < exFCard x; unfold exFCard; split <;> decide)
    ⟨by decide, by decide⟩

/-! ### Algorithm 3 on the same family: `P*(Y = y | X = x)`.  `X` is a conditioned ancestor of `Y`: the edge `X → Y` is cut
(Def. 4.2), `D_* = {Y_x}`, the answer is `P^{π¹}(Y | X) / Σ_Y P^{π¹}(Y | X)` with the event `Y = y, X = x` -/

example : validateC exFG [exFDom] exJO exJC = .ok () := exJ_validated
example : ctfTRSoundClass exFG exJO exJC = true := by decide +kernel
example : probEventOpt exFT exFNu exJC ≠ 0 := by decide +kernel

theorem isAnswerWithEvent_iff (r : Except Err (Option Answer)) (h : isAnswerWithEvent r = true) :
    ∃ x ev, r = .ok (some (x, some ev)) := by
  unfold isAnswerWithEvent at h
  split at h
  · exact ⟨_, _, rfl⟩
  · cases h

/-- the value clause of Algorithm 3 applied to the concrete family: the returned fraction, read on the SOURCE model, is
the target conditional probability `P*(Y = 0 | X = 0)` -/
example : ∃ x rev, ctfTR exFG [exFDom] exJO exJC = .ok (some (x, some rev)) ∧
    den (exFam.env exFGraphs) exFSigma x exFSigma =
      probEventOpt exFT exFNu (exJO ++ exJC) / probEventOpt exFT exFNu exJC := by
  obtain ⟨x, rev, h⟩ := isAnswerWithEvent_iff (ctfTR exFG [exFDom] exJO exJC) (by decide +kernel)
  exact ⟨x, rev, h, ctfTR_sound_partial exFG [exFDom] exJO exJC x rev h (MG.wf_fromEdges _ _ _) exFDom_declared
    exJ_plain (by decide +kernel) exFam exFGraphs exFam_compatible exFNu exFSigma exFSigma
    (by intro x; show 0 < exFCard x; unfold exFCard; split <;> decide)
    ⟨by decide, by decide⟩ (by decide +kernel)⟩

/-- Example 4.5-like `P*(y_x | x')` of the corpus (figure 2a) is OUTSIDE the class: `X` receives the two values `x`
(subscript) and `x'` (condition), no valuation reads the query (`readingExists` is false; finding cond:value:two_values) -/
example : readingExists (a3Out ++ a3Cond) = false := by decide
/-- `P*(y_x | z)` on figure 2a (corpus; `Z` is a conditioned ancestor of `Y_x`: a cut edge, `W_x`, `Z` and `Y_{x}` in one
world) is inside the class -/
example : ctfTRSoundClass fig2a a3Out [({ name := 3 }, some ⟨3, false⟩)] = true := by decide +kernel

/-- Example 4.2 of the paper (`P*(y_x, x)` on figure 2a, two source domains) is inside the class -/
example : ctfSoundClass (MG.fromEdges [] [(3, 1), (3, 2), (1, 2), (1, 0), (0, 2)] [(3, 1), (0, 2)])
    [({ name := 2, ivs := [⟨1, false⟩] }, some ⟨2, false⟩), ({ name := 1 }, some ⟨1, false⟩)] = .ok true := by decide
/-- … `P*(y_x, x')` (two values for `X`, known finding value:two_values) is excluded by `EventReading`: no valuation gives
`X` both its event value `+x` and its subscript value `-x` -/
example (ν : BaseValues) (hν : ν.Distinct) (σ : Val) :
    ¬ EventReading ν σ [({ name := 2, ivs := [⟨1, false⟩] }, some ⟨2, false⟩), ({ name := 1 }, some ⟨1, true⟩)] := by
  intro h
  have h1 := h.value ({ name := 1 }, some ⟨1, true⟩) (by simp) ⟨1, true⟩ rfl
  have h2 := h.sub ({ name := 2, ivs := [⟨1, false⟩] }, some ⟨2, false⟩) (by simp) ⟨1, false⟩ (by simp)
  exact hν 1 (by simp only [ivValue] at h1 h2; rw [← h1, ← h2])
/-- … and `P(Y_x = y, Z = z)` on `Y ← X → Z` (a literal subscript bound by the sum over `X`, known finding
value:literal_bound) is outside the class -/
example : ctfSoundClass (MG.fromEdges [] [(0, 1), (0, 2)] [])
    [({ name := 1, ivs := [⟨0, false⟩] }, some ⟨1, false⟩), ({ name := 2 }, some ⟨2, false⟩)] = .ok false := by decide

end CtfTr
end Y0
