/-
  C10Sem — the semantic foundation under properties C10 / C12 / C13: the meaning-preservation theorems quantify over
  "every family of distributions `env` satisfying `ProbFamily env`" (Y0/Spec/Sem.lean).  This file shows that the
  quantifier is NOT vacuous and ranges over the distributions of actual causal models:

  1. FUNCTIONAL SCMs (Y0/Spec/Fscm.lean).  `fscm_probFamily`: the environment `M.fscmEnv card` (Y0/Spec/FscmEnv.lean;
     joint distribution of ALL counterfactual variables, all worlds share the exogenous noise) of every well-formed
     functional SCM satisfies every law of `ProbFamily`.  Hence C10/C13 hold in every functional SCM:
     `canon_den_fscm`, `canonical_equal_sound_fscm`, `sum_simplify_den_fscm`, `contract_den_fscm`, `bayes_expand_den_fscm`,
     `chain_expand_den_fscm`.  On well-formed worlds the environment is `Fscm.prob` verbatim (`fscmEnv_pr_valid`); the
     convention for ill-formed `dos` lists (`normDo`) is what makes `pr_dos_perm`, `pr_marg`, `pr_range` hold as stated
     (`fscmRaw_*`: the exact side conditions without it, and the three counterexamples).

  2. SEMI-MARKOVIAN MODELS (Y0/Spec/Scm.lean).  `M.env G` itself is NOT a `ProbFamily` (`env_not_probFamily`).  Its
     total extension `M.envX G` (Y0/Spec/ScmEnvX.lean, independent worlds) is (`scm_envX_probFamily`) and coincides
     with `M.env G` on single-world conjunctions and expressions (`scm_envX_pr_eq_env`, `scm_den_envX_eq_env`).
     Consequently C10 holds in `M.env G` itself for single-world expressions: `canon_den_scm`,
     `canonical_equal_sound_scm`; with the soundness theorems of C01/C03/C17/C05 (stated over `M.env G`) this gives
     `canonical_of_sound`: the canonical form of a sound estimand is a sound estimand.

  3. `Env.Positive` (hypothesis of `canon_den_positive`, `chain_expand_den_positive`) is satisfied by NO causal model
     with a non-constant variable (`fscmEnv_not_positive`, `envX_not_positive`): it demands positive probability for
     `X_{x=0} = 1`.  The single-world positivity `Env.PositiveSW` (Y0/Lemmas/SemPosSW.lean) is the satisfiable
     replacement: `canon_den_positiveSW`; every compatible semi-Markovian model has it (`scm_envX_positiveSW`), whence
     `canon_den_scm_positive` (C10 in `M.env G` with no hypothesis on denominators).

  4. Non-vacuity: a concrete 3-variable functional SCM with a confounder (`conf3`, with a genuinely cross-world joint
     value) satisfies all hypotheses.  Concrete semi-Markovian models, the composition with ID (`id_sound_canonical`),
     and the relation between the two model classes (`fscm_toScm_prDo`, `fscm_toScm_compatible`, `id_sound_fscm`) are in
     Y0/Props/C10SemId.lean.
-/
import Y0.Lemmas.FscmEnvLaws
import Y0.Lemmas.ScmEnvXAgree
import Y0.Lemmas.SemPosSW
import Y0.Lemmas.CanonVocab
import Y0.Props.C10
import Y0.Props.C13

namespace Y0
namespace C10Sem
open Fscm Scm

/-! ## 1. functional SCMs -/

section fscm
variable {M : Fscm.Model} {card : Name → Nat} {σ' : Val}

/-- **every well-formed functional SCM induces a family of distributions satisfying all probability laws** -/
theorem fscm_probFamily (hM : WellFormed M card) : ProbFamily (M.fscmEnv card) := fscmEnv_probFamily hM

/-- what the environment is, on atoms whose worlds are well formed: the mass of the noise points at which every
conjunct `solve u dos name = val` holds (`Fscm.prob`, the specification of C07/C08/C18/C19) -/
theorem fscmEnv_pr_valid (M : Fscm.Model) (card : Name → Nat) (pop : Option Name) (l : List Atom)
    (h : ∀ a ∈ l, DoValid card a.dos) :
    (M.fscmEnv card).pr pop l = Fscm.prob M (l.map fun a => ⟨a.name, a.dos, a.val⟩) :=
  Fscm.fscmEnv_pr_valid M card pop l h

/-- **C10 in every functional SCM**: canonicalisation preserves the counterfactual quantity an expression denotes -/
theorem canon_den_fscm (hM : WellFormed M card) {o : List Var} {e e' : Expr} (hws : WellScoped e = true)
    (hz : DenNZ (M.fscmEnv card) σ' e) (h : canon o e = .ok e') {σ : Val} (hσ : InRange (M.fscmEnv card) σ) :
    den (M.fscmEnv card) σ' e' σ = den (M.fscmEnv card) σ' e σ :=
  canon_den (fscmEnv_probFamily hM) hws hz h hσ

theorem canonicalize_den_fscm (hM : WellFormed M card) {ordering : Option (List Var)} {e e' : Expr}
    (hws : WellScoped e = true) (hz : DenNZ (M.fscmEnv card) σ' e) (h : canonicalize e ordering = .ok e')
    {σ : Val} (hσ : InRange (M.fscmEnv card) σ) : den (M.fscmEnv card) σ' e' σ = den (M.fscmEnv card) σ' e σ :=
  canonicalize_den (fscmEnv_probFamily hM) hws hz h hσ

theorem canonical_equal_sound_fscm (hM : WellFormed M card) {l r : Expr} (hl : WellScoped l = true)
    (hr : WellScoped r = true) (hzl : DenNZ (M.fscmEnv card) σ' l) (hzr : DenNZ (M.fscmEnv card) σ' r)
    (h : canonicalExprEqual l r = .ok true) {σ : Val} (hσ : InRange (M.fscmEnv card) σ) :
    den (M.fscmEnv card) σ' l σ = den (M.fscmEnv card) σ' r σ :=
  canonical_equal_sound (fscmEnv_probFamily hM) hl hr hzl hzr h hσ

/-- **C13 in every functional SCM** (the operators whose theorems need `ProbFamily`) -/
theorem sum_simplify_den_fscm (hM : WellFormed M card) (e : Expr) (rs : List Var)
    (hleaf : ∀ pop c, e = .prob pop c [] → SumLeafOK c rs) (σ : Val) :
    den (M.fscmEnv card) σ' (sumSimplify e rs) σ =
      sumVars card (rs.map (·.name)) (fun τ => den (M.fscmEnv card) σ' e τ) σ :=
  C13.sum_simplify_den (fscmEnv_probFamily hM) e rs hleaf σ

theorem contract_den_fscm (hM : WellFormed M card) (e : Expr) (σ : Val) :
    den (M.fscmEnv card) σ' (contract e) σ = den (M.fscmEnv card) σ' e σ :=
  C13.contract_den (fscmEnv_probFamily hM) e σ

theorem bayes_expand_den_fscm (hM : WellFormed M card) {pop : Option Var} {ch pa : List Var} {c : Expr}
    (hok : BayesOK ch pa) (h : bayesExpand (.prob pop ch pa) = .ok c) (σ : Val) :
    den (M.fscmEnv card) σ' c σ = den (M.fscmEnv card) σ' (.prob pop ch pa) σ :=
  C13.bayes_expand_den (fscmEnv_probFamily hM) hok h σ

theorem chain_expand_den_fscm (hM : WellFormed M card) {pop : Option Var} {ch pa : List Var} {reorder : Bool}
    {ordering : Option (List Var)} {c : Expr} (hne : ch ≠ [])
    (h : chainExpand (.prob pop ch pa) reorder ordering = .ok c) (σ : Val)
    (hpos : ∀ s : List Var, (∀ v ∈ s, v ∈ ch) →
      (M.fscmEnv card).pr (pop.map (·.name)) ((s ++ pa).map (Var.atom σ σ')) ≠ 0) :
    den (M.fscmEnv card) σ' c σ = den (M.fscmEnv card) σ' (.prob pop ch pa) σ :=
  C13.chain_expand_den (fscmEnv_probFamily hM) hne h σ hpos

/-! ### the laws without the convention for ill-formed worlds -/

/-- raw worlds (first binding wins, out-of-range bindings literal): the five unconditional laws -/
theorem fscmRaw_unconditional (hM : WellFormed M card) :
    (∀ x, 0 < (M.fscmEnvRaw card).card x) ∧ (∀ pop, (M.fscmEnvRaw card).pr pop [] = 1) ∧
    (∀ pop l, 0 ≤ (M.fscmEnvRaw card).pr pop l) ∧
    (∀ pop l₁ l₂, l₁.Perm l₂ → (M.fscmEnvRaw card).pr pop l₁ = (M.fscmEnvRaw card).pr pop l₂) ∧
    (∀ pop a l, (M.fscmEnvRaw card).pr pop (a :: a :: l) = (M.fscmEnvRaw card).pr pop (a :: l)) ∧
    (∀ pop a b l, a.conflicts b = true → (M.fscmEnvRaw card).pr pop (a :: b :: l) = 0) :=
  ⟨fscmEnvRaw_card_pos hM, fscmEnvRaw_pr_nil hM, fscmEnvRaw_pr_nonneg hM,
   fun pop _ _ h => fscmEnvRaw_pr_perm M card pop h, fscmEnvRaw_pr_dup M card, fscmEnvRaw_pr_conflict M card⟩

/-- `pr_dos_perm` for raw worlds needs a single-valued `dos` list -/
theorem fscmRaw_dos_perm (M : Fscm.Model) (card : Name → Nat) (pop : Option Name) (a : Atom) (dos' : List (Name × Nat))
    (l : List Atom) (hfun : Functional a.dos) (h : a.dos.Perm dos') :
    (M.fscmEnvRaw card).pr pop ({ a with dos := dos' } :: l) = (M.fscmEnvRaw card).pr pop (a :: l) :=
  fscmEnvRaw_pr_dos_perm M card pop a dos' l hfun h

/-- `pr_marg` for raw worlds needs the bindings the world uses to be in range (and nothing about the rest) -/
theorem fscmRaw_marg (hM : WellFormed M card) (pop : Option Name) (x : Name) (dos : List (Name × Nat)) (l : List Atom)
    (hd : DoInRange card dos) :
    sumRange (card x) (fun k => (M.fscmEnvRaw card).pr pop (⟨x, dos, k⟩ :: l)) = (M.fscmEnvRaw card).pr pop l :=
  fscmEnvRaw_pr_marg hM pop x dos l hd

theorem fscmRaw_range (hM : WellFormed M card) (pop : Option Name) (a : Atom) (l : List Atom)
    (hd : DoInRange card a.dos) (h : card a.name ≤ a.val) : (M.fscmEnvRaw card).pr pop (a :: l) = 0 :=
  fscmEnvRaw_pr_range hM pop a l hd h

/-- the three side conditions are necessary: `X := u₀` with a fair coin -/
theorem fscmRaw_counterexamples :
    (coin.fscmEnvRaw (fun _ => 2)).pr none [⟨0, [(0, 1), (0, 0)], 0⟩] ≠
        (coin.fscmEnvRaw (fun _ => 2)).pr none [⟨0, [(0, 0), (0, 1)], 0⟩] ∧
    sumRange 2 (fun k => (coin.fscmEnvRaw (fun _ => 2)).pr none [⟨0, [(0, 7)], k⟩]) ≠
        (coin.fscmEnvRaw (fun _ => 2)).pr none [] ∧
    (coin.fscmEnvRaw (fun _ => 2)).pr none [⟨0, [(0, 7)], 7⟩] ≠ 0 :=
  ⟨raw_dos_perm_fails, raw_marg_fails, raw_range_fails⟩

end fscm

/-! ## 2. semi-Markovian models -/

section scm
variable {M : Scm} {G : MG Name} {σ' : Val}

/-- **the total environment of every compatible semi-Markovian model satisfies all probability laws** -/
theorem scm_envX_probFamily (hM : M.Compatible G) (hG : G.WF) (hr : G.Ranked) : ProbFamily (M.envX G) :=
  envX_probFamily ⟨hM, hG, hr⟩

/-- it extends `M.env G`: same value on every conjunction in one well-formed world about nodes, values in range -/
theorem scm_envX_pr_eq_env (hM : M.Compatible G) (hG : G.WF) (hr : G.Ranked) (pop : Option Name)
    (d : List (Name × Nat)) (hd : DoValid M.card d) (l : List Atom) (hdos : ∀ a ∈ l, a.dos = d)
    (hnode : ∀ a ∈ l, a.name ∈ G.nodes) (hval : ∀ a ∈ l, a.val < M.card a.name) :
    (M.envX G).pr pop l = (M.env G).pr pop l :=
  envX_pr_eq_env ⟨hM, hG, hr⟩ pop d hd l hdos hnode hval

/-- ... and gives every single-world expression over the nodes the same denotation -/
theorem scm_den_envX_eq_env (hM : M.Compatible G) (hG : G.WF) (hr : G.Ranked) {e : Expr} (hsw : e.swOK G = true)
    {σ : Val} (hσ : InRange (M.env G) σ) (hσ' : InRange (M.env G) σ') :
    den (M.envX G) σ' e σ = den (M.env G) σ' e σ :=
  den_envX_eq_env ⟨hM, hG, hr⟩ hσ' e hsw σ hσ

/-- canonicalisation keeps a well-scoped single-world expression over the nodes single-world over the nodes (it invents
no event variable: Y0/Lemmas/CanonVocab.lean) -/
theorem canon_swOK {G : MG Name} {o : List Var} {e e' : Expr} (hws : WellScoped e = true) (hsw : e.swOK G = true)
    (h : canon o e = .ok e') : e'.swOK G = true := swOK_canon hws hsw h

/-- **C10 for the concrete environment of a semi-Markovian model.**  For a well-scoped single-world expression over the
nodes of `G`, canonicalisation preserves the denotation in `M.env G` — the environment in which the soundness theorems
of ID / IDC / IDENTIFY / TRSO are stated.  (The canonical form is again single-world over the nodes: `canon_swOK`.) -/
theorem canon_den_scm (hM : M.Compatible G) (hG : G.WF) (hr : G.Ranked) {o : List Var} {e e' : Expr}
    (hws : WellScoped e = true) (hsw : e.swOK G = true) (hz : DenNZ (M.env G) σ' e) (h : canon o e = .ok e')
    {σ : Val} (hσ : InRange (M.env G) σ) (hσ' : InRange (M.env G) σ') :
    den (M.env G) σ' e' σ = den (M.env G) σ' e σ := by
  have hC : XCtx M G := ⟨hM, hG, hr⟩
  have hsw' : e'.swOK G = true := swOK_canon hws hsw h
  rw [← den_envX_eq_env hC hσ' e' hsw' σ hσ, ← den_envX_eq_env hC hσ' e hsw σ hσ]
  exact canon_den (envX_probFamily hC) hws ((denNZ_envX_iff_env hC hσ' e hsw).mpr hz) h hσ

/-- the same without the side condition on the canonical form, read in the total environment -/
theorem canon_den_scm_envX (hM : M.Compatible G) (hG : G.WF) (hr : G.Ranked) {o : List Var} {e e' : Expr}
    (hws : WellScoped e = true) (hsw : e.swOK G = true) (hz : DenNZ (M.env G) σ' e) (h : canon o e = .ok e')
    {σ : Val} (hσ : InRange (M.env G) σ) (hσ' : InRange (M.env G) σ') :
    den (M.envX G) σ' e' σ = den (M.env G) σ' e σ := by
  have hC : XCtx M G := ⟨hM, hG, hr⟩
  rw [← den_envX_eq_env hC hσ' e hsw σ hσ]
  exact canon_den (envX_probFamily hC) hws ((denNZ_envX_iff_env hC hσ' e hsw).mpr hz) h hσ

theorem canonical_equal_sound_scm (hM : M.Compatible G) (hG : G.WF) (hr : G.Ranked) {l r : Expr}
    (hl : WellScoped l = true) (hr' : WellScoped r = true) (hsl : l.swOK G = true) (hsr : r.swOK G = true)
    (hzl : DenNZ (M.env G) σ' l) (hzr : DenNZ (M.env G) σ' r) (h : canonicalExprEqual l r = .ok true)
    {σ : Val} (hσ : InRange (M.env G) σ) (hσ' : InRange (M.env G) σ') :
    den (M.env G) σ' l σ = den (M.env G) σ' r σ := by
  have hC : XCtx M G := ⟨hM, hG, hr⟩
  rw [← den_envX_eq_env hC hσ' l hsl σ hσ, ← den_envX_eq_env hC hσ' r hsr σ hσ]
  exact canonical_equal_sound (envX_probFamily hC) hl hr' ((denNZ_envX_iff_env hC hσ' l hsl).mpr hzl)
    ((denNZ_envX_iff_env hC hσ' r hsr).mpr hzr) h hσ

/-- **composition with soundness theorems stated over `M.env G`** (C01 `id_sound`, C03, C17, C05): if `e` denotes
`target` in the model (at every valuation), so does its canonical form (at in-range valuations).
`DenNZA` (no denominator vanishes at any valuation) holds for every estimand of ID: Y0/Lemmas/SemObs.lean. -/
theorem canonical_of_sound (hM : M.Compatible G) (hG : G.WF) (hr : G.Ranked) {ordering : Option (List Var)}
    {e e' : Expr} (target : Val → Rat) (hsound : ∀ σ, den (M.env G) σ' e σ = target σ)
    (hws : WellScoped e = true) (hsw : e.swOK G = true) (hz : DenNZA (M.env G) σ' e)
    (h : canonicalize e ordering = .ok e')
    {σ : Val} (hσ : InRange (M.env G) σ) (hσ' : InRange (M.env G) σ') :
    den (M.env G) σ' e' σ = target σ := by
  rw [← hsound σ]
  exact canon_den_scm hM hG hr hws hsw (denNZ_of_denNZA e hz) h hσ hσ'

/-- `M.env G` itself violates `ProbFamily`: marginal consistency fails across worlds (and it cannot be repaired by
restricting the model: the failing conjunction mentions two different, perfectly well-formed worlds) -/
theorem env_not_probFamily (hM : M.Compatible G) (hG : G.WF) (hr : G.Ranked) (x : Name) (hx : x ∈ G.nodes)
    (hc : 1 < M.card x) : ¬ ProbFamily (M.env G) := by
  intro hF
  -- Σ_k P(x = k in world [(x,0)], x = 0 in world []) = 0 by definition, but P(x = 0) > 0
  have h := hF.pr_marg none x [(x, 0)] [⟨x, [], 0⟩] (by
    intro a ha
    rw [List.mem_singleton] at ha
    subst ha
    simp)
  have hz : sumRange (M.card x) (fun k => (M.env G).pr none (⟨x, [(x, 0)], k⟩ :: [⟨x, [], 0⟩])) = 0 := by
    rw [sumRange_eq_sum]
    apply Finset.sum_eq_zero
    intro k _
    simp [Scm.env, prAtoms]
  have h : (0 : Rat) = (M.env G).pr none [⟨x, [], 0⟩] := hz.symm.trans h
  have hC : XCtx M G := ⟨hM, hG, hr⟩
  have hpos : 0 < (M.env G).pr none [⟨x, [], 0⟩] := by
    rw [← envX_pr_eq_env hC none [] ⟨by simp, by simp⟩ [⟨x, [], 0⟩] (by simp) (by simpa using hx)
      (by simpa using (Nat.lt_trans Nat.zero_lt_one hc))]
    show 0 < M.prX G [⟨x, [], 0⟩]
    rw [prX_eq_prod hC _ [kdos M.card G []] (List.nodup_singleton _)
      (fun D hD => by rw [List.mem_singleton] at hD; subst hD; exact kdos_canon _)
      (fun a ha => by rw [List.mem_singleton] at ha; subst ha; simp [akey])]
    simp only [List.map_cons, List.map_nil, List.prod_cons, List.prod_nil, mul_one]
    have hev : evOf M.card G (kdos M.card G []) [⟨x, [], 0⟩] = [(x, 0)] := by simp [evOf]
    rw [hev]
    have hok : evOK M G [(x, 0)] = true := by
      rw [evOK_iff]; intro p hp; rw [List.mem_singleton] at hp; subst hp
      exact ⟨Nat.lt_trans Nat.zero_lt_one hc, Or.inl hx⟩
    have hcons : consistent (kdos M.card G [] ++ nd G [(x, 0)]) = true := by
      have : kdos M.card G [] = [] := by
        apply List.eq_nil_iff_forall_not_mem.mpr
        intro p hp
        have := (mem_kdos.mp hp).2
        simp [Fscm.normDo, Fscm.forced] at this
      rw [this, nd_cons_node hx]
      simp [nd, consistent]
    rw [pw_of_reads hC (rd _) hok (rd_reads ((consistent_iff _).mp hcons))]
    exact TianProb.F_pos hM _ _ _
  rw [← h] at hpos
  exact lt_irrefl _ hpos

end scm

/-! ## 3. `Env.Positive` is not satisfiable by causal models -/

/-- in the environment of a functional SCM the in-range, conflict-free conjunction `X_{x=0} = 1` has probability 0:
`Env.Positive` fails as soon as some variable has two values -/
theorem fscmEnv_not_positive {M : Fscm.Model} {card : Name → Nat} (x : Name) (hc : 1 < card x) :
    ¬ (M.fscmEnv card).Positive := by
  intro hP
  have := hP none [⟨x, [(x, 0)], 1⟩] (by intro a ha; rw [List.mem_singleton] at ha; subst ha; exact hc)
    (by simp [Atom.conflicts])
  have hz : (M.fscmEnv card).pr none [⟨x, [(x, 0)], 1⟩] = 0 := by
    rw [fscmEnv_pr]
    apply prob_eq_zero_of_never
    intro u
    have hvalid : DoValid card [(x, 0)] := ⟨by simpa using Nat.lt_trans Nat.zero_lt_one hc, by simp⟩
    simp only [List.map_cons, List.map_nil, List.all_cons, List.all_nil, Bool.and_true, holds_atomConj,
      normDo_of_valid hvalid]
    by_cases hx : x ∈ M.order
    · rw [solve_forced M u [(x, 0)] x 0 hx (by simp [forced])]; rfl
    · have : solve M u [(x, 0)] x = 0 := by
        unfold solve
        have key : ∀ (l : List Name) (σ : Valuation), x ∉ l → (l.foldl (step M u [(x, 0)]) σ) x = σ x := by
          intro l
          induction l with
          | nil => intro σ _; rfl
          | cons a l ih =>
            intro σ hxl
            simp only [List.foldl_cons]
            rw [ih _ (fun h => hxl (List.mem_cons_of_mem _ h))]
            exact step_other M u _ σ a x (fun e => hxl (e ▸ List.mem_cons_self))
        exact key M.order _ hx
      rw [this]; rfl
  rw [hz] at this
  exact lt_irrefl _ this

/-- `Env.Positive` fails in the total environment of a semi-Markovian model too -/
theorem envX_not_positive {M : Scm} {G : MG Name} (hM : M.Compatible G) (hG : G.WF) (hr : G.Ranked) (x : Name)
    (hx : x ∈ G.nodes) (hc : 1 < M.card x) : ¬ (M.envX G).Positive :=
  Scm.envX_not_positive ⟨hM, hG, hr⟩ x hx hc

/-- the satisfiable replacement: single-world positivity (Y0/Lemmas/SemPosSW.lean) follows from `Env.Positive` ... -/
theorem positiveSW_of_positive {env : Env} (h : env.Positive) (V : List Name) : env.PositiveSW V := h.positiveSW V

/-- ... and holds in the total environment of EVERY compatible semi-Markovian model, over the nodes of the graph -/
theorem scm_envX_positiveSW {M : Scm} {G : MG Name} (hM : M.Compatible G) (hG : G.WF) (hr : G.Ranked) :
    (M.envX G).PositiveSW G.nodes := Scm.envX_positiveSW ⟨hM, hG, hr⟩

/-- **C10 under single-world positivity** (generalises `canon_den_positive`, whose hypothesis no causal model meets):
the non-vanishing hypothesis is discharged syntactically (`zfd`: no `Zero()` inside a denominator) -/
theorem canon_den_positiveSW {env : Env} {σ' : Val} {V : List Name} (hF : ProbFamily env) (hP : env.PositiveSW V)
    {o : List Var} {e e' : Expr} (hws : WellScoped e = true) (hzfd : e.zfd = true)
    (hV : ∀ v ∈ e.eventVars, v.name ∈ V) (h : canon o e = .ok e')
    {σ : Val} (hσ : InRange env σ) (hσ' : InRange env σ') : den env σ' e' σ = den env σ' e σ :=
  canon_den hF hws (denNZ_of_positiveSW hF hP hσ' e hws hzfd hV) h hσ

/-- **C10 for the concrete environment of a semi-Markovian model, no hypothesis on denominators left**: compatible
models are positive, so for a well-scoped single-world expression over the nodes with no `Zero()` inside a denominator,
canonicalisation preserves the denotation in `M.env G` -/
theorem canon_den_scm_positive {M : Scm} {G : MG Name} {σ' : Val} (hM : M.Compatible G) (hG : G.WF) (hr : G.Ranked)
    {o : List Var} {e e' : Expr} (hws : WellScoped e = true) (hsw : e.swOK G = true) (hzfd : e.zfd = true)
    (h : canon o e = .ok e') {σ : Val} (hσ : InRange (M.env G) σ)
    (hσ' : InRange (M.env G) σ') : den (M.env G) σ' e' σ = den (M.env G) σ' e σ := by
  have hC : XCtx M G := ⟨hM, hG, hr⟩
  have hsw' : e'.swOK G = true := swOK_canon hws hsw h
  rw [← den_envX_eq_env hC hσ' e' hsw' σ hσ, ← den_envX_eq_env hC hσ' e hsw σ hσ]
  exact canon_den_positiveSW (envX_probFamily hC) (Scm.envX_positiveSW hC) hws hzfd (eventVars_of_swOK e hsw) h hσ hσ'

/-! ## 4. non-vacuity: a functional SCM with a confounder -/

section example_fscm
open Var

/-- Z → X → Y with X ↔ Y: `u₀` is shared by X and Y (the confounder), `u₁,u₂,u₃` are private -/
def conf3 : Fscm.Model :=
  { order := [0, 1, 2]
    noise := [[1/3, 2/3], [1/3, 2/3], [1/5, 4/5], [1/4, 3/4]]
    pa := fun v => match v with | 1 => [0] | 2 => [1] | _ => []
    lat := fun v => match v with | 0 => [1] | 1 => [0, 2] | 2 => [0, 3] | _ => []
    f := fun _ ps us => (ps.sum + us.sum) % 2 }

def conf3G : MG Name := MG.fromEdges [0, 1, 2] [(0, 1), (1, 2)] [(1, 2)]

theorem conf3_wellFormed : WellFormed conf3 (fun _ => 2) := by
  refine ⟨fun _ => by decide, fun _ _ _ => Nat.mod_lt _ (by decide), ?_, ?_⟩
  · intro pmf hp p hpp
    simp only [conf3, List.mem_cons, List.not_mem_nil, or_false] at hp
    rcases hp with rfl | rfl | rfl | rfl <;>
      simp only [List.mem_cons, List.not_mem_nil, or_false] at hpp <;>
      rcases hpp with rfl | rfl <;> norm_num
  · intro pmf hp
    simp only [conf3, List.mem_cons, List.not_mem_nil, or_false] at hp
    rcases hp with rfl | rfl | rfl | rfl <;> norm_num

theorem conf3_compatible : Fscm.Compatible conf3 conf3G := by
  refine ⟨by decide, by decide, ?_, ?_, ?_⟩
  · intro v p hp
    match v with
    | 0 => simp [conf3] at hp
    | 1 => simp [conf3] at hp; subst hp; decide
    | 2 => simp [conf3] at hp; subst hp; decide
    | n + 3 => simp [conf3] at hp
  · intro l₁ v l₂ h p hp
    match v with
    | 0 => simp [conf3] at hp
    | 1 =>
      simp [conf3] at hp; subst hp
      match l₁, h with
      | [], h => simp [conf3] at h
      | [a], h => simp_all [conf3]
      | a :: b :: r, h => simp_all [conf3]
    | 2 =>
      simp [conf3] at hp; subst hp
      match l₁, h with
      | [], h => simp [conf3] at h
      | [a], h => simp [conf3] at h
      | [a, b], h => simp_all [conf3]
      | a :: b :: c :: r, h => simp_all [conf3]
    | n + 3 => simp [conf3] at hp
  · intro v w hne ⟨j, hj1, hj2⟩
    match v, w with
    | 0, 0 => exact absurd rfl hne
    | 0, 1 => simp [conf3] at hj1 hj2; omega
    | 0, 2 => simp [conf3] at hj1 hj2; omega
    | 0, n + 3 => simp [conf3] at hj2
    | 1, 0 => simp [conf3] at hj1 hj2; omega
    | 1, 1 => exact absurd rfl hne
    | 1, 2 => left; decide
    | 1, n + 3 => simp [conf3] at hj2
    | 2, 0 => simp [conf3] at hj1 hj2; omega
    | 2, 1 => right; decide
    | 2, 2 => exact absurd rfl hne
    | 2, n + 3 => simp [conf3] at hj2
    | n + 3, _ => simp [conf3] at hj1

/-- so all laws of probability hold in its environment -/
example : ProbFamily (conf3.fscmEnv (fun _ => 2)) := fscm_probFamily conf3_wellFormed

/-- `Σ_Z P(Y_x) · P(X | Z)`, a product of leaves living in two different worlds -/
def exCf : Expr :=
  .sum (.prod [.prob none [{ name := 2, ivs := [⟨1, false⟩] }] [], .prob none [plain 1] [plain 0]]) [plain 0]

example : WellScoped exCf = true := by decide
example : DenNZ (conf3.fscmEnv (fun _ => 2)) (fun _ => 0) exCf := by simp [exCf, DenNZ, DenNZList]

example (e' : Expr) (h : canon [plain 0, plain 1, plain 2] exCf = .ok e') :
    den (conf3.fscmEnv (fun _ => 2)) (fun _ => 0) e' (fun _ => 0) =
      den (conf3.fscmEnv (fun _ => 2)) (fun _ => 0) exCf (fun _ => 0) :=
  canon_den_fscm conf3_wellFormed (by decide) (by simp [exCf, DenNZ, DenNZList]) h (fun _ => Nat.zero_lt_two)


/-- the environment is a genuine cross-world joint: `P(Y_{x=0} = 1, Y = 0) = 1/5`, whereas
`P(Y_{x=0} = 1) · P(Y = 0) = 5/12 · 9/20 = 3/16` -/
theorem conf3_crossWorld :
    (conf3.fscmEnv (fun _ => 2)).pr none [⟨2, [(1, 0)], 1⟩, ⟨2, [], 0⟩] = 1 / 5 ∧
    (conf3.fscmEnv (fun _ => 2)).pr none [⟨2, [(1, 0)], 1⟩] = 5 / 12 ∧
    (conf3.fscmEnv (fun _ => 2)).pr none [⟨2, [], 0⟩] = 9 / 20 := by
  refine ⟨?_, ?_, ?_⟩ <;>
  · simp [Model.fscmEnv, prob, space, conf3, atomConj, normDo, holds, solve, step, forced, update, List.zipIdx]
    norm_num

end example_fscm

end C10Sem
end Y0
