/-
  Property C08 — IDC* estimands equal the conditional counterfactual probability.

  Statement (properties.jsonl): whenever IDC* returns an expression for outcome events given conditioning events, its
  value equals P(outcomes and conditions) / P(conditions) in every compatible SCM in which the conditions have
  positive probability; it returns zero only if the joint event has probability zero in every compatible model, and
  rejects (rather than answers) a conditioning event that is itself impossible.

  Everything below is about the executable model `Y0.Cf.idcStar` (Y0/Model/IdcStar.lean: the code after the three
  `fix:` commits to idc_star.py, `fix:` b76144c (sorted re-association order), `fix:` 1834c39 (the rule-2 test conditions on the other conditions), `fix:` 1a940ac (Zero when the exchange makes two outcomes one variable with two values) and the `fix:` a54a0f5 to `Expression.conditional` listed in known_findings.jsonl), which the correspondence check (harness/props/c08.py) compares with
  the real `idc_star` on every run under every iteration order of the sets the Python iterates over.

  PROVED (all graphs, events, fuels, iteration orders):
    * `idcstar_rejects_impossible_condition`     ID* says Zero for the conditions ⇒ IDC* raises the rejection, first thing
    * `idcstar_rejects_effectiveness_violation`  … in particular for every condition that violates effectiveness
    * `impossible_condition_has_probability_zero` such a condition has probability 0 in every functional SCM (so the rejection
                                                  is about a genuinely impossible condition: the answer would be 0/0)
    * `idcstar_line1_passes_iff`                 line 1 lets exactly the non-Zero / unidentifiable conditions through
    * `idcstar_zero_of_inconsistent`             line 3: 'inconsistent' joint event ⇒ Zero
    * `idcstar_zero_line3_sound`                 … and then the joint event has probability 0 in every compatible functional SCM
    * `idcstar_fuel_mono`                        more fuel never changes an answer that was reached
    * `idcstar_own_recursion_terminates`         TERMINATION of the line-4 recursion when no name is both an outcome and a
                                                 condition: `|conditions| + 1` units of fuel are never exhausted
                                                 (`idcStarO` = the model with its own exhaustion observable,
                                                 `idcstar_model_is_idcStarO`); `idcstar_bound_suffices`: the model's bound is enough
    * `idcstar_terminates_shared_names`          TERMINATION when outcomes and conditions are copies of the same variables: for every
                                                 pair of dicts of well-formed keys none of which is SELF-INTERVENED (`IdcInv`, decidable
                                                 `idcInvB`), any well-formed loop-free graph, all iteration orders, the line-4 recursion
                                                 ends: some fuel `N` suffices and every larger fuel gives the same run.  Lexicographic
                                                 measure (#variable names among the outcomes, #conditions named like no outcome); key
                                                 lemmas: names never migrate between the two sides (`reassoc_general`), rule 2 never
                                                 accepts a condition that is a copy of an outcome variable (`rule2_name_free`: copies
                                                 of a variable stay adjacent in the counterfactual graph, `cg_dop`; adjacent nodes are
                                                 not d-separated).  No explicit bound (see OPEN).
    * `idcstar_reassociation_order_independent`  NO DEPENDENCE ON THE ITERATION ORDER OF THE PYTHON SET (after `fix:` b76144c): the set
                                                 `set(new_event) - set(outcomes) - set(conditions)` of `get_new_outcomes_and_conditions` is
                                                 iterated in an arbitrary order `π` (any function returning a permutation of its argument)
                                                 and then sorted by `_variable_sort_key`; on event keys the sorted list, hence the two
                                                 dicts the function returns, are the same for every `π` (`sortBy_perm_eq`: `Var.keyLt` is
                                                 a strict order that tells different event keys apart).  `idcstar_reassociation_order_
                                                 independent_run`: the relabelled event of every run from `IdcInv` inputs has such keys;
                                                 `idcstar_order_independent`: hence the WHOLE of `idc_star` returns the same answer for
                                                 every `π` on those inputs (induction along the line-4 recursion).
                                                 Before the fix the answer depended on PYTHONHASHSEED through this order (finding
                                                 order-dependent-verdict, now `fixed:`); the harness also runs fresh interpreters under
                                                 several hash seeds (R-clause).
    * `idcstar_division_modelled`                ID* never returns a Fraction: the modelled division covers every case
    * `idcstar_sound_fragment`                   SOUNDNESS ON A NAMED FRAGMENT (`InFragmentC`, decidable: `inFragmentCB`): observational
                                                 conditional queries P(y | x) — factual variables of the graph, unstarred values, no
                                                 name on both sides — on which rule 2 applies to no condition and the joint ID*
                                                 estimand marginalises nothing.  There the returned expression EQUALS
                                                 P(outcomes ∧ conditions) / P(conditions) in every compatible functional SCM
                                                 (via `idstar_sound_fragment`, the repaired `conditional`, marginalisation)
    * `idcstar_sound_fragment_exchange`          SOUNDNESS IN THE EXCHANGE CASE (`InFragmentX`, decidable: `inFragmentXB`): P(y | x) with
                                                 ONE factual condition to which rule 2 APPLIES (line 4 recurses) and every outcome a
                                                 descendant of X (answer: ID*'s estimand for P(y_x)) or none (answer: P(y)).  The
                                                 returned expression EQUALS P(outcomes ∧ X = x) / P(X = x) in EVERY compatible functional
                                                 SCM with P(X = x) > 0 — rule 2 of the do-calculus is proved for functional SCMs on the
                                                 noise space (`Fscm.prob_exchange_marginal`: consistency + independence of disjoint noise
                                                 coordinates), WITHOUT any positivity assumption on the kernels; its graphical premise
                                                 is read off the model's own d-separation verdict (`sep_facts_of_no_path`).
    * `idcstar_exchange_licensed`                THE EXCHANGE OF LINE 4 IS LICENSED BY THE GRAPHICAL PREMISE OF RULE 2 (after `fix:` 1834c39): whenever
                                                 the loop picks the condition `c` among the conditions `cs`, every outcome `o ≠ c` is M-SEPARATED
                                                 from `c` (no m-connecting path: `MG.MConnPath`, the specification of C04, via
                                                 `dsep_iff_mseparated`) in the counterfactual graph without the edges leaving `c`, GIVEN THE OTHER
                                                 CONDITIONS and the self-intervened nodes (`rule2Given`).  Before the fix the other conditions were
                                                 not conditioned on (finding exchange:separation, now `fixed:`).
    * `idcstar_sound_fragment_exchange_multi_partial`  the widened exchange fragment (`InFragmentXs`, decidable `inFragmentXsB`: observational query
                                                 with ANY number of conditions on which line 4 exchanges one): there the exchanged condition is one of
                                                 the conditions and the premise of rule 2 given the others holds for every outcome.  PARTIAL: the
                                                 semantic equality is proved for ONE condition only (`idcstar_sound_fragment_exchange`), see OPEN (a).
    * `idcstar_collapse_zero_only_on_conflict`,  THE REWRITING OF THE OUTCOMES AT LINE 4 (after `fix:` 1a940ac; before, a dict comprehension in which an outcome
      `idcstar_no_collapse_no_zero`,            `Y -> Y_z` silently overwrote an outcome `Y_z`): the loop answers "inconsistent" (IDC* returns Zero) ONLY when two
      `idcstar_exchange_dict`                   outcomes end up under one key with DIFFERENT values; when the re-keyed outcomes are pairwise different it never does and
                                                 returns exactly them; and whenever it returns a dict, it is the dict the comprehension built (so every lemma about
                                                 the exchanged outcomes carries over).  That this Zero is a SOUND answer (the joint event has probability 0) is
                                                 decided by the oracle only (OPEN, `idcstar_zero_sound`).
    * vocabulary (C06 part) `idcstar_vocab`      every leaf of a returned estimand is a single-world term

  -- OPEN (stated in full, NOT proved outside the fragments; the first is FALSE on the current tree outside them — see the C08
  -- entries of known_findings.jsonl):
  --   theorem idcstar_sound : idcStar ordf dordf kordf G outs conds = .ok e → e ≠ .zero → M.Compatible G →
  --       EventWF M (outs ++ conds) → ν.Distinct → 0 < probEvent M ν conds →
  --       den M ν (outs ++ conds) e = probEvent M ν (outs ++ conds) / probEvent M ν conds
  --     Proved on `InFragmentC` (no exchange, any number of conditions) and `InFragmentX` (one factual condition exchanged by rule 2;
  --     all / no outcomes descend from it).  Outside: (a) SEVERAL CONDITIONS, one of them exchanged (`InFragmentXs`): since `fix:` 1834c39 the
  --     graphical premise of rule 2 holds given the other conditions (`idcstar_exchange_licensed`, proved), so
  --     P(γ | z, δ'') = P(γ_z | δ''_z) is a true statement of the do-calculus; what is NOT proved: (a1) rule 2 with a NON-EMPTY conditioning
  --     set for functional SCMs on the noise space (`Fscm.prob_exchange_marginal` is the marginal case: it needs conditional independence
  --     of noise coordinates given an event, not just independence of disjoint coordinates), (a2) the code continues with P(γ_z | δ'')
  --     -- the remaining conditions keep no subscript -- which equals P(γ_z | δ''_z) only when no remaining condition descends from the
  --     exchanged one; otherwise the answer is WRONG today (open finding exchange:conditions, pinned by the suite's figure-9a expectation),
  --     so the full statement is false of the code on `InFragmentXs`; (a3) the recursive call is about a multi-world event (`Y_z`, `X`),
  --     outside the fragments on which ID* is proved sound (C07); (b) one factual condition with SOME but not all outcomes descending
  --     from it: the exchange step itself is covered by `probEvent_rule2_fragX` + `Fscm.solve_nondescendant`, but the recursive call
  --     is about a two-world event (`Y_x`, `Y'`), outside the fragment on which ID* is proved sound (C07); (c) starred values /
  --     counterfactual inputs: ID* is wrong there today (F10), inherited; (d) the bound-range part of F11 in the final normalisation.
  --   theorem idcstar_zero_sound : idcStar … = .ok .zero → … → probEvent M ν (outs ++ conds) = 0
  --     proved for Zero from line 3 (`idcstar_zero_line3_sound`) and for Zero coming from ID*'s lines 2 and 5 (C07); Zero from the
  --     collision of two re-keyed outcomes at line 4 (`fix:` 1a940ac) is characterised (`idcstar_collapse_zero_only_on_conflict`) but its
  --     soundness needs rule 2 semantically plus consistency (Y_S = Y_{S,z} given Z_S = z), not proved; Zero from
  --     deeper inside ID* is open (false today: F10/M5).
  --   theorem idcstar_terminates : idcStar … ≠ .error (.internal "fuel")
  --     The two inner ID* calls terminate (Props/C07 `idstar_never_out_of_fuel`).  For the line-4 recursion of IDC* itself:
  --     PROVED (i) with the explicit bound |conditions| + 1 when no variable NAME occurs both among the outcomes and among the
  --     conditions (`idcstar_own_recursion_terminates`), (ii) WITHOUT a bound for all inputs without self-intervened keys
  --     (`idcstar_terminates_shared_names`).
  --     OPEN (1): an explicit bound in case (ii).  The re-association CAN add conditions there, even at later levels (e.g. graph
  --     A→D, B→D, C→D, B→Y, C→Y; outcomes D_b, D_c, Y_b; conditions A, Y_c: the second level has 1 condition, its re-association
  --     returns 2, both shared with the outcomes), and the number of keys can grow by one when an exchange re-subscripts a key that
  --     is both an outcome and a condition; so the model's own bound 2(|outcomes| + |conditions|) + |V| + 4 is not proved sufficient
  --     (no input is known on which the recursion is deeper than |conditions| + 1: EVERY input over two variables with ≤ 2 outcomes and
  --     ≤ 2 conditions on the four two-node ADMGs — 1 336 608 inputs — and over 10 million random inputs with up to 6 variables, 6 worlds,
  --     9 keys were run through the model, driver op `idc_star_trace`, harness/props/c08_termsearch.py).
  --     OPEN (2): inputs with a SELF-INTERVENED key (X_x) among outcomes and conditions that share a variable name: a self-intervened
  --     copy has no noise and hence no edge to the other copies, rule 2 can accept a condition named like a self-intervened outcome,
  --     and the measure above need not decrease (it does not on about half of such random inputs).  Probable route: count the
  --     conditions by COLOURED name (not-self-intervened conditions named like no not-self-intervened outcome, plus self-intervened
  --     conditions that are not outcomes themselves: the exchange removes exactly one of these, a self-intervened key has no ancestor
  --     and is never re-subscripted); what breaks is that the re-association (which goes by plain name) can move a not-self-intervened
  --     key to the outcomes because a SELF-INTERVENED outcome of that name was renamed — renamed to a node that `merge_pw` prefers, so
  --     the multiset of self-intervened outcome keys decreases in the preference order; not formalised.
-/
import Y0.Lemmas.CfIdcStar
import Y0.Lemmas.CfIdcTerm
import Y0.Lemmas.CfIdcFrag
import Y0.Lemmas.CfIdcExch
import Y0.Lemmas.CfIdcTermC
import Y0.Lemmas.CfIdcOrder
import Y0.Lemmas.CfIdcCollapse
import Y0.Props.C07
import Y0.Props.C04

namespace Y0.Cf
open Fscm

variable (ordf : List World → List World) (dordf kordf : List Var → List Var) (G : MG Name)

/-! ## 1. an impossible condition is rejected, not answered -/

/-- if ID* answers Zero for the conditioning event, IDC* raises the rejection (the `ValueError` of line 1) before anything
else, for every outcome event -/
theorem idcstar_rejects_impossible_condition (outcomes conditions : Event)
    (h : idStar ordf dordf G conditions = .ok .zero) :
    idcStar ordf dordf kordf G outcomes conditions = .error (.invalidInput "ImpossibleCondition") := by
  unfold idcStar idcStarFuelBound
  exact idcStarFuel_rejects ordf dordf kordf G _ outcomes conditions h

/-- a conditioning event that violates the axiom of effectiveness (some `X_{…x…} = x'`) is always rejected -/
theorem idcstar_rejects_effectiveness_violation (outcomes conditions : Event)
    (h : violatesEffectiveness conditions = true) :
    idcStar ordf dordf kordf G outcomes conditions = .error (.invalidInput "ImpossibleCondition") := by
  apply idcstar_rejects_impossible_condition
  have hne : conditions ≠ [] := by
    intro h0; subst h0; simp [violatesEffectiveness] at h
  unfold idStar idStarFuelBound
  have : 2 * G.nodes.length + conditions.length + 4 = (2 * G.nodes.length + conditions.length + 3) + 1 := by omega
  rw [this]
  exact idstar_line2 ordf dordf G _ conditions hne h

/-- … and such a condition really is impossible: probability 0 in every functional SCM, for all base values with `x ≠ x'` -/
theorem impossible_condition_has_probability_zero (M : Model) (ν : BaseValues) (hν : ν.Distinct) (conditions : Event)
    (hwf : EventWF M conditions) (h : violatesEffectiveness conditions = true) : probEvent M ν conditions = 0 :=
  idstar_line2_sound M ν hν conditions hwf h

/-- line 1 lets a condition through exactly when ID* does not say Zero: a non-Zero estimand, or 'unidentifiable'
(`Unidentifiable` is swallowed); any other exception of ID* propagates -/
theorem idcstar_line1_passes_iff (conditions : Event) :
    line1 (idStar ordf dordf G conditions) = .ok () ↔
      (∃ e, idStar ordf dordf G conditions = .ok e ∧ isZeroE e = false) ∨
      idStar ordf dordf G conditions = .error .unidentifiable :=
  line1_ok_iff _

/-! ## 2. Zero, fuel, degenerate case -/

/-- line 3: when the counterfactual graph construction reports 'inconsistent' for the joint event, IDC* answers Zero -/
theorem idcstar_zero_of_inconsistent (fuel : Nat) (outcomes conditions : Event) (g : MG Var)
    (h1 : line1 (idStar ordf dordf G conditions) = .ok ())
    (h2 : makeCounterfactualGraph ordf G (Event.ofList (outcomes ++ conditions)) = .ok (g, none)) :
    idcStarFuel ordf dordf kordf G (fuel + 1) outcomes conditions = .ok .zero := by
  unfoldIdc
  rw [h1]
  simp only
  rw [h2]

open Fscm in
/-- … and that Zero is a sound answer (by C18's `cg_prob`): the joint event has probability 0 in every functional SCM
compatible with the graph (hypotheses as in `cg_prob`, for the merged dict `outcomes | conditions`) -/
theorem idcstar_zero_line3_sound (M : Model) (ν : BaseValues) (hν : ν.Distinct) (hM : Compatible M G) (hG : G.WF)
    (hdl : ∀ e ∈ G.di, e.1 ≠ e.2) (hbl : ∀ e ∈ G.bi, e.1 ≠ e.2) (outcomes conditions : Event)
    (hev : EvOK (Event.ofList (outcomes ++ conditions)))
    (hws : (ordf (extractInterventions (Event.ofList (outcomes ++ conditions)).keys)).Nodup)
    (hwne : ∀ w ∈ ordf (extractInterventions (Event.ofList (outcomes ++ conditions)).keys), w ≠ [])
    (hwcs : ∀ w ∈ ordf (extractInterventions (Event.ofList (outcomes ++ conditions)).keys), ConsistentSubs w) (g : MG Var)
    (h : makeCounterfactualGraph ordf G (Event.ofList (outcomes ++ conditions)) = .ok (g, none)) :
    probEvent M ν (Event.ofList (outcomes ++ conditions)) = 0 :=
  (cg_prob M ν hν G hM hG hdl hbl ordf _ hev hws hwne hwcs).2 g h

/-- more fuel never changes an answer that was reached -/
theorem idcstar_fuel_mono (fuel k : Nat) (outcomes conditions : Event) (x : Expr)
    (h : idcStarFuel ordf dordf kordf G fuel outcomes conditions = .ok x) :
    idcStarFuel ordf dordf kordf G (fuel + k) outcomes conditions = .ok x := by
  induction k with
  | zero => exact h
  | succ k ih => exact idcStarFuel_mono ordf dordf kordf G (fuel + k) outcomes conditions x ih

/-- the final division is fully modelled: an ID* estimand never contains a `Fraction`, so `Expression.conditional` never takes
the one branch of `__truediv__` (`x / Fraction`) that the model leaves out -/
theorem idcstar_division_modelled (ev : Event) (e : Expr) (rs : List Name) (h : idStar ordf dordf G ev = .ok e) :
    conditional e rs ≠ .error (.internal "unmodelled: division by a Fraction") :=
  conditional_modelled e rs (idStarFuel_noFrac ordf dordf G _ ev e h)

/-! ## 2b. termination of the line-4 recursion -/

/-- `idcStarO` (Lemmas/CfIdcTerm.lean) is the IDC* model, equation by equation, with the exhaustion of IDC*'s OWN fuel made
observable as `none` (in `idcStarFuel` it is the error `internal "fuel"`, which an inner ID* call could also produce) -/
theorem idcstar_model_is_idcStarO (fuel : Nat) (outcomes conditions : Event) :
    idcStarFuel ordf dordf kordf G fuel outcomes conditions =
      match idcStarO ordf dordf kordf G fuel outcomes conditions with
      | some r => r
      | none => .error (.internal "fuel") :=
  idcStarFuel_eq_idcStarO ordf dordf kordf G fuel outcomes conditions

/-- **IDC*'s own recursion terminates, with the explicit bound `|conditions| + 1`, on every input in which no variable name
occurs both among the outcomes and among the conditions** — for every graph (no well-formedness needed), every iteration
order of the worlds / district nodes, and every order `kordf` that only permutes or selects the re-associated keys.
Measure: `|conditions|`; the merge loop of the counterfactual graph renames keys within their name (`cg_count_le`), so
the re-association returns at most `|conditions|` conditions (`reassoc_spec`), and line 4 removes one. -/
theorem idcstar_own_recursion_terminates (hk : SubsetOrder kordf) (outcomes conditions : Event)
    (hC : conditions.keys.Nodup) (hdis : ∀ o ∈ outcomes.keys, ∀ c ∈ conditions.keys, o.name ≠ c.name)
    (fuel : Nat) (hfuel : conditions.length + 1 ≤ fuel) :
    ∃ r, idcStarO ordf dordf kordf G fuel outcomes conditions = some r ∧
      idcStarFuel ordf dordf kordf G fuel outcomes conditions = r := by
  have h := idcStarO_isSome ordf dordf G hk fuel outcomes conditions hC
    (fun o ho hmem => by
      obtain ⟨c, hc, hcn⟩ := List.mem_map.1 hmem
      exact hdis o ho c hc hcn.symm) hfuel
  obtain ⟨r, hr⟩ := Option.isSome_iff_exists.1 h
  refine ⟨r, hr, ?_⟩
  rw [idcStarFuel_eq_idcStarO, hr]

/-- the bound the model itself uses (`2(|outcomes| + |conditions|) + |V| + 4`) is enough there: `idc_star` is the
result of the un-exhausted recursion -/
theorem idcstar_bound_suffices (hk : SubsetOrder kordf) (outcomes conditions : Event)
    (hC : conditions.keys.Nodup) (hdis : ∀ o ∈ outcomes.keys, ∀ c ∈ conditions.keys, o.name ≠ c.name) :
    ∃ r, idcStarO ordf dordf kordf G (idcStarFuelBound G outcomes conditions) outcomes conditions = some r ∧
      idcStar ordf dordf kordf G outcomes conditions = r := by
  unfold idcStar
  exact idcstar_own_recursion_terminates ordf dordf kordf G hk outcomes conditions hC hdis _
    (by unfold idcStarFuelBound; omega)

/-- … and every larger fuel gives the same un-exhausted run (so the answer does not depend on the fuel) -/
theorem idcstar_fuel_irrelevant (hk : SubsetOrder kordf) (outcomes conditions : Event)
    (hC : conditions.keys.Nodup) (hdis : ∀ o ∈ outcomes.keys, ∀ c ∈ conditions.keys, o.name ≠ c.name)
    (fuel : Nat) (hfuel : conditions.length + 1 ≤ fuel) :
    (idcStarO ordf dordf kordf G fuel outcomes conditions).isSome = true := by
  obtain ⟨r, hr, _⟩ := idcstar_own_recursion_terminates ordf dordf kordf G hk outcomes conditions hC hdis fuel hfuel
  rw [hr]; rfl

/-! ## 2b'. termination when outcomes and conditions are copies of the same variables -/

theorem idcInv_of_B {O C : Event} (h : idcInvB G O C = true) : IdcInv G O C := by
  simp only [idcInvB, Bool.and_eq_true, decide_eq_true_eq, List.all_eq_true, Bool.not_eq_true'] at h
  obtain ⟨⟨h1, h2⟩, h3⟩ := h
  have hkey : ∀ k, k ∈ O.keys ∨ k ∈ C.keys → ∃ p ∈ O ++ C, p.1 = k := by
    rintro k (hk | hk)
    · obtain ⟨p, hp, rfl⟩ := (mem_keys_iff' _ _).1 hk
      exact ⟨p, by simp [hp], rfl⟩
    · obtain ⟨p, hp, rfl⟩ := (mem_keys_iff' _ _).1 hk
      exact ⟨p, by simp [hp], rfl⟩
  refine ⟨h1, h2, fun p hp => (h3 p (by simp [hp])).1.1.1.1.1, fun p hp => (h3 p (by simp [hp])).1.1.1.1.1, ?_, ?_⟩
  · intro k hk
    obtain ⟨p, hp, rfl⟩ := hkey k hk
    obtain ⟨⟨⟨⟨⟨_, hs⟩, hi⟩, hg⟩, hc⟩, _⟩ := h3 p hp
    exact ⟨hs, hi, hg, fun i hi' j hj hn => hc i hi' j hj hn⟩
  · intro k hk
    obtain ⟨p, hp, rfl⟩ := hkey k hk
    exact (h3 p hp).2

/-- **IDC\*'s own recursion terminates also when outcomes and conditions are copies of the same variables** (e.g. `Y_x` and
`Y_{x'}`, `Y` and `Y_x`): for every well-formed loop-free graph, every pair of dicts of well-formed keys none of which is
self-intervened (`IdcInv`; decidable: `idcInvB`), and all iteration orders, some amount of fuel `N` is enough and every larger fuel gives the same un-exhausted run.
Measure (lexicographic): (number of variable names among the outcomes, number of conditions named like no outcome).  The
re-association can ADD conditions here (keys that it puts into both dicts), but only conditions named like an outcome, and rule 2
never accepts such a condition: copies of one variable in different worlds share their noise, so they are adjacent in the
counterfactual graph (`cg_dop`) and adjacent nodes are not d-separated (`rule2_name_free`); names never migrate between the two
sides; for the other names the counterfactual graph construction never increases the number of keys.  No explicit bound is
claimed: the number of conditions named like outcomes can grow while those names are blocked. -/
theorem idcstar_terminates_shared_names (hk : SubsetOrder kordf) (hord : PermOrder ordf) (hG : G.WF)
    (hdl : ∀ e ∈ G.di, e.1 ≠ e.2) (hbl : ∀ e ∈ G.bi, e.1 ≠ e.2) (outcomes conditions : Event)
    (hinv : IdcInv G outcomes conditions) :
    ∃ N, ∀ fuel, N ≤ fuel → ∃ r, idcStarO ordf dordf kordf G fuel outcomes conditions = some r ∧
      idcStarFuel ordf dordf kordf G fuel outcomes conditions = r := by
  obtain ⟨N, hN⟩ := idcStarO_terminates ordf dordf kordf G hk hord hG hdl hbl _ _ outcomes conditions hinv (Nat.le_refl _)
    (fun _ => Nat.le_refl _)
  obtain ⟨r, hr⟩ := Option.isSome_iff_exists.1 hN
  refine ⟨N, fun fuel hfuel => ⟨r, ?_, ?_⟩⟩
  · obtain ⟨k, rfl⟩ := Nat.exists_eq_add_of_le hfuel
    exact idcStarO_mono_le ordf dordf kordf G N k _ _ r hr
  · obtain ⟨k, rfl⟩ := Nat.exists_eq_add_of_le hfuel
    rw [idcStarFuel_eq_idcStarO, idcStarO_mono_le ordf dordf kordf G N k _ _ r hr]

/-! ## 2b''. the re-association does not depend on the iteration order of a Python set (after `fix:` b76144c) -/

/-- `get_new_outcomes_and_conditions` after the fix: the keys of `set(new_event) - set(outcomes) - set(conditions)`, iterated in
ANY order `π`, are sorted by `_variable_sort_key` before they are inserted; when the keys of the relabelled event are pairwise
different event keys (plain / counterfactual variables, no value mark) the result is the same for every `π` -/
theorem idcstar_reassociation_order_independent (π : List Var → List Var) (hπ : ∀ l, (π l).Perm l)
    (new outcomes conditions : Event) (hn : new.keys.Nodup) (hk : ∀ k ∈ new.keys, KeyLike k) :
    newOutcomesAndConditions (fun l => orderDistrict false (π l)) new outcomes conditions =
      newOutcomesAndConditions (orderDistrict false) new outcomes conditions :=
  reassoc_order_independent π hπ new outcomes conditions hn hk

/-- … and the relabelled event that line 2 hands to it has such keys, for every input of `idcstar_terminates_shared_names` (`IdcInv`),
every well-formed loop-free graph and every iteration order of the worlds -/
theorem idcstar_reassociation_order_independent_run (hord : PermOrder ordf) (hG : G.WF)
    (hdl : ∀ e ∈ G.di, e.1 ≠ e.2) (hbl : ∀ e ∈ G.bi, e.1 ≠ e.2) (outcomes conditions : Event)
    (hinv : IdcInv G outcomes conditions) (hne : Event.ofList (outcomes ++ conditions) ≠ []) (cf : MG Var) (nev : Event)
    (hcg : makeCounterfactualGraph ordf G (Event.ofList (outcomes ++ conditions)) = .ok (cf, some nev))
    (π : List Var → List Var) (hπ : ∀ l, (π l).Perm l) :
    newOutcomesAndConditions (fun l => orderDistrict false (π l)) nev outcomes conditions =
      newOutcomesAndConditions (orderDistrict false) nev outcomes conditions :=
  reassoc_order_independent_run hord hG hdl hbl outcomes conditions hinv hne hcg π hπ

/-- **IDC\* as a whole does not depend on the iteration order of that set**: for every input of `idcstar_terminates_shared_names`
(`IdcInv`: dicts of well-formed keys, none self-intervened), every well-formed loop-free graph, every iteration order of the worlds
and the district nodes, every `π` (the order in which Python happens to iterate the set; any function returning a permutation of
its argument) and every fuel, the model with the keys sorted AFTER `π` returns what the model with the keys sorted returns.  By
induction along the line-4 recursion: the relabelled event of each level has pairwise different event keys (`cg_keys_keyLike`), the
invariant is carried to the next level by `idcStarO_step`. -/
theorem idcstar_order_independent (hord : PermOrder ordf) (hG : G.WF) (hdl : ∀ e ∈ G.di, e.1 ≠ e.2)
    (hbl : ∀ e ∈ G.bi, e.1 ≠ e.2) (outcomes conditions : Event) (hinv : IdcInv G outcomes conditions)
    (π : List Var → List Var) (hπ : ∀ l, (π l).Perm l) :
    idcStar ordf dordf (fun l => orderDistrict false (π l)) G outcomes conditions =
      idcStar ordf dordf (orderDistrict false) G outcomes conditions := by
  unfold idcStar
  rw [idcStarFuel_eq_idcStarO, idcStarFuel_eq_idcStarO,
    idcStarO_order_independent hord hG hdl hbl π hπ _ outcomes conditions hinv]

/-- non-vacuity: the order the set happens to be iterated in matters for an UNSORTED insertion (the code before the fix) and not
after sorting: two re-associated keys `C_b`, `D_b` (names 2, 3; `b` = 1), reversed iteration -/
example : orderDistrict false (List.reverse [(⟨2, none, false, [⟨1, false⟩]⟩ : Var), ⟨3, none, false, [⟨1, false⟩]⟩]) =
    orderDistrict false [(⟨2, none, false, [⟨1, false⟩]⟩ : Var), ⟨3, none, false, [⟨1, false⟩]⟩] := by decide
example : List.reverse [(⟨2, none, false, [⟨1, false⟩]⟩ : Var), ⟨3, none, false, [⟨1, false⟩]⟩] ≠
    [(⟨2, none, false, [⟨1, false⟩]⟩ : Var), ⟨3, none, false, [⟨1, false⟩]⟩] := by decide

/-! ## 2c. soundness on a named fragment -/

def InFragmentC (ordf : List World → List World) (dordf : List Var → List Var) (G : MG Name) (O C : Event) : Prop :=
  inFragmentCB ordf dordf G O C = true

theorem fragC_of_static {O C : Event} (h : fragCStaticB G O C = true) : FragC G O C := by
  simp only [fragCStaticB, Bool.and_eq_true, decide_eq_true_eq, List.all_eq_true, Bool.not_eq_true',
    List.isEmpty_eq_false_iff] at h
  obtain ⟨⟨⟨⟨h1, h2⟩, h3⟩, h4⟩, h5⟩ := h
  exact ⟨h1, h2, fun p hp => (h3 p hp).1.1, fun p hp => (h3 p hp).1.2, fun p hp => (h3 p hp).2,
    fun o ho c hc => h4 o ho c hc, h5⟩

/-- **IDC\* is sound on the fragment.**  For every functional SCM `M` compatible with the (well-formed, loop-free) graph, with
normalised noise and values bounded by `dom`, every base values `ν`: if `(outcomes, conditions)` is in the fragment and
`idc_star` returns `e`, then `e` — read as in C07 (`cden`) with the event's values — EQUALS
`P(outcomes ∧ conditions) / P(conditions)` (both sides are 0 when the conditions have probability 0: `x / 0 = 0`).
Proof: on the fragment the counterfactual graph merges nothing, the re-association is the identity, so `e` is
`est.conditional(condition names)` for ID*'s answer `est` to the joint event (`idcStarFuel_frag_path`); `est` is the joint
probability for EVERY valuation of its free symbols (`idStarFuel_sound_frag`, C07), its normaliser sums exactly the outcome
variables (the repaired `conditional`; `estNamesB` excludes the bound ranges of the open F11 part), which is the marginal of
the conditions (`sumOver_prob`). -/
theorem idcstar_sound_fragment (M : Model) (ν : BaseValues) (dom : Name → Nat) (hM : Compatible M G) (hnorm : M.Normalised)
    (hdom : ∀ v ps us, M.f v ps us < dom v) (hG : G.WF) (hdl : ∀ e ∈ G.di, e.1 ≠ e.2) (hbl : ∀ e ∈ G.bi, e.1 ≠ e.2)
    (hord : PermOrder ordf) (hdo : PermDistrict dordf)
    (outcomes conditions : Event) (hfr : InFragmentC ordf dordf G outcomes conditions) (e : Expr)
    (h : idcStar ordf dordf kordf G outcomes conditions = .ok e) :
    cden M ν dom e (fun n => ν n false) = probEvent M ν (outcomes ++ conditions) / probEvent M ν conditions := by
  unfold InFragmentC inFragmentCB at hfr
  simp only [Bool.and_eq_true] at hfr
  obtain ⟨⟨hst, hnx⟩, hnm⟩ := hfr
  have hb : idcStarFuelBound G outcomes conditions =
      (2 * (outcomes.length + conditions.length) + G.nodes.length + 3) + 1 := by
    unfold idcStarFuelBound; omega
  unfold idcStar at h
  rw [hb] at h
  apply idcStarFuel_sound_fragC ordf dordf kordf G M ν dom hM (fun pmf hp => (hnorm pmf hp).2) hdom hG hdl hbl hord hdo
    (fragC_of_static G hst) ?_ ?_ _ e h
  · intro cf nev hcg
    unfold noExchangeB at hnx
    rw [hcg] at hnx
    simp only at hnx
    split at hnx
    · assumption
    · cases hnx
  · intro est hest
    unfold estNamesB at hnm
    rw [hest] at hnm
    simp only [Bool.and_eq_true, List.all_eq_true, decide_eq_true_eq] at hnm
    exact fun n => ⟨hnm.1 n, hnm.2 n⟩

/-! ## 2d. soundness on the exchange fragment (rule 2 applies to the condition) -/

def InFragmentX (ordf : List World → List World) (G : MG Name) (O C : Event) : Prop :=
  inFragmentXB ordf G O C = true

/-- **IDC\* is sound on the exchange fragment — rule 2 of the do-calculus for functional SCMs.**  For every functional SCM `M`
compatible with the (well-formed, loop-free) graph, with normalised noise and values bounded by `dom`, every base values `ν`
under which the condition has POSITIVE probability: if `(outcomes, {X = x})` is in the exchange fragment (rule 2 applies to `X`;
every outcome descends from `X`, or none does) and `idc_star` returns `e`, then `e` (read as in C07) EQUALS
`P(outcomes ∧ X = x) / P(X = x)`.  No positivity of any kernel of `M` is assumed (the
quantifier of C08 is met as it stands): the exchange `P(y | x) = P(y_x)` is proved on the noise space
(`Fscm.prob_exchange_marginal`: consistency + independence of disjoint noise coordinates), its graphical premise is read off the
model's d-separation verdict on the counterfactual graph (`sep_facts_of_no_path`, `MG.no_ancAdj_path_of_dSeparated`), and
`P(y_x)` — which is `P(y)` when no outcome descends from `X` (`Fscm.solve_nondescendant`) — is ID*'s answer by
`idstar_sound_fragment` (C07). -/
theorem idcstar_sound_fragment_exchange (M : Model) (ν : BaseValues) (dom : Name → Nat) (hM : Compatible M G)
    (hnorm : M.Normalised) (hdom : ∀ v ps us, M.f v ps us < dom v) (hG : G.WF) (hdl : ∀ e ∈ G.di, e.1 ≠ e.2)
    (hbl : ∀ e ∈ G.bi, e.1 ≠ e.2) (hord : PermOrder ordf) (hdo : PermDistrict dordf)
    (outcomes conditions : Event) (hfr : InFragmentX ordf G outcomes conditions) (e : Expr)
    (h : idcStar ordf dordf kordf G outcomes conditions = .ok e) (hpos : 0 < probEvent M ν conditions) :
    cden M ν dom e (fun n => ν n false) = probEvent M ν (outcomes ++ conditions) / probEvent M ν conditions := by
  unfold InFragmentX inFragmentXB fragXStaticB at hfr
  simp only [Bool.and_eq_true, Bool.not_eq_true', List.isEmpty_eq_false_iff, decide_eq_true_eq] at hfr
  obtain ⟨⟨⟨hst, hOne⟩, hlen⟩, hdyn⟩ := hfr
  have hfrC := fragC_of_static G hst
  -- the single condition is `X = x`
  obtain ⟨c, val, rfl⟩ : ∃ c val, conditions = [(c, val)] := by
    match conditions, hlen with
    | [(c, val)], _ => exact ⟨c, val, rfl⟩
  have hc : c = Var.plain c.name := hfrC.plain (c, val) (by simp)
  have hv : val = ⟨c.name, false⟩ := hfrC.unst (c, val) (by simp)
  have hcond : [(c, val)] = condOf c.name := by rw [hv]; unfold condOf; rw [← hc]
  have hb : idcStarFuelBound G outcomes [(c, val)] = (2 * outcomes.length + G.nodes.length + 4) + 2 := by
    unfold idcStarFuelBound; simp only [List.length_cons, List.length_nil]; omega
  unfold idcStar at h
  rw [hb] at h
  unfold exchangeB at hdyn
  simp only at hdyn
  rw [hc, hv] at hdyn
  rw [hcond] at h hfrC hpos ⊢
  -- what the dynamic test says, for whatever counterfactual graph line 2 returns
  have hsplit : ∀ cf nev, makeCounterfactualGraph ordf G (outcomes ++ condOf c.name) = .ok (cf, some nev) →
      (∃ c', firstExchangeable cf outcomes.keys (condOf c.name).keys = .ok (some c')) ∧
      (exchangeAllB cf outcomes (Var.plain c.name) = true ∨
       exchangeNoneB cf outcomes (Var.plain c.name) = true) := by
    intro cf nev hcg
    rw [hcg] at hdyn
    simp only at hdyn
    cases hfe : firstExchangeable cf outcomes.keys (condOf c.name).keys with
    | error err => rw [hfe] at hdyn; cases hdyn
    | ok oc =>
      rw [hfe] at hdyn
      cases oc with
      | none => cases hdyn
      | some c' =>
        simp only [Bool.or_eq_true] at hdyn
        exact ⟨⟨c', rfl⟩, hdyn⟩
  -- which of the two cases: decided by the (unique) run of line 2
  cases hcg0 : makeCounterfactualGraph ordf G (outcomes ++ condOf c.name) with
  | error err =>
    exfalso
    unfoldIdc at h
    rw [hfrC.ofList, hcg0] at h
    cases h1 : line1 (idStar ordf dordf G (condOf c.name)) with
    | error err => rw [h1] at h; cases h
    | ok u => rw [h1] at h; cases h
  | ok r =>
    obtain ⟨cf0, o0⟩ := r
    obtain ⟨nev0, rfl, _⟩ := frag_facts hord hG hdl hbl hfrC.frag.to2 (by simp) hcg0
    rcases (hsplit cf0 nev0 hcg0).2 with hall | hnone
    · -- every outcome descends from `X`
      apply idcStarFuel_sound_fragX_all ordf dordf kordf G M ν dom hM (fun pmf hp => (hnorm pmf hp).2) hdom hG hdl hbl hord hdo
        hfrC hOne ?_ _ e h (ne_of_gt hpos)
      intro cf nev hcg
      rw [hcg0] at hcg
      simp only [Except.ok.injEq, Prod.mk.injEq, Option.some.injEq] at hcg
      obtain ⟨rfl, rfl⟩ := hcg
      exact ⟨(hsplit cf0 nev0 hcg0).1, hall⟩
    · -- no outcome descends from `X`
      apply idcStarFuel_sound_fragX_none ordf dordf kordf G M ν dom hM (fun pmf hp => (hnorm pmf hp).2) hdom hG hdl hbl hord hdo
        hfrC hOne ?_ _ e h (ne_of_gt hpos)
      intro cf nev hcg
      rw [hcg0] at hcg
      simp only [Except.ok.injEq, Prod.mk.injEq, Option.some.injEq] at hcg
      obtain ⟨rfl, rfl⟩ := hcg
      exact ⟨(hsplit cf0 nev0 hcg0).1, hnone⟩

/-! ## 2e. the exchange of line 4 is licensed by the premise of rule 2, given the other conditions (after `fix:` 1834c39) -/

/-- the conditioning set of the rule-2 test for the outcome `o` and the condition `c` among the conditions `cs`: the OTHER
conditions and the self-intervened nodes of the counterfactual graph, the two tested nodes excepted
(`conditions - {outcome, condition}` in `cf_rule_2_of_do_calculus_applies`) -/
def rule2Given (cf : MG Var) (cs : List Var) (o c : Var) : List Var :=
  ((cs.filter (fun k => k ≠ c)) ++ cf.nodes.filter (fun n => !isNotSelfIntervened n)).filter (fun n => n ≠ o && n ≠ c)

/-- **whenever line 4 exchanges a condition `c`, the graphical premise of rule 2 of the do-calculus holds for it GIVEN THE OTHER
CONDITIONS**: every outcome `o ≠ c` is m-separated from `c` (there is no m-connecting path — the specification `MG.MConnPath` of
property C04, not the algorithm) in the counterfactual graph without the edges leaving `c`, given the remaining conditions and the
self-intervened nodes.  For every graph and every list of outcomes / conditions. -/
theorem idcstar_exchange_licensed (cf : MG Var) (os cs : List Var) (c : Var)
    (h : firstExchangeable cf os cs = .ok (some c)) (o : Var) (ho : o ∈ os) (hoc : o ≠ c) :
    ¬ (cf.removeOutEdges [c]).MConnPath o c (rule2Given cf cs o c) := by
  have hr := firstExchangeable_rule2 cf os cs c h
  unfold rule2Applies at hr
  have hd := allSeparated_true _ _ _ _ hr o ho
  have hq : (cf.removeOutEdges [c]).ValidQuery o c (rule2Given cf cs o c) := by
    by_contra hnq
    have := MG.dsep_invalid _ o c _ hnq
    unfold rule2Given at this
    rw [this] at hd
    cases hd
  have hno : o ∉ rule2Given cf cs o c := by
    intro hm
    have := (List.mem_filter.1 hm).2
    simp at this
  have hnc : c ∉ rule2Given cf cs o c := by
    intro hm
    have := (List.mem_filter.1 hm).2
    simp at this
  exact (MG.dsep_iff_mseparated _ (MG.wf_removeOutEdges _ _) o c _ hq hoc hno hnc true hd).1 rfl

/-- the WIDENED exchange fragment, as an executable test: an observational query (static part of `InFragmentC`: factual variables
of the graph, unstarred values, no name on both sides) with at least one outcome and ANY number of conditions, on which line 4
exchanges one of the conditions -/
def inFragmentXsB (ordf : List World → List World) (G : MG Name) (O C : Event) : Bool :=
  fragCStaticB G O C && !O.isEmpty &&
  (match makeCounterfactualGraph ordf G (O ++ C) with
   | .ok (cf, some _) => (match firstExchangeable cf O.keys C.keys with | .ok (some _) => true | _ => false)
   | _ => false)

def InFragmentXs (ordf : List World → List World) (G : MG Name) (O C : Event) : Prop := inFragmentXsB ordf G O C = true

/-- **the widened exchange fragment, PARTIAL**: on an observational query with any number of conditions on which line 4 exchanges
a condition, the exchanged `c` is one of the conditions and the premise of rule 2 holds for every outcome given the OTHER
conditions.  (The semantic conclusion `value = P(outcomes ∧ conditions) / P(conditions)` is proved for one condition:
`idcstar_sound_fragment_exchange`; for several it is OPEN (a) in the header — and false of the code when a remaining condition
descends from the exchanged one.) -/
theorem idcstar_sound_fragment_exchange_multi_partial (outcomes conditions : Event)
    (hfr : InFragmentXs ordf G outcomes conditions) :
    ∃ cf nev c, makeCounterfactualGraph ordf G (outcomes ++ conditions) = .ok (cf, some nev) ∧
      firstExchangeable cf outcomes.keys conditions.keys = .ok (some c) ∧ c ∈ conditions.keys ∧
      ∀ o ∈ outcomes.keys, ¬ (cf.removeOutEdges [c]).MConnPath o c (rule2Given cf conditions.keys o c) := by
  unfold InFragmentXs inFragmentXsB at hfr
  simp only [Bool.and_eq_true] at hfr
  obtain ⟨⟨hst, _⟩, hdyn⟩ := hfr
  have hfrC := fragC_of_static G hst
  cases hcg : makeCounterfactualGraph ordf G (outcomes ++ conditions) with
  | error err => rw [hcg] at hdyn; cases hdyn
  | ok v =>
    rcases v with ⟨cf, new⟩
    rw [hcg] at hdyn
    cases new with
    | none => cases hdyn
    | some nev =>
      simp only at hdyn
      cases hf : firstExchangeable cf outcomes.keys conditions.keys with
      | error err => rw [hf] at hdyn; cases hdyn
      | ok oc =>
        rw [hf] at hdyn
        cases oc with
        | none => cases hdyn
        | some c =>
          have hc : c ∈ conditions.keys := firstExchangeable_mem _ _ _ _ hf
          refine ⟨cf, nev, c, rfl, hf, hc, fun o ho => ?_⟩
          exact idcstar_exchange_licensed cf _ _ c hf o ho (fun e => hfrC.disj o ho c hc (by rw [e]))

/-- the widened fragment is not empty and is wider than `InFragmentX`: `P(Y = y | X = x, W = w)` on `W → X → Y` (W=2, X=0, Y=1; the
loop exchanges `X`, given `W`) -/
example : inFragmentXsB sortWorlds (MG.fromEdges [0, 1, 2] [(2, 0), (0, 1)] [])
    [(Var.plain 1, ⟨1, false⟩)] [(Var.plain 0, ⟨0, false⟩), (Var.plain 2, ⟨2, false⟩)] = true := by decide
/-- … and the collider witness of the repaired defect is OUTSIDE it now: `B → A`, `B ↔ A`, `A ↔ C` (A=0, B=1, C=2),
`P(B = b | C = c, A = a)`: given the observed collider `A`, rule 2 applies neither to `C` nor to `A` -/
example : inFragmentXsB sortWorlds (MG.fromEdges [0, 1, 2] [(1, 0)] [(1, 0), (0, 2)])
    [(Var.plain 1, ⟨1, false⟩)] [(Var.plain 2, ⟨2, false⟩), (Var.plain 0, ⟨0, false⟩)] = false := by decide

/-! ## 2f. the rewriting of the outcomes at line 4 (after `fix:` 1a940ac) -/

/-- **IDC\* answers Zero at the exchange ONLY when two outcomes collide with different values, or an outcome collides with a REMAINING
CONDITION that demands a different value** (the second disjunct since `fix:` "IDC* returns Zero when the exchange makes an outcome a
remaining condition's variable with a different value"; `rem` are the remaining conditions, `new_conditions` without the exchanged
one): if the loop that re-subscripts the outcomes reports "inconsistent", either two outcome conjuncts `p`, `p'` end up under the
same key `k` (after the re-subscripting of those that descend from the exchanged condition) with different values, or an outcome
conjunct `p` ends up under a key `k` that the dict of the remaining conditions maps to a different value -/
theorem idcstar_collapse_zero_only_on_conflict (cf : MG Var) (outcomes : Event) (cond : Var) (val : Iv) (rem : Event)
    (h : exchangeStep cf outcomes cond val rem = .ok none) :
    (∃ p ∈ outcomes, ∃ p' ∈ outcomes, ∃ k v v', exchangeKey cf cond val p = .ok (k, v) ∧
      exchangeKey cf cond val p' = .ok (k, v') ∧ v ≠ v') ∨
    (∃ p ∈ outcomes, ∃ k v v', exchangeKey cf cond val p = .ok (k, v) ∧ rem.get? k = some v' ∧ v' ≠ v) :=
  exchangeStep_none cf outcomes cond val rem h

/-- **the line-4 loop answers Zero EXACTLY when the re-keyed outcomes are contradictory among themselves or with a remaining
condition**: when every `intervene` of the loop succeeds (`qs` are the re-keyed outcomes, in loop order; an error of `intervene`
surfaces before any answer), the loop reports "inconsistent" if and only if two entries of `qs` at different positions (`[a, b]` is a
sublist of `qs`) have the same key and different values, or some entry of `qs` has a key that the dict of the remaining conditions
maps to a different value -/
theorem idcstar_collapse_zero_iff_conflict (cf : MG Var) (outcomes : Event) (cond : Var) (val : Iv) (rem : Event)
    (qs : List (Var × Iv)) (hm : outcomes.mapM (exchangeKey cf cond val) = .ok qs) :
    exchangeStep cf outcomes cond val rem = .ok none ↔
      ((∃ a b, [a, b].Sublist qs ∧ a.1 = b.1 ∧ a.2 ≠ b.2) ∨ (∃ q ∈ qs, ∃ v', rem.get? q.1 = some v' ∧ v' ≠ q.2)) :=
  exchangeStep_none_iff cf outcomes cond val rem qs hm

/-- … and it returns a dict, namely `dict(qs)`, exactly when the re-keyed outcomes contradict neither one another nor a remaining
condition (the loop has no third answer: `exchangeStep` is `.ok none`, `.ok (some (dict qs))`, or -- `hm` failing -- an error) -/
theorem idcstar_exchange_dict_iff_no_conflict (cf : MG Var) (outcomes : Event) (cond : Var) (val : Iv) (rem : Event)
    (qs : List (Var × Iv)) (hm : outcomes.mapM (exchangeKey cf cond val) = .ok qs) :
    exchangeStep cf outcomes cond val rem = .ok (some (Event.ofList qs)) ↔
      (qs.Pairwise (fun a b => a.1 = b.1 → a.2 = b.2) ∧ ∀ q ∈ qs, ∀ v, rem.get? q.1 = some v → v = q.2) :=
  exchangeStep_some_iff cf outcomes cond val rem qs hm

/-- … and it never does when the re-keyed outcomes are pairwise different and none of them is the variable of a remaining condition
with a different value: then the loop returns exactly them -/
theorem idcstar_no_collapse_no_zero (cf : MG Var) (outcomes : Event) (cond : Var) (val : Iv) (rem : Event) (qs : List (Var × Iv))
    (hm : outcomes.mapM (exchangeKey cf cond val) = .ok qs) (hnd : (qs.map (·.1)).Nodup)
    (hcl : ∀ q ∈ qs, ∀ v, rem.get? q.1 = some v → v = q.2) :
    exchangeStep cf outcomes cond val rem = .ok (some qs) :=
  exchangeStep_of_nodup cf outcomes cond val rem qs hm hnd hcl

/-- whenever the loop returns a dict, it is the dict the comprehension it replaced would have built -/
theorem idcstar_exchange_dict (cf : MG Var) (outcomes : Event) (cond : Var) (val : Iv) (rem : Event) (e : Event)
    (h : exchangeStep cf outcomes cond val rem = .ok (some e)) : exchangeOutcomes cf outcomes cond val = .ok e :=
  exchangeStep_some cf outcomes cond val rem e h

/-- … and then no re-keyed outcome is the variable of a remaining condition that demands a different value (the converse of the second
disjunct of `idcstar_collapse_zero_only_on_conflict`: on such a clash the loop never returns a dict) -/
theorem idcstar_exchange_dict_agrees_with_conditions (cf : MG Var) (outcomes : Event) (cond : Var) (val : Iv) (rem : Event)
    (e : Event) (h : exchangeStep cf outcomes cond val rem = .ok (some e)) :
    ∀ p ∈ outcomes, ∀ q, exchangeKey cf cond val p = .ok q → ∀ v, rem.get? q.1 = some v → v = q.2 :=
  exchangeStep_some_no_clash cf outcomes cond val rem e h

/-- non-vacuity, the witness of the repaired defect: on `C → B → D` (B=1, C=2, D=3), outcomes `D_b = d`, `D = d'`, exchanged
condition `B = b`: `D` becomes `D_b`, which is there with the other value -/
example : exchangeStep (MG.fromEdges [Var.plain 1, Var.plain 2, Var.plain 3, ⟨3, none, false, [⟨1, false⟩]⟩]
      [(Var.plain 2, Var.plain 1), (Var.plain 1, Var.plain 3)] [])
    [(⟨3, none, false, [⟨1, false⟩]⟩, ⟨3, false⟩), (Var.plain 3, ⟨3, true⟩)] (Var.plain 1) ⟨1, false⟩ [] = .ok none := by decide

/-- non-vacuity of the second disjunct (the shape of the witness of the second repaired defect): same graph, outcome `D = d`, exchanged
condition `B = b`, remaining condition `D_b = d'`: `D` becomes `D_b`, the variable of a remaining condition with the other value -/
example : exchangeStep (MG.fromEdges [Var.plain 1, Var.plain 2, Var.plain 3, ⟨3, none, false, [⟨1, false⟩]⟩]
      [(Var.plain 2, Var.plain 1), (Var.plain 1, Var.plain 3)] [])
    [(Var.plain 3, ⟨3, false⟩)] (Var.plain 1) ⟨1, false⟩ [(⟨3, none, false, [⟨1, false⟩]⟩, ⟨3, true⟩)] = .ok none := by decide
/-- … and with the SAME value the loop returns the re-keyed outcome -/
example : exchangeStep (MG.fromEdges [Var.plain 1, Var.plain 2, Var.plain 3, ⟨3, none, false, [⟨1, false⟩]⟩]
      [(Var.plain 2, Var.plain 1), (Var.plain 1, Var.plain 3)] [])
    [(Var.plain 3, ⟨3, false⟩)] (Var.plain 1) ⟨1, false⟩ [(⟨3, none, false, [⟨1, false⟩]⟩, ⟨3, false⟩)] =
      .ok (some [(⟨3, none, false, [⟨1, false⟩]⟩, ⟨3, false⟩)]) := by decide

/-! ## 3. vocabulary (C06, IDC* part) -/

/-- every estimand IDC* returns is built from single-world interventional terms -/
theorem idcstar_vocab (outcomes conditions : Event) (e : Expr)
    (h : idcStar ordf dordf kordf G outcomes conditions = .ok e) : SingleWorld e :=
  idcStarFuel_singleWorld ordf dordf kordf G _ outcomes conditions e h

/-! ## 4. non-vacuity -/

/-- the hypothesis of `idcstar_rejects_effectiveness_violation` is satisfiable: `{X_x = x'}` -/
example : violatesEffectiveness [(⟨0, none, false, [⟨0, false⟩]⟩, ⟨0, true⟩)] = true := by decide

/-- the hypotheses of `idcstar_own_recursion_terminates` are satisfiable by a query on which line 4 does recurse:
`P(Y_x = y | Z = z)` (X=0, Y=1, Z=2): conditions form a dict, no name shared; identity order for the re-associated keys -/
example : SubsetOrder (fun l : List Var => l) ∧
    (Event.keys [(⟨2, none, false, []⟩, ⟨2, false⟩)]).Nodup ∧
    (∀ o ∈ Event.keys [(⟨1, none, false, [⟨0, false⟩]⟩, ⟨1, false⟩)],
      ∀ c ∈ Event.keys [(⟨2, none, false, []⟩, ⟨2, false⟩)], o.name ≠ c.name) := by
  refine ⟨fun _ _ h => h, by decide, by decide⟩

/-- the hypotheses of `idcstar_terminates_shared_names` are satisfiable by inputs on which a name IS shared: on `A → Y` (A=0, Y=1)
the query `P(Y_a = y | Y = y')`, and with two worlds `P(Y_a = y, Y_{a'} = y | Y = y', A = a)` -/
example : idcInvB (MG.fromEdges [0, 1] [(0, 1)] []) [(⟨1, none, false, [⟨0, false⟩]⟩, ⟨1, false⟩)]
    [(Var.plain 1, ⟨1, true⟩)] = true := by decide
example : idcInvB (MG.fromEdges [0, 1] [(0, 1)] [])
    [(⟨1, none, false, [⟨0, false⟩]⟩, ⟨1, false⟩), (⟨1, none, false, [⟨0, true⟩]⟩, ⟨1, false⟩)]
    [(Var.plain 1, ⟨1, true⟩), (Var.plain 0, ⟨0, false⟩)] = true := by decide

/-- the fragment is not empty: `P(Y = y | X = x)` on the bow graph `X → Y`, `X ↔ Y` (X=0, Y=1; rule 2 does not apply, the
answer is `P(X, Y) / Σ_Y P(X, Y)`), and `P(X = x | Y = y)` on `X → Y` -/
example : inFragmentCB sortWorlds (sortBy Var.keyLt) (MG.fromEdges [0, 1] [(0, 1)] [(0, 1)])
    [(Var.plain 1, ⟨1, false⟩)] [(Var.plain 0, ⟨0, false⟩)] = true := by decide
example : inFragmentCB sortWorlds (sortBy Var.keyLt) (MG.fromEdges [0, 1] [(0, 1)] [])
    [(Var.plain 0, ⟨0, false⟩)] [(Var.plain 1, ⟨1, false⟩)] = true := by decide
/-- … and `P(Y = y | X = x)` on `X → Y` is outside it (rule 2 applies: line 4 recurses) -/
example : inFragmentCB sortWorlds (sortBy Var.keyLt) (MG.fromEdges [0, 1] [(0, 1)] [])
    [(Var.plain 1, ⟨1, false⟩)] [(Var.plain 0, ⟨0, false⟩)] = false := by decide

/-- the exchange fragment is not empty: `P(Y = y | X = x)` on `X → Y` (X=0, Y=1; rule 2 applies, the answer is `P[X](Y)`), on
`W → X → Y` (W=2), with a latent confounder of `Y` and another variable (`X → Y`, `Y ↔ Z`), and two outcomes on `X → Y → Z` -/
example : inFragmentXB sortWorlds (MG.fromEdges [0, 1] [(0, 1)] [])
    [(Var.plain 1, ⟨1, false⟩)] [(Var.plain 0, ⟨0, false⟩)] = true := by decide
example : inFragmentXB sortWorlds (MG.fromEdges [0, 1, 2] [(2, 0), (0, 1)] [])
    [(Var.plain 1, ⟨1, false⟩)] [(Var.plain 0, ⟨0, false⟩)] = true := by decide
set_option maxRecDepth 4000 in
example : inFragmentXB sortWorlds (MG.fromEdges [0, 1, 2] [(0, 1)] [(1, 2)])
    [(Var.plain 1, ⟨1, false⟩)] [(Var.plain 0, ⟨0, false⟩)] = true := by decide
example : inFragmentXB sortWorlds (MG.fromEdges [0, 1, 2] [(0, 1), (1, 2)] [])
    [(Var.plain 1, ⟨1, false⟩), (Var.plain 2, ⟨2, false⟩)] [(Var.plain 0, ⟨0, false⟩)] = true := by decide
/-- … and the case in which no outcome descends from the condition: two unrelated variables; `W → X`, `Z → Y` (W=2, Z=3) -/
example : inFragmentXB sortWorlds (MG.fromEdges [0, 1] [] [])
    [(Var.plain 1, ⟨1, false⟩)] [(Var.plain 0, ⟨0, false⟩)] = true := by decide
example : inFragmentXB sortWorlds (MG.fromEdges [0, 1, 2, 3] [(2, 0), (3, 1)] [])
    [(Var.plain 1, ⟨1, false⟩)] [(Var.plain 0, ⟨0, false⟩)] = true := by decide
/-- … the bow graph `X → Y`, `X ↔ Y` is outside it (rule 2 does not apply: it is in `InFragmentC`), and so is a confounded
`W → X`, `W → Y`, `X → Y` -/
example : inFragmentXB sortWorlds (MG.fromEdges [0, 1] [(0, 1)] [(0, 1)])
    [(Var.plain 1, ⟨1, false⟩)] [(Var.plain 0, ⟨0, false⟩)] = false := by decide
example : inFragmentXB sortWorlds (MG.fromEdges [0, 1, 2] [(2, 0), (2, 1), (0, 1)] [])
    [(Var.plain 1, ⟨1, false⟩)] [(Var.plain 0, ⟨0, false⟩)] = false := by decide
/-- the semantic hypotheses of `idcstar_sound_fragment_exchange` are those of `idstar_sound_fragment` (satisfied by
`Example07.mBA2` on `B → A`, Props/C07.lean) plus a possible condition; `P(A = a | B = b)` on that graph is in the exchange
fragment and `B = b` has probability `1/3` in that model for the base values `b = 0` -/
example : inFragmentXB sortWorlds Example07.gBA [(Example07.A, ⟨0, false⟩)] [(Example07.B, ⟨1, false⟩)] = true := by decide
example : probEvent Example07.mBA2 (fun _ _ => 0) [(Example07.B, ⟨1, false⟩)] = 1 / 3 := by
  simp [probEvent, prob, space, conjunctOf, worldOf, ivValue, holds, solve, Fscm.step, forced, update, Example07.mBA2,
    Example07.B, Var.plain, List.zipIdx]
  norm_num

/-- the order the correspondence check uses for the re-associated keys satisfies the hypothesis on `kordf` -/
example (rev : Bool) : SubsetOrder (orderDistrict rev) := subsetOrder_orderDistrict rev

end Y0.Cf
