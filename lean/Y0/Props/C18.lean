/-
  Property C18 — counterfactual-graph construction (`make_counterfactual_graph`, cg.py).

  Statement (properties.jsonl): the counterfactual graph and relabelled event describe an event with the same
  probability as the original in every compatible SCM; 'inconsistent' is reported only for probability-zero
  events; the produced graph is acyclic, contains exactly the ancestors of the relabelled event, and every
  relabelled event variable is one of its nodes.

  Everything below is about the executable model `Y0.Cf.makeCounterfactualGraph` (Y0/Model/Cg.lean), which the
  correspondence check (harness/props/c18.py) compares with the real code under EVERY iteration order of the
  `worlds` set.  `ordf` is that order: all theorems hold for every `ordf`.

  PROVED (full strength, all graphs / events / orders):
    * `cg_total`, `cg_error_iff_cyclic`      error taxonomy: the only failure is a cyclic input graph
    * `cg_event_in_nodes`                    every relabelled event variable is a node of the returned graph
    * `cg_is_ancestral`                      nodes = ancestors (inside the returned graph) of the relabelled event
    * `cg_acyclic`, `cg_acyclic_inconsistent` returned graph acyclic whenever the input graph is
    * `cg_edges_project`, `cg_wf`            every directed edge lies over an edge of the input graph; well-formed
    * `cg_inconsistent_has_witness`          'inconsistent' is reported only after a pair of nodes passed the Lemma-24
                                             test while the event gave them two different values
    * `cg_prob`                              THE PROBABILITY CLAUSES: for every functional SCM compatible with the graph,
                                             P(relabelled event) = P(event), and 'inconsistent' only if P(event) = 0.
                                             Lemma 24 of Shpitser–Pearl is PROVED for the test as coded
                                             (`lemma24_of_test`, Lemmas/CfLemma24) from the structural equation
                                             (`solve_unforced`) and two loop invariants.
      hypotheses of `cg_prob` (all are what the Python objects guarantee, none is a semantic assumption):
        - `Compatible M G` (Spec/Fscm.lean: the class of models — finitely many independent exogenous variables, mechanisms
          read parents in G, shared noise only along bidirected edges), `ν x ≠ ν x'`;
        - `G.WF` and no self-loop edges; the event is a dict (`EvOK`: unique keys, values named after their variable);
        - the worlds are a duplicate-free list of non-empty consistent subscript sets (a Python set of frozensets);
      NO hypothesis on the processing order: `cg_prob` is about the order the model of `topological_sort` computes;
      `topologicalSort_spec` (Props/C14) shows that order is a linear extension of `G`, `before_of_isTopoOrder` turns this into
      the parents-first condition used by the invariants (`cg_prob_of_parents_first` is the general form for any such order).
    * `cg_total_acyclic`                     on a well-formed acyclic graph the construction always answers
    * `cg_prob_partial`, `lemma24For_of_parents`, `lemma24For_root`, `cg_inconsistent_sound_partial`
                                             earlier relative forms, kept (they need fewer hypotheses on the graph)
  Nothing of C18 is left OPEN.
-/
import Y0.Lemmas.CfGraph
import Y0.Lemmas.CfFscm
import Y0.Lemmas.CfCgSem
import Y0.Lemmas.CfLemma24

namespace Y0.Cf
open Relation MG

/-! ## 0. shape of the function -/

/-- the graph handed to the merge loop -/
def cf0 (G : MG Name) (ws : List World) : MG Var :=
  MG.fromEdges (makeParallelWorldsGraph G ws).nodes (makeParallelWorldsGraph G ws).di (makeParallelWorldsGraph G ws).bi

/-- the state after the merge loop -/
def loopResult (ordf : List World → List World) (G : MG Name) (ev : Event) (topo : List Name) : St :=
  mergeLoop (ordf (extractInterventions ev.keys)) topo (.run (cf0 G (ordf (extractInterventions ev.keys))) ev)

theorem makeCounterfactualGraph_unfold (ordf : List World → List World) (G : MG Name) (ev : Event) :
    makeCounterfactualGraph ordf G ev =
      match G.topologicalSort with
      | .error e => .error e
      | .ok topo =>
        match loopResult ordf G ev topo with
        | .stop cf' => .ok (cf', none)
        | .run cf' ev' =>
          match (ev'.keys.foldl MG.addNode cf').ancestorsInclusive ev'.keys with
          | .error e => .error e
          | .ok anc => .ok ((ev'.keys.foldl MG.addNode cf').subgraph anc, some ev') := by
  unfold makeCounterfactualGraph loopResult cf0
  cases G.topologicalSort with
  | error e => rfl
  | ok topo =>
    simp only [bind, Except.bind]
    split <;> rename_i h <;> simp only [h]
    · rfl
    · rename_i cf' ev'
      cases (List.foldl MG.addNode cf' ev'.keys).ancestorsInclusive ev'.keys <;> rfl

theorem inv_loopResult (ordf : List World → List World) (G : MG Name) (ev : Event) (topo : List Name) :
    Inv G (loopResult ordf G ev topo) :=
  inv_mergeLoop _ topo (inv_init G _ ev)

/-! ## 1. totality and error taxonomy -/

/-- on an acyclic input graph the construction always answers (graph + event, or 'inconsistent') -/
theorem cg_total (ordf : List World → List World) (G : MG Name) (ev : Event) (topo : List Name)
    (h : G.topologicalSort = .ok topo) : ∃ r, makeCounterfactualGraph ordf G ev = .ok r := by
  rw [makeCounterfactualGraph_unfold, h]
  simp only
  have hinv := inv_loopResult ordf G ev topo
  cases hl : loopResult ordf G ev topo with
  | stop cf' => exact ⟨_, rfl⟩
  | run cf' ev' =>
    simp only
    obtain ⟨A, hA⟩ := ancestorsInclusive_total (ev'.keys.foldl MG.addNode cf') ev'.keys
      (fun s hs => (mem_nodes_foldl_addNode _ _ _).2 (Or.inr hs))
    rw [hA]
    exact ⟨_, rfl⟩

/-- the only error is the one `topological_sort` raises on a cyclic input graph -/
theorem cg_error_iff_cyclic (ordf : List World → List World) (G : MG Name) (ev : Event) (e : Err) :
    makeCounterfactualGraph ordf G ev = .error e ↔ G.topologicalSort = .error e := by
  constructor
  · intro h
    cases ht : G.topologicalSort with
    | error e' =>
      rw [makeCounterfactualGraph_unfold, ht] at h
      simpa using h
    | ok topo =>
      obtain ⟨r, hr⟩ := cg_total ordf G ev topo ht
      rw [hr] at h
      cases h
  · intro h
    rw [makeCounterfactualGraph_unfold, h]

/-! ## 2. structure of the returned graph -/

/-- what the construction returns in the consistent case, in terms of the loop result -/
theorem cg_some_shape {ordf : List World → List World} {G : MG Name} {ev ev' : Event} {g : MG Var}
    (h : makeCounterfactualGraph ordf G ev = .ok (g, some ev')) :
    ∃ topo cf' anc, G.topologicalSort = .ok topo ∧ loopResult ordf G ev topo = .run cf' ev' ∧
      (ev'.keys.foldl MG.addNode cf').ancestorsInclusive ev'.keys = .ok anc ∧
      g = (ev'.keys.foldl MG.addNode cf').subgraph anc := by
  rw [makeCounterfactualGraph_unfold] at h
  cases ht : G.topologicalSort with
  | error e => rw [ht] at h; cases h
  | ok topo =>
    rw [ht] at h
    simp only at h
    cases hl : loopResult ordf G ev topo with
    | stop cf' => rw [hl] at h; cases h
    | run cf' ev'' =>
      rw [hl] at h
      simp only at h
      cases ha : (ev''.keys.foldl MG.addNode cf').ancestorsInclusive ev''.keys with
      | error e => rw [ha] at h; cases h
      | ok anc =>
        rw [ha] at h
        simp only [Except.ok.injEq, Prod.mk.injEq, Option.some.injEq] at h
        obtain ⟨rfl, rfl⟩ := h
        exact ⟨topo, cf', anc, rfl, hl, ha, rfl⟩

theorem cg_none_shape {ordf : List World → List World} {G : MG Name} {ev : Event} {g : MG Var}
    (h : makeCounterfactualGraph ordf G ev = .ok (g, none)) :
    ∃ topo, G.topologicalSort = .ok topo ∧ loopResult ordf G ev topo = .stop g := by
  rw [makeCounterfactualGraph_unfold] at h
  cases ht : G.topologicalSort with
  | error e => rw [ht] at h; cases h
  | ok topo =>
    rw [ht] at h
    simp only at h
    cases hl : loopResult ordf G ev topo with
    | stop cf' =>
      rw [hl] at h
      simp only [Except.ok.injEq, Prod.mk.injEq, and_true] at h
      exact ⟨topo, rfl, by rw [← h]; exact hl⟩
    | run cf' ev'' =>
      rw [hl] at h
      simp only at h
      cases ha : (ev''.keys.foldl MG.addNode cf').ancestorsInclusive ev''.keys with
      | error e => rw [ha] at h; cases h
      | ok anc => rw [ha] at h; cases h

/-- every relabelled event variable is a node of the returned graph -/
theorem cg_event_in_nodes {ordf : List World → List World} {G : MG Name} {ev ev' : Event} {g : MG Var}
    (h : makeCounterfactualGraph ordf G ev = .ok (g, some ev')) : ∀ k ∈ ev'.keys, k ∈ g.nodes := by
  obtain ⟨topo, cf', anc, _, hl, ha, rfl⟩ := cg_some_shape h
  have hinv := inv_loopResult ordf G ev topo
  rw [hl] at hinv
  exact subgraph_ancestors_contains _ (wf_foldl_addNode _ _ hinv.wf) _ _ ha

/-- the returned graph contains exactly the ancestors of the relabelled event -/
theorem cg_is_ancestral {ordf : List World → List World} {G : MG Name} {ev ev' : Event} {g : MG Var}
    (h : makeCounterfactualGraph ordf G ev = .ok (g, some ev')) (v : Var) :
    v ∈ g.nodes ↔ g.Anc ev'.keys v := by
  obtain ⟨topo, cf', anc, _, hl, ha, rfl⟩ := cg_some_shape h
  have hinv := inv_loopResult ordf G ev topo
  rw [hl] at hinv
  exact subgraph_ancestors_exact _ (wf_foldl_addNode _ _ hinv.wf) _ _ ha v

/-- every directed edge of the returned graph lies over a directed edge of the user's graph -/
theorem cg_edges_project {ordf : List World → List World} {G : MG Name} {ev : Event} {g : MG Var} {o : Option Event}
    (h : makeCounterfactualGraph ordf G ev = .ok (g, o)) : EdgeProj G g := by
  cases o with
  | none =>
    obtain ⟨topo, _, hl⟩ := cg_none_shape h
    have hinv := inv_loopResult ordf G ev topo
    rw [hl] at hinv
    exact hinv.proj
  | some ev' =>
    obtain ⟨topo, cf', anc, _, hl, ha, rfl⟩ := cg_some_shape h
    have hinv := inv_loopResult ordf G ev topo
    rw [hl] at hinv
    intro a b hab
    rw [diEdge_subgraph, diEdge_foldl_addNode] at hab
    exact hinv.proj a b hab.1

/-- the returned counterfactual graph is acyclic whenever the user's graph is -/
theorem cg_acyclic {ordf : List World → List World} {G : MG Name} {ev ev' : Event} {g : MG Var}
    (hG : G.Acyclic) (h : makeCounterfactualGraph ordf G ev = .ok (g, some ev')) : g.Acyclic :=
  (cg_edges_project h).acyclic hG

/-- … also the intermediate graph returned together with 'inconsistent' -/
theorem cg_acyclic_inconsistent {ordf : List World → List World} {G : MG Name} {ev : Event} {g : MG Var}
    (hG : G.Acyclic) (h : makeCounterfactualGraph ordf G ev = .ok (g, none)) : g.Acyclic :=
  (cg_edges_project h).acyclic hG

/-- the returned graph is well formed (no repeated node, every edge endpoint is a node) -/
theorem cg_wf {ordf : List World → List World} {G : MG Name} {ev ev' : Event} {g : MG Var}
    (h : makeCounterfactualGraph ordf G ev = .ok (g, some ev')) : g.WF := by
  obtain ⟨_, _, _, _, _, _, rfl⟩ := cg_some_shape h
  exact wf_subgraph _ _

/-! ## 3. 'inconsistent' and the probability clauses (partial) -/

/-- 'inconsistent' is reported only after two nodes passed the Lemma-24 test (`lemma24Holds`: same mechanism, parents
attain the same values, same domain) in some intermediate graph/event while that event gave them different values -/
theorem cg_inconsistent_has_witness {ordf : List World → List World} {G : MG Name} {ev : Event} {g : MG Var}
    (h : makeCounterfactualGraph ordf G ev = .ok (g, none)) :
    ∃ cf evk a b, lemma24Holds cf evk a b = true ∧ isInconsistent evk a b = true := by
  obtain ⟨topo, _, hl⟩ := cg_none_shape h
  have hw : Witnessed (loopResult ordf G ev topo) := witnessed_mergeLoop _ topo trivial
  rw [hl] at hw
  exact hw

open Fscm in
/-- an event that gives two different values (`x` vs `x'`) to two variables that are the same random variable on
the event's support has probability 0 in every functional SCM and under every base value assignment that keeps
`x ≠ x'` — this is why 'inconsistent' is a sound answer once Lemma 24 holds for the witnessing pair -/
theorem cg_inconsistent_sound_partial (M : Model) (ν : BaseValues) (hν : ν.Distinct) (evk : Event) (a b : Var)
    (hinc : isInconsistent evk a b = true)
    (hwf : ∀ p ∈ evk, p.2.name = p.1.name) (hname : a.name = b.name)
    (hsame : ∀ u, (evk.map (conjunctOf ν)).all (holds M u) = true →
      solve M u (worldOf ν a.ivs) a.name = solve M u (worldOf ν b.ivs) b.name) :
    probEvent M ν evk = 0 := by
  unfold isInconsistent at hinc
  cases ha : evk.get? a with
  | none => simp [ha] at hinc
  | some va =>
    cases hb : evk.get? b with
    | none => simp [ha, hb] at hinc
    | some vb =>
      simp only [ha, hb, ne_eq, decide_eq_true_eq] at hinc
      -- the two pairs are members of the event
      have mem : ∀ (k : Var) (v : Iv), evk.get? k = some v → (k, v) ∈ evk := by
        intro k v hk
        unfold Event.get? at hk
        cases hf : evk.find? (fun p => p.1 = k) with
        | none => simp [hf] at hk
        | some p =>
          simp only [hf, Option.map_some, Option.some.injEq] at hk
          have hp := List.find?_some hf
          have hm := List.mem_of_find?_eq_some hf
          simp only [decide_eq_true_eq] at hp
          rcases p with ⟨k', v'⟩
          simp only at hp hk
          subst hp; subst hk
          exact hm
      have ma := mem a va ha
      have mb := mem b vb hb
      unfold probEvent
      apply prob_zero_of_conflict M _ (conjunctOf ν (a, va)) (conjunctOf ν (b, vb))
        (List.mem_map.2 ⟨_, ma, rfl⟩) (List.mem_map.2 ⟨_, mb, rfl⟩)
      · intro u hu
        exact hsame u hu
      · -- different `Intervention`s with the same name denote different values
        have na : va.name = a.name := hwf _ ma
        have nb : vb.name = b.name := hwf _ mb
        simp only [conjunctOf, ivValue]
        intro heq
        apply hinc
        rcases va with ⟨n1, s1⟩
        rcases vb with ⟨n2, s2⟩
        simp only at na nb heq
        have hn : n1 = n2 := by rw [na, nb, hname]
        subst hn
        congr
        by_contra hs
        cases s1 <;> cases s2
        · exact hs rfl
        · exact hν n1 heq
        · exact hν n1 heq.symm
        · exact hs rfl

/-! ## 3b. the probability clauses, relative to Lemma 24 for the merges that are performed -/

/-- the merges `(event at that moment, a, b)` that `make_counterfactual_graph` performs on this input -/
def cgTrace (ordf : List World → List World) (G : MG Name) (ev : Event) (topo : List Name) : List (Event × Var × Var) :=
  traceOf (.run (cf0 G (ordf (extractInterventions ev.keys))) ev) (allPairs (ordf (extractInterventions ev.keys)) topo)

open Fscm in
/-- **Probability clauses of C18, relative form.**  Let `M` be any functional SCM and `ν` base values with `x ≠ x'`.  If for
every merge the construction performs on this input the conclusion of Lemma 24 holds in `M` (`Lemma24For`: the two merged
nodes agree wherever the other conjuncts of the current event hold), then
  * the relabelled event has the same probability as the original event, and
  * 'inconsistent' is reported only if the original event has probability 0.
(The worlds are iterated as a duplicate-free list of non-empty subscript sets — what a Python set of frozensets of a
non-empty `interventions` field is; the event is a dict whose values are named after their variables.) -/
theorem cg_prob_partial (M : Model) (ν : BaseValues) (hν : ν.Distinct)
    (ordf : List World → List World) (G : MG Name) (ev : Event) (topo : List Name)
    (htopo : G.topologicalSort = .ok topo)
    (hws : (ordf (extractInterventions ev.keys)).Nodup) (hwne : ∀ w ∈ ordf (extractInterventions ev.keys), w ≠ [])
    (hnd : ev.keys.Nodup) (hwf : ∀ p ∈ ev, p.2.name = p.1.name)
    (hL : ∀ t ∈ cgTrace ordf G ev topo, Lemma24For M ν t) :
    (∀ g ev', makeCounterfactualGraph ordf G ev = .ok (g, some ev') → probEvent M ν ev' = probEvent M ν ev) ∧
    (∀ g, makeCounterfactualGraph ordf G ev = .ok (g, none) → probEvent M ν ev = 0) := by
  have hinv : SemInv M ν ev (loopResult ordf G ev topo) := by
    unfold loopResult
    rw [mergeLoop_eq]
    exact semInv_runPairs M ν hν ev _ (allPairs_ne _ hws hwne topo) _
      ⟨fun _ => Iff.rfl, hnd, hwf⟩ hL
  constructor
  · intro g ev' h
    obtain ⟨topo', cf', anc, ht, hl, _, _⟩ := cg_some_shape h
    rw [htopo] at ht
    cases ht
    rw [hl] at hinv
    exact probEvent_congr M ν ev' ev hinv.1
  · intro g h
    obtain ⟨topo', ht, hl⟩ := cg_none_shape h
    rw [htopo] at ht
    cases ht
    rw [hl] at hinv
    exact hinv

open Fscm in
/-- **Lemma 24, reduced to its premise.**  For a merge of two copies `V_S`, `V_T` of a variable that neither world forces, the
hypothesis `Lemma24For` of `cg_prob_partial` holds as soon as the PARENTS of `V` (in the model) take the same values in the
two worlds wherever the remaining conjuncts of the event hold — the two copies have the same mechanism and share the
noise (`solve_eq_of_parents_eq`, the structural equation).  What stays open is that the syntactic test of cg.py
(`parents_attain_same_values`) guarantees this premise. -/
theorem lemma24For_of_parents (M : Model) (G : MG Name) (hM : Compatible M G) (ν : BaseValues) (ev : Event) (a b : Var)
    (hname : a.name = b.name) (hv : a.name ∈ M.order)
    (ha : forced (worldOf ν a.ivs) a.name = none) (hb : forced (worldOf ν b.ivs) b.name = none)
    (hpa : ∀ u, (∀ p ∈ ev, p.1 ≠ a → p.1 ≠ b → holds M u (conjunctOf ν p) = true) →
      ∀ p ∈ M.pa a.name, solve M u (worldOf ν a.ivs) p = solve M u (worldOf ν b.ivs) p) :
    Lemma24For M ν (ev, a, b) := by
  intro u hu
  simp only [valueOf]
  rw [← hname] at hb ⊢
  exact solve_eq_of_parents_eq M hM.topoOrder u _ _ a.name hv ha hb (hpa u hu)

open Fscm in
/-- unconditional instance: two un-forced copies of a variable WITHOUT parents are the same random variable, so merging them
is always sound -/
theorem lemma24For_root (M : Model) (G : MG Name) (hM : Compatible M G) (ν : BaseValues) (ev : Event) (a b : Var)
    (hname : a.name = b.name) (hv : a.name ∈ M.order) (hroot : M.pa a.name = [])
    (ha : forced (worldOf ν a.ivs) a.name = none) (hb : forced (worldOf ν b.ivs) b.name = none) :
    Lemma24For M ν (ev, a, b) :=
  lemma24For_of_parents M G hM ν ev a b hname hv ha hb (fun _ _ p hp => by simp [hroot] at hp)

/-! ## 3c. the probability clauses, UNCONDITIONALLY (Lemma 24 for the test as coded is proved in Lemmas/CfLemma24) -/

open Fscm in
/-- C18, probability clauses, for an arbitrary parents-first processing order `topo` (the general form from which `cg_prob`
follows).  For every functional SCM `M` compatible with the (loop-free) graph `G`, all base values
with `x ≠ x'`, every well-formed event dict and every iteration order of its worlds (a duplicate-free list of non-empty,
consistent subscript sets): if the nodes of `G` are processed parents-first (what `topological_sort` delivers),
  * the relabelled event returned by `make_counterfactual_graph` has the SAME probability as the original event, and
  * 'inconsistent' is returned ONLY IF the original event has probability 0.
The proof carries two invariants through the merge loop: every parent of every un-intervened node is represented by a
parent node of equal value (on the noise points where the conjuncts about earlier variables hold), and every
name-prefix-restricted support of the current event equals that of the original one; `lemma24_of_test` derives the
conclusion of Lemma 24 from `lemma_24_holds(...) = True` under these invariants. -/
theorem cg_prob_of_parents_first (M : Model) (ν : BaseValues) (hν : ν.Distinct) (G : MG Name) (hM : Compatible M G) (hG : G.WF)
    (hdl : ∀ e ∈ G.di, e.1 ≠ e.2) (hbl : ∀ e ∈ G.bi, e.1 ≠ e.2)
    (ordf : List World → List World) (ev : Event) (hev : EvOK ev) (topo : List Name)
    (htopo : G.topologicalSort = .ok topo) (hpf : ∀ v, ∀ p ∈ M.pa v, Before topo v p)
    (hws : (ordf (extractInterventions ev.keys)).Nodup) (hwne : ∀ w ∈ ordf (extractInterventions ev.keys), w ≠ [])
    (hwcs : ∀ w ∈ ordf (extractInterventions ev.keys), ConsistentSubs w) :
    (∀ g ev', makeCounterfactualGraph ordf G ev = .ok (g, some ev') → probEvent M ν ev' = probEvent M ν ev) ∧
    (∀ g, makeCounterfactualGraph ordf G ev = .ok (g, none) → probEvent M ν ev = 0) := by
  let c : Ctx := ⟨M, ν, G, topo, ev⟩
  have hc : c.OK := ⟨hM, hν, hpf⟩
  have hinit : FullInv c (.run (cf0 G (ordf (extractInterventions ev.keys))) ev) :=
    ⟨repInv_cfInit c hc hG hdl hbl _ hws hwne hwcs, ⟨fun _ _ _ => Iff.rfl, hev⟩⟩
  have hinv : FullInv c (loopResult ordf G ev topo) := by
    unfold loopResult
    rw [mergeLoop_eq]
    exact fullInv_runPairs c hc hdl _ (allPairs_ne _ hws hwne topo) _ hinit
  constructor
  · intro g ev' h
    obtain ⟨topo', cf', anc, ht, hl, _, _⟩ := cg_some_shape h
    rw [htopo] at ht
    cases ht
    rw [hl] at hinv
    apply probEvent_congr
    intro u
    rw [← allHoldN_true, ← allHoldN_true]
    exact hinv.2.sup (fun _ => True) (fun _ _ _ _ => trivial) u
  · intro g h
    obtain ⟨topo', ht, hl⟩ := cg_none_shape h
    rw [htopo] at ht
    cases ht
    rw [hl] at hinv
    exact hinv

/-- every linear extension of `G` lists the parents of the model before their children: the side condition of
`cg_prob_of_parents_first` holds for whatever `topological_sort` returns (`topologicalSort_spec`, Props/C14) -/
theorem before_of_isTopoOrder {G : MG Name} (hG : G.WF) {topo : List Name} (h : G.IsTopoOrder topo) {p v : Name}
    (hpv : G.DiEdge p v) : Before topo v p := by
  obtain ⟨l₁, l₂, l₃, hl⟩ := h.2 p v hpv
  have hnd : topo.Nodup := h.1.nodup_iff.2 hG.nodup
  unfold Before
  have hsplit : topo = (l₁ ++ p :: l₂) ++ v :: l₃ := by rw [hl]
  have hnotin : ∀ x ∈ l₁ ++ p :: l₂, x ≠ v := by
    intro x hx hxv
    subst hxv
    rw [hsplit] at hnd
    have := (List.nodup_append.1 hnd).2.2 x hx x (List.mem_cons_self)
    exact this rfl
  rw [hsplit, List.takeWhile_append_of_pos (by simpa using hnotin)]
  simp

open Fscm in
theorem parentsFirst_of_topologicalSort {M : Model} {G : MG Name} (hM : Compatible M G) (hG : G.WF) {topo : List Name}
    (htopo : G.topologicalSort = .ok topo) : ∀ v, ∀ p ∈ M.pa v, Before topo v p :=
  fun v p hp => before_of_isTopoOrder hG (topologicalSort_spec G hG topo htopo) (hM.pa_sub v p hp)

open Fscm in
/-- **C18, probability clauses (no side condition on the processing order).**  For every functional SCM `M` compatible with
the (loop-free, well-formed) graph `G`, all base values with `x ≠ x'`, every well-formed event dict and every iteration
order of its worlds (a duplicate-free list of non-empty, consistent subscript sets):
  * the relabelled event returned by `make_counterfactual_graph` has the SAME probability as the original event, and
  * 'inconsistent' is returned ONLY IF the original event has probability 0.
The nodes are processed in the order the model of `topological_sort` computes; `topologicalSort_spec` (C14) shows it is a
linear extension of `G`, hence parents-first for every compatible model. -/
theorem cg_prob (M : Model) (ν : BaseValues) (hν : ν.Distinct) (G : MG Name) (hM : Compatible M G) (hG : G.WF)
    (hdl : ∀ e ∈ G.di, e.1 ≠ e.2) (hbl : ∀ e ∈ G.bi, e.1 ≠ e.2)
    (ordf : List World → List World) (ev : Event) (hev : EvOK ev)
    (hws : (ordf (extractInterventions ev.keys)).Nodup) (hwne : ∀ w ∈ ordf (extractInterventions ev.keys), w ≠ [])
    (hwcs : ∀ w ∈ ordf (extractInterventions ev.keys), ConsistentSubs w) :
    (∀ g ev', makeCounterfactualGraph ordf G ev = .ok (g, some ev') → probEvent M ν ev' = probEvent M ν ev) ∧
    (∀ g, makeCounterfactualGraph ordf G ev = .ok (g, none) → probEvent M ν ev = 0) := by
  cases htopo : G.topologicalSort with
  | error e =>
    have herr := (cg_error_iff_cyclic ordf G ev e).2 htopo
    constructor
    · intro g ev' h; rw [herr] at h; cases h
    · intro g h; rw [herr] at h; cases h
  | ok topo =>
    exact cg_prob_of_parents_first M ν hν G hM hG hdl hbl ordf ev hev topo htopo
      (parentsFirst_of_topologicalSort hM hG htopo) hws hwne hwcs

/-- on an acyclic well-formed graph the construction never fails (with `topologicalSort_total`, C14) -/
theorem cg_total_acyclic (ordf : List World → List World) (G : MG Name) (hG : G.WF) (hA : G.Acyclic) (ev : Event) :
    ∃ r, makeCounterfactualGraph ordf G ev = .ok r := by
  obtain ⟨topo, ht⟩ := topologicalSort_total G hG hA
  exact cg_total ordf G ev topo ht

/-- the side conditions of `cg_prob_partial` on the worlds hold for the identity order (hence for every permutation of it) -/
theorem extractInterventions_ok (vs : List Var) :
    (extractInterventions vs).Nodup ∧ ∀ w ∈ extractInterventions vs, w ≠ [] := by
  unfold extractInterventions
  refine ⟨nodup_dedup' _, ?_⟩
  intro w hw
  rw [mem_dedup'] at hw
  simp only [List.mem_map, List.mem_filter] at hw
  obtain ⟨v, ⟨_, hv⟩, rfl⟩ := hw
  simp only [Var.isCf, Bool.not_eq_eq_eq_not, Bool.not_true, List.isEmpty_eq_false_iff] at hv
  exact hv

/-! ## 4. non-vacuity: concrete runs of the model (kernel-evaluated) -/

namespace Example
/-- `B → A` (names: `A = 0`, `B = 1`) -/
def gBA : MG Name := MG.fromEdges [0, 1] [(1, 0)] []
def A : Var := Var.plain 0
def B : Var := Var.plain 1
def A_b : Var := { name := 0, ivs := [⟨1, false⟩] }

def isInconsistentResult : Except Err (MG Var × Option Event) → Bool
  | .ok (_, none) => true
  | _ => false

/-- `A_b = a ∧ A = a' ∧ B = b` is reported inconsistent (the witness of `cg_inconsistent_has_witness` exists) -/
example : isInconsistentResult
    (makeCounterfactualGraph sortWorlds gBA [(A_b, ⟨0, false⟩), (A, ⟨0, true⟩), (B, ⟨1, false⟩)]) = true := by decide

/-- `A_b = a ∧ B = b`: `A_b` is merged into `A`; the result is the graph `B → A` with the relabelled event `A = a ∧ B = b`
(hypotheses of `cg_event_in_nodes`, `cg_is_ancestral`, `cg_acyclic` are satisfiable) -/
example : (match makeCounterfactualGraph sortWorlds gBA [(A_b, ⟨0, false⟩), (B, ⟨1, false⟩)] with
    | .ok (g, some ev') => decide (g.nodes.length = 2) && decide (ev'.keys = [B, A]) && decide (g.di = [(B, A)])
    | _ => false) = true := by decide

/-- the witness of the `fix:` ce3041e: `A_b = a ∧ B = b ∧ B_b = b` keeps the self-intervened event variable `B_b` -/
example : (match makeCounterfactualGraph sortWorlds gBA
      [(A_b, ⟨0, false⟩), (B, ⟨1, false⟩), ({ name := 1, ivs := [⟨1, false⟩] }, ⟨1, false⟩)] with
    | .ok (g, some ev') => ev'.keys.all (fun k => elem' k g.nodes)
    | _ => false) = true := by decide

/-- a cyclic input is the error case of `cg_error_iff_cyclic` -/
example : (match makeCounterfactualGraph sortWorlds (MG.fromEdges [] [(0, 1), (1, 0)] []) [(A_b, ⟨0, false⟩)] with
    | .error (.internal "NetworkXUnfeasible") => true
    | _ => false) = true := by decide

open Fscm in
/-- the hypotheses of `cg_prob` are satisfiable: a concrete functional SCM compatible with `B → A` (private binary noise
for each variable, `B := u₀`, `A := B xor u₁`) -/
def mBA : Model where
  order := [1, 0]
  noise := [[1/3, 2/3], [1/4, 3/4]]
  pa := fun v => if v = 0 then [1] else []
  lat := fun v => if v = 0 then [1] else if v = 1 then [0] else []
  f := fun v ps us => if v = 1 then us.getD 0 0 else (ps.getD 0 0 + us.getD 0 0) % 2

open Fscm in
example : Compatible mBA gBA := by
  refine ⟨by decide, by decide, ?_, ?_, ?_⟩
  · intro v p hp
    by_cases hv : v = 0
    · subst hv
      simp only [mBA, if_true, List.mem_singleton] at hp
      subst hp
      decide
    · simp [mBA, hv] at hp
  · intro l₁ v l₂ h p hp
    by_cases hv : v = 0
    · subst hv
      simp only [mBA, if_true, List.mem_singleton] at hp
      subst hp
      have h' : [1, 0] = l₁ ++ 0 :: l₂ := h
      rcases l₁ with _ | ⟨x, l₁⟩
      · simp at h'
      · simp only [List.cons_append, List.cons.injEq] at h'
        rw [← h'.1]; simp
    · simp [mBA, hv] at hp
  · intro v w hvw hsh
    obtain ⟨j, hj1, hj2⟩ := hsh
    exfalso
    by_cases hv : v = 0
    · subst hv
      simp only [mBA, if_true, List.mem_singleton] at hj1
      subst hj1
      by_cases hw : w = 0
      · exact hvw hw.symm
      · by_cases hw1 : w = 1 <;> simp [mBA, hw, hw1] at hj2
    · by_cases hv1 : v = 1
      · subst hv1
        simp only [mBA] at hj1
        simp at hj1
        subst hj1
        by_cases hw : w = 0
        · subst hw; simp [mBA] at hj2
        · by_cases hw1 : w = 1
          · exact hvw hw1.symm
          · simp [mBA, hw, hw1] at hj2
      · simp [mBA, hv, hv1] at hj1

/-- the model of `topological_sort` processes `B` before `A` on this graph -/
example : gBA.topologicalSort = .ok [1, 0] := by decide

/-- … and the processing order `[B, A]` lists parents first -/
example : ∀ v, ∀ p ∈ mBA.pa v, Before [1, 0] v p := by
  intro v p hp
  by_cases hv : v = 0
  · subst hv
    simp only [mBA, if_true, List.mem_singleton] at hp
    subst hp
    simp [Before]
  · simp [mBA, hv] at hp
end Example

end Y0.Cf
