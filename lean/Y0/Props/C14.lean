/-
  Property C14 — mixed-graph surgery operations meet their set-theoretic definitions.

  Only property theorems and non-vacuity examples live here; helper lemmas are in Y0/Lemmas.
  Every theorem is about the executable model `Y0.Model.Graph`, which the correspondence check
  (harness/props/c14.py) compares with `y0.graph.NxMixedGraph` on every run.

  Reading guide.  `G.DiEdge u v`, `G.BiEdge u v`, `G.Anc S v`, `G.Desc S v`, `G.SameDistrict u v`
  are the relational definitions of Y0/Spec/GraphSpec.lean.  `G.WF` is what `from_edges` guarantees
  (`wf_fromEdges`), so every graph the Python API can build satisfies it.
-/
import Y0.Lemmas.Closure
import Y0.Lemmas.Moral
import Y0.Lemmas.Topo
import Y0.Lemmas.Paths

namespace Y0.MG
variable {α : Type} [DecidableEq α]
open Relation

/-! ## 1. sub-graph: precisely the chosen nodes and the edges among them -/

theorem mem_nodes_subgraph (G : MG α) (S : List α) (v : α) :
    v ∈ (G.subgraph S).nodes ↔ v ∈ S := by
  simp only [subgraph, mem_nodes_fromEdges, List.mem_filter, decide_eq_true_eq]
  constructor
  · rintro (h | ⟨e, ⟨_, h1, h2⟩, rfl | rfl⟩ | ⟨e, ⟨_, h1, h2⟩, rfl | rfl⟩) <;> assumption
  · exact Or.inl

theorem diEdge_subgraph (G : MG α) (S : List α) (u v : α) :
    (G.subgraph S).DiEdge u v ↔ G.DiEdge u v ∧ u ∈ S ∧ v ∈ S := by
  unfold subgraph; rw [diEdge_fromEdges]; simp [DiEdge]

theorem biEdge_subgraph (G : MG α) (S : List α) (u v : α) :
    (G.subgraph S).BiEdge u v ↔ G.BiEdge u v ∧ u ∈ S ∧ v ∈ S := by
  unfold subgraph; rw [biEdge_fromEdges]; simp only [BiEdge, List.mem_filter, decide_eq_true_eq]; tauto

theorem wf_subgraph (G : MG α) (S : List α) : (G.subgraph S).WF := wf_fromEdges _ _ _

/-! ## 2. removing incoming edges: every node kept, exactly the directed edges into `S` and the
bidirected edges touching `S` dropped -/

theorem mem_nodes_removeInEdges (G : MG α) (hG : G.WF) (S : List α) (v : α) :
    v ∈ (G.removeInEdges S).nodes ↔ v ∈ G.nodes := by
  simp only [removeInEdges, mem_nodes_fromEdges, List.mem_filter, decide_eq_true_eq]
  constructor
  · rintro (h | ⟨e, ⟨he, _⟩, rfl | rfl⟩ | ⟨e, ⟨he, _⟩, rfl | rfl⟩)
    · exact h
    · exact (hG.di_mem e he).1
    · exact (hG.di_mem e he).2
    · exact (hG.bi_mem e he).1
    · exact (hG.bi_mem e he).2
  · exact Or.inl

theorem diEdge_removeInEdges (G : MG α) (S : List α) (u v : α) :
    (G.removeInEdges S).DiEdge u v ↔ G.DiEdge u v ∧ v ∉ S := by
  unfold removeInEdges; rw [diEdge_fromEdges]; simp [DiEdge]

theorem biEdge_removeInEdges (G : MG α) (S : List α) (u v : α) :
    (G.removeInEdges S).BiEdge u v ↔ G.BiEdge u v ∧ u ∉ S ∧ v ∉ S := by
  unfold removeInEdges; rw [biEdge_fromEdges]; simp only [BiEdge, List.mem_filter, decide_eq_true_eq]; tauto

/-! ## 3. removing outgoing edges -/

theorem mem_nodes_removeOutEdges (G : MG α) (hG : G.WF) (S : List α) (v : α) :
    v ∈ (G.removeOutEdges S).nodes ↔ v ∈ G.nodes := by
  simp only [removeOutEdges, mem_nodes_fromEdges, List.mem_filter, decide_eq_true_eq]
  constructor
  · rintro (h | ⟨e, ⟨he, _⟩, rfl | rfl⟩ | ⟨e, he, rfl | rfl⟩)
    · exact h
    · exact (hG.di_mem e he).1
    · exact (hG.di_mem e he).2
    · exact (hG.bi_mem e he).1
    · exact (hG.bi_mem e he).2
  · exact Or.inl

theorem diEdge_removeOutEdges (G : MG α) (S : List α) (u v : α) :
    (G.removeOutEdges S).DiEdge u v ↔ G.DiEdge u v ∧ u ∉ S := by
  unfold removeOutEdges; rw [diEdge_fromEdges]; simp [DiEdge]

theorem biEdge_removeOutEdges (G : MG α) (S : List α) (u v : α) :
    (G.removeOutEdges S).BiEdge u v ↔ G.BiEdge u v := by
  unfold removeOutEdges; rw [biEdge_fromEdges]; simp [BiEdge]

/-! ## 4. removing nodes -/

theorem mem_nodes_removeNodes (G : MG α) (hG : G.WF) (S : List α) (v : α) :
    v ∈ (G.removeNodes S).nodes ↔ v ∈ G.nodes ∧ v ∉ S := by
  simp only [removeNodes, mem_nodes_fromEdges, List.mem_filter, decide_eq_true_eq]
  constructor
  · rintro (h | ⟨e, ⟨he, h1, h2⟩, rfl | rfl⟩ | ⟨e, ⟨he, h1, h2⟩, rfl | rfl⟩)
    · exact h
    · exact ⟨(hG.di_mem e he).1, h1⟩
    · exact ⟨(hG.di_mem e he).2, h2⟩
    · exact ⟨(hG.bi_mem e he).1, h1⟩
    · exact ⟨(hG.bi_mem e he).2, h2⟩
  · exact Or.inl

theorem diEdge_removeNodes (G : MG α) (S : List α) (u v : α) :
    (G.removeNodes S).DiEdge u v ↔ G.DiEdge u v ∧ u ∉ S ∧ v ∉ S := by
  unfold removeNodes; rw [diEdge_fromEdges]; simp [DiEdge]

theorem biEdge_removeNodes (G : MG α) (S : List α) (u v : α) :
    (G.removeNodes S).BiEdge u v ↔ G.BiEdge u v ∧ u ∉ S ∧ v ∉ S := by
  unfold removeNodes; rw [biEdge_fromEdges]; simp only [BiEdge, List.mem_filter, decide_eq_true_eq]; tauto

/-! ## 5. intervene: the relabelled image of `removeInEdges` -/

section intervene
variable {β : Type} [DecidableEq β]

theorem mem_nodes_intervene (G : MG α) (hG : G.WF) (f : α → β) (X : List α) (w : β) :
    w ∈ (G.interveneRaw f X).nodes ↔ ∃ v ∈ G.nodes, w = f v := by
  simp only [interveneRaw, mem_nodes_fromEdges, List.mem_map, List.mem_filter, decide_eq_true_eq]
  constructor
  · rintro (⟨v, hv, rfl⟩ | ⟨_, ⟨e, ⟨he, _⟩, rfl⟩, rfl | rfl⟩ | ⟨_, ⟨e, ⟨he, _⟩, rfl⟩, rfl | rfl⟩)
    · exact ⟨v, hv, rfl⟩
    · exact ⟨_, (hG.di_mem e he).1, rfl⟩
    · exact ⟨_, (hG.di_mem e he).2, rfl⟩
    · exact ⟨_, (hG.bi_mem e he).1, rfl⟩
    · exact ⟨_, (hG.bi_mem e he).2, rfl⟩
  · rintro ⟨v, hv, rfl⟩; exact Or.inl ⟨v, hv, rfl⟩

theorem diEdge_intervene (G : MG α) (f : α → β) (hf : Function.Injective f) (X : List α) (u v : α) :
    (G.interveneRaw f X).DiEdge (f u) (f v) ↔ G.DiEdge u v ∧ v ∉ X := by
  unfold interveneRaw; rw [diEdge_fromEdges]
  simp only [DiEdge, List.mem_map, List.mem_filter, decide_eq_true_eq, Prod.mk.injEq]
  constructor
  · rintro ⟨⟨a, b⟩, ⟨he, hx⟩, h1, h2⟩
    obtain rfl := hf h1; obtain rfl := hf h2; exact ⟨he, hx⟩
  · rintro ⟨he, hx⟩; exact ⟨(u, v), ⟨he, hx⟩, rfl, rfl⟩

theorem biEdge_intervene (G : MG α) (f : α → β) (hf : Function.Injective f) (X : List α) (u v : α) :
    (G.interveneRaw f X).BiEdge (f u) (f v) ↔ G.BiEdge u v ∧ u ∉ X ∧ v ∉ X := by
  unfold interveneRaw; rw [biEdge_fromEdges]
  simp only [BiEdge, List.mem_map, List.mem_filter, decide_eq_true_eq, Prod.mk.injEq]
  constructor
  · rintro (⟨⟨a, b⟩, ⟨he, hx⟩, h1, h2⟩ | ⟨⟨a, b⟩, ⟨he, hx⟩, h1, h2⟩)
    · obtain rfl := hf h1; obtain rfl := hf h2; exact ⟨Or.inl he, hx⟩
    · obtain rfl := hf h1; obtain rfl := hf h2; exact ⟨Or.inr he, hx.2, hx.1⟩
  · rintro ⟨he | he, hu, hv⟩
    · exact Or.inl ⟨(u, v), ⟨he, hu, hv⟩, rfl, rfl⟩
    · exact Or.inr ⟨(v, u), ⟨he, hv, hu⟩, rfl, rfl⟩

/-- the only refusal of `intervene` is the empty subscript set on a non-empty graph -/
theorem intervene_ok (G : MG α) (f : α → β) (X : List α) (h : X ≠ [] ∨ G.nodes = []) :
    G.intervene f X = .ok (G.interveneRaw f X) := by
  unfold intervene
  rcases h with h | h
  · cases X with
    | nil => exact absurd rfl h
    | cons x xs => simp
  · simp [h]

end intervene

/-! ## 6. ancestors and descendants are the reflexive-transitive closures over directed edges -/

private theorem parents_rel (G : MG α) (a b : α) : b ∈ G.parents a ↔ G.DiEdge b a := by
  simp only [parents, List.mem_map, List.mem_filter, decide_eq_true_eq, DiEdge]
  constructor
  · rintro ⟨⟨x, y⟩, ⟨he, rfl⟩, rfl⟩; exact he
  · intro h; exact ⟨(b, a), ⟨h, rfl⟩, rfl⟩

private theorem children_rel (G : MG α) (a b : α) : b ∈ G.children a ↔ G.DiEdge a b := by
  simp only [children, List.mem_map, List.mem_filter, decide_eq_true_eq, DiEdge]
  constructor
  · rintro ⟨⟨x, y⟩, ⟨he, rfl⟩, rfl⟩; exact he
  · intro h; exact ⟨(a, b), ⟨h, rfl⟩, rfl⟩

theorem ancestorsInclusive_total (G : MG α) (S : List α) (hS : ∀ s ∈ S, s ∈ G.nodes) :
    ∃ A, G.ancestorsInclusive S = .ok A := by
  have : S.all (· ∈ G.nodes) = true := by simpa using hS
  exact ⟨closure G.parents (G.nodes.length + 1) (dedup' S),
    by simp [ancestorsInclusive, checkSources, this, bind, Except.bind, pure, Except.pure]⟩

/-- a source that is not a node is the only failure (`nx.ancestors` raises `NetworkXError`) -/
theorem ancestorsInclusive_error (G : MG α) (S : List α) (hS : ¬ ∀ s ∈ S, s ∈ G.nodes) :
    G.ancestorsInclusive S = .error (.internal "NetworkXError") := by
  have : ¬ (S.all (· ∈ G.nodes) = true) := by simpa using hS
  simp [ancestorsInclusive, checkSources, this, bind, Except.bind]

theorem ancestorsInclusive_spec (G : MG α) (hG : G.WF) (S A : List α)
    (h : G.ancestorsInclusive S = .ok A) (v : α) : v ∈ A ↔ G.Anc S v := by
  unfold ancestorsInclusive checkSources at h
  split at h
  · rename_i hS
    simp only [bind, Except.bind, pure, Except.pure, Except.ok.injEq] at h
    subst h
    have hS' : ∀ s ∈ S, s ∈ G.nodes := by simpa using hS
    rw [mem_closure_iff G.parents G.nodes.toFinset]
    · simp only [Anc, mem_dedup']
      constructor
      · rintro ⟨s, hs, hsv⟩
        refine ⟨s, hs, ?_⟩
        clear hs
        induction hsv with
        | refl => exact .refl
        | tail _ hbc ih => exact .head ((parents_rel G _ _).1 hbc) ih
      · rintro ⟨s, hs, hvs⟩
        refine ⟨s, hs, ?_⟩
        clear hs
        induction hvs with
        | refl => exact .refl
        | tail _ hbc ih => exact .head ((parents_rel G _ _).2 hbc) ih
    · intro a _ b hb
      rw [parents_rel] at hb
      simpa using (hG.di_mem _ hb).1
    · intro a ha; simpa using hS' a (by simpa using ha)
    · exact Nat.lt_succ_of_le (List.toFinset_card_le _)
  · simp [bind, Except.bind] at h

theorem descendantsInclusive_total (G : MG α) (S : List α) (hS : ∀ s ∈ S, s ∈ G.nodes) :
    ∃ A, G.descendantsInclusive S = .ok A := by
  have : S.all (· ∈ G.nodes) = true := by simpa using hS
  exact ⟨closure G.children (G.nodes.length + 1) (dedup' S),
    by simp [descendantsInclusive, checkSources, this, bind, Except.bind, pure, Except.pure]⟩

theorem descendantsInclusive_spec (G : MG α) (hG : G.WF) (S A : List α)
    (h : G.descendantsInclusive S = .ok A) (v : α) : v ∈ A ↔ G.Desc S v := by
  unfold descendantsInclusive checkSources at h
  split at h
  · rename_i hS
    simp only [bind, Except.bind, pure, Except.pure, Except.ok.injEq] at h
    subst h
    have hS' : ∀ s ∈ S, s ∈ G.nodes := by simpa using hS
    rw [mem_closure_iff G.children G.nodes.toFinset]
    · simp only [Desc, mem_dedup']
      constructor
      · rintro ⟨s, hs, hsv⟩
        refine ⟨s, hs, ?_⟩
        clear hs
        induction hsv with
        | refl => exact .refl
        | tail _ hbc ih => exact .tail ih ((children_rel G _ _).1 hbc)
      · rintro ⟨s, hs, hvs⟩
        refine ⟨s, hs, ?_⟩
        clear hs
        induction hvs with
        | refl => exact .refl
        | tail _ hbc ih => exact .tail ih ((children_rel G _ _).2 hbc)
    · intro a _ b hb
      rw [children_rel] at hb
      simpa using (hG.di_mem _ hb).2
    · intro a ha; simpa using hS' a (by simpa using ha)
    · exact Nat.lt_succ_of_le (List.toFinset_card_le _)
  · simp [bind, Except.bind] at h

/-! ## 7. districts partition the nodes by bidirected connectivity -/

private theorem biNbrs_rel (G : MG α) (a b : α) : b ∈ G.biNbrs a ↔ G.BiEdge a b := by
  simp only [biNbrs, List.mem_flatMap, List.mem_append, BiEdge]
  constructor
  · rintro ⟨⟨x, y⟩, he, h | h⟩
    · split at h
      · rename_i hx; simp at h hx; subst hx; subst h; exact Or.inl he
      · simp at h
    · split at h
      · rename_i hy; simp at h hy; subst hy; subst h; exact Or.inr he
      · simp at h
  · rintro (h | h)
    · exact ⟨(a, b), h, Or.inl (by simp)⟩
    · exact ⟨(b, a), h, Or.inr (by simp)⟩

theorem biEdge_symm (G : MG α) {u v : α} (h : G.BiEdge u v) : G.BiEdge v u := Or.symm h

theorem sameDistrict_symm (G : MG α) {u v : α} (h : G.SameDistrict u v) : G.SameDistrict v u := by
  induction h with
  | refl => exact .refl
  | tail _ hbc ih => exact .head (biEdge_symm G hbc) ih

theorem mem_districtOf (G : MG α) (hG : G.WF) (v : α) (hv : v ∈ G.nodes) (u : α) :
    u ∈ G.districtOf v ↔ G.SameDistrict v u := by
  unfold districtOf
  rw [mem_closure_iff G.biNbrs G.nodes.toFinset]
  · simp only [List.mem_singleton, exists_eq_left, SameDistrict]
    constructor <;> intro h
    · induction h with
      | refl => exact .refl
      | tail _ hbc ih => exact .tail ih ((biNbrs_rel G _ _).1 hbc)
    · induction h with
      | refl => exact .refl
      | tail _ hbc ih => exact .tail ih ((biNbrs_rel G _ _).2 hbc)
  · intro a _ b hb
    rw [biNbrs_rel] at hb
    rcases hb with hb | hb
    · simpa using (hG.bi_mem _ hb).2
    · simpa using (hG.bi_mem _ hb).1
  · intro a ha; simp at ha; subst ha; simpa using hv
  · exact Nat.lt_succ_of_le (List.toFinset_card_le _)

/-- invariant of the sweep: every block is the district of one of its members, which is a node;
blocks are pairwise disjoint; the nodes swept so far are covered -/
private theorem districtsAux_spec (G : MG α) (hG : G.WF) (todo : List α) (acc : List (List α))
    (htodo : ∀ v ∈ todo, v ∈ G.nodes)
    (hacc : ∀ d ∈ acc, ∃ r ∈ G.nodes, d = G.districtOf r)
    (hdis : acc.Pairwise (fun d₁ d₂ => ∀ x, x ∈ d₁ → x ∉ d₂)) :
    (∀ d ∈ G.districtsAux todo acc, ∃ r ∈ G.nodes, d = G.districtOf r) ∧
    (G.districtsAux todo acc).Pairwise (fun d₁ d₂ => ∀ x, x ∈ d₁ → x ∉ d₂) ∧
    (∀ v, (v ∈ todo ∨ ∃ d ∈ acc, v ∈ d) → ∃ d ∈ G.districtsAux todo acc, v ∈ d) := by
  induction todo generalizing acc with
  | nil =>
    simp only [districtsAux, List.mem_reverse, List.not_mem_nil, false_or]
    refine ⟨hacc, ?_, fun v h => h⟩
    rw [List.pairwise_reverse]
    exact hdis.imp (fun {a b} h x hxb hxa => h x hxa hxb)
  | cons v vs ih =>
    simp only [districtsAux]
    split
    · rename_i hcov
      obtain ⟨h1, h2, h3⟩ := ih acc (fun w hw => htodo w (by simp [hw])) hacc hdis
      refine ⟨h1, h2, ?_⟩
      rintro w (hw | hw)
      · rcases List.mem_cons.1 hw with rfl | hw
        · simp only [List.any_eq_true, decide_eq_true_eq] at hcov
          exact h3 w (Or.inr hcov)
        · exact h3 w (Or.inl hw)
      · exact h3 w (Or.inr hw)
    · rename_i hcov
      have hv : v ∈ G.nodes := htodo v (by simp)
      have hcov' : ∀ d ∈ acc, v ∉ d := by
        simpa [List.any_eq_true] using hcov
      obtain ⟨h1, h2, h3⟩ := ih (G.districtOf v :: acc) (fun w hw => htodo w (by simp [hw]))
        (by
          intro d hd
          rcases List.mem_cons.1 hd with rfl | hd
          · exact ⟨v, hv, rfl⟩
          · exact hacc d hd)
        (by
          rw [List.pairwise_cons]
          refine ⟨?_, hdis⟩
          intro d hd x hxv hxd
          obtain ⟨r, hr, rfl⟩ := hacc d hd
          rw [mem_districtOf G hG v hv] at hxv
          rw [mem_districtOf G hG r hr] at hxd
          apply hcov' _ hd
          rw [mem_districtOf G hG r hr]
          exact hxd.trans (sameDistrict_symm G hxv))
      refine ⟨h1, h2, ?_⟩
      rintro w (hw | ⟨d, hd, hwd⟩)
      · rcases List.mem_cons.1 hw with rfl | hw
        · exact h3 w (Or.inr ⟨_, by simp, (mem_districtOf G hG w hv w).2 .refl⟩)
        · exact h3 w (Or.inl hw)
      · exact h3 w (Or.inr ⟨d, by simp [hd], hwd⟩)

/-- every node lies in some district, and members of districts are nodes -/
theorem districts_cover (G : MG α) (hG : G.WF) (v : α) :
    v ∈ G.nodes ↔ ∃ d ∈ G.districts, v ∈ d := by
  obtain ⟨h1, _, h3⟩ := districtsAux_spec G hG G.nodes [] (fun _ h => h) (by simp) (by simp)
  constructor
  · intro hv; exact h3 v (Or.inl hv)
  · rintro ⟨d, hd, hvd⟩
    obtain ⟨r, hr, rfl⟩ := h1 d hd
    rw [mem_districtOf G hG r hr] at hvd
    clear hd
    induction hvd with
    | refl => exact hr
    | tail _ hbc _ =>
      rcases hbc with hbc | hbc
      · exact (hG.bi_mem _ hbc).2
      · exact (hG.bi_mem _ hbc).1

/-- distinct districts are disjoint -/
theorem districts_disjoint (G : MG α) (hG : G.WF) :
    G.districts.Pairwise (fun d₁ d₂ => ∀ x, x ∈ d₁ → x ∉ d₂) :=
  (districtsAux_spec G hG G.nodes [] (fun _ h => h) (by simp) (by simp)).2.1

/-- a district is exactly a class of bidirected connectivity -/
theorem districts_spec (G : MG α) (hG : G.WF) (d : List α) (hd : d ∈ G.districts) (u : α) (hu : u ∈ d)
    (v : α) : v ∈ d ↔ G.SameDistrict u v := by
  obtain ⟨r, hr, rfl⟩ := (districtsAux_spec G hG G.nodes [] (fun _ h => h) (by simp) (by simp)).1 d hd
  rw [mem_districtOf G hG r hr] at hu ⊢
  exact ⟨fun h => (sameDistrict_symm G hu).trans h, fun h => hu.trans h⟩

theorem districts_nonempty (G : MG α) (hG : G.WF) (d : List α) (hd : d ∈ G.districts) : d ≠ [] := by
  obtain ⟨r, hr, rfl⟩ := (districtsAux_spec G hG G.nodes [] (fun _ h => h) (by simp) (by simp)).1 d hd
  intro h
  have : r ∈ G.districtOf r := (mem_districtOf G hG r hr r).2 .refl
  rw [h] at this; simp at this

/-! ## 8. Markov pillow and blanket -/

theorem markovPillow_spec (G : MG α) (S P : List α) (h : G.markovPillow S = .ok P) (v : α) :
    v ∈ P ↔ v ∉ S ∧ ∃ s ∈ S, G.DiEdge v s := by
  unfold markovPillow checkSources at h
  split at h
  · simp only [bind, Except.bind, pure, Except.pure, Except.ok.injEq] at h
    subst h
    simp only [mem_dedup', List.mem_filter, List.mem_flatMap, parents_rel, decide_eq_true_eq]
    tauto
  · simp [bind, Except.bind] at h

theorem markovBlanket_spec (G : MG α) (S B : List α) (h : G.markovBlanket S = .ok B) (v : α) :
    v ∈ B ↔ v ∉ S ∧ ∃ s ∈ S, G.DiEdge v s ∨ G.DiEdge s v ∨ ∃ c, G.DiEdge s c ∧ G.DiEdge v c := by
  unfold markovBlanket checkSources at h
  split at h
  · simp only [bind, Except.bind, pure, Except.pure, Except.ok.injEq] at h
    subst h
    simp only [mem_dedup', List.mem_filter, List.mem_flatMap, List.mem_append, List.mem_cons,
      parents_rel, children_rel, decide_eq_true_eq]
    constructor
    · rintro ⟨⟨s, hs, h | ⟨c, hc, rfl | h⟩⟩, hv⟩
      · exact ⟨hv, s, hs, Or.inl h⟩
      · exact ⟨hv, s, hs, Or.inr (Or.inl hc)⟩
      · exact ⟨hv, s, hs, Or.inr (Or.inr ⟨c, hc, h⟩)⟩
    · rintro ⟨hv, s, hs, h | h | ⟨c, hc, h⟩⟩
      · exact ⟨⟨s, hs, Or.inl h⟩, hv⟩
      · exact ⟨⟨s, hs, Or.inr ⟨v, h, Or.inl rfl⟩⟩, hv⟩
      · exact ⟨⟨s, hs, Or.inr ⟨c, hc, Or.inr h⟩⟩, hv⟩
  · simp [bind, Except.bind] at h

/-! ## 9. disorient -/

theorem mem_nodes_disorient (G : MG α) (hG : G.WF) (v : α) : v ∈ G.disorient.nodes ↔ v ∈ G.nodes := by
  simp only [disorient, mem_nodes_fromEdges, List.not_mem_nil, false_and, exists_false, false_or,
    List.mem_append]
  constructor
  · rintro (h | ⟨e, he | he, rfl | rfl⟩)
    · exact h
    · exact (hG.di_mem e he).1
    · exact (hG.di_mem e he).2
    · exact (hG.bi_mem e he).1
    · exact (hG.bi_mem e he).2
  · exact Or.inl

theorem edge_disorient (G : MG α) (u v : α) :
    G.disorient.BiEdge u v ↔ G.DiEdge u v ∨ G.DiEdge v u ∨ G.BiEdge u v := by
  unfold disorient; rw [biEdge_fromEdges]; simp only [List.mem_append, DiEdge, BiEdge]; tauto

theorem no_diEdge_disorient (G : MG α) (u v : α) : ¬ G.disorient.DiEdge u v := by
  unfold disorient; rw [diEdge_fromEdges]; simp

/-! ## 10. `pre` -/

theorem preOf_prefix (o S : List α) : preOf o S ++ o.dropWhile (· ∉ S) = o := by
  simp [preOf, List.takeWhile_append_dropWhile]

theorem preOf_avoids (o S : List α) (x : α) (hx : x ∈ preOf o S) : x ∉ S := by
  unfold preOf at hx
  induction o with
  | nil => simp at hx
  | cons a o ih =>
    rw [List.takeWhile_cons] at hx
    split at hx
    · rename_i ha
      rcases List.mem_cons.1 hx with rfl | hx
      · simpa using ha
      · exact ih hx
    · simp at hx

theorem preOf_stops (o S : List α) (y : α) (h : (o.dropWhile (· ∉ S)).head? = some y) : y ∈ S := by
  have := List.head?_dropWhile_not (fun x => decide (x ∉ S)) o
  rw [h] at this
  simpa using this

/-! ## 11. results do not depend on insertion order -/

/-- `NxMixedGraph.__eq__` of the model says exactly: same node set, same directed edges, same
bidirected edges up to orientation -/
theorem equiv_iff (G H : MG α) :
    G.equiv H = true ↔ (∀ v, v ∈ G.nodes ↔ v ∈ H.nodes) ∧ (∀ u v, G.DiEdge u v ↔ H.DiEdge u v) ∧
      (∀ u v, G.BiEdge u v ↔ H.BiEdge u v) := by
  simp only [equiv, seteq', subset', Bool.and_eq_true, List.all_eq_true, decide_eq_true_eq, hasBi_iff]
  constructor
  · rintro ⟨⟨⟨⟨n1, n2⟩, d1, d2⟩, b1⟩, b2⟩
    refine ⟨fun v => ⟨n1 v, n2 v⟩, fun u v => ⟨d1 (u, v), d2 (u, v)⟩, fun u v => ⟨?_, ?_⟩⟩
    · rintro (h | h)
      · exact b1 _ h
      · exact biEdge_symm H (b1 _ h)
    · rintro (h | h)
      · exact b2 _ h
      · exact biEdge_symm G (b2 _ h)
  · rintro ⟨hn, hd, hb⟩
    refine ⟨⟨⟨⟨fun v => (hn v).1, fun v => (hn v).2⟩, fun e => (hd e.1 e.2).1, fun e => (hd e.1 e.2).2⟩,
      fun e he => (hb e.1 e.2).1 (Or.inl he)⟩, fun e he => (hb e.1 e.2).2 (Or.inl he)⟩

theorem equiv_congr_subgraph (G H : MG α) (h : G.equiv H = true) (S : List α) :
    (G.subgraph S).equiv (H.subgraph S) = true := by
  rw [equiv_iff] at h ⊢
  obtain ⟨_, hd, hb⟩ := h
  exact ⟨fun v => by simp [mem_nodes_subgraph], fun u v => by simp [diEdge_subgraph, hd],
    fun u v => by simp [biEdge_subgraph, hb]⟩

theorem equiv_congr_removeInEdges (G H : MG α) (hG : G.WF) (hH : H.WF) (h : G.equiv H = true)
    (S : List α) : (G.removeInEdges S).equiv (H.removeInEdges S) = true := by
  rw [equiv_iff] at h ⊢
  obtain ⟨hn, hd, hb⟩ := h
  exact ⟨fun v => by simp [mem_nodes_removeInEdges, hG, hH, hn],
    fun u v => by simp [diEdge_removeInEdges, hd], fun u v => by simp [biEdge_removeInEdges, hb]⟩

theorem equiv_congr_removeOutEdges (G H : MG α) (hG : G.WF) (hH : H.WF) (h : G.equiv H = true)
    (S : List α) : (G.removeOutEdges S).equiv (H.removeOutEdges S) = true := by
  rw [equiv_iff] at h ⊢
  obtain ⟨hn, hd, hb⟩ := h
  exact ⟨fun v => by simp [mem_nodes_removeOutEdges, hG, hH, hn],
    fun u v => by simp [diEdge_removeOutEdges, hd], fun u v => by simp [biEdge_removeOutEdges, hb]⟩

theorem equiv_congr_removeNodes (G H : MG α) (hG : G.WF) (hH : H.WF) (h : G.equiv H = true)
    (S : List α) : (G.removeNodes S).equiv (H.removeNodes S) = true := by
  rw [equiv_iff] at h ⊢
  obtain ⟨hn, hd, hb⟩ := h
  exact ⟨fun v => by simp [mem_nodes_removeNodes, hG, hH, hn],
    fun u v => by simp [diEdge_removeNodes, hd], fun u v => by simp [biEdge_removeNodes, hb]⟩

private theorem anc_congr (G H : MG α) (hd : ∀ u v, G.DiEdge u v ↔ H.DiEdge u v) (S : List α) (v : α) :
    G.Anc S v ↔ H.Anc S v := by
  have : G.DiEdge = H.DiEdge := by funext u v; exact propext (hd u v)
  simp [Anc, this]

private theorem desc_congr (G H : MG α) (hd : ∀ u v, G.DiEdge u v ↔ H.DiEdge u v) (S : List α) (v : α) :
    G.Desc S v ↔ H.Desc S v := by
  have : G.DiEdge = H.DiEdge := by funext u v; exact propext (hd u v)
  simp [Desc, this]

theorem equiv_congr_ancestors (G H : MG α) (hG : G.WF) (hH : H.WF) (h : G.equiv H = true)
    (S A B : List α) (hA : G.ancestorsInclusive S = .ok A) (hB : H.ancestorsInclusive S = .ok B) (v : α) :
    v ∈ A ↔ v ∈ B := by
  rw [equiv_iff] at h
  rw [ancestorsInclusive_spec G hG S A hA, ancestorsInclusive_spec H hH S B hB]
  exact anc_congr G H h.2.1 S v

theorem equiv_congr_descendants (G H : MG α) (hG : G.WF) (hH : H.WF) (h : G.equiv H = true)
    (S A B : List α) (hA : G.descendantsInclusive S = .ok A) (hB : H.descendantsInclusive S = .ok B)
    (v : α) : v ∈ A ↔ v ∈ B := by
  rw [equiv_iff] at h
  rw [descendantsInclusive_spec G hG S A hA, descendantsInclusive_spec H hH S B hB]
  exact desc_congr G H h.2.1 S v

/-- the partition into districts is the same whatever the insertion order: blocks of equal graphs
that share a member have the same members -/
theorem equiv_congr_districts (G H : MG α) (hG : G.WF) (hH : H.WF) (h : G.equiv H = true)
    (d : List α) (hd : d ∈ G.districts) (e : List α) (he : e ∈ H.districts) (u : α) (hud : u ∈ d)
    (hue : u ∈ e) (v : α) : v ∈ d ↔ v ∈ e := by
  rw [equiv_iff] at h
  rw [districts_spec G hG d hd u hud, districts_spec H hH e he u hue]
  have : G.BiEdge = H.BiEdge := by funext a b; exact propext (h.2.2 a b)
  simp [SameDistrict, this]

/-! ## 12. moralize: same nodes and directed edges; nodes with a common child are married -/

theorem mem_nodes_moralize (G : MG α) (hG : G.WF) (v : α) : v ∈ G.moralize.nodes ↔ v ∈ G.nodes := by
  unfold moralize
  rw [mem_nodes_foldl_addBi]
  constructor
  · rintro (h | ⟨e, he, h⟩)
    · exact h
    · rcases e with ⟨x, y⟩
      obtain ⟨n, _, hx, hy⟩ := mem_moralLinks G x y he
      rcases h with rfl | rfl
      · exact (hG.di_mem _ hx).1
      · exact (hG.di_mem _ hy).1
  · exact Or.inl

theorem diEdge_moralize (G : MG α) (u v : α) : G.moralize.DiEdge u v ↔ G.DiEdge u v := by
  unfold moralize DiEdge; rw [di_foldl_addBi]

/-- the undirected part of the moralised graph: the old bidirected edges plus one edge between every
two distinct nodes that have a common child (and no self-loop is added: see `pairs`). -/
theorem biEdge_moralize (G : MG α) (hG : G.WF) (u v : α) (huv : u ≠ v) :
    G.moralize.BiEdge u v ↔ G.BiEdge u v ∨ ∃ c, G.DiEdge u c ∧ G.DiEdge v c := by
  unfold moralize
  rw [biEdge_foldl_addBi]
  constructor
  · rintro (h | h | h)
    · exact Or.inl h
    · obtain ⟨n, _, hx, hy⟩ := mem_moralLinks G u v h; exact Or.inr ⟨n, hx, hy⟩
    · obtain ⟨n, _, hx, hy⟩ := mem_moralLinks G v u h; exact Or.inr ⟨n, hy, hx⟩
  · rintro (h | ⟨c, hu, hv⟩)
    · exact Or.inl h
    · exact Or.inr (moralLinks_complete G u v c (hG.di_mem _ hu).2 hu hv huv)


/-! ## 13. topological sort: networkx's generation-wise Kahn algorithm returns a linear extension
exactly when the directed part is acyclic, and `NetworkXUnfeasible` otherwise -/

/-- whatever `topological_sort` returns lists every node once with every directed edge going forward -/
theorem topologicalSort_spec (G : MG α) (hG : G.WF) (l : List α) (h : G.topologicalSort = .ok l) :
    G.IsTopoOrder l :=
  topoLoop_ok G hG _ _ _ _ l (topoInv_init G hG) h

/-- on an acyclic graph `topological_sort` returns (the fuel of the model is never exhausted) -/
theorem topologicalSort_total (G : MG α) (hG : G.WF) (hA : G.Acyclic) :
    ∃ l, G.topologicalSort = .ok l :=
  topoLoop_total G hG hA _ _ _ _ (topoInv_init G hG) (by simp)

/-- on a graph with a directed cycle (self-loops included) it raises `NetworkXUnfeasible` -/
theorem topologicalSort_cyclic (G : MG α) (hG : G.WF) (hA : ¬ G.Acyclic) :
    G.topologicalSort = .error (.internal "NetworkXUnfeasible") := by
  cases h : G.topologicalSort with
  | ok l => exact absurd (acyclic_of_isTopoOrder G hG.nodup l (topologicalSort_spec G hG l h)) hA
  | error e => rw [topoLoop_error G _ _ _ _ e h]

/-- `nx.is_directed_acyclic_graph` of the model decides acyclicity -/
theorem isAcyclic_iff (G : MG α) (hG : G.WF) : G.isAcyclic = true ↔ G.Acyclic := by
  unfold isAcyclic
  constructor
  · intro h
    cases hs : G.topologicalSort with
    | ok l => exact acyclic_of_isTopoOrder G hG.nodup l (topologicalSort_spec G hG l hs)
    | error e => rw [hs] at h; cases h
  · intro hA
    obtain ⟨l, hl⟩ := topologicalSort_total G hG hA
    rw [hl]

private theorem acyclic_congr (G H : MG α) (hd : ∀ u v, G.DiEdge u v ↔ H.DiEdge u v) :
    G.Acyclic ↔ H.Acyclic := by
  have : G.DiEdge = H.DiEdge := by funext u v; exact propext (hd u v)
  simp [Acyclic, this]

/-- insertion-order clause for `topological_sort`: the order computed from ANY construction `H` of the same
graph (`H == G`) is a valid linear extension of `G` -/
theorem topologicalSort_any_insertion_order (G H : MG α) (hG : G.WF) (hH : H.WF) (h : G.equiv H = true)
    (l : List α) (hl : H.topologicalSort = .ok l) : G.IsTopoOrder l := by
  rw [equiv_iff] at h
  obtain ⟨hp, ho⟩ := topologicalSort_spec H hH l hl
  refine ⟨hp.trans ?_, fun u v huv => ho u v ((h.2.1 u v).1 huv)⟩
  rw [List.perm_ext_iff_of_nodup hH.nodup hG.nodup]
  exact fun v => (h.1 v).symm

/-- … and whether it succeeds does not depend on the insertion order either -/
theorem equiv_congr_topologicalSort_ok (G H : MG α) (hG : G.WF) (hH : H.WF) (h : G.equiv H = true) :
    (∃ l, G.topologicalSort = .ok l) ↔ (∃ l, H.topologicalSort = .ok l) := by
  rw [equiv_iff] at h
  have hA := acyclic_congr G H h.2.1
  constructor
  · rintro ⟨l, hl⟩
    exact topologicalSort_total H hH
      (hA.1 (acyclic_of_isTopoOrder G hG.nodup l (topologicalSort_spec G hG l hl)))
  · rintro ⟨l, hl⟩
    exact topologicalSort_total G hG
      (hA.2 (acyclic_of_isTopoOrder H hH.nodup l (topologicalSort_spec H hH l hl)))

/-! ## 14. `pre` with the default order: the nodes strictly before the first member of `S` in the
topological order of the graph -/

/-- `pre(S)` and `pre(S, [])` (an empty order is falsy in Python) use `topological_sort()`;
the result is the prefix of that order that stops at the first member of `S` -/
theorem pre_spec (G : MG α) (hG : G.WF) (S P : List α) (o : Option (List α)) (ho : o = none ∨ o = some [])
    (h : G.pre S o = .ok P) :
    ∃ l rest, G.topologicalSort = .ok l ∧ G.IsTopoOrder l ∧ l = P ++ rest ∧ (∀ x ∈ P, x ∉ S) ∧
      (∀ y, rest.head? = some y → y ∈ S) ∧
      (∀ v, v ∈ P ↔ v ∈ G.nodes ∧ ∀ s ∈ S, s ∈ G.nodes → l.idxOf v < l.idxOf s) := by
  have hpre : G.pre S o = (do let o ← G.topologicalSort; pure (preOf o S)) := by
    rcases ho with rfl | rfl <;> rfl
  rw [hpre] at h
  cases hs : G.topologicalSort with
  | error e => rw [hs] at h; cases h
  | ok l =>
    rw [hs] at h
    simp only [bind, Except.bind, pure, Except.pure, Except.ok.injEq] at h
    subst h
    have hl := topologicalSort_spec G hG l hs
    refine ⟨l, l.dropWhile (· ∉ S), rfl, hl, (preOf_prefix l S).symm, preOf_avoids l S,
      fun y hy => preOf_stops l S y hy, fun v => ?_⟩
    rw [mem_preOf_iff]
    have hmem : ∀ x, x ∈ l ↔ x ∈ G.nodes := fun x => hl.1.mem_iff
    simp only [hmem]

/-- `pre` fails only when the graph is cyclic (and no explicit order is given) -/
theorem pre_total (G : MG α) (hG : G.WF) (hA : G.Acyclic) (S : List α) (o : Option (List α)) :
    ∃ P, G.pre S o = .ok P := by
  obtain ⟨l, hl⟩ := topologicalSort_total G hG hA
  rcases o with _ | ⟨_ | ⟨a, os⟩⟩
  · exact ⟨preOf l S, by simp [pre, hl, bind, Except.bind, pure, Except.pure]⟩
  · exact ⟨preOf l S, by simp [pre, hl, bind, Except.bind, pure, Except.pure]⟩
  · exact ⟨_, rfl⟩

/-- the default `pre` is closed under parents (a prefix of a topological order is ancestral) -/
theorem pre_ancestral (G : MG α) (hG : G.WF) (S P : List α) (h : G.pre S none = .ok P) (u v : α)
    (huv : G.DiEdge u v) (hv : v ∈ P) : u ∈ P := by
  obtain ⟨l, rest, _, hl, e, _⟩ := pre_spec G hG S P none (Or.inl rfl) h
  exact prefix_ancestral G hG.nodup l P rest hl e u v huv hv

/-- `pre` with an explicit non-empty order never consults the graph: it is the prefix of that order before
the first member of `S` -/
theorem pre_explicit_spec (G : MG α) (S : List α) (a : α) (os : List α) :
    G.pre S (some (a :: os)) = .ok (preOf (a :: os) S) ∧
    ∀ v, v ∈ preOf (a :: os) S ↔
      v ∈ a :: os ∧ ∀ s ∈ S, s ∈ a :: os → (a :: os).idxOf v < (a :: os).idxOf s :=
  ⟨rfl, fun v => mem_preOf_iff (a :: os) S v⟩

/-! ## 15. `get_nodes_in_directed_paths`: the nodes on simple directed paths from `S` to `T`

`G.OnSimpleDiPath S T v` (Spec/GraphSpec.lean): `v` lies on a simple directed path with at least one edge from a
member of `S` to a member of `T`.  Both implementations — transitive closure for acyclic graphs, enumeration of
simple paths (`nx.all_simple_paths`) for graphs with a directed cycle — return exactly this set (the second one
since `fix:` 2ae6e11, before which it also returned the members of `S ∩ T` as trivial paths).  They still differ
on arguments that are not nodes: the acyclic branch ignores them, the cyclic one raises `NodeNotFound`. -/

/-- acyclic branch: never fails -/
theorem nodesInDirectedPaths_dag_spec (G : MG α) (hG : G.WF) (hA : G.Acyclic) (S T : List α) :
    ∃ R, G.nodesInDirectedPaths S T = .ok R ∧ ∀ v, v ∈ R ↔ G.OnSimpleDiPath S T v := by
  refine ⟨G.nodesInDirectedPathsDag S T, by simp [nodesInDirectedPaths, (isAcyclic_iff G hG).2 hA], fun v => ?_⟩
  rw [mem_nodesInDirectedPathsDag G hG]
  constructor
  · rintro ⟨s, hs, t, ht, p, hp, hl, hv⟩
    exact ⟨s, hs, t, ht, p, hp, hp.nodup_of_acyclic hA, hl, hv⟩
  · rintro ⟨s, hs, t, ht, p, hp, _, hl, hv⟩
    exact ⟨s, hs, t, ht, p, hp, hl, hv⟩

/-- cyclic branch: returns when one argument is empty or all arguments are nodes -/
theorem nodesInDirectedPaths_cyclic_spec (G : MG α) (hG : G.WF) (hA : ¬ G.Acyclic) (S T : List α)
    (h : S = [] ∨ T = [] ∨ ((∀ s ∈ S, s ∈ G.nodes) ∧ ∀ t ∈ T, t ∈ G.nodes)) :
    ∃ R, G.nodesInDirectedPaths S T = .ok R ∧ ∀ v, v ∈ R ↔ G.OnSimpleDiPath S T v := by
  obtain ⟨R, hR, hmem⟩ := nodesInDirectedPathsCyclic_ok G hG S T h
  have hac : G.isAcyclic = false := by
    rw [← Bool.not_eq_true, isAcyclic_iff G hG]; exact hA
  exact ⟨R, by simp [nodesInDirectedPaths, hac, hR], hmem⟩

/-- cyclic branch: the only failure is an argument that is not a node while both sets are non-empty -/
theorem nodesInDirectedPaths_cyclic_error (G : MG α) (hG : G.WF) (hA : ¬ G.Acyclic) (S T : List α)
    (hS : S ≠ []) (hT : T ≠ []) (h : ¬ ((∀ s ∈ S, s ∈ G.nodes) ∧ ∀ t ∈ T, t ∈ G.nodes)) :
    G.nodesInDirectedPaths S T = .error (.internal "NodeNotFound") := by
  have hac : G.isAcyclic = false := by
    rw [← Bool.not_eq_true, isAcyclic_iff G hG]; exact hA
  simp [nodesInDirectedPaths, hac, nodesInDirectedPathsCyclic_error G S T hS hT h]

/-- both branches at once: whatever the function returns is the set of nodes on simple directed paths with at
least one edge from `S` to `T` -/
theorem nodesInDirectedPaths_spec (G : MG α) (hG : G.WF) (S T R : List α)
    (h : G.nodesInDirectedPaths S T = .ok R) (v : α) : v ∈ R ↔ G.OnSimpleDiPath S T v := by
  by_cases hA : G.Acyclic
  · obtain ⟨R', hR', hmem⟩ := nodesInDirectedPaths_dag_spec G hG hA S T
    rw [h] at hR'; cases hR'; exact hmem v
  · by_cases hargs : S = [] ∨ T = [] ∨ ((∀ s ∈ S, s ∈ G.nodes) ∧ ∀ t ∈ T, t ∈ G.nodes)
    · obtain ⟨R', hR', hmem⟩ := nodesInDirectedPaths_cyclic_spec G hG hA S T hargs
      rw [h] at hR'; cases hR'; exact hmem v
    · simp only [not_or] at hargs
      rw [nodesInDirectedPaths_cyclic_error G hG hA S T hargs.1 hargs.2.1 hargs.2.2] at h
      cases h

/-- it returns whenever the arguments are nodes -/
theorem nodesInDirectedPaths_total (G : MG α) (hG : G.WF) (S T : List α)
    (hS : ∀ s ∈ S, s ∈ G.nodes) (hT : ∀ t ∈ T, t ∈ G.nodes) : ∃ R, G.nodesInDirectedPaths S T = .ok R := by
  by_cases hA : G.Acyclic
  · obtain ⟨R, hR, _⟩ := nodesInDirectedPaths_dag_spec G hG hA S T; exact ⟨R, hR⟩
  · obtain ⟨R, hR, _⟩ := nodesInDirectedPaths_cyclic_spec G hG hA S T (Or.inr (Or.inr ⟨hS, hT⟩)); exact ⟨R, hR⟩

omit [DecidableEq α] in
/-- a member of `S ∩ T` is not returned for its own sake: the path must have an edge, and a simple path with an
edge cannot start and end at the same node -/
theorem onSimpleDiPath_self (G : MG α) (s v : α) : ¬ G.OnSimpleDiPath [s] [s] v := by
  rintro ⟨s', hs, t', ht, p, hp, hn, hl, _⟩
  simp only [List.mem_singleton] at hs ht
  subst hs ht
  cases hp with
  | single => simp at hl
  | cons _ hp' => exact (List.nodup_cons.1 hn).1 hp'.last_mem

omit [DecidableEq α] in
/-- the closure form on acyclic graphs: `v` lies between some `s ∈ S` and `t ∈ T` with `t` reachable from `s`
by at least one edge -/
theorem onSimpleDiPath_iff_of_acyclic (G : MG α) (hA : G.Acyclic) (S T : List α) (v : α) :
    G.OnSimpleDiPath S T v ↔ ∃ s ∈ S, ∃ t ∈ T, TransGen G.DiEdge s t ∧
      ReflTransGen G.DiEdge s v ∧ ReflTransGen G.DiEdge v t := by
  constructor
  · rintro ⟨s, hs, t, ht, p, hp, _, hl, hv⟩
    exact ⟨s, hs, t, ht, (onWalk_iff G s t v).1 ⟨p, hp, hl, hv⟩⟩
  · rintro ⟨s, hs, t, ht, h⟩
    obtain ⟨p, hp, hl, hv⟩ := (onWalk_iff G s t v).2 h
    exact ⟨s, hs, t, ht, p, hp, hp.nodup_of_acyclic hA, hl, hv⟩

/-! ## 16. insertion-order independence of the remaining operations -/

theorem equiv_congr_markovPillow (G H : MG α) (h : G.equiv H = true) (S P Q : List α)
    (hP : G.markovPillow S = .ok P) (hQ : H.markovPillow S = .ok Q) (v : α) : v ∈ P ↔ v ∈ Q := by
  rw [equiv_iff] at h
  rw [markovPillow_spec G S P hP, markovPillow_spec H S Q hQ]
  simp only [h.2.1]

theorem equiv_congr_markovBlanket (G H : MG α) (h : G.equiv H = true) (S P Q : List α)
    (hP : G.markovBlanket S = .ok P) (hQ : H.markovBlanket S = .ok Q) (v : α) : v ∈ P ↔ v ∈ Q := by
  rw [equiv_iff] at h
  rw [markovBlanket_spec G S P hP, markovBlanket_spec H S Q hQ]
  simp only [h.2.1]

/-- the undirected part of the moralised graph, self-loops included: `moralize` never marries a node to itself -/
theorem biEdge_moralize_iff (G : MG α) (hG : G.WF) (u v : α) :
    G.moralize.BiEdge u v ↔ G.BiEdge u v ∨ (u ≠ v ∧ ∃ c, G.DiEdge u c ∧ G.DiEdge v c) := by
  by_cases huv : u = v
  · subst huv
    unfold moralize
    rw [biEdge_foldl_addBi]
    constructor
    · rintro (h | h | h)
      · exact Or.inl h
      · exact absurd rfl (moralLinks_ne G hG.di_nodup u u h)
      · exact absurd rfl (moralLinks_ne G hG.di_nodup u u h)
    · rintro (h | ⟨h, _⟩)
      · exact Or.inl h
      · exact absurd rfl h
  · rw [biEdge_moralize G hG u v huv]; simp [huv]

theorem equiv_congr_moralize (G H : MG α) (hG : G.WF) (hH : H.WF) (h : G.equiv H = true) :
    G.moralize.equiv H.moralize = true := by
  rw [equiv_iff] at h ⊢
  obtain ⟨hn, hd, hb⟩ := h
  exact ⟨fun v => by simp [mem_nodes_moralize, hG, hH, hn], fun u v => by simp [diEdge_moralize, hd],
    fun u v => by simp only [biEdge_moralize_iff, hG, hH, hd, hb]⟩

theorem equiv_congr_disorient (G H : MG α) (hG : G.WF) (hH : H.WF) (h : G.equiv H = true) :
    G.disorient.equiv H.disorient = true := by
  rw [equiv_iff] at h ⊢
  obtain ⟨hn, hd, hb⟩ := h
  exact ⟨fun v => by simp [mem_nodes_disorient, hG, hH, hn],
    fun u v => by simp [no_diEdge_disorient], fun u v => by simp only [edge_disorient, hd, hb]⟩

section intervene_congr
variable {β : Type} [DecidableEq β]

/-- edges of the intervened graph between arbitrary labels (no injectivity needed) -/
theorem diEdge_interveneRaw_iff (G : MG α) (f : α → β) (X : List α) (a b : β) :
    (G.interveneRaw f X).DiEdge a b ↔ ∃ u v, G.DiEdge u v ∧ v ∉ X ∧ a = f u ∧ b = f v := by
  unfold interveneRaw; rw [diEdge_fromEdges]
  simp only [DiEdge, List.mem_map, List.mem_filter, decide_eq_true_eq, Prod.mk.injEq]
  constructor
  · rintro ⟨⟨u, v⟩, ⟨he, hx⟩, rfl, rfl⟩; exact ⟨u, v, he, hx, rfl, rfl⟩
  · rintro ⟨u, v, he, hx, rfl, rfl⟩; exact ⟨(u, v), ⟨he, hx⟩, rfl, rfl⟩

theorem biEdge_interveneRaw_iff (G : MG α) (f : α → β) (X : List α) (a b : β) :
    (G.interveneRaw f X).BiEdge a b ↔ ∃ u v, G.BiEdge u v ∧ u ∉ X ∧ v ∉ X ∧ a = f u ∧ b = f v := by
  unfold interveneRaw; rw [biEdge_fromEdges]
  simp only [BiEdge, List.mem_map, List.mem_filter, decide_eq_true_eq, Prod.mk.injEq]
  constructor
  · rintro (⟨⟨u, v⟩, ⟨he, hx⟩, rfl, rfl⟩ | ⟨⟨u, v⟩, ⟨he, hx⟩, rfl, rfl⟩)
    · exact ⟨u, v, Or.inl he, hx.1, hx.2, rfl, rfl⟩
    · exact ⟨v, u, Or.inr he, hx.2, hx.1, rfl, rfl⟩
  · rintro ⟨u, v, he | he, hu, hv, rfl, rfl⟩
    · exact Or.inl ⟨(u, v), ⟨he, hu, hv⟩, rfl, rfl⟩
    · exact Or.inr ⟨(v, u), ⟨he, hv, hu⟩, rfl, rfl⟩

theorem equiv_congr_interveneRaw (G H : MG α) (hG : G.WF) (hH : H.WF) (h : G.equiv H = true)
    (f : α → β) (X : List α) : (G.interveneRaw f X).equiv (H.interveneRaw f X) = true := by
  rw [equiv_iff] at h ⊢
  obtain ⟨hn, hd, hb⟩ := h
  exact ⟨fun v => by simp only [mem_nodes_intervene, hG, hH, hn],
    fun u v => by simp only [diEdge_interveneRaw_iff, hd], fun u v => by simp only [biEdge_interveneRaw_iff, hb]⟩

/-- `intervene` succeeds or refuses independently of the insertion order, and the results are equal graphs -/
theorem equiv_congr_intervene (G H : MG α) (hG : G.WF) (hH : H.WF) (h : G.equiv H = true)
    (f : α → β) (X : List α) :
    (∀ e, G.intervene f X = .error e ↔ H.intervene f X = .error e) ∧
    ∀ G' H', G.intervene f X = .ok G' → H.intervene f X = .ok H' → G'.equiv H' = true := by
  have hraw := equiv_congr_interveneRaw G H hG hH h f X
  rw [equiv_iff] at h
  have hemp : G.nodes.isEmpty = H.nodes.isEmpty := by
    cases hg : G.nodes with
    | nil =>
      cases hh : H.nodes with
      | nil => rfl
      | cons b _ => exact absurd ((h.1 b).2 (by simp [hh])) (by simp [hg])
    | cons a _ =>
      cases hh : H.nodes with
      | nil => exact absurd ((h.1 a).1 (by simp [hg])) (by simp [hh])
      | cons b _ => rfl
  unfold intervene
  rw [hemp]
  by_cases hc : (X.isEmpty && !H.nodes.isEmpty) = true
  · simp [hc]
  · simp only [hc, Bool.false_eq_true, if_false, Except.ok.injEq]
    refine ⟨fun e => by simp, ?_⟩
    rintro G' H' rfl rfl
    exact hraw

end intervene_congr

private theorem diPath_congr (G H : MG α) (hd : ∀ u v, G.DiEdge u v ↔ H.DiEdge u v) (S T : List α)
    (v : α) : G.OnSimpleDiPath S T v ↔ H.OnSimpleDiPath S T v := by
  have key : ∀ (G H : MG α), (∀ u v, G.DiEdge u v → H.DiEdge u v) →
      ∀ a p b, G.DiPath a p b → H.DiPath a p b := by
    intro G H hd a p b hp
    induction hp with
    | single a => exact .single a
    | cons hab _ ih => exact .cons (hd _ _ hab) ih
  constructor
  · rintro ⟨s, hs, t, ht, p, hp, h⟩
    exact ⟨s, hs, t, ht, p, key G H (fun u v => (hd u v).1) _ _ _ hp, h⟩
  · rintro ⟨s, hs, t, ht, p, hp, h⟩
    exact ⟨s, hs, t, ht, p, key H G (fun u v => (hd u v).2) _ _ _ hp, h⟩

theorem equiv_congr_nodesInDirectedPaths (G H : MG α) (hG : G.WF) (hH : H.WF) (h : G.equiv H = true)
    (S T R R' : List α) (hR : G.nodesInDirectedPaths S T = .ok R) (hR' : H.nodesInDirectedPaths S T = .ok R')
    (v : α) : v ∈ R ↔ v ∈ R' := by
  rw [equiv_iff] at h
  rw [nodesInDirectedPaths_spec G hG S T R hR v, nodesInDirectedPaths_spec H hH S T R' hR' v]
  exact diPath_congr G H h.2.1 S T v

/-! ## 17. totality: the set-valued queries return exactly when their arguments are nodes -/

theorem markovPillow_ok_iff (G : MG α) (S : List α) :
    (∃ P, G.markovPillow S = .ok P) ↔ ∀ s ∈ S, s ∈ G.nodes := by
  unfold markovPillow checkSources
  by_cases h : ∀ s ∈ S, s ∈ G.nodes
  · have : S.all (· ∈ G.nodes) = true := by simpa using h
    simpa [this, bind, Except.bind, pure, Except.pure] using h
  · have : ¬ (S.all (· ∈ G.nodes) = true) := by simpa using h
    simp [this, h, bind, Except.bind]

theorem markovBlanket_ok_iff (G : MG α) (S : List α) :
    (∃ P, G.markovBlanket S = .ok P) ↔ ∀ s ∈ S, s ∈ G.nodes := by
  unfold markovBlanket checkSources
  by_cases h : ∀ s ∈ S, s ∈ G.nodes
  · have : S.all (· ∈ G.nodes) = true := by simpa using h
    simpa [this, bind, Except.bind, pure, Except.pure] using h
  · have : ¬ (S.all (· ∈ G.nodes) = true) := by simpa using h
    simp [this, h, bind, Except.bind]

/-- `get_district(v)` returns exactly when `v` is a node (otherwise `KeyError`), and what it returns is the
class of `v` under bidirected connectivity -/
theorem getDistrict_ok_iff (G : MG α) (hG : G.WF) (v : α) :
    (∃ d, G.getDistrict v = .ok d) ↔ v ∈ G.nodes := by
  unfold getDistrict
  constructor
  · rintro ⟨d, hd⟩
    cases hf : G.districts.find? (fun d => decide (v ∈ d)) with
    | none => rw [hf] at hd; cases hd
    | some d' =>
      have h1 := List.mem_of_find?_eq_some hf
      have h2 := List.find?_some hf
      exact (districts_cover G hG v).2 ⟨d', h1, by simpa using h2⟩
  · intro hv
    obtain ⟨d, hd, hvd⟩ := (districts_cover G hG v).1 hv
    cases hf : G.districts.find? (fun d => decide (v ∈ d)) with
    | none =>
      have := List.find?_eq_none.1 hf d hd
      simp [hvd] at this
    | some d' => exact ⟨d', rfl⟩

theorem getDistrict_spec (G : MG α) (hG : G.WF) (v : α) (d : List α) (h : G.getDistrict v = .ok d) (u : α) :
    u ∈ d ↔ G.SameDistrict v u := by
  unfold getDistrict at h
  cases hf : G.districts.find? (fun d => decide (v ∈ d)) with
  | none => rw [hf] at h; cases h
  | some d' =>
    rw [hf] at h
    cases h
    have h1 := List.mem_of_find?_eq_some hf
    have h2 := List.find?_some hf
    exact districts_spec G hG d h1 v (by simpa using h2) u

theorem getDistrict_error (G : MG α) (hG : G.WF) (v : α) (hv : v ∉ G.nodes) :
    G.getDistrict v = .error (.internal "KeyError") := by
  cases h : G.getDistrict v with
  | ok d => exact absurd ((getDistrict_ok_iff G hG v).1 ⟨d, h⟩) hv
  | error e =>
    unfold getDistrict at h
    split at h
    · cases h
    · cases h; rfl

/-! ## 18. the equality the results are compared with is an equivalence relation; results stay well formed -/

theorem equiv_refl (G : MG α) : G.equiv G = true := by
  rw [equiv_iff]; exact ⟨fun _ => Iff.rfl, fun _ _ => Iff.rfl, fun _ _ => Iff.rfl⟩

theorem equiv_symm (G H : MG α) (h : G.equiv H = true) : H.equiv G = true := by
  rw [equiv_iff] at h ⊢
  exact ⟨fun v => (h.1 v).symm, fun u v => (h.2.1 u v).symm, fun u v => (h.2.2 u v).symm⟩

theorem equiv_trans (G H K : MG α) (h₁ : G.equiv H = true) (h₂ : H.equiv K = true) : G.equiv K = true := by
  rw [equiv_iff] at h₁ h₂ ⊢
  exact ⟨fun v => (h₁.1 v).trans (h₂.1 v), fun u v => (h₁.2.1 u v).trans (h₂.2.1 u v),
    fun u v => (h₁.2.2 u v).trans (h₂.2.2 u v)⟩

/-- every well-formed graph is (equal to) one that `from_edges` builds, so quantifying over `WF` graphs is
quantifying over everything the Python constructor can produce, in every insertion order -/
theorem equiv_fromEdges_self (G : MG α) (hG : G.WF) : (fromEdges G.nodes G.di G.bi).equiv G = true := by
  rw [equiv_iff]
  refine ⟨fun v => ?_, fun u v => diEdge_fromEdges _ _ _ u v, fun u v => biEdge_fromEdges _ _ _ u v⟩
  rw [mem_nodes_fromEdges]
  constructor
  · rintro (h | ⟨e, he, rfl | rfl⟩ | ⟨e, he, rfl | rfl⟩)
    · exact h
    · exact (hG.di_mem e he).1
    · exact (hG.di_mem e he).2
    · exact (hG.bi_mem e he).1
    · exact (hG.bi_mem e he).2
  · exact Or.inl

theorem wf_removeInEdges (G : MG α) (S : List α) : (G.removeInEdges S).WF := wf_fromEdges _ _ _
theorem wf_removeOutEdges (G : MG α) (S : List α) : (G.removeOutEdges S).WF := wf_fromEdges _ _ _
theorem wf_removeNodes (G : MG α) (S : List α) : (G.removeNodes S).WF := wf_fromEdges _ _ _
theorem wf_disorient (G : MG α) : G.disorient.WF := wf_fromEdges _ _ _
theorem wf_interveneRaw {β : Type} [DecidableEq β] (G : MG α) (f : α → β) (X : List α) :
    (G.interveneRaw f X).WF := wf_fromEdges _ _ _

theorem wf_moralize (G : MG α) (hG : G.WF) : G.moralize.WF := by
  refine ⟨?_, ?_, ?_, ?_⟩
  · exact nodup_foldl_addBi _ _ hG.nodup
  · unfold moralize; rw [di_foldl_addBi]; exact hG.di_nodup
  · intro e he
    have he' : e ∈ G.di := by unfold moralize at he; rwa [di_foldl_addBi] at he
    exact ⟨(mem_nodes_moralize G hG _).2 (hG.di_mem e he').1, (mem_nodes_moralize G hG _).2 (hG.di_mem e he').2⟩
  · intro e he
    rcases mem_bi_foldl_addBi_sub _ _ _ he with h | h
    · exact ⟨(mem_nodes_moralize G hG _).2 (hG.bi_mem e h).1, (mem_nodes_moralize G hG _).2 (hG.bi_mem e h).2⟩
    · rcases e with ⟨x, y⟩
      obtain ⟨n, _, hx, hy⟩ := mem_moralLinks G x y h
      exact ⟨(mem_nodes_moralize G hG _).2 (hG.di_mem _ hx).1, (mem_nodes_moralize G hG _).2 (hG.di_mem _ hy).1⟩

theorem equiv_congr_getDistrict (G H : MG α) (hG : G.WF) (hH : H.WF) (h : G.equiv H = true) (v : α)
    (d e : List α) (hd : G.getDistrict v = .ok d) (he : H.getDistrict v = .ok e) (u : α) : u ∈ d ↔ u ∈ e := by
  rw [equiv_iff] at h
  rw [getDistrict_spec G hG v d hd, getDistrict_spec H hH v e he]
  have : G.BiEdge = H.BiEdge := by funext a b; exact propext (h.2.2 a b)
  simp [SameDistrict, this]

/-! ## non-vacuity: a 5-node graph with an isolated node (4) and a node touched only by a
bidirected edge (3) satisfies `WF`, and the operations return what the theorems say -/

def exampleGraph : MG Nat := fromEdges [4] [(0, 1), (1, 2)] [(2, 3), (0, 2)]

example : exampleGraph.WF := wf_fromEdges _ _ _
example : (exampleGraph.removeInEdges [2]).nodes = [4, 0, 1, 2, 3] := by decide
example : (exampleGraph.removeInEdges [2]).di = [(0, 1)] ∧ (exampleGraph.removeInEdges [2]).bi = [] := by decide
example : exampleGraph.ancestorsInclusive [2] = .ok [2, 1, 0] := by decide
example : exampleGraph.districts = [[4], [0, 2, 3], [1]] := by decide
example : exampleGraph.markovBlanket [1] = .ok [0, 2] := by decide
example : (fromEdges ([] : List Nat) [(0, 2), (1, 2)] []).moralize.bi = [(0, 1)] := by decide

/-- a graph with the directed cycle 1 → 2 → 1 -/
def cyclicExample : MG Nat := fromEdges [] [(0, 1), (1, 2), (2, 1), (2, 3)] []

example : exampleGraph.topologicalSort = .ok [4, 0, 3, 1, 2] := by decide
example : exampleGraph.Acyclic := (isAcyclic_iff _ (wf_fromEdges _ _ _)).1 (by decide)
example : ¬ cyclicExample.Acyclic := fun h =>
  absurd ((isAcyclic_iff _ (wf_fromEdges _ _ _)).2 h) (by decide)
example : cyclicExample.topologicalSort = .error (.internal "NetworkXUnfeasible") := by decide
example : exampleGraph.pre [1] none = .ok [4, 0, 3] := by decide
/-- acyclic branch: `2 ∈ S ∩ T` is returned only because it ends the path 0 → 1 → 2 -/
example : exampleGraph.nodesInDirectedPaths [0, 2] [2] = .ok [1, 0, 2] := by decide
example : exampleGraph.nodesInDirectedPaths [2] [2] = .ok [] := by decide
/-- cyclic branch (after the fix): `3 ∈ S ∩ T` alone is not returned either -/
example : cyclicExample.nodesInDirectedPaths [3] [3] = .ok [] := by decide
example : cyclicExample.nodesInDirectedPaths [0, 3] [3] = .ok [0, 1, 2, 3] := by decide
example : cyclicExample.nodesInDirectedPaths [0] [7] = .error (.internal "NodeNotFound") := by decide
example : exampleGraph.getDistrict 3 = .ok [0, 2, 3] := by decide
example : exampleGraph.getDistrict 7 = .error (.internal "KeyError") := by decide

end Y0.MG
