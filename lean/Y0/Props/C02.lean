/-
  Property C02 — ID verdicts are total, complete w.r.t. hedges, side-effect free.
  Theorems about the executable model `Y0.idAlg` / `Y0.identify` / `Y0.identifyOutcomes` (Y0/Model/Id.lean).

  * termination: `idAlg` is defined by well-founded recursion on `(|V|, |V ∖ X|)`; `step_decreases` shows every
    recursive call made on a valid input is on a valid input with a strictly smaller measure, and
    `idAlg_measure_ok` that the run-time guard of the definition therefore never fires;
  * totality: `id_total` — on a valid query (well-formed acyclic graph, non-empty `Y ⊆ V`, `X ∩ Y = ∅`) the only
    outcomes are an estimand or `unidentifiable`: no `internal` / `invalidInput` outcome (this uses the
    node-preservation facts of C14, i.e. the F1 fix);
  * the public wrapper maps `unidentifiable` to `none` and nothing else.

  Assumption about networkx (`TopoGood topo`): on a well-formed acyclic graph `topological_sort` returns a list of
  exactly the nodes.

  * refusal ⇒ hedge: `id_fail_hedge` — if ID refuses a valid query `P(Y | do(X))` on `G` then `G` contains a hedge for
    `P_x(y)` (Y0/Spec/Hedge.lean; Shpitser–Pearl 2006, Thm 5): the refusal is raised by line 5 on a sub-problem reached
    by the recursion, that sub-problem has the hedge `F = V'`, `F' = V' ∖ X'` (`line5_hedge`), and every line of the
    recursion transports hedges back to its caller with the same vertex sets (`step_hedge`, `reach_hedge`).

  * hedge ⇒ refusal: `id_hedge_fail` — proved on the graph, with no appeal to probability: a hedge survives every line
    of the recursion (it is a hedge of the sub-problem of lines 2, 3, 7 and of one of the sub-problems of line 4) and
    excludes lines 1 and 6 (`step_hedge_down`), so ID cannot return an estimand and, being total, refuses.
  * `id_fail_iff_hedge`: **ID refuses exactly when a hedge exists**; `id_ok_iff_no_hedge`: it returns an estimand exactly
    when none exists.

  Mechanised in Y0/Props/C02Complete.lean (Shpitser–Pearl 2006 Thm 4, `hedge_not_identifiable`): "a hedge exists ⇒ the effect is not identifiable from P(v)"
  (two models agreeing on P(v) and differing on P_x(y)).  The other half of "refuses exactly when not identifiable" IS a
  theorem: an estimand is returned only when the effect is identifiable, with that estimand (`id_sound`, C01).
  -- R: "leaves the caller's graph and query objects unchanged" is a Python-runtime clause (the model is pure).
-/
import Y0.Lemmas.IdTotal
import Y0.Lemmas.IdTopoAnc
import Y0.Lemmas.IdHedge
import Y0.Lemmas.IdHedgeTransport
import Y0.Lemmas.IdHedgeDown
import Y0.Lemmas.IdFuel

namespace Y0
open IdDsl IdAux

/-- the two admissible outcomes of ID -/
def IdOutcomeOk (r : Except Err Expr) : Prop := (∃ e, r = .ok e) ∨ r = .error .unidentifiable

/-- **termination argument.** On a valid input every recursive call of one pass of `identify` is made on a valid
input whose measure `(|V|, |V ∖ X|)` is strictly smaller (lexicographically). -/
theorem step_decreases {topo : MG Name → Except Err (List Name)} {I : IdIn} (hv : Valid I)
    {s : Step} (h : step topo I = .ok s) :
    match s with
    | .done _ => True
    | .tail J => Valid J ∧ measureLt J.measure I.measure = true
    | .split Js _ => ∀ J ∈ Js, Valid J ∧ measureLt J.measure I.measure = true := by
  have := step_good hv h
  cases s <;> exact this

/-- **totality of the recursion.** On a valid input `idAlg` returns an estimand or refuses; it never fails
internally (in particular the measure guard of the well-founded definition never fires). -/
theorem idAlg_total {topo : MG Name → Except Err (List Name)} (ht : TopoGood topo) :
    ∀ I, Valid I → IdOutcomeOk (idAlg topo I) := by
  intro I
  induction I using measure_wf.induction with
  | _ I ih =>
    intro hv
    rw [idAlg_eq]
    cases hs : step topo I with
    | error e =>
      rw [step_error hv ht hs]
      exact Or.inr rfl
    | ok s =>
      have hg := step_good hv hs
      cases s with
      | done e => exact Or.inl ⟨e, rfl⟩
      | tail J =>
        simp only [hg.2, if_true]
        exact ih J hg.2 hg.1
      | split Js ranges =>
        have hall : Js.all (fun J => measureLt J.measure I.measure) = true :=
          List.all_eq_true.mpr (fun J hJ => (hg J hJ).2)
        simp only [hall, if_true]
        cases hm : Js.mapM (idAlg topo) with
        | ok es => exact Or.inl ⟨_, rfl⟩
        | error e =>
          obtain ⟨J, hJ, hJe⟩ := mapM_error _ _ _ hm
          rcases ih J (hg J hJ).2 (hg J hJ).1 with ⟨e', he'⟩ | he'
          · rw [he'] at hJe; cases hJe
          · rw [he'] at hJe
            cases hJe
            exact Or.inr rfl

/-- the run-time guard of the well-founded definition never fires on a valid input -/
theorem idAlg_measure_ok {topo : MG Name → Except Err (List Name)} (ht : TopoGood topo) (I : IdIn) (hv : Valid I) :
    idAlg topo I ≠ .error (.internal "measure") := by
  rcases idAlg_total ht I hv with ⟨e, he⟩ | he <;> rw [he] <;> simp

/-- **C02, totality.** For every valid query ID terminates with exactly one of two outcomes: an estimand or the
`unidentifiable` refusal. -/
theorem id_total {topo : MG Name → Except Err (List Name)} (ht : TopoGood topo) (G : MG Name) (X Y : List Name)
    (hq : ValidQuery G X Y) : IdOutcomeOk (identify topo G X Y) := by
  unfold identify
  have hne : G.nodes ≠ [] := by
    obtain ⟨y, hy⟩ := List.exists_mem_of_ne_nil _ hq.yne
    exact List.ne_nil_of_mem (hq.ysub y hy)
  have hj : ∃ c, pJoint G.nodes = .ok (.prob none c []) := by
    unfold pJoint
    cases hs : sortNames G.nodes with
    | nil => exact absurd hs (sortNames_ne_nil hne)
    | cons a l => exact ⟨_, rfl⟩
  obtain ⟨c, hc⟩ := hj
  rw [hc]
  exact idAlg_total ht _ ⟨hq.wf, hq.ranked, hq.ysub, hq.yne, hq.disj, trivial⟩

/-- the public wrapper: an estimand or `None`, never an exception, on a valid query -/
theorem identifyOutcomes_total {topo : MG Name → Except Err (List Name)} (ht : TopoGood topo) (G : MG Name)
    (X Y : List Name) (hq : ValidQuery G X Y) : ∃ r, identifyOutcomes topo G X Y = .ok r := by
  unfold identifyOutcomes
  rcases id_total ht G X Y hq with ⟨e, he⟩ | he <;> rw [he] <;> exact ⟨_, rfl⟩

/-- the public wrapper turns the refusal into `none`: it never raises `Unidentifiable` itself -/
theorem identifyOutcomes_not_unidentifiable (topo : MG Name → Except Err (List Name)) (G : MG Name) (X Y : List Name) :
    identifyOutcomes topo G X Y ≠ .error .unidentifiable := by
  unfold identifyOutcomes
  cases h : identify topo G X Y with
  | ok e => simp
  | error e =>
    cases e <;> simp

/-- a refusal can only come from line 5: one pass on a valid input fails only with `unidentifiable`, and only when
lines 1-3 did not fire, the current graph is a single district, so is `G ∖ X`, and `X ≠ ∅` -/
theorem step_refusal_line5 {topo : MG Name → Except Err (List Name)} (ht : TopoGood topo) {I : IdIn} (hv : Valid I)
    {e : Err} (h : step topo I = .error e) :
    e = .unidentifiable ∧ I.X ≠ [] ∧ I.G.districts.length = 1 ∧ (I.G.removeNodes I.X).districts.length = 1 ∧
      ∃ anc anc', Pre I anc anc' :=
  step_error' hv ht h

/-- the refusing sub-problem: if ID refuses a valid query, then the recursion reached a sub-problem `(G', X', Y')`
(`Reach`: through lines 2, 3, 4, 7) on which line 5 fired, and in that sub-problem `V'` and `V' ∖ X'` form a hedge for
`P_{x'}(y')` (Y0/Spec/Hedge.lean) -/
theorem id_fail_hedge_sub {topo : MG Name → Except Err (List Name)} (ht : TopoGood topo) (G : MG Name)
    (X Y : List Name) (hq : ValidQuery G X Y) (hX : ∀ x ∈ X, x ∈ G.nodes)
    (h : identify topo G X Y = .error .unidentifiable) :
    ∃ (est : Expr) (J : IdIn), Valid { G := G, X := X, Y := Y, est := est } ∧
      Reach topo { G := G, X := X, Y := Y, est := est } J ∧
      J.G.Hedge J.X J.Y (fun v => v ∈ J.G.nodes) (fun v => v ∈ J.G.nodes ∧ v ∉ J.X) := by
  unfold identify at h
  cases hj : pJoint G.nodes with
  | error e =>
    exfalso
    have hne : G.nodes ≠ [] := by
      obtain ⟨y, hy⟩ := List.exists_mem_of_ne_nil _ hq.yne
      exact List.ne_nil_of_mem (hq.ysub y hy)
    unfold pJoint at hj
    split at hj
    · rename_i hs; exact sortNames_ne_nil hne hs
    · cases hj
  | ok est =>
    rw [hj] at h
    have hplain : EstPlain est := by
      unfold pJoint at hj
      split at hj
      · cases hj
      · cases hj; trivial
    have hv : Valid { G := G, X := X, Y := Y, est := est } := ⟨hq.wf, hq.ranked, hq.ysub, hq.yne, hq.disj, hplain⟩
    obtain ⟨J, hreach, hvJ, hxJ, hstep⟩ := idAlg_refusal ht _ hv hX h
    exact ⟨est, J, hv, hreach, line5_hedge hvJ hxJ ht hstep⟩

/-- **C02, refusal ⇒ hedge.** If ID refuses a valid query `P(Y | do(X))` (treatments inside the graph), the graph
contains a hedge for `P_x(y)`: vertex sets `F' ⊆ F`, both connected by bidirected edges, `F` meeting `X`, `F'` avoiding
it, with a common root set inside `An(Y)` of `G` with the edges into `X` removed (Shpitser–Pearl 2006, Theorem 5).  The
hedge is the one line 5 saw — all nodes of the refusing sub-problem, and those outside its treatments. -/
theorem id_fail_hedge {topo : MG Name → Except Err (List Name)} (ht : TopoGood topo) (G : MG Name)
    (X Y : List Name) (hq : ValidQuery G X Y) (hX : ∀ x ∈ X, x ∈ G.nodes)
    (h : identify topo G X Y = .error .unidentifiable) : ∃ F F', G.Hedge X Y F F' := by
  obtain ⟨est, J, hv, hreach, hh⟩ := id_fail_hedge_sub ht G X Y hq hX h
  exact ⟨_, _, reach_hedge hreach hv hh⟩

/-- **C02, hedge ⇒ refusal.** If the graph contains a hedge for `P_x(y)`, ID refuses the (valid) query. -/
theorem id_hedge_fail {topo : MG Name → Except Err (List Name)} (ht : TopoGood topo) (G : MG Name)
    (X Y : List Name) (hq : ValidQuery G X Y) {F F' : Name → Prop} (hh : G.Hedge X Y F F') :
    identify topo G X Y = .error .unidentifiable := by
  unfold identify
  cases hj : pJoint G.nodes with
  | error e =>
    exfalso
    have hne : G.nodes ≠ [] := by
      obtain ⟨y, hy⟩ := List.exists_mem_of_ne_nil _ hq.yne
      exact List.ne_nil_of_mem (hq.ysub y hy)
    unfold pJoint at hj
    split at hj
    · rename_i hs; exact sortNames_ne_nil hne hs
    · cases hj
  | ok est =>
    have hplain : EstPlain est := by
      unfold pJoint at hj
      split at hj
      · cases hj
      · cases hj; trivial
    simp only [bind, Except.bind]
    exact idAlg_hedge_refuses ht { G := G, X := X, Y := Y, est := est }
      ⟨hq.wf, hq.ranked, hq.ysub, hq.yne, hq.disj, hplain⟩ hh

/-- **C02: ID refuses exactly when a hedge exists.** -/
theorem id_fail_iff_hedge {topo : MG Name → Except Err (List Name)} (ht : TopoGood topo) (G : MG Name)
    (X Y : List Name) (hq : ValidQuery G X Y) (hX : ∀ x ∈ X, x ∈ G.nodes) :
    identify topo G X Y = .error .unidentifiable ↔ ∃ F F', G.Hedge X Y F F' :=
  ⟨id_fail_hedge ht G X Y hq hX, fun ⟨_, _, hh⟩ => id_hedge_fail ht G X Y hq hh⟩

/-- … and returns an estimand exactly when there is none -/
theorem id_ok_iff_no_hedge {topo : MG Name → Except Err (List Name)} (ht : TopoGood topo) (G : MG Name)
    (X Y : List Name) (hq : ValidQuery G X Y) (hX : ∀ x ∈ X, x ∈ G.nodes) :
    (∃ e, identify topo G X Y = .ok e) ↔ ¬ ∃ F F', G.Hedge X Y F F' := by
  rw [← id_fail_iff_hedge ht G X Y hq hX]
  constructor
  · rintro ⟨e, he⟩ h
    rw [he] at h
    cases h
  · intro h
    rcases id_total ht G X Y hq with he | he
    · exact he
    · exact absurd he h

/-- through the public wrapper: `identify_outcomes` returns `None` only when a hedge exists -/
theorem identifyOutcomes_none_hedge {topo : MG Name → Except Err (List Name)} (ht : TopoGood topo) (G : MG Name)
    (X Y : List Name) (hq : ValidQuery G X Y) (hX : ∀ x ∈ X, x ∈ G.nodes)
    (h : identifyOutcomes topo G X Y = .ok none) : ∃ F F', G.Hedge X Y F F' := by
  unfold identifyOutcomes at h
  cases hi : identify topo G X Y with
  | ok e => rw [hi] at h; cases h
  | error e =>
    rw [hi] at h
    cases e with
    | unidentifiable => exact id_fail_hedge ht G X Y hq hX hi
    | invalidInput k => cases h
    | internal k => cases h

/-- closed form: executable sorter, relational acyclicity -/
theorem id_fail_hedge_acyclic (G : MG Name) (X Y : List Name) (hG : G.WF) (hac : G.Acyclic)
    (hY : ∀ y ∈ Y, y ∈ G.nodes) (hne : Y ≠ []) (hdisj : ∀ y ∈ Y, y ∉ X) (hX : ∀ x ∈ X, x ∈ G.nodes)
    (h : identify ancTopo G X Y = .error .unidentifiable) : ∃ F F', G.Hedge X Y F F' :=
  id_fail_hedge ancTopo_good G X Y ⟨hG, MG.acyclic_ranked hG hac, hY, hne, hdisj⟩ hX h

/-- **C02, totality, closed form.** With an executable topological sorter that provably meets the assumption
(`ancTopo`: sort by number of ancestors, `ancTopo_good`), for every well-formed graph without directed cycles
(`MG.Acyclic`, the relational definition) and every valid query, ID returns an estimand or refuses. -/
theorem id_total_acyclic (G : MG Name) (X Y : List Name) (hG : G.WF) (hac : G.Acyclic)
    (hY : ∀ y ∈ Y, y ∈ G.nodes) (hne : Y ≠ []) (hdisj : ∀ y ∈ Y, y ∉ X) :
    IdOutcomeOk (identify ancTopo G X Y) :=
  id_total ancTopo_good G X Y ⟨hG, MG.acyclic_ranked hG hac, hY, hne, hdisj⟩

/-! ### non-vacuity -/

/-- the napkin query is a valid query (rank = the node number) -/
example : ValidQuery (MG.fromEdges [0, 1, 2, 3] [(0, 1), (1, 2), (2, 3)] [(0, 2), (0, 3)]) [2] [3] :=
  ⟨MG.wf_fromEdges _ _ _, ⟨fun v => v, by decide⟩, by decide, by decide, by decide⟩

/-- the bow arc `X → Y`, `X ↔ Y` is refused (line 5): the refusal outcome is reachable, so `id_total` is not
about estimands only -/
example : idAlg MG.topologicalSort
    { G := MG.fromEdges [0, 1] [(0, 1)] [(0, 1)], X := [0], Y := [1],
      est := .prob none [Var.plain 0, Var.plain 1] [] } = .error .unidentifiable := by
  rw [idAlg_eq]
  have : step MG.topologicalSort
      { G := MG.fromEdges [0, 1] [(0, 1)] [(0, 1)], X := [0], Y := [1],
        est := .prob none [Var.plain 0, Var.plain 1] [] } = .error .unidentifiable := by
    unfold step; rfl
  rw [this]

/-- the bow arc query is refused by `identify` itself, so `id_fail_hedge` applies to it … -/
example : identify checkedTopo (MG.fromEdges [0, 1] [(0, 1)] [(0, 1)]) [0] [1] = .error .unidentifiable := by
  unfold identify
  have hj : pJoint (MG.fromEdges [0, 1] [(0, 1)] [(0, 1)]).nodes = .ok (.prob none [Var.plain 0, Var.plain 1] []) := by
    rfl
  rw [hj]
  simp only [bind, Except.bind]
  rw [idAlg_eq]
  have : step checkedTopo
      { G := MG.fromEdges [0, 1] [(0, 1)] [(0, 1)], X := [0], Y := [1],
        est := .prob none [Var.plain 0, Var.plain 1] [] } = .error .unidentifiable := by
    unfold step; rfl
  rw [this]

/-- … and the hedge it promises is `F = {X, Y}`, `F' = {Y}` -/
example : (MG.fromEdges [0, 1] [(0, 1)] [(0, 1)]).Hedge [0] [1] (fun v => v = 0 ∨ v = 1) (fun v => v = 1) := by
  refine ⟨fun v h => Or.inr h, ?_, ⟨0, by simp, Or.inl rfl⟩, ?_, ⟨1, rfl⟩, ?_, ?_, ?_⟩
  · rintro v (rfl | rfl) <;> decide
  · rintro v rfl; decide
  · have e : (MG.fromEdges [0, 1] [(0, 1)] [(0, 1)]).BiEdge 0 1 := by unfold MG.BiEdge; decide
    rintro u v (rfl | rfl) (rfl | rfl)
    · exact .refl
    · exact .single ⟨e, Or.inl rfl, Or.inr rfl⟩
    · exact .single ⟨Or.symm e, Or.inr rfl, Or.inl rfl⟩
    · exact .refl
  · rintro u v rfl rfl; exact .refl
  · refine ⟨fun v => v = 1, fun r h => h, ?_, ?_, ?_⟩
    · rintro r rfl; exact ⟨1, by simp, .refl⟩
    · rintro v (rfl | rfl)
      · exact ⟨1, rfl, .single ⟨by unfold MG.DiEdge; decide, Or.inl rfl, Or.inr rfl⟩⟩
      · exact ⟨1, rfl, .refl⟩
    · rintro v rfl; exact ⟨1, rfl, .refl⟩

end Y0
