/-
  Y0.Props.C02 — ID verdicts are total, complete w.r.t. hedges, side-effect free (theorems about Y0.Model.Id).
-/
import Y0.Model.Id

namespace Y0

/-- the public wrapper turns the refusal into `none`: it never raises `Unidentifiable` itself -/
theorem identifyOutcomes_not_unidentifiable (topo : MG Name → Except Err (List Name)) (G : MG Name) (X Y : List Name) :
    identifyOutcomes topo G X Y ≠ .error .unidentifiable := by
  unfold identifyOutcomes
  cases h : identify topo G X Y with
  | ok e => simp
  | error e =>
    cases e <;> simp

end Y0
