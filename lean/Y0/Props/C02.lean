/-
  Property C02 — ID verdicts are total, complete w.r.t. hedges, side-effect free.
  Theorems about the executable model `Y0.idAlg` / `Y0.identify` / `Y0.identifyOutcomes` (Y0/Model/Id.lean).

  * termination: `idAlg` is defined by well-founded recursion on `(|V|, |V ∖ X|)`; `step_decreases` shows every
    recursive call made on a valid input is on a valid input with a strictly smaller measure, and
    `idAlg_measure_ok` that the run-time guard of the definition therefore never fires;
  * totality: `id_total` — on a valid query (well-formed acyclic graph, non-empty `Y ⊆ V`, `X ∩ Y = ∅`) the only
    outcomes are an estimand or `unidentifiable`: no `internal` / `invalidInput` outcome (this uses the
    node-preservation facts of C14, i.e. the F1 fix);
  * the public wrapper maps `unidentifiable` to `none` and nothing else.

  Assumption about networkx (`TopoGood topo`): on a well-formed acyclic graph `topological_sort` returns a list of
  exactly the nodes.

  -- OPEN: id_fail_hedge : identify topo G X Y = .error .unidentifiable → ∃ F F', Hedge G X Y F F'
  --   (Shpitser–Pearl 2006, Thm 5; the hedge has to be transported from the failing sub-problem back through
  --    lines 2, 3, 4, 7 to the original query).  Proved instead: `step_refusal_line5` (the refusal is raised by line 5
  --    on a sub-problem whose graph is a single district with `X ≠ ∅` and whose `G ∖ X` is a single district).
  --   The converse (hedge ⇒ refusal) follows from `id_sound` and the non-identifiability of hedges (literature,
  --    not mechanised).  Both directions are decided per input by the two independent procedures of the harness.
  -- R: "leaves the caller's graph and query objects unchanged" is a Python-runtime clause (the model is pure).
-/
import Y0.Lemmas.IdTotal

namespace Y0
open IdDsl IdAux

/-- the two admissible outcomes of ID -/
def IdOutcomeOk (r : Except Err Expr) : Prop := (∃ e, r = .ok e) ∨ r = .error .unidentifiable

/-- **termination argument.** On a valid input every recursive call of one pass of `identify` is made on a valid
input whose measure `(|V|, |V ∖ X|)` is strictly smaller (lexicographically). -/
theorem step_decreases {topo : MG Name → Except Err (List Name)} {I : IdIn} (hv : Valid I)
    {s : Step} (h : step topo I = .ok s) :
    match s with
    | .done _ => True
    | .tail J => Valid J ∧ measureLt J.measure I.measure = true
    | .split Js _ => ∀ J ∈ Js, Valid J ∧ measureLt J.measure I.measure = true := by
  have := step_good hv h
  cases s <;> exact this

/-- **totality of the recursion.** On a valid input `idAlg` returns an estimand or refuses; it never fails
internally (in particular the measure guard of the well-founded definition never fires). -/
theorem idAlg_total {topo : MG Name → Except Err (List Name)} (ht : TopoGood topo) :
    ∀ I, Valid I → IdOutcomeOk (idAlg topo I) := by
  intro I
  induction I using measure_wf.induction with
  | _ I ih =>
    intro hv
    rw [idAlg_eq]
    cases hs : step topo I with
    | error e =>
      rw [step_error hv ht hs]
      exact Or.inr rfl
    | ok s =>
      have hg := step_good hv hs
      cases s with
      | done e => exact Or.inl ⟨e, rfl⟩
      | tail J =>
        simp only [hg.2, if_true]
        exact ih J hg.2 hg.1
      | split Js ranges =>
        have hall : Js.all (fun J => measureLt J.measure I.measure) = true :=
          List.all_eq_true.mpr (fun J hJ => (hg J hJ).2)
        simp only [hall, if_true]
        cases hm : Js.mapM (idAlg topo) with
        | ok es => exact Or.inl ⟨_, rfl⟩
        | error e =>
          obtain ⟨J, hJ, hJe⟩ := mapM_error _ _ _ hm
          rcases ih J (hg J hJ).2 (hg J hJ).1 with ⟨e', he'⟩ | he'
          · rw [he'] at hJe; cases hJe
          · rw [he'] at hJe
            cases hJe
            exact Or.inr rfl

/-- the run-time guard of the well-founded definition never fires on a valid input -/
theorem idAlg_measure_ok {topo : MG Name → Except Err (List Name)} (ht : TopoGood topo) (I : IdIn) (hv : Valid I) :
    idAlg topo I ≠ .error (.internal "measure") := by
  rcases idAlg_total ht I hv with ⟨e, he⟩ | he <;> rw [he] <;> simp

/-- **C02, totality.** For every valid query ID terminates with exactly one of two outcomes: an estimand or the
`unidentifiable` refusal. -/
theorem id_total {topo : MG Name → Except Err (List Name)} (ht : TopoGood topo) (G : MG Name) (X Y : List Name)
    (hq : ValidQuery G X Y) : IdOutcomeOk (identify topo G X Y) := by
  unfold identify
  have hne : G.nodes ≠ [] := by
    obtain ⟨y, hy⟩ := List.exists_mem_of_ne_nil _ hq.yne
    exact List.ne_nil_of_mem (hq.ysub y hy)
  have hj : ∃ c, pJoint G.nodes = .ok (.prob none c []) := by
    unfold pJoint
    cases hs : sortNames G.nodes with
    | nil => exact absurd hs (sortNames_ne_nil hne)
    | cons a l => exact ⟨_, rfl⟩
  obtain ⟨c, hc⟩ := hj
  rw [hc]
  exact idAlg_total ht _ ⟨hq.wf, hq.ranked, hq.ysub, hq.yne, hq.disj, trivial⟩

/-- the public wrapper: an estimand or `None`, never an exception, on a valid query -/
theorem identifyOutcomes_total {topo : MG Name → Except Err (List Name)} (ht : TopoGood topo) (G : MG Name)
    (X Y : List Name) (hq : ValidQuery G X Y) : ∃ r, identifyOutcomes topo G X Y = .ok r := by
  unfold identifyOutcomes
  rcases id_total ht G X Y hq with ⟨e, he⟩ | he <;> rw [he] <;> exact ⟨_, rfl⟩

/-- the public wrapper turns the refusal into `none`: it never raises `Unidentifiable` itself -/
theorem identifyOutcomes_not_unidentifiable (topo : MG Name → Except Err (List Name)) (G : MG Name) (X Y : List Name) :
    identifyOutcomes topo G X Y ≠ .error .unidentifiable := by
  unfold identifyOutcomes
  cases h : identify topo G X Y with
  | ok e => simp
  | error e =>
    cases e <;> simp

/-- a refusal can only come from line 5: one pass on a valid input fails only with `unidentifiable`, and only when
the current graph is a single district, so is `G ∖ X`, and `X ≠ ∅` (the two C-components of a hedge of the
current sub-problem) -/
theorem step_refusal_line5 {topo : MG Name → Except Err (List Name)} (ht : TopoGood topo) {I : IdIn} (hv : Valid I)
    {e : Err} (h : step topo I = .error e) :
    e = .unidentifiable ∧ I.X ≠ [] ∧ I.G.districts.length = 1 ∧ (I.G.removeNodes I.X).districts.length = 1 :=
  step_error' hv ht h

/-! ### non-vacuity -/

/-- the napkin query is a valid query (rank = the node number) -/
example : ValidQuery (MG.fromEdges [0, 1, 2, 3] [(0, 1), (1, 2), (2, 3)] [(0, 2), (0, 3)]) [2] [3] :=
  ⟨MG.wf_fromEdges _ _ _, ⟨fun v => v, by decide⟩, by decide, by decide, by decide⟩

end Y0
