/-
  Property C06, transport clause — "an estimand returned by the transport algorithm contains only terms of the target
  observational distribution or of a declared source domain under a subset of that domain's declared experimental
  variables, and never mentions a selection (transport) node".

  Theorems about the executable model Y0.Model.Trso (tied to transport.py by the correspondence of ./check C05):

    trso_vocab              every estimand returned by `identify_target_outcomes` satisfies `Voc`
    trsoF_vocab_target      the invariant for any target-domain query (any recursion budget)
    trsoF_vocab_source      inside a source domain the intermediate result is raw (to be re-labelled by `activate`)
    activate_vocab          `activate_domain_and_interventions` turns a raw expression into declared-experiment terms
    trso_vocab_no_domains   without source domains every leaf is a target observational term

  `Voc decl e` (decl = the user's `surrogate_interventions`):
    * every leaf `P(c | p)` carries a population tag and is either
        - tagged with the target domain, all its variables plain (no subscripts, no star) and not selection nodes, or
        - tagged with a declared domain `d`, `(d, Z) ∈ decl`, and there is ONE non-empty `zs ⊆ Z` such that every variable
          of the leaf carries exactly the subscript set `zs` (values `-z`), is unstarred and not a selection node;
    * every Sum range is a plain variable that is not a selection node.
-/
import Y0.Lemmas.TrsoInv

namespace Y0
namespace Trso
open TrDsl

/-- population-tagged, plain regular variables: what the recursion carries and returns before re-labelling -/
def RawLeaf : Option Var → List Var → List Var → Prop := fun pop c p => pop.isSome = true ∧ ∀ v ∈ c ++ p, PlainReg v

/-- a term of the target domain's observational distribution -/
def TargetLeaf : Option Var → List Var → List Var → Prop :=
  fun pop c p => pop = some (popVar targetPop) ∧ ∀ v ∈ c ++ p, PlainReg v

/-- the subscript set of an experiment on `zs`: `-z` for every `z`, sorted -/
def ivsOf (zs : List Name) : List Iv := ssort Iv.lt (dedup' ((zs.map Var.plain).map toIv))

/-- a variable of a term measured under the experiment `do(zs)` -/
def SubVar (zs : List Name) (v : Var) : Prop :=
  v.ivs = ivsOf zs ∧ v.star = none ∧ v.isIv = false ∧ isTnode v.name = false

/-- a term of a declared source domain under a non-empty subset of its experimental variables -/
def SourceLeaf (decl : List (Pop × List Name)) : Option Var → List Var → List Var → Prop :=
  fun pop c p => ∃ d Z zs, pop = some (popVar d) ∧ (d, Z) ∈ decl ∧ zs ≠ [] ∧ (∀ z ∈ zs, z ∈ Z) ∧ ∀ v ∈ c ++ p, SubVar zs v

def VocLeaf (decl : List (Pop × List Name)) : Option Var → List Var → List Var → Prop :=
  fun pop c p => TargetLeaf pop c p ∨ SourceLeaf decl pop c p

/-- the vocabulary of a transport estimand -/
def Voc (decl : List (Pop × List Name)) (e : Expr) : Prop := Wf (VocLeaf decl) PlainReg e
/-- only target observational terms -/
def TargetOnly (e : Expr) : Prop := Wf TargetLeaf PlainReg e
def Raw (e : Expr) : Prop := Wf RawLeaf PlainReg e

/-- inside a source domain -/
def modeS : Mode := ⟨RawLeaf, RawLeaf, fun q => q.active ≠ []⟩
/-- in the target domain, `decl` the declared experiments -/
def modeT (decl : List (Pop × List Name)) : Mode :=
  ⟨TargetLeaf, VocLeaf decl, fun q => q.active = [] ∧ q.domain = targetPop ∧ ∀ p ∈ q.surr, p ∈ decl⟩

theorem modeS_good : modeS.Good where
  monoC := fun _ _ _ _ _ h hc hp => ⟨h.1, fun v hv => h.2 v (by
    rcases List.mem_append.1 hv with hv | hv
    · exact List.mem_append.2 (Or.inl (hc v hv))
    · exact List.mem_append.2 (Or.inr (hp v hv)))⟩
  monoR := fun _ _ _ _ _ h hc hp => ⟨h.1, fun v hv => h.2 v (by
    rcases List.mem_append.1 hv with hv | hv
    · exact List.mem_append.2 (Or.inl (hc v hv))
    · exact List.mem_append.2 (Or.inr (hp v hv)))⟩
  sub := fun _ _ _ h => h
  plain := fun _ _ _ h => h.2
  fresh := fun _ _ _ _ h => ⟨rfl, h⟩
  stable := fun q q' h ha _ _ => by show q'.active ≠ []; rw [ha]; exact h

theorem mem_append_of_sub {c p c' p' : List Var} (hc : ∀ v ∈ c', v ∈ c) (hp : ∀ v ∈ p', v ∈ p) :
    ∀ v ∈ c' ++ p', v ∈ c ++ p := by
  intro v hv
  rcases List.mem_append.1 hv with hv | hv
  · exact List.mem_append.2 (Or.inl (hc v hv))
  · exact List.mem_append.2 (Or.inr (hp v hv))

theorem vocLeaf_mono (decl : List (Pop × List Name)) : LeafMono (VocLeaf decl) := by
  intro pop c p c' p' h hc hp
  have hsub := mem_append_of_sub hc hp
  rcases h with h | ⟨d, Z, zs, h1, h2, h3, h4, h5⟩
  · exact Or.inl ⟨h.1, fun v hv => h.2 v (hsub v hv)⟩
  · exact Or.inr ⟨d, Z, zs, h1, h2, h3, h4, fun v hv => h5 v (hsub v hv)⟩

theorem modeT_good (decl : List (Pop × List Name)) : (modeT decl).Good where
  monoC := fun _ _ _ _ _ h hc hp => ⟨h.1, fun v hv => h.2 v (mem_append_of_sub hc hp v hv)⟩
  monoR := vocLeaf_mono decl
  sub := fun _ _ _ h => Or.inl h
  plain := fun _ _ _ h => h.2
  fresh := fun q hq _ _ h => ⟨by rw [hq.2.1], h⟩
  stable := fun q q' h ha hd hs => by
    refine ⟨by rw [ha]; exact h.1, by rw [hd]; exact h.2.1, ?_⟩
    rcases hs with hs | hs
    · rw [hs]; exact h.2.2
    · rw [hs]; intro p hp; cases hp

/-! ### re-labelling with the domain and its active experiment -/

theorem interveneVar_sub {zs : List Name} {v v' : Var} (hv : PlainReg v)
    (h : interveneVar (zs.map Var.plain) v = .ok v') : SubVar zs v' := by
  unfold interveneVar at h
  obtain ⟨h1, h2, _, h4⟩ := hv
  simp only [h1, List.nil_append] at h
  split at h
  · cases h
  · split at h
    · cases h
    · cases h; exact ⟨rfl, h2, rfl, h4⟩

theorem interveneVars_sub {zs : List Name} {vs vs' : List Var} (hv : ∀ v ∈ vs, PlainReg v)
    (h : interveneVars (zs.map Var.plain) vs = .ok vs') : ∀ v' ∈ vs', SubVar zs v' := by
  intro v' hv'
  obtain ⟨v, hvm, hvv⟩ := mapM_ok h v' hv'
  exact interveneVar_sub (hv v hvm) hvv

mutual
/-- `activate_domain_and_interventions` turns raw terms into terms of domain `d` under the experiment `zs` -/
theorem activate_vocab {decl : List (Pop × List Name)} {zs : List Name} {d : Pop} {Z : List Name}
    (hd : (d, Z) ∈ decl) (hz : zs ≠ []) (hzZ : ∀ z ∈ zs, z ∈ Z) :
    ∀ (e e' : Expr), Raw e → activate zs d e = .ok e' → Voc decl e'
  | .prob none c p, e', _, h => by simp [activate] at h
  | .prob (some pop) c p, e', hr, h => by
    simp only [activate] at h
    split at h
    · simp [pure, Except.pure] at h; subst h; trivial
    · obtain ⟨c', hc', h⟩ := bind_ok h
      obtain ⟨p', hp', h⟩ := bind_ok h
      simp [pure, Except.pure] at h; subst h
      refine Or.inr ⟨d, Z, zs, rfl, hd, hz, hzZ, ?_⟩
      intro v hv
      rcases List.mem_append.1 hv with hv | hv
      · refine interveneVars_sub (fun w hw => ?_) hc' v hv
        have : w ∈ c := (List.mem_filter.1 ((mem_sortVars w _).1 hw)).1
        exact hr.2 w (List.mem_append.2 (Or.inl this))
      · refine interveneVars_sub (fun w hw => ?_) hp' v hv
        have : w ∈ p := (List.mem_filter.1 ((mem_sortVars w _).1 hw)).1
        exact hr.2 w (List.mem_append.2 (Or.inr this))
  | .sum e r, e', hr, h => by
    simp only [activate] at h
    obtain ⟨a, ha, h⟩ := bind_ok h
    simp [pure, Except.pure] at h; subst h
    exact wf_sumSafe (vocLeaf_mono decl) false (activate_vocab hd hz hzZ e a hr.1 ha) hr.2
  | .frac n dn, e', hr, h => by
    simp only [activate] at h
    obtain ⟨n', hn', h⟩ := bind_ok h
    obtain ⟨d', hd', h⟩ := bind_ok h
    obtain ⟨t, ht, h⟩ := bind_ok h
    have hwt : Voc decl t :=
      wf_truediv (activate_vocab hd hz hzZ n n' hr.1 hn') (activate_vocab hd hz hzZ dn d' hr.2 hd') ht
    split at h
    · exact wf_fracSimplify hwt.1 hwt.2 h
    · simp [pure, Except.pure] at h; subst h; exact hwt
  | .prod fs, e', hr, h => by
    simp only [activate] at h
    obtain ⟨fs', hfs', h⟩ := bind_ok h
    simp [pure, Except.pure] at h; subst h
    exact wf_productSafe (activateList_vocab hd hz hzZ fs fs' hr hfs')
  | .one, e', _, h => by simp [activate] at h
  | .zero, e', _, h => by simp [activate] at h
  | .q _ _, e', _, h => by simp [activate] at h
theorem activateList_vocab {decl : List (Pop × List Name)} {zs : List Name} {d : Pop} {Z : List Name}
    (hd : (d, Z) ∈ decl) (hz : zs ≠ []) (hzZ : ∀ z ∈ zs, z ∈ Z) :
    ∀ (es es' : List Expr), WfList RawLeaf PlainReg es → activate.activateList zs d es = .ok es' →
      WfList (VocLeaf decl) PlainReg es'
  | [], es', _, h => by simp [activate.activateList] at h; subst h; trivial
  | e :: es, es', hr, h => by
    simp only [activate.activateList] at h
    obtain ⟨a, ha, h⟩ := bind_ok h
    obtain ⟨as, has, h⟩ := bind_ok h
    simp [pure, Except.pure] at h; subst h
    exact ⟨activate_vocab hd hz hzZ e a hr.1 ha, activateList_vocab hd hz hzZ es as hr.2 has⟩
end

/-! ### lines 6 and 7 -/

theorem lookup_mem {β} {l : List (Pop × β)} {d : Pop} {b : β} (h : lookup l d = .ok b) : (d, b) ∈ l := by
  unfold lookup at h
  split at h
  · rename_i p hp
    cases h
    have := List.find?_some hp
    have hm := List.mem_of_find?_eq_some hp
    simp at this
    cases p; simp_all
  · cases h

theorem line6Helper_some {sep : SepTest} {q s : Query} {d : Pop} {G : MG Name}
    (h : line6Helper sep q d G = .ok (some s)) :
    ∃ Z, (d, Z) ∈ q.surr ∧ inter' Z q.X ≠ [] ∧ s = line6Query q d G Z := by
  unfold line6Helper at h
  split at h
  · cases h
  · rename_i Z hZ
    split at h
    · cases h
    · rename_i hne
      split at h
      · cases h
      · cases h
      · cases h
        exact ⟨Z, lookup_mem hZ, by intro h0; apply hne; simp [h0], rfl⟩

theorem line6_mem {sep : SepTest} {q : Query} {subs : List (Pop × Query)} (h : line6 sep q = .ok subs) :
    ∀ ds ∈ subs, ∃ Z G, (ds.1, Z) ∈ q.surr ∧ inter' Z q.X ≠ [] ∧ ds.2 = line6Query q ds.1 G Z := by
  unfold line6 at h
  obtain ⟨rs, hrs, h⟩ := bind_ok h
  simp [pure, Except.pure] at h; subst h
  intro ds hds
  simp only [List.mem_filterMap] at hds
  obtain ⟨⟨d, o⟩, hmem, ho⟩ := hds
  cases o with
  | none => simp at ho
  | some s =>
    simp at ho; subst ho
    obtain ⟨⟨d', g⟩, _, hdg⟩ := mapM_ok hrs _ hmem
    obtain ⟨o', ho', hdg⟩ := bind_ok hdg
    simp [pure, Except.pure] at hdg
    obtain ⟨rfl, rfl⟩ := hdg
    obtain ⟨Z, h1, h2, h3⟩ := line6Helper_some ho'
    exact ⟨Z, g, h1, h2, h3⟩

theorem nsort_ne_nil {l : List Name} (h : l ≠ []) : nsort l ≠ [] := by
  intro h0
  cases l with
  | nil => exact h rfl
  | cons a as => have : a ∈ nsort (a :: as) := (mem_nsort a _).2 (by simp); rw [h0] at this; cases this

/-- lines 6/7 in the target domain: the chosen source-domain result is re-labelled into the declared vocabulary -/
theorem step67_vocab (decl : List (Pop × List Name)) (sep : SepTest) (rec : Rec)
    (hrecS : ∀ q' e', modeS.ok q' → WfC modeS q'.expr → rec q' = .ok (some e') → WfR modeS e')
    (q : Query) (e : Expr) (hq : (modeT decl).ok q) (he : WfC (modeT decl) q.expr)
    (h : step67 sep rec q = .ok (some e)) : WfR (modeT decl) e := by
  unfold step67 at h
  split at h
  · obtain ⟨subs, hsubs, h⟩ := bind_ok h
    obtain ⟨rs, hrs, h⟩ := bind_ok h
    simp only [pure, Except.pure] at h
    have hmem : some e ∈ rs := by
      have h' : (rs.filterMap id).head? = some e := by simpa using h
      have := List.mem_of_mem_head? h'
      simpa [List.mem_filterMap] using this
    obtain ⟨⟨d, s⟩, hds, hres⟩ := mapM_ok hrs _ hmem
    obtain ⟨Z, G, hZ, hne, hs⟩ := line6_mem hsubs _ hds
    simp only [] at hZ hne hs hres
    obtain ⟨r, hr, hres⟩ := bind_ok hres
    cases r with
    | none => simp [pure, Except.pure] at hres
    | some e0 =>
      simp only [] at hres
      obtain ⟨ea, hea, hres⟩ := bind_ok hres
      simp [pure, Except.pure] at hres; subst hres
      have hact : s.active = nsort (inter' Z q.X) := by rw [hs]; rfl
      have hexpr : s.expr = q.expr := by rw [hs]; rfl
      have hraw : WfC modeS s.expr := by
        rw [hexpr]; exact wf_mono (fun _ _ _ hl => ⟨by rw [hl.1]; rfl, hl.2⟩) _ he
      have hokS : modeS.ok s := by show s.active ≠ []; rw [hact]; exact nsort_ne_nil hne
      have hr0 : Raw e0 := hrecS s e0 hokS hraw hr
      refine activate_vocab (decl := decl) (Z := Z) (hq.2.2 _ hZ) hokS ?_ e0 ea hr0 hea
      intro z hz
      rw [hact] at hz
      have := (mem_nsort z _).1 hz
      exact (List.mem_filter.1 this).1
  · simp [pure, Except.pure] at h

theorem step67_source (sep : SepTest) (rec : Rec) (q : Query) (e : Expr) (hq : modeS.ok q)
    (h : step67 sep rec q = .ok (some e)) : False := by
  unfold step67 at h
  have : q.active.isEmpty = false := by
    cases hqa : q.active with
    | nil => exact absurd hqa hq
    | cons a as => rfl
  simp [this, pure, Except.pure] at h

/-! ### the invariant through the recursion -/

theorem trsoF_vocab_both (decl : List (Pop × List Name)) (sep : SepTest) : ∀ (fuel : Nat),
    (∀ q e, (modeT decl).ok q → WfC (modeT decl) q.expr → trsoF sep fuel q = .ok (some e) → WfR (modeT decl) e) ∧
    (∀ q e, modeS.ok q → WfC modeS q.expr → trsoF sep fuel q = .ok (some e) → WfR modeS e)
  | 0 => ⟨fun q e _ _ h => by simp [trsoF] at h, fun q e _ _ h => by simp [trsoF] at h⟩
  | fuel + 1 => by
    obtain ⟨ihT, ihS⟩ := trsoF_vocab_both decl sep fuel
    constructor
    · intro q e hq he h
      exact trsoF_step (modeT_good decl) sep fuel ihT
        (fun q e hq he h => step67_vocab decl sep _ ihS q e hq he h) hq he h
    · intro q e hq he h
      exact trsoF_step modeS_good sep fuel ihS
        (fun q e hq _ h => (step67_source sep _ q e hq h).elim) hq he h

/-- **Invariant, target domain.**  A query in the target domain whose carried expression consists of target
observational terms and whose usable experiments are declared ones returns, with any budget, an estimand in the
declared vocabulary. -/
theorem trsoF_vocab_target (decl : List (Pop × List Name)) (sep : SepTest) (fuel : Nat) (q : Query) (e : Expr)
    (hactive : q.active = []) (hdom : q.domain = targetPop) (hsurr : ∀ p ∈ q.surr, p ∈ decl)
    (hexpr : TargetOnly q.expr) (h : trsoF sep fuel q = .ok (some e)) : Voc decl e :=
  (trsoF_vocab_both decl sep fuel).1 q e ⟨hactive, hdom, hsurr⟩ hexpr h

/-- **Invariant, source domain.**  Inside a source domain (an experiment is active) the recursion returns raw
population-tagged terms over plain non-selection variables; `activate` then re-labels them (`activate_vocab`). -/
theorem trsoF_vocab_source (sep : SepTest) (fuel : Nat) (q : Query) (e : Expr)
    (hactive : q.active ≠ []) (hexpr : Raw q.expr) (h : trsoF sep fuel q = .ok (some e)) : Raw e :=
  (trsoF_vocab_both [] sep fuel).2 q e hactive hexpr h

/-- **C06, transport clause.**  Every estimand returned by `identify_target_outcomes` on a graph without selection
nodes mentions only target observational terms and terms of declared source domains under a non-empty subset of the
domain's declared experimental variables; no leaf and no Sum range mentions a selection node; every variable of a
leaf lives in the same world. -/
theorem trso_vocab (sep : SepTest) (G : MG Name) (Y X : List Name) (outcomes interventions : List (Pop × List Name))
    (hG : ∀ v ∈ G.nodes, isTnode v = false) (e : Expr)
    (h : identifyTargetOutcomes sep G Y X outcomes interventions = .ok (some e)) : Voc interventions e := by
  unfold identifyTargetOutcomes at h
  split at h
  · cases h
  · split at h
    · cases h
    · unfold trso at h
      refine trsoF_vocab_target interventions sep _ _ e rfl rfl (fun p hp => hp) ?_ h
      show Wf TargetLeaf PlainReg (Expr.prob (some (popVar targetPop)) (plainVars G.nodes) [])
      exact ⟨rfl, fun v hv => plainVars_reg hG v (by simpa using hv)⟩

/-- Without declared experiments every leaf of the estimand is a target observational term: no source distribution
is ever read. -/
theorem trso_vocab_no_domains (sep : SepTest) (G : MG Name) (Y X : List Name) (outcomes : List (Pop × List Name))
    (hG : ∀ v ∈ G.nodes, isTnode v = false) (e : Expr)
    (h : identifyTargetOutcomes sep G Y X outcomes [] = .ok (some e)) : TargetOnly e := by
  have hv := trso_vocab sep G Y X outcomes [] hG e h
  refine wf_mono ?_ e hv
  intro pop c p hl
  rcases hl with hl | ⟨d, Z, _, _, hmem, _⟩
  · exact hl
  · cases hmem

/-! ### non-vacuity: the figure-8 problem of the paper returns an estimand, and it uses both source domains -/

/-- Tikka & Karvanen, figure 8: X1=0 X2=1 W=2 Y1=3 Y2=4 Z=5 -/
def fig8 : MG Name :=
  MG.fromEdges [] [(0, 3), (0, 4), (2, 3), (2, 4), (5, 3), (5, 1), (1, 4), (5, 4)] [(0, 3), (5, 2), (5, 1)]

def fig8Result : Except Err (Option Expr) :=
  identifyTargetOutcomes dSeparated fig8 [3, 4] [0, 1] [(1001, [3]), (1002, [4])] [(1001, [0]), (1002, [1])]

def isEstimand : Except Err (Option Expr) → Bool
  | .ok (some _) => true
  | _ => false

example : (fig8.nodes.all fun v => !isTnode v) = true := by decide +kernel

/-- the hypothesis of `trso_vocab` is satisfiable with a non-trivial conclusion: the model returns an estimand for the
paper's example (the harness checks that it is the Python's estimand and that it reads both source domains) -/
example : isEstimand fig8Result = true := by decide +kernel

end Trso
end Y0
