/-
  Property C06, the ID* / IDC* clause: "an ID* or IDC* estimand contains only interventional (single-world) terms,
  never a term mixing different worlds".

  `SingleWorld e` (Y0/Lemmas/CfIdStar.lean): in every `P(…)` leaf of `e` all variables (children and parents) carry
  the SAME set of intervention subscripts, i.e. the leaf is a term of one interventional distribution `P_s(…)`.
  Proved as an invariant of the models of `id_star` and `idc_star`, for every graph, event, fuel and iteration order.
  The tie to the Python is the C07 / C08 correspondence; the harness also walks every real output (`single_world` tag).
-/
import Y0.Lemmas.CfIdStar
import Y0.Lemmas.CfIdcStar

namespace Y0.Cf

/-- every estimand ID* returns is built from single-world interventional terms -/
theorem idstar_vocab (ordf : List World → List World) (dordf : List Var → List Var) (G : MG Name) (ev : Event) (e : Expr)
    (h : idStar ordf dordf G ev = .ok e) : SingleWorld e :=
  idStarFuel_singleWorld ordf dordf G _ ev e h

/-- the same for every fuel (so also for every recursive call) -/
theorem idstar_vocab_fuel (ordf : List World → List World) (dordf : List Var → List Var) (G : MG Name) (fuel : Nat)
    (ev : Event) (e : Expr) (h : idStarFuel ordf dordf G fuel ev = .ok e) : SingleWorld e :=
  idStarFuel_singleWorld ordf dordf G fuel ev e h

/-- every estimand IDC* returns is built from single-world interventional terms (`Expression.conditional` only divides an
ID* estimand by a sum of itself) -/
theorem idcstar_vocab_c06 (ordf : List World → List World) (dordf kordf : List Var → List Var) (G : MG Name)
    (outcomes conditions : Event) (e : Expr) (h : idcStar ordf dordf kordf G outcomes conditions = .ok e) : SingleWorld e :=
  idcStarFuel_singleWorld ordf dordf kordf G _ outcomes conditions e h

/-- non-vacuity: a two-world term is rejected by the predicate, a one-world term accepted -/
example : ¬ SingleWorld (.prob none [⟨0, none, false, [⟨1, false⟩]⟩, ⟨2, none, false, []⟩] []) := by
  intro h
  cases h with
  | prob _ _ _ h =>
    have := h ⟨0, none, false, [⟨1, false⟩]⟩ (by simp) ⟨2, none, false, []⟩ (by simp)
    simp at this

example : SingleWorld (.sum (.prob none [⟨0, none, false, [⟨1, false⟩]⟩, ⟨2, none, false, [⟨1, false⟩]⟩] []) [⟨2, none, false, []⟩]) := by
  apply SingleWorld.sum
  apply SingleWorld.prob
  intro x hx y hy
  simp at hx hy
  rcases hx with rfl | rfl <;> rcases hy with rfl | rfl <;> rfl

end Y0.Cf
