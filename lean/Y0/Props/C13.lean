/-
  Property C13 — DSL operators and rewrite helpers are identities of probability calculus.
  (theorems are added below as they are proved; see harness/props/c13.py for the correspondence and the oracle)
-/
import Y0.Model.Mutate
import Y0.Spec.Sem

namespace Y0

theorem mul_one_left (b : Expr) : Expr.mul .one b = .ok b := by
  cases b <;> rfl

end Y0
