/-
  Property C13 — DSL operators and rewrite helpers are identities of probability calculus.

  "Multiplication, division, marginalisation, conditioning, fraction simplification and sum simplification on expression
   objects, and the chain-rule, fraction (Bayes) expansion and contraction helpers, each return an expression that denotes
   the same quantity as the mathematical operation applied to their arguments, for every distribution and value
   assignment. Chain expansion additionally yields only single-child conditional factors."

  One theorem per operator / helper.  Each is about the executable model of the Python function (Y0/Model/Dsl.lean,
  Y0/Model/Mutate.lean; compared with dsl.py / chain.py / contract.py / predicates.py by harness/props/c13.py on every run)
  and the denotation `den` of Y0/Spec/Sem.lean.  `ProbFamily env` = the laws of probability; a non-vanishing / positivity
  hypothesis appears exactly where a division is cancelled.

  Status: every clause is proved at full strength EXCEPT `conditional`, where the code deviates from the specification
  (finding F11; the subscript part is repaired by `fix:` a54a0f5, the bound-range part is open because a test pins it):
  `conditional_den` states what the code computes, `conditional_den_spec_partial` the specification under the hypothesis
  that the collected variables are the free ones, `conditional_complement_exact_iff` characterises that hypothesis (every
  name bound by an inner Sum is in `ranges` or free elsewhere), `conditional_den_spec_observational` is the specification on
  exactly those inputs, `conditional_den_spec_sumfree` / `conditional_den_probability` the Sum-free and leaf corollaries,
  `conditional_collects_bound_range` exhibits the remaining deviation, `conditional_skips_subscripts` the repaired one.
-/
import Y0.Lemmas.SemFrac

namespace Y0.C13
open Y0

variable {env : Env} {σ' : Val}

/-! ## operators -/

/-- `a * b` (all `__mul__` overloads: Probability, Product, Sum, Fraction, One, Zero, QFactor on either side) -/
theorem mul_den (a b c : Expr) (h : Expr.mul a b = .ok c) (σ : Val) :
    den env σ' c σ = den env σ' a σ * den env σ' b σ := Y0.mul_den a b c h σ

/-- `a / b` (all `__truediv__` overloads).  No hypothesis on `b`: compound fractions are flattened by identities that hold
in a field with `x / 0 = 0`; the only failure is `ZeroDivisionError` on a syntactic `Zero()` divisor. -/
theorem div_den (a b c : Expr) (h : Expr.div a b = .ok c) (σ : Val) :
    den env σ' c σ = den env σ' a σ / den env σ' b σ := Y0.div_den a b c h σ

/-- `e.marginalize(ranges)`: the sum over the set of base variables of `ranges` -/
theorem marginalize_den (e : Expr) (r : List Var) (σ : Val) :
    den env σ' (e.marginalize r) σ =
      sumVars env.card ((upgradeOrdering (r.map Var.base)).map (·.name)) (fun τ => den env σ' e τ) σ :=
  Y0.marginalize_den e r σ

/-- the list summed over by `marginalize` enumerates the names of `ranges` without repetition, so the sum above is the
sum over that SET of variables in any order -/
theorem marginalize_ranges_spec (r : List Var) :
    ((upgradeOrdering (r.map Var.base)).map (·.name)).Nodup ∧
      ∀ x, x ∈ (upgradeOrdering (r.map Var.base)).map (·.name) ↔ x ∈ r.map (·.name) := by
  refine ⟨nodup_names_of_plain ?_ (nodup_upgradeOrdering _), fun x => ?_⟩
  · intro v hv
    obtain ⟨w, _, rfl⟩ := List.mem_map.mp (mem_upgradeOrdering.mp hv)
    rfl
  · simp only [List.mem_map, mem_upgradeOrdering]
    constructor
    · rintro ⟨v, ⟨w, hw, rfl⟩, rfl⟩; exact ⟨w, hw, rfl⟩
    · rintro ⟨w, hw, rfl⟩; exact ⟨w.base, ⟨w, hw, rfl⟩, rfl⟩

/-- `e.normalize_marginalize(ranges)` = `e / Σ_ranges e` -/
theorem normalize_marginalize_den (e c : Expr) (r : List Var) (h : e.normalizeMarginalize r = .ok c) (σ : Val) :
    den env σ' c σ = den env σ' e σ /
      sumVars env.card ((upgradeOrdering (r.map Var.base)).map (·.name)) (fun τ => den env σ' e τ) σ :=
  Y0.normalize_marginalize_den e c r h σ

/-! ## conditional (finding F11: the subscript part is repaired by `fix:` a54a0f5, the bound-range part is open) -/

/-- what `e.conditional(ranges)` denotes, for the code as it is: `e / Σ_{collected ∖ ranges} e`, where `collected` is every
non-`Intervention` variable `_iter_variables` yields (event variables and `Sum` ranges; subscripts are skipped by both
overloads) -/
theorem conditional_den (e c : Expr) (r : List Var) (h : e.conditional r = .ok c) (σ : Val) :
    den env σ' c σ = den env σ' e σ /
      sumVars env.card ((upgradeOrdering ((e.conditionalComplement r).map Var.base)).map (·.name))
        (fun τ => den env σ' e τ) σ := Y0.conditional_den e c r h σ

mutual
/-- names of the variables in event position that are not bound by an enclosing Sum: the free variables of the specification -/
def freeEventNames : Expr → List Name
  | .prob _ c p => (c ++ p).map (·.name)
  | .prod fs => freeEventNamesList fs
  | .sum e r => (freeEventNames e).filter (fun x => !(r.map (·.name)).contains x)
  | .frac n d => freeEventNames n ++ freeEventNames d
  | .q d c => (c ++ d).map (·.name)
  | _ => []
def freeEventNamesList : List Expr → List Name
  | [] => []
  | e :: es => freeEventNames e ++ freeEventNamesList es
end

mutual
/-- names in the range of some `Sum` occurring inside the expression -/
def boundRangeNames : Expr → List Name
  | .prod fs => boundRangeNamesList fs
  | .sum e r => boundRangeNames e ++ r.map (·.name)
  | .frac n d => boundRangeNames n ++ boundRangeNames d
  | _ => []
def boundRangeNamesList : List Expr → List Name
  | [] => []
  | e :: es => boundRangeNames e ++ boundRangeNamesList es
end

mutual
/-- no `Intervention` OBJECT (`-X`, `+X`) in event position or as a `Sum` range; intervention SUBSCRIPTS are allowed anywhere.
(`P(-x)` is a different thing from `P[x](…)`; `Sum` ranges are plain variables in every well-formed expression.) -/
def noIvObject : Expr → Bool
  | .prob _ c p => (c ++ p).all (fun v => !v.isIv)
  | .prod fs => noIvObjectList fs
  | .sum e r => noIvObject e && r.all (fun v => !v.isIv)
  | .frac n d => noIvObject n && noIvObject d
  | .q d c => (c ++ d).all (fun v => !v.isIv)
  | .one => true
  | .zero => true
def noIvObjectList : List Expr → Bool
  | [] => true
  | e :: es => noIvObject e && noIvObjectList es
end

-- OPEN: conditional_den_spec (full strength, FALSE for the current code: what remains of finding F11, known_findings.jsonl)
--   theorem conditional_den_spec (e c : Expr) (r : List Var) (h : e.conditional r = .ok c) (σ : Val)
--       (xs : List Name) (hxs : xs.Nodup) (hmem : ∀ x, x ∈ xs ↔ x ∈ freeEventNames e ∧ x ∉ r.map (·.name)) :
--       den env σ' c σ = den env σ' e σ / sumVars env.card xs (fun τ => den env σ' e τ) σ
--   It fails exactly when some name in the range of an inner `Sum` is neither in `ranges` nor free elsewhere in the
--   expression (`conditional_complement_exact_iff`): that name is then summed over a second time.
/-- the specification of `conditional` (`e / Σ_{free(e) ∖ ranges} e`) holds whenever the variables the code collects are
exactly the free event variables outside `ranges` -/
theorem conditional_den_spec_partial (e c : Expr) (r : List Var) (h : e.conditional r = .ok c) (σ : Val)
    (xs : List Name) (hxs : xs.Nodup) (hmem : ∀ x, x ∈ xs ↔ x ∈ freeEventNames e ∧ x ∉ r.map (·.name))
    (hsame : ∀ x, x ∈ (e.conditionalComplement r).map (·.name) ↔ x ∈ freeEventNames e ∧ x ∉ r.map (·.name)) :
    den env σ' c σ = den env σ' e σ / sumVars env.card xs (fun τ => den env σ' e τ) σ := by
  rw [conditional_den e c r h σ]
  congr 1
  have hnd := (marginalize_ranges_spec (e.conditionalComplement r)).1
  have hm := (marginalize_ranges_spec (e.conditionalComplement r)).2
  have hperm : ((upgradeOrdering ((e.conditionalComplement r).map Var.base)).map (·.name)).Perm xs := by
    rw [List.perm_ext_iff_of_nodup hnd hxs]
    intro x
    rw [hm, hsame, hmem]
  exact congrFun (sumVars_perm env.card hperm _) σ

/-- names of the non-`Intervention` variables of a list of event variables with their subscripts: the subscripts drop out -/
theorem names_filter_iterVars (vs : List Var) (hiv : vs.all (fun v => !v.isIv) = true) (x : Name) :
    x ∈ ((vs.flatMap Var.iterVars).filter (fun (v : Var) => !v.isIv)).map (·.name) ↔ x ∈ vs.map (·.name) := by
  simp only [List.all_eq_true, Bool.not_eq_true'] at hiv
  simp only [List.mem_map, List.mem_filter, List.mem_flatMap, Var.iterVars, List.mem_cons, Bool.not_eq_true']
  constructor
  · rintro ⟨w, ⟨⟨v, hv, hw⟩, hwiv⟩, rfl⟩
    rcases hw with rfl | ⟨i, _, rfl⟩
    · exact ⟨w, hv, rfl⟩
    · simp [Iv.toVar] at hwiv
  · rintro ⟨v, hv, rfl⟩
    exact ⟨v, ⟨⟨v, hv, Or.inl rfl⟩, hiv v hv⟩, rfl⟩

theorem names_filter_plain (vs : List Var) (hiv : vs.all (fun v => !v.isIv) = true) (x : Name) :
    x ∈ (vs.filter (fun (v : Var) => !v.isIv)).map (·.name) ↔ x ∈ vs.map (·.name) := by
  rw [List.filter_eq_self.mpr (by simpa [List.all_eq_true] using hiv)]

mutual
/-- **what the code collects** (after `fix:` a54a0f5): the free event names and the names bound by an inner `Sum` — no
subscript name -/
theorem collected_names_iff : ∀ (e : Expr), noIvObject e = true →
    ∀ x, x ∈ (e.iterVars.filter (fun (v : Var) => !v.isIv)).map (·.name) ↔ x ∈ freeEventNames e ∨ x ∈ boundRangeNames e
  | .prob pop c p, h, x => by
    simp only [noIvObject] at h
    simp only [Expr.iterVars, freeEventNames, boundRangeNames, List.not_mem_nil, or_false]
    exact names_filter_iterVars (c ++ p) h x
  | .prod fs, h, x => by
    simp only [noIvObject] at h
    simp only [Expr.iterVars, freeEventNames, boundRangeNames]
    exact collected_namesList_iff fs h x
  | .sum e r, h, x => by
    simp only [noIvObject, Bool.and_eq_true] at h
    simp only [Expr.iterVars, freeEventNames, boundRangeNames, List.filter_append, List.map_append, List.mem_append,
      List.mem_filter, Bool.not_eq_true', List.contains_eq_mem, decide_eq_false_iff_not]
    rw [collected_names_iff e h.1 x, names_filter_plain r h.2 x]
    by_cases hx : x ∈ r.map (·.name) <;> simp [hx]
  | .frac n d, h, x => by
    simp only [noIvObject, Bool.and_eq_true] at h
    simp only [Expr.iterVars, freeEventNames, boundRangeNames, List.filter_append, List.map_append, List.mem_append]
    rw [collected_names_iff n h.1 x, collected_names_iff d h.2 x]
    tauto
  | .q d c, h, x => by
    simp only [noIvObject] at h
    simp only [Expr.iterVars, freeEventNames, boundRangeNames, List.not_mem_nil, or_false]
    exact names_filter_plain (c ++ d) h x
  | .one, _, x => by simp [Expr.iterVars, freeEventNames, boundRangeNames]
  | .zero, _, x => by simp [Expr.iterVars, freeEventNames, boundRangeNames]
theorem collected_namesList_iff : ∀ (fs : List Expr), noIvObjectList fs = true →
    ∀ x, x ∈ ((Expr.iterVarsList fs).filter (fun (v : Var) => !v.isIv)).map (·.name) ↔
      x ∈ freeEventNamesList fs ∨ x ∈ boundRangeNamesList fs
  | [], _, x => by simp [Expr.iterVarsList, freeEventNamesList, boundRangeNamesList]
  | e :: es, h, x => by
    simp only [noIvObjectList, Bool.and_eq_true] at h
    simp only [Expr.iterVarsList, freeEventNamesList, boundRangeNamesList, List.filter_append, List.map_append,
      List.mem_append]
    rw [collected_names_iff e h.1 x, collected_namesList_iff es h.2 x]
    tauto
end

/-- the names `conditional` sums over: collected names outside `ranges` -/
theorem mem_conditionalComplement_names (e : Expr) (r : List Var) (x : Name) :
    x ∈ (e.conditionalComplement r).map (·.name) ↔
      x ∈ (e.iterVars.filter (fun (v : Var) => !v.isIv)).map (·.name) ∧ x ∉ r.map (·.name) := by
  simp only [Expr.conditionalComplement, List.mem_map, mem_diff', mem_dedup', mem_upgradeOrdering]
  constructor
  · rintro ⟨w, ⟨⟨v, hv, rfl⟩, hnr⟩, rfl⟩
    refine ⟨⟨v, hv, rfl⟩, ?_⟩
    rintro ⟨r0, hr0, hn⟩
    exact hnr ⟨r0, hr0, Var.base_eq_iff.mpr hn⟩
  · rintro ⟨⟨v, hv, rfl⟩, hnr⟩
    refine ⟨v.base, ⟨⟨v, hv, rfl⟩, ?_⟩, rfl⟩
    rintro ⟨r0, hr0, hb⟩
    exact hnr ⟨r0, hr0, Var.base_eq_iff.mp hb⟩

/-- **exactly what remains of F11**: the code normalises over the right set of variables if and only if every name in the
range of an inner `Sum` is one of `ranges` or occurs free elsewhere in the expression -/
theorem conditional_complement_exact_iff (e : Expr) (r : List Var) (hiv : noIvObject e = true) :
    (∀ x, x ∈ (e.conditionalComplement r).map (·.name) ↔ x ∈ freeEventNames e ∧ x ∉ r.map (·.name)) ↔
      ∀ x ∈ boundRangeNames e, x ∈ r.map (·.name) ∨ x ∈ freeEventNames e := by
  constructor
  · intro h x hx
    by_cases hr : x ∈ r.map (·.name)
    · exact Or.inl hr
    · exact Or.inr ((h x).mp ((mem_conditionalComplement_names e r x).mpr
        ⟨(collected_names_iff e hiv x).mpr (Or.inr hx), hr⟩)).1
  · intro h x
    rw [mem_conditionalComplement_names, collected_names_iff e hiv x]
    constructor
    · rintro ⟨hfb | hfb, hr⟩
      · exact ⟨hfb, hr⟩
      · rcases h x hfb with h1 | h1
        · exact absurd h1 hr
        · exact ⟨h1, hr⟩
    · rintro ⟨hf, hr⟩
      exact ⟨Or.inl hf, hr⟩

/-- **`Expression.conditional` / `Probability.conditional` meet the specification** on every expression (leaves, products,
fractions, sums, any nesting, intervention subscripts anywhere) in which every name bound by an inner `Sum` is one of `ranges`
or also occurs free: `e.conditional(ranges)` denotes `e / Σ_{free(e) ∖ ranges} e`.  By `conditional_complement_exact_iff`
nothing more can be true of the code as it is: what remains excluded is exactly a `Sum` range that is neither conditioned on
nor free elsewhere (the bound-range part of F11, pinned by `test_idc_star`). -/
theorem conditional_den_spec_observational (e c : Expr) (r : List Var) (hiv : noIvObject e = true)
    (hb : ∀ x ∈ boundRangeNames e, x ∈ r.map (·.name) ∨ x ∈ freeEventNames e)
    (h : e.conditional r = .ok c) (σ : Val)
    (xs : List Name) (hxs : xs.Nodup) (hmem : ∀ x, x ∈ xs ↔ x ∈ freeEventNames e ∧ x ∉ r.map (·.name)) :
    den env σ' c σ = den env σ' e σ / sumVars env.card xs (fun τ => den env σ' e τ) σ :=
  conditional_den_spec_partial e c r h σ xs hxs hmem ((conditional_complement_exact_iff e r hiv).mpr hb)

/-- **`Probability.conditional` meets the specification**: for a leaf `P(C | Pa)` whose event variables are not
`Intervention` objects, `p.conditional(ranges)` denotes `p / Σ_{(C ∪ Pa) ∖ ranges} p` (subscripts are not summed over) -/
theorem conditional_den_probability {pop : Option Var} {ch pa : List Var} {c : Expr} (r : List Var)
    (hiv : ∀ v ∈ ch ++ pa, v.isIv = false) (h : (Expr.prob pop ch pa).conditional r = .ok c) (σ : Val)
    (xs : List Name) (hxs : xs.Nodup)
    (hmem : ∀ x, x ∈ xs ↔ x ∈ (ch ++ pa).map (·.name) ∧ x ∉ r.map (·.name)) :
    den env σ' c σ = den env σ' (.prob pop ch pa) σ / sumVars env.card xs (fun τ => den env σ' (.prob pop ch pa) τ) σ := by
  apply conditional_den_spec_observational _ c r _ _ h σ xs hxs (by simpa [freeEventNames] using hmem)
  · simp only [noIvObject, List.all_eq_true, Bool.not_eq_true']
    exact hiv
  · intro x hx; simp [boundRangeNames] at hx

mutual
/-- no `Sum` inside (subscripts allowed): products / fractions of interventional or observational leaves -/
def sumFree : Expr → Bool
  | .prod fs => sumFreeList fs
  | .sum _ _ => false
  | .frac n d => sumFree n && sumFree d
  | _ => true
def sumFreeList : List Expr → Bool
  | [] => true
  | e :: es => sumFree e && sumFreeList es
end

mutual
theorem boundRangeNames_of_sumFree : ∀ (e : Expr), sumFree e = true → boundRangeNames e = []
  | .prob _ _ _, _ => rfl
  | .prod fs, h => by
    simp only [sumFree] at h
    simp only [boundRangeNames]
    exact boundRangeNamesList_of_sumFree fs h
  | .sum _ _, h => by simp [sumFree] at h
  | .frac n d, h => by
    simp only [sumFree, Bool.and_eq_true] at h
    simp only [boundRangeNames, boundRangeNames_of_sumFree n h.1, boundRangeNames_of_sumFree d h.2, List.append_nil]
  | .q _ _, _ => rfl
  | .one, _ => rfl
  | .zero, _ => rfl
theorem boundRangeNamesList_of_sumFree : ∀ (fs : List Expr), sumFreeList fs = true → boundRangeNamesList fs = []
  | [], _ => rfl
  | e :: es, h => by
    simp only [sumFreeList, Bool.and_eq_true] at h
    simp only [boundRangeNamesList, boundRangeNames_of_sumFree e h.1, boundRangeNamesList_of_sumFree es h.2,
      List.append_nil]
end

/-- corollary: on every `Sum`-free expression — interventional leaves `P[x](…)`, their products and fractions — `conditional`
meets the specification (before `fix:` a54a0f5 this needed the absence of subscripts) -/
theorem conditional_den_spec_sumfree (e c : Expr) (r : List Var) (hiv : noIvObject e = true) (hsf : sumFree e = true)
    (h : e.conditional r = .ok c) (σ : Val)
    (xs : List Name) (hxs : xs.Nodup) (hmem : ∀ x, x ∈ xs ↔ x ∈ freeEventNames e ∧ x ∉ r.map (·.name)) :
    den env σ' c σ = den env σ' e σ / sumVars env.card xs (fun τ => den env σ' e τ) σ :=
  conditional_den_spec_observational e c r hiv
    (by intro x hx; rw [boundRangeNames_of_sumFree e hsf] at hx; cases hx) h σ xs hxs hmem

/-- non-vacuity of `conditional_den_spec_sumfree`: `(P[X](A | B) * P(B)) / P(C)` has a subscript, no `Sum`, and `conditional`
succeeds on it -/
example : noIvObject (.frac (.prod [.prob none [{ name := 0, ivs := [⟨5, false⟩] }] [Var.plain 1], .prob none [Var.plain 1] []])
      (.prob none [Var.plain 2] [])) = true ∧
    sumFree (.frac (.prod [.prob none [{ name := 0, ivs := [⟨5, false⟩] }] [Var.plain 1], .prob none [Var.plain 1] []])
      (.prob none [Var.plain 2] [])) = true ∧
    ∃ c, (Expr.frac (.prod [.prob none [{ name := 0, ivs := [⟨5, false⟩] }] [Var.plain 1], .prob none [Var.plain 1] []])
      (.prob none [Var.plain 2] [])).conditional [Var.plain 1] = .ok c := ⟨by decide, by decide, _, rfl⟩

/-- non-vacuity of `conditional_den_spec_observational` with a `Sum` inside: `Sum[B](P(A, B)) * P(B)`, the bound `B` occurs
free in the second factor -/
example : noIvObject (.prod [.sum (.prob none [Var.plain 0, Var.plain 1] []) [Var.plain 1], .prob none [Var.plain 1] []]) = true ∧
    (∀ x ∈ boundRangeNames (.prod [.sum (.prob none [Var.plain 0, Var.plain 1] []) [Var.plain 1], .prob none [Var.plain 1] []]),
      x ∈ ([] : List Var).map (·.name) ∨
      x ∈ freeEventNames (.prod [.sum (.prob none [Var.plain 0, Var.plain 1] []) [Var.plain 1], .prob none [Var.plain 1] []])) := by
  refine ⟨by decide, ?_⟩
  decide

/-- what remains of F11 exhibited on the model: for `Sum[A](P(C))` (A=0, C=2) the code also normalises over the bound `A` -/
theorem conditional_collects_bound_range :
    ((Expr.sum (.prob none [Var.plain 2] []) [Var.plain 0]).conditionalComplement []).map (·.name) = [2, 0] ∧
      freeEventNames (Expr.sum (.prob none [Var.plain 2] []) [Var.plain 0]) = [2] := by decide

/-- the subscript part of F11 is gone (`fix:` a54a0f5): for `P[A](C) * P(D)` (A=0, C=2, D=3) the code normalises over `C, D`
only — before the fix it collected `[2, 0, 3]` -/
theorem conditional_skips_subscripts :
    ((Expr.prod [.prob none [{ name := 2, ivs := [⟨0, false⟩] }] [], .prob none [Var.plain 3] []]).conditionalComplement
        []).map (·.name) = [2, 3] ∧
      freeEventNames (Expr.prod [.prob none [{ name := 2, ivs := [⟨0, false⟩] }] [], .prob none [Var.plain 3] []]) = [2, 3] := by
  decide

/-- … in general: a name the code normalises over is a free event name or a name bound by an inner `Sum`, never a name that
occurs in subscripts only -/
theorem conditional_skips_subscripts_general (e : Expr) (r : List Var) (hiv : noIvObject e = true) (x : Name)
    (hx : x ∈ (e.conditionalComplement r).map (·.name)) : x ∈ freeEventNames e ∨ x ∈ boundRangeNames e :=
  (collected_names_iff e hiv x).mp ((mem_conditionalComplement_names e r x).mp hx).1

/-- the consequence: a collected variable the expression does not depend on multiplies the normaliser by its cardinality
(the factor `|dom X|` of finding F11) -/
theorem extra_range_factor (x : Name) (f : Val → Rat) (hf : IndepOf f x) (σ : Val) :
    sumVar env.card x f σ = (env.card x : Rat) * f σ := sumVar_const env.card x f σ hf

/-! ## simplification -/

/-- `Sum(e, rs).simplify()` = `Σ_rs e` (after the fix of the superset branch); for a joint leaf under `SumLeafOK` -/
theorem sum_simplify_den (hF : ProbFamily env) (e : Expr) (rs : List Var)
    (hleaf : ∀ pop c, e = .prob pop c [] → SumLeafOK c rs) (σ : Val) :
    den env σ' (sumSimplify e rs) σ = sumVars env.card (rs.map (·.name)) (fun τ => den env σ' e τ) σ :=
  sumSimplify_den hF e rs hleaf σ

/-- **`Sum.simplify` on multi-world joints** (after `fix:` d517ad1): the side conditions `SumLeafOK` (ranges are distinct
plain variables; a summed-out child is not a `+` value and not an unstarred subscript of the leaf) are needed only when the
children of the joint have pairwise distinct base variables — nothing is asked of their worlds.  When several children share
a base variable the sum is returned unchanged (`sum_simplify_shared_base`), so the identity holds for every joint leaf. -/
theorem sum_simplify_den_mw (hF : ProbFamily env) (e : Expr) (rs : List Var)
    (hleaf : ∀ pop c, e = .prob pop c [] → (c.map (·.name)).Nodup → SumLeafOK c rs) (σ : Val) :
    den env σ' (sumSimplify e rs) σ = sumVars env.card (rs.map (·.name)) (fun τ => den env σ' e τ) σ :=
  sumSimplify_den_w hF e rs hleaf σ

/-- a joint with several children on one base variable (P(Y @ +X, Y @ -X, Z)): `Sum.simplify` returns the sum as it is -/
theorem sum_simplify_shared_base {pop : Option Var} {c rs : List Var} (h : ¬ (c.map (·.name)).Nodup) :
    sumSimplify (.prob pop c []) rs = .sum (.prob pop c []) rs :=
  sumSimplify_dup (dupBase_of_not_nodup h)

/-- the witness of the repaired defect, on the model: `Sum[Y](P(Y @ +X, Y @ -X))` is no longer rewritten to `One()` -/
example : sumSimplify (.prob none [{ name := 1, ivs := [⟨0, true⟩] }, { name := 1, ivs := [⟨0, false⟩] }] []) [Var.plain 1] =
    .sum (.prob none [{ name := 1, ivs := [⟨0, true⟩] }, { name := 1, ivs := [⟨0, false⟩] }] []) [Var.plain 1] := by rfl

/-- `Fraction(n, d).simplify()` = `n / d` wherever `d` does not vanish (cancellation of equal factors included) -/
theorem fraction_simplify_den (n d c : Expr) (h : Expr.fracSimplify n d = .ok c) (σ : Val)
    (hd : den env σ' d σ ≠ 0) : den env σ' c σ = den env σ' n σ / den env σ' d σ :=
  Y0.fraction_simplify_den n d c h σ hd

/-! ## expansion helpers -/

/-- `chain_expand(P(C | Pa))` (with or without reordering, any ordering that contains the children) -/
theorem chain_expand_den (hF : ProbFamily env) {pop : Option Var} {ch pa : List Var} {reorder : Bool}
    {ordering : Option (List Var)} {c : Expr} (hne : ch ≠ [])
    (h : chainExpand (.prob pop ch pa) reorder ordering = .ok c) (σ : Val)
    (hpos : ∀ s : List Var, (∀ v ∈ s, v ∈ ch) → env.pr (pop.map (·.name)) ((s ++ pa).map (Var.atom σ σ')) ≠ 0) :
    den env σ' c σ = den env σ' (.prob pop ch pa) σ := Y0.chain_expand_den hF hne h σ hpos

/-- ... in a positive environment, for a leaf with pairwise distinct names (no extra hypothesis left) -/
theorem chain_expand_den_positive (hF : ProbFamily env) (hP : env.Positive) {pop : Option Var} {ch pa : List Var}
    {reorder : Bool} {ordering : Option (List Var)} {c : Expr} (hne : ch ≠ [])
    (hn : ((ch ++ pa).map (·.name)).Nodup)
    (h : chainExpand (.prob pop ch pa) reorder ordering = .ok c) {σ : Val}
    (hσ : InRange env σ) (hσ' : InRange env σ') :
    den env σ' c σ = den env σ' (.prob pop ch pa) σ := by
  apply Y0.chain_expand_den hF hne h σ
  intro s hs
  -- any sub-collection: positivity of its de-duplicated form
  have hset : env.pr (pop.map (·.name)) ((s ++ pa).map (Var.atom σ σ')) =
      env.pr (pop.map (·.name)) (((ch.filter (fun v => memb v s)) ++ pa).map (Var.atom σ σ')) := by
    apply pr_congr_set hF
    intro a
    simp only [List.mem_map, List.mem_append, List.mem_filter, memb_iff]
    constructor
    · rintro ⟨v, hv | hv, rfl⟩
      · exact ⟨v, Or.inl ⟨hs v hv, hv⟩, rfl⟩
      · exact ⟨v, Or.inr hv, rfl⟩
    · rintro ⟨v, ⟨_, hv⟩ | hv, rfl⟩
      · exact ⟨v, Or.inl hv, rfl⟩
      · exact ⟨v, Or.inr hv, rfl⟩
  rw [hset]
  exact chain_pos_of_positive hP hσ hσ' hn _ List.filter_sublist

/-- **chain expansion yields only single-child conditional factors** -/
theorem chain_expand_markov {pop : Option Var} {ch pa : List Var} {reorder : Bool} {ordering : Option (List Var)}
    {c : Expr} (hne : ch ≠ []) (h : chainExpand (.prob pop ch pa) reorder ordering = .ok c) :
    hasMarkovPostcondition c = .ok true := Y0.chain_expand_markov hne h

/-- `fraction_expand(P(C | Pa))` = `P(C, Pa) / P(Pa)` -/
theorem fraction_expand_den (hF : ProbFamily env) {p c : Expr} (h : fractionExpand p = .ok c) (σ : Val) :
    den env σ' c σ = den env σ' p σ := Y0.fraction_expand_den hF h σ

/-- `bayes_expand(P(C | Pa))` = `P(C, Pa) / Σ_C P(C, Pa)` -/
theorem bayes_expand_den (hF : ProbFamily env) {pop : Option Var} {ch pa : List Var} {c : Expr}
    (hok : BayesOK ch pa) (h : bayesExpand (.prob pop ch pa) = .ok c) (σ : Val) :
    den env σ' c σ = den env σ' (.prob pop ch pa) σ := Y0.bayes_expand_den hF hok h σ

/-! ## contraction -/

/-- `contract(e)` (after the fixes: proper subset, same population) -/
theorem contract_den (hF : ProbFamily env) (e : Expr) (σ : Val) :
    den env σ' (contract e) σ = den env σ' e σ := Y0.contract_den hF e σ

/-- `recursive_contract(e)` -/
theorem recursive_contract_den (hF : ProbFamily env) (e c : Expr) (h : recursiveContract e = .ok c) (σ : Val) :
    den env σ' c σ = den env σ' e σ := Y0.recursive_contract_den hF e c h σ

/-! ## non-vacuity -/

section examples
open Var

/-- P(A,B) / P(B) contracts to P(A | B) -/
example : contract (.frac (.prob none [plain 0, plain 1] []) (.prob none [plain 1] [])) =
    .prob none [plain 0] [plain 1] := by rfl
/-- different populations: left alone (the fixed behaviour) -/
example : contract (.frac (.prob (some (plain 1001)) [plain 0, plain 1] []) (.prob (some (plain 1002)) [plain 1] [])) =
    .frac (.prob (some (plain 1001)) [plain 0, plain 1] []) (.prob (some (plain 1002)) [plain 1] []) := by rfl
/-- chain expansion of P(A,B,C | D) and its Markov postcondition -/
example : chainExpand (.prob none [plain 0, plain 1, plain 2] [plain 3]) true none = .ok
    (.prod [.prob none [plain 0] [plain 1, plain 2, plain 3], .prob none [plain 1] [plain 2, plain 3],
            .prob none [plain 2] [plain 3]]) := by rfl
example : BayesOK [plain 0, plain 3] [plain 1, plain 2] := by
  refine ⟨by decide, by decide, ?_⟩
  intro w hw i hi; simp at hw; rcases hw with rfl | rfl | rfl | rfl <;> simp [plain] at hi
/-- (P(A)/P(B)) * (P(C)/P(D)) = (P(A)P(C)) / (P(B)P(D)) -/
example : Expr.mul (.frac (.prob none [plain 0] []) (.prob none [plain 1] []))
    (.frac (.prob none [plain 2] []) (.prob none [plain 3] [])) = .ok
    (.frac (.prod [.prob none [plain 0] [], .prob none [plain 2] []]) (.prod [.prob none [plain 1] [], .prob none [plain 3] []])) := by
  rfl
/-- cancellation: (P(A) P(B) P(B)) / (P(B) P(C)) simplifies to (P(A) P(B)) / P(C) -/
example : Expr.fracSimplify (.prod [.prob none [plain 0] [], .prob none [plain 1] [], .prob none [plain 1] []])
    (.prod [.prob none [plain 1] [], .prob none [plain 2] []]) = .ok
    (.frac (.prod [.prob none [plain 0] [], .prob none [plain 1] []]) (.prob none [plain 2] [])) := by rfl

end examples

end Y0.C13
