/-
  Property C16 — LV-DAG conversion round-trips; Evans simplification keeps the observed model.

  Only property theorems and non-vacuity examples live here; helper lemmas are in Y0/Lemmas/Latent*.lean.
  Every theorem is about the executable model `Y0.Model.Latent`, which the correspondence check
  (harness/props/c16.py) compares with `y0.graph` / `y0.algorithm.simplify_latent` on every run.

  Reading guide.  `D.Observed v`, `D.LatPath a b`, `D.ProjDi`, `D.ProjBi`, `IsProjection D G`, `D.WF`,
  `D.Acyclic`, `D.Flat`, `D.Simplified` are the relational definitions of Y0/Spec/LatentSpec.lean.
  `fresh i` is the name `u_i` and `prime v` the name `v_prime`; the only thing assumed about the naming
  is that different indices give different names (`Function.Injective fresh`) and that a primed name is
  larger than the name it was made from (`∀ n, n < prime n`: "x" < "x_prime" as strings).
  `D.DConn Z a b` / `MConnMixed G Z a b` are d-connection in the LV-DAG / m-connection in a mixed graph in
  the walk formulation (a collider needs a descendant-or-self in `Z`, every other inner node is outside `Z`).

  Clauses of the property and their theorems:
    round trip ........................ roundtrip, roundtrip_total, toLV_is_projection, toLV_observed
    simplification is total ........... simplify_total
    idempotent ........................ simplify_idem
    keeps every observed node ......... simplify_keeps_observed
    read-off graph = projection ....... simplify_projection (rule1..rule4_*_sameProj, fromLV_is_projection)
    separation unchanged .............. simplify_dsep_invariant, dsep_iff_msep_projection, simplify_msep_invariant (walks)
      with the textbook PATH definition  dconn_walk_iff_path, mconn_walk_iff_path, simplify_dsep_invariant_path,
      of C04 and the C04 model ........  dsep_iff_msep_projection_path, lvdag_dsep_model_eq_projection,
                                         simplify_preserves_dsep_model, simplify_dsep_verdict_iff_no_path
    identifiability unchanged ......... id_verdict_equiv_congr (ID model of C02 respects `__eq__`, any topological
                                         orders), simplify_id_verdict, evans_id_verdict, evans_id_verdict_latents
    verdicts from the projection ...... verdict_invariant (any function respecting `__eq__`)
    taheri_design._get_result ......... design_result, design_keyError
    evans_simplify .................... evans_projection, evans_id
  Nothing is `_partial`.  The separation theorems of section 2b are proved for the walk formulation; section 2c
  proves it equal to the simple-path definition `MG.MConnPath` of Y0/Spec/SepSpec.lean (the one property C04
  is stated with) and restates the clause with it and with the executable C04 model `MG.dSeparated`.
-/
import Y0.Lemmas.LatentOfMG
import Y0.Lemmas.LatentSimplify
import Y0.Lemmas.LatentEvans
import Y0.Lemmas.LatentSepRule1
import Y0.Lemmas.LatentMsep
import Y0.Lemmas.LatentPath
import Y0.Props.C04
import Y0.Props.C02
import Y0.Lemmas.LatentIdCongr

namespace Y0.LV
open MG IdCongr

/-! ## 1. ADMG → LV-DAG → ADMG -/

/-- the LV-DAG of a mixed graph is a well-formed flat LV-DAG: every latent is exogenous, has observed
children only, and every node carries a tag -/
theorem toLV_wf_flat (fresh : Nat → Nat) (hinj : Function.Injective fresh) (G : MG Nat) (hG : G.WF) :
    (ofMG fresh G).WF ∧ (ofMG fresh G).Flat :=
  ⟨(ofMG_spec fresh hinj G hG).1, (ofMG_spec fresh hinj G hG).2.1⟩

/-- the LV-DAG of a mixed graph has exactly the graph's nodes as observed nodes (edge-less ones included) -/
theorem toLV_observed (fresh : Nat → Nat) (hinj : Function.Injective fresh) (G : MG Nat) (hG : G.WF) (v : Nat) :
    (ofMG fresh G).Observed v ↔ v ∈ G.nodes :=
  (ofMG_spec fresh hinj G hG).2.2.1 v

/-- the latent projection of `to_latent_variable_dag(G)` is `G` -/
theorem toLV_is_projection (fresh : Nat → Nat) (hinj : Function.Injective fresh) (G : MG Nat) (hG : G.WF)
    (hloop : ∀ e ∈ G.bi, e.1 ≠ e.2) : IsProjection (ofMG fresh G) G :=
  ofMG_isProjection fresh hinj G hG hloop

/-- reading a flat LV-DAG back gives its latent projection (`fromLV_is_projection` of DESIGN.md) -/
theorem fromLV_is_projection (D : LV) (hw : D.WF) (hf : D.Flat) :
    ∃ G, D.toMG? = .ok G ∧ IsProjection D G :=
  ⟨D.readOff, toMG?_eq D hw.tagged, readOff_isProjection D hw hf⟩

/-- what `from_latent_variable_dag` returns on ANY fully tagged LV-DAG (flat or not), and that it only
fails for a missing tag: an observed node points at its children, two distinct children of a latent are
joined by a bidirected edge -/
theorem fromLV_edges (D : LV) (hw : D.WF) :
    ∃ G, D.toMG? = .ok G ∧ ∀ a b, (G.DiEdge a b ↔ a ∉ D.latent ∧ D.Edge a b) ∧
      (G.BiEdge a b ↔ a ≠ b ∧ ∃ l, l ∈ D.latent ∧ D.Edge l a ∧ D.Edge l b) :=
  ⟨D.readOff, toMG?_eq D hw.tagged, fun a b =>
    readOff_edges D hw.edges_nodup (fun e he => (hw.edge_mem e he).1) a b⟩

/-- a node without the tag makes `from_latent_variable_dag` raise `ValueError`, nothing else does -/
theorem fromLV_error_iff (D : LV) : (∃ e, D.toMG? = .error e) ↔ D.untagged ≠ [] := by
  unfold toMG?
  cases h : D.untagged with
  | nil => simp
  | cons x xs => simp

/-- **Round trip.** `from_latent_variable_dag(to_latent_variable_dag(G)) == G` for every mixed graph
(no acyclicity needed), nodes without edges included, whatever the nodes are called. -/
theorem roundtrip (fresh : Nat → Nat) (hinj : Function.Injective fresh) (G : MG Nat) (hG : G.WF)
    (hloop : ∀ e ∈ G.bi, e.1 ≠ e.2) :
    ∃ H, (ofMG fresh G).toMG? = .ok H ∧ H.equiv G = true := by
  obtain ⟨hw, hf⟩ := toLV_wf_flat fresh hinj G hG
  obtain ⟨H, hH, hp⟩ := fromLV_is_projection _ hw hf
  exact ⟨H, hH, hp.equiv (toLV_is_projection fresh hinj G hG hloop)⟩

/-- the round trip never fails -/
theorem roundtrip_total (fresh : Nat → Nat) (hinj : Function.Injective fresh) (G : MG Nat) (hG : G.WF) :
    ∃ H, (ofMG fresh G).toMG? = .ok H :=
  ⟨_, toMG?_eq _ (toLV_wf_flat fresh hinj G hG).1.tagged⟩

/-! non-vacuity: a graph with an edge-less node `7`, a node `3` touched only by a bidirected edge, a
parallel directed + bidirected pair, and a node that is already called `u_0` (= 100) -/
example :
    let G := MG.fromEdges [7, 100] [(1, 2), (2, 4)] [(2, 4), (3, 1)]
    let fresh := fun i => 100 + i
    (ofMG fresh G).latent = [101, 102] ∧
    ((ofMG fresh G).toMG?.toOption.map (fun H => H.equiv G)) = some true := by decide

/-! ## 2. Evans simplification

`hp : ∀ n, n < prime n` is the only fact about names that is used: a primed name is a longer string. -/

/-- **Observed nodes are kept** (exactly: none lost, none gained, no observed node re-tagged). -/
theorem simplify_keeps_observed (prime : Nat → Nat) (hp : ∀ n, n < prime n) (D : LV) (hw : D.WF)
    (ha : D.Acyclic) (r : SimplifyResults) (h : D.simplify prime = .ok r) (v : Nat) :
    r.graph.Observed v ↔ D.Observed v :=
  (simplify_spec prime hp D hw ha r h).2.2.2.obs v

/-- the result is again a well-formed acyclic LV-DAG, and it is fully simplified: every latent is
exogenous with at least two children, all observed, and no latent's child set is contained in another's -/
theorem simplify_simplified (prime : Nat → Nat) (hp : ∀ n, n < prime n) (D : LV) (hw : D.WF)
    (ha : D.Acyclic) (r : SimplifyResults) (h : D.simplify prime = .ok r) :
    r.graph.WF ∧ r.graph.Acyclic ∧ r.graph.Simplified :=
  ⟨(simplify_spec prime hp D hw ha r h).1, (simplify_spec prime hp D hw ha r h).2.1,
    (simplify_spec prime hp D hw ha r h).2.2.1⟩

/-- every rule, hence the whole simplification, preserves the latent projection (relationally:
same observed nodes, same `u → v`, same `u ↔ v`) -/
theorem simplify_sameProj (prime : Nat → Nat) (hp : ∀ n, n < prime n) (D : LV) (hw : D.WF)
    (ha : D.Acyclic) (r : SimplifyResults) (h : D.simplify prime = .ok r) : SameProj D r.graph :=
  (simplify_spec prime hp D hw ha r h).2.2.2

/-- **Projection.** The mixed graph read off the simplified DAG is exactly the latent projection of the
ORIGINAL DAG onto its observed nodes. -/
theorem simplify_projection (prime : Nat → Nat) (hp : ∀ n, n < prime n) (D : LV) (hw : D.WF)
    (ha : D.Acyclic) (r : SimplifyResults) (h : D.simplify prime = .ok r) :
    ∃ G, r.graph.toMG? = .ok G ∧ IsProjection D G := by
  obtain ⟨w, _, s, sp⟩ := simplify_spec prime hp D hw ha r h
  obtain ⟨G, hG, hp'⟩ := fromLV_is_projection r.graph w s.flat
  exact ⟨G, hG, IsProjection.of_sameProj sp hp'⟩

/-- one lemma per rule, as named in DESIGN.md -/
theorem rule1_exogenise_sameProj (prime : Nat → Nat) (hp : ∀ n, n < prime n) (D D1 : LV) (hw : D.WF)
    (ha : D.Acyclic) (h : D.transformLatentsWithParents prime = .ok D1) : SameProj D D1 :=
  (transform_spec prime hp D D1 hw ha h).2.2.1

theorem rule2_widows_sameProj (D : LV) (S : List Nat) (hS : ∀ s ∈ S, s ∈ D.latent)
    (hW : ∀ s ∈ S, ∀ c, ¬ D.Edge s c) : SameProj D (D.removeNodes S) :=
  removeWidows_sameProj D S hS hW

theorem rule3_unidirectional_sameProj (D D' : LV) (us : List Nat)
    (h : D.removeUnidirectionalLatents = .ok (D', us)) (hw : D.WF) (hf : D.Flat)
    (hch : ∀ l ∈ D.latent, ∃ c, D.Edge l c) : SameProj D D' :=
  (removeUnidirectionalLatents_spec D D' us h hw hf hch).2.2.1

theorem rule4_redundant_sameProj (D D' : LV) (rs : List Nat)
    (h : D.removeRedundantLatents = .ok (D', rs)) (hw : D.WF) (hf : D.Flat)
    (htwo : ∀ l ∈ D.latent, 2 ≤ (D.children l).length) : SameProj D D' :=
  (removeRedundantLatents_spec D D' rs h hw hf htwo).2.1

/-- **Consequence for every verdict computed from the projected graph** (d- or m-separation tests,
identifiability, implied independencies …): any function of mixed graphs that respects
`NxMixedGraph.__eq__` gives the same answer on the graph read off the simplified DAG as on any latent
projection of the original DAG. -/
theorem verdict_invariant {β : Type} (f : MG Nat → β) (hf : ∀ G H : MG Nat, G.equiv H = true → f G = f H)
    (prime : Nat → Nat) (hp : ∀ n, n < prime n) (D : LV) (hw : D.WF) (ha : D.Acyclic)
    (r : SimplifyResults) (h : D.simplify prime = .ok r) (G0 : MG Nat) (hG0 : IsProjection D G0) :
    ∃ G, r.graph.toMG? = .ok G ∧ f G = f G0 := by
  obtain ⟨G, hG, hp'⟩ := simplify_projection prime hp D hw ha r h
  exact ⟨G, hG, hf G G0 (hp'.equiv hG0)⟩

/-- **Totality.** On a well-formed acyclic LV-DAG `simplify_latent_dag` never raises (this includes:
the model of `nx.topological_sort` succeeds on every acyclic graph, proved in Lemmas/LatentKahn.lean). -/
theorem simplify_total (prime : Nat → Nat) (hp : ∀ n, n < prime n) (D : LV) (hw : D.WF) (ha : D.Acyclic) :
    ∃ r, D.simplify prime = .ok r :=
  simplify_total' prime hp D hw ha

/-- **Idempotence.** Simplifying the result again succeeds, returns the same graph (not merely an equal
one: the same node, edge and tag lists) and reports nothing removed. -/
theorem simplify_idem (prime : Nat → Nat) (hp : ∀ n, n < prime n) (D : LV) (hw : D.WF) (ha : D.Acyclic)
    (r : SimplifyResults) (h : D.simplify prime = .ok r) :
    r.graph.simplify prime = .ok ⟨r.graph, [], [], []⟩ := by
  obtain ⟨w, a, s, _⟩ := simplify_spec prime hp D hw ha r h
  obtain ⟨ls, hls⟩ := iterLatents_total r.graph w a
  exact simplify_fixed prime r.graph w s ls hls

/-! ## 2b. separation among observed nodes INSIDE the LV-DAG is unchanged

`D.DConn Z a b` is d-connection of `a` and `b` given `Z` in the directed graph `D` (latents included),
in the walk formulation of Spec/LatentSpec.lean: colliders must be in `Z` or have a descendant in `Z`,
other inner nodes must be outside `Z`. -/

/-- **Separation invariant.** For all observed `a ≠ b` and every conditioning set of observed nodes,
`a` and `b` are d-connected given `Z` in the simplified DAG iff they are in the original DAG. -/
theorem simplify_dsep_invariant (prime : Nat → Nat) (hp : ∀ n, n < prime n) (D : LV) (hw : D.WF)
    (ha : D.Acyclic) (r : SimplifyResults) (h : D.simplify prime = .ok r) (Z : Nat → Prop) (a b : Nat)
    (hZ : ∀ z, Z z → D.Observed z) (hoa : D.Observed a) (hob : D.Observed b) (hab : a ≠ b) :
    r.graph.DConn Z a b ↔ D.DConn Z a b :=
  simplify_sameSep' prime hp D hw ha r h Z a b hZ hoa hob hab

theorem rule1_exogenise_sameSep (prime : Nat → Nat) (hp : ∀ n, n < prime n) (D D1 : LV) (hw : D.WF)
    (ha : D.Acyclic) (h : D.transformLatentsWithParents prime = .ok D1) : SameSep D D1 :=
  transform_sameSep prime hp D D1 hw ha h

theorem rule2_widows_sameSep (D : LV) (S : List Nat) (hS : ∀ s ∈ S, s ∈ D.latent)
    (hW : ∀ s ∈ S, ∀ c, ¬ D.Edge s c) : SameSep D (D.removeNodes S) :=
  removeWidows_sameSep D S hS hW

/-- rules 3 and 4: on a flat graph, latents all of whose pairs of children are covered by a surviving
latent (vacuous for a single-child latent) can be removed -/
theorem rule34_flat_sameSep (D : LV) (hf : D.Flat) (S : List Nat) (hS : ∀ s ∈ S, s ∈ D.latent)
    (hcover : ∀ s ∈ S, ∀ u w, u ≠ w → D.Edge s u → D.Edge s w →
      ∃ r, r ∈ D.latent ∧ r ∉ S ∧ D.Edge r u ∧ D.Edge r w) : SameSep D (D.removeNodes S) :=
  removeLatents_sameSep_flat D hf S hS hcover

/-- **d-separation inside the LV-DAG is m-separation of its latent projection.**  For every well-formed
acyclic LV-DAG `D`, every latent projection `G` of it, observed `a ≠ b` and observed conditioning set:
`a`, `b` are d-connected given `Z` in `D` iff they are m-connected given `Z` in `G` (both in the walk
formulation of Spec/LatentSpec.lean).  Proved by simplifying `D` first: the simplification preserves the
projection and d-connection, and on a flat DAG a latent is always passed as `c ← l → c'`. -/
theorem dsep_iff_msep_projection (prime : Nat → Nat) (hp : ∀ n, n < prime n) (D : LV) (hw : D.WF)
    (ha : D.Acyclic) (G : MG Nat) (hG : IsProjection D G) (Z : Nat → Prop) (a b : Nat)
    (hZ : ∀ z, Z z → D.Observed z) (hoa : D.Observed a) (hob : D.Observed b) (hab : a ≠ b) :
    D.DConn Z a b ↔ MConnMixed G Z a b :=
  dconn_iff_mconn_projection' prime hp D hw ha G hG Z a b hZ hoa hob hab

/-- hence: m-connection in the mixed graph read off the simplified DAG is d-connection in the original DAG -/
theorem simplify_msep_invariant (prime : Nat → Nat) (hp : ∀ n, n < prime n) (D : LV) (hw : D.WF)
    (ha : D.Acyclic) (r : SimplifyResults) (h : D.simplify prime = .ok r) (Z : Nat → Prop) (a b : Nat)
    (hZ : ∀ z, Z z → D.Observed z) (hoa : D.Observed a) (hob : D.Observed b) (hab : a ≠ b) :
    ∃ G, r.graph.toMG? = .ok G ∧ (MConnMixed G Z a b ↔ D.DConn Z a b) := by
  obtain ⟨G, hG, hproj⟩ := simplify_projection prime hp D hw ha r h
  exact ⟨G, hG, (dsep_iff_msep_projection prime hp D hw ha G hproj Z a b hZ hoa hob hab).symm⟩

/-! ## 2c. the separation clause with the textbook definition property C04 is stated with

`G.MConnPath a b C` (Y0/Spec/SepSpec.lean) is the textbook definition: an m-connecting PATH, no node visited
twice, every collider an ancestor of `C`, every other inner node outside `C`; for a graph without
bidirected edges this is d-connection.  `D.asMG` is the LV-DAG as such a graph: all nodes (latents
included), the directed edges, no bidirected edge.  The walk formulation used in 2b is proved equal to
it (`dconn_walk_iff_path`, `mconn_walk_iff_path`; the walk → path shortening is Lemmas/SepPath.lean of the
`sep` family), so the theorems of 2b can be restated with `MConnPath`, and with the verdict of the
executable C04 model `MG.dSeparated` (= `are_d_separated`), which C04 proves equal to `¬ MConnPath`. -/

/-- **walk formulation = path formulation**, LV-DAG: `D.DConn` (walks, `Reach`) is d-connection by a
simple path in the directed graph `D.asMG` -/
theorem dconn_walk_iff_path (D : LV) (C : List Nat) (a b : Nat) (hab : a ≠ b) (ha : a ∉ C) (hb : b ∉ C) :
    D.DConn (fun z => z ∈ C) a b ↔ D.asMG.MConnPath a b C :=
  dconn_iff_mconnPath_asMG D C a b hab ha hb

/-- **walk formulation = path formulation**, mixed graph: `MConnMixed` (walks, `MixedReach`) is
m-connection by a simple path -/
theorem mconn_walk_iff_path (G : MG Nat) (C : List Nat) (a b : Nat) (hab : a ≠ b) (ha : a ∉ C) (hb : b ∉ C) :
    MConnMixed G (fun z => z ∈ C) a b ↔ G.MConnPath a b C :=
  mconnMixed_iff_mconnPath G C a b hab ha hb

/-- `simplify_dsep_invariant` with the textbook definition: the simplified DAG and the original DAG have
the same d-connecting paths between observed nodes given observed conditioning sets -/
theorem simplify_dsep_invariant_path (prime : Nat → Nat) (hp : ∀ n, n < prime n) (D : LV) (hw : D.WF)
    (ha : D.Acyclic) (r : SimplifyResults) (h : D.simplify prime = .ok r) (C : List Nat) (a b : Nat)
    (hC : ∀ c ∈ C, D.Observed c) (hoa : D.Observed a) (hob : D.Observed b) (hab : a ≠ b)
    (haC : a ∉ C) (hbC : b ∉ C) :
    r.graph.asMG.MConnPath a b C ↔ D.asMG.MConnPath a b C := by
  rw [← dconn_walk_iff_path _ C a b hab haC hbC, ← dconn_walk_iff_path _ C a b hab haC hbC]
  exact simplify_dsep_invariant prime hp D hw ha r h _ a b hC hoa hob hab

/-- `dsep_iff_msep_projection` with the textbook definition: a d-connecting path between two observed
nodes inside the LV-DAG (through latents) exists iff an m-connecting path exists in the latent projection -/
theorem dsep_iff_msep_projection_path (D : LV) (hw : D.WF) (ha : D.Acyclic) (G : MG Nat)
    (hG : IsProjection D G) (C : List Nat) (a b : Nat) (hC : ∀ c ∈ C, D.Observed c)
    (hoa : D.Observed a) (hob : D.Observed b) (hab : a ≠ b) (haC : a ∉ C) (hbC : b ∉ C) :
    D.asMG.MConnPath a b C ↔ G.MConnPath a b C := by
  rw [← dconn_walk_iff_path D C a b hab haC hbC, ← mconn_walk_iff_path G C a b hab haC hbC]
  exact dsep_iff_msep_projection (· + 1) (fun n => Nat.lt_succ_self n) D hw ha G hG _ a b hC hoa hob hab

/-- two graphs with the same m-connecting paths for a query get the same verdict from the C04 model
(by C04's `dsep_iff_mseparated`) -/
theorem dSeparated_eq_of_mconnPath_iff (G H : MG Nat) (hG : G.WF) (hH : H.WF) (a b : Nat) (C : List Nat)
    (hqG : G.ValidQuery a b C) (hqH : H.ValidQuery a b C) (hab : a ≠ b) (haC : a ∉ C) (hbC : b ∉ C)
    (h : G.MConnPath a b C ↔ H.MConnPath a b C) : G.dSeparated a b C = H.dSeparated a b C := by
  obtain ⟨s, hs⟩ := dsep_total G hG a b C hqG haC hbC
  obtain ⟨t, ht⟩ := dsep_total H hH a b C hqH haC hbC
  have h1 := dsep_iff_mseparated G hG a b C hqG hab haC hbC s hs
  have h2 := dsep_iff_mseparated H hH a b C hqH hab haC hbC t ht
  rw [hs, ht]
  congr 1
  have : s = true ↔ t = true := by rw [h1, h2, h]
  cases s <;> cases t <;> simp_all

/-- **Separation among observed nodes, strongest reading.**  For observed `a ≠ b` and an observed
conditioning set, the verdict of `are_d_separated` (the C04 model) on the LV-DAG itself — taken as a DAG
with the latents as ordinary nodes — equals its verdict on any latent projection of the LV-DAG. -/
theorem lvdag_dsep_model_eq_projection (D : LV) (hw : D.WF) (ha : D.Acyclic) (G : MG Nat)
    (hG : IsProjection D G) (hGw : G.WF) (C : List Nat) (a b : Nat) (hC : ∀ c ∈ C, D.Observed c)
    (hoa : D.Observed a) (hob : D.Observed b) (hab : a ≠ b) (haC : a ∉ C) (hbC : b ∉ C) :
    D.asMG.dSeparated a b C = G.dSeparated a b C :=
  dSeparated_eq_of_mconnPath_iff D.asMG G (asMG_wf D hw) hGw a b C
    ⟨hoa.1, hob.1, fun c hc => (hC c hc).1⟩
    ⟨(hG.nodes a).2 hoa, (hG.nodes b).2 hob, fun c hc => (hG.nodes c).2 (hC c hc)⟩ hab haC hbC
    (dsep_iff_msep_projection_path D hw ha G hG C a b hC hoa hob hab haC hbC)

/-- **`simplify_preserves_dsep_model`.**  The mixed graph read off the simplified DAG is well formed and,
for observed `a ≠ b` and observed `C`, `are_d_separated` (the C04 model) gives on it
  (1) the verdict it gives on any latent projection `G0` of the ORIGINAL DAG,
  (2) the verdict it gives on the original DAG itself (latents as ordinary nodes), and
  (3) the verdict it gives on the simplified DAG itself. -/
theorem simplify_preserves_dsep_model (prime : Nat → Nat) (hp : ∀ n, n < prime n) (D : LV) (hw : D.WF)
    (ha : D.Acyclic) (r : SimplifyResults) (h : D.simplify prime = .ok r) (C : List Nat) (a b : Nat)
    (hC : ∀ c ∈ C, D.Observed c) (hoa : D.Observed a) (hob : D.Observed b) (hab : a ≠ b)
    (haC : a ∉ C) (hbC : b ∉ C) :
    ∃ G, r.graph.toMG? = .ok G ∧ G.WF ∧
      (∀ G0 : MG Nat, IsProjection D G0 → G0.WF → G.dSeparated a b C = G0.dSeparated a b C) ∧
      G.dSeparated a b C = D.asMG.dSeparated a b C ∧
      G.dSeparated a b C = r.graph.asMG.dSeparated a b C := by
  obtain ⟨G, hG, hproj⟩ := simplify_projection prime hp D hw ha r h
  have hGw := toMG?_wf _ G hG
  obtain ⟨w', a', _, sp⟩ := simplify_spec prime hp D hw ha r h
  have hproj' : IsProjection r.graph G := ⟨fun v => by rw [hproj.nodes, sp.obs],
    fun u v => by rw [hproj.di, sp.di], fun u v => by rw [hproj.bi, sp.bi]⟩
  refine ⟨G, hG, hGw, fun G0 h0 hw0 => ?_, ?_, ?_⟩
  · exact dsep_equiv_congr G G0 hGw hw0 (hproj.equiv h0) a b C
  · exact (lvdag_dsep_model_eq_projection D hw ha G hproj hGw C a b hC hoa hob hab haC hbC).symm
  · exact (lvdag_dsep_model_eq_projection r.graph w' a' G hproj' hGw C a b
      (fun c hc => (sp.obs c).2 (hC c hc)) ((sp.obs a).2 hoa) ((sp.obs b).2 hob) hab haC hbC).symm

/-- the verdict really is the textbook one: `are_d_separated` on the read-off graph says "separated"
exactly when no d-connecting path joins `a` and `b` given `C` inside the ORIGINAL LV-DAG -/
theorem simplify_dsep_verdict_iff_no_path (prime : Nat → Nat) (hp : ∀ n, n < prime n) (D : LV) (hw : D.WF)
    (ha : D.Acyclic) (r : SimplifyResults) (h : D.simplify prime = .ok r) (C : List Nat) (a b : Nat)
    (hC : ∀ c ∈ C, D.Observed c) (hoa : D.Observed a) (hob : D.Observed b) (hab : a ≠ b)
    (haC : a ∉ C) (hbC : b ∉ C) :
    ∃ G s, r.graph.toMG? = .ok G ∧ G.dSeparated a b C = .ok s ∧ (s = true ↔ ¬ D.asMG.MConnPath a b C) := by
  obtain ⟨G, hG, hproj⟩ := simplify_projection prime hp D hw ha r h
  have hGw := toMG?_wf _ G hG
  have hq : G.ValidQuery a b C :=
    ⟨(hproj.nodes a).2 hoa, (hproj.nodes b).2 hob, fun c hc => (hproj.nodes c).2 (hC c hc)⟩
  obtain ⟨s, hs⟩ := dsep_total G hGw a b C hq haC hbC
  refine ⟨G, s, hG, hs, ?_⟩
  rw [dsep_iff_mseparated G hGw a b C hq hab haC hbC s hs,
    dsep_iff_msep_projection_path D hw ha G hproj C a b hC hoa hob hab haC hbC]

/- non-vacuity of 2c: in `exampleDag` (defined below) `2` and `3` are observed, distinct, and joined by
the d-connecting simple path `2 ← 10 → 11 → 3` — see the examples at the end of the file -/

/-! ## 2d. identifiability verdicts among observed nodes are unchanged

`identify topo G X Y` is the model of `y0.algorithm.identify.identify` (Y0/Model/Id.lean, property C02); `topo`
stands for `graph.topological_sort()`, whose result depends on insertion order / hash seed, so the theorems
quantify over EVERY pair of admissible sorters (`TopoGood`: returns a list of exactly the nodes).
`(identify …).isOk` is the verdict: `true` = an estimand is returned, `false` = `Unidentifiable`
(`id_total`: nothing else happens on a valid query). -/

/-- **The ID verdict respects `NxMixedGraph.__eq__`** and does not depend on the topological orders used:
two constructions of the same graph (any insertion order) give the same verdict on every valid query. -/
theorem id_verdict_equiv_congr {t1 t2 : MG Name → Except Err (List Name)} (ht1 : TopoGood t1) (ht2 : TopoGood t2)
    (G H : MG Nat) (X Y : List Nat) (hq : ValidQuery G X Y) (hH : H.WF) (h : G.equiv H = true) :
    (identify t1 G X Y).isOk = (identify t2 H X Y).isOk :=
  identify_isOk_congr ht1 ht2 hq hH (gsim_of_equiv h) (fun _ => Iff.rfl) (fun _ => Iff.rfl)

/-- the latent projection of an acyclic LV-DAG is acyclic -/
theorem projection_acyclic {D : LV} {G : MG Nat} (hG : IsProjection D G) (ha : D.Acyclic) : G.Acyclic := by
  have key : ∀ a b, Relation.TransGen G.DiEdge a b → Relation.TransGen D.Edge a b := by
    intro a b hab
    induction hab with
    | single e => exact ((hG.di _ _).1 e).2.2.transGen
    | tail _ e ih => exact ih.trans ((hG.di _ _).1 e).2.2.transGen
  exact fun v hv => ha v (key v v hv)

/-- queries over the observed nodes are valid queries of every latent projection -/
theorem projection_validQuery {D : LV} {G : MG Nat} (hG : IsProjection D G) (hGw : G.WF) (ha : D.Acyclic)
    (X Y : List Nat) (hY : ∀ y ∈ Y, D.Observed y) (hne : Y ≠ []) (hdisj : ∀ y ∈ Y, y ∉ X) : ValidQuery G X Y :=
  ⟨hGw, MG.acyclic_ranked hGw (projection_acyclic hG ha), fun y hy => (hG.nodes y).2 (hY y hy), hne, hdisj⟩

/-- **Identifiability verdicts are unchanged by the simplification.**  For every query over the observed
nodes, ID run on the mixed graph read off the simplified DAG gives the verdict ID gives on any latent
projection `G0` of the ORIGINAL DAG (no congruence hypothesis: `id_verdict_equiv_congr`). -/
theorem simplify_id_verdict (prime : Nat → Nat) (hp : ∀ n, n < prime n) (D : LV) (hw : D.WF) (ha : D.Acyclic)
    (r : SimplifyResults) (h : D.simplify prime = .ok r) (G0 : MG Nat) (hG0 : IsProjection D G0) (hG0w : G0.WF)
    {t1 t2 : MG Name → Except Err (List Name)} (ht1 : TopoGood t1) (ht2 : TopoGood t2)
    (X Y : List Nat) (hY : ∀ y ∈ Y, D.Observed y) (hne : Y ≠ []) (hdisj : ∀ y ∈ Y, y ∉ X) :
    ∃ G, r.graph.toMG? = .ok G ∧ (identify t1 G X Y).isOk = (identify t2 G0 X Y).isOk ∧
      (identify t1 G X Y = .error .unidentifiable ↔ identify t2 G0 X Y = .error .unidentifiable) := by
  obtain ⟨G, hG, hproj⟩ := simplify_projection prime hp D hw ha r h
  have hGw := toMG?_wf _ G hG
  have hq := projection_validQuery hproj hGw ha X Y hY hne hdisj
  have hq0 := projection_validQuery hG0 hG0w ha X Y hY hne hdisj
  have hv := id_verdict_equiv_congr ht1 ht2 G G0 X Y hq hG0w (hproj.equiv hG0)
  refine ⟨G, hG, hv, ?_⟩
  rcases id_total ht1 G X Y hq with ⟨e, he⟩ | he <;> rcases id_total ht2 G0 X Y hq0 with ⟨e', he'⟩ | he' <;>
    rw [he, he'] at hv ⊢ <;> simp [Except.isOk, Except.toBool] at hv ⊢

/-! ## 3. `evans_simplify` (ADMG → LV-DAG, mark extra latents, simplify, read back) -/

/-- `evans_simplify(G, latents=extra)` never raises on an acyclic mixed graph and returns the latent
projection of the LV-DAG of `G` with the extra nodes marked latent -/
theorem evans_projection (fresh prime : Nat → Nat) (hinj : Function.Injective fresh) (hp : ∀ n, n < prime n)
    (G : MG Nat) (hG : G.WF) (ha : G.Acyclic) (extra : List Nat) :
    ∃ H, evansSimplify fresh prime G extra = .ok H ∧
      IsProjection ((ofMG fresh G).markLatent extra) H := by
  have hw := wf_markLatent _ extra (toLV_wf_flat fresh hinj G hG).1
  have hac : ((ofMG fresh G).markLatent extra).Acyclic := ofMG_acyclic fresh hinj G hG ha
  obtain ⟨r, hr⟩ := simplify_total prime hp _ hw hac
  obtain ⟨H, hH, hproj⟩ := simplify_projection prime hp _ hw hac r hr
  refine ⟨H, ?_, hproj⟩
  unfold evansSimplify
  simp only [hr, bind, Except.bind]
  exact hH

/-- without extra latents `evans_simplify` returns a graph equal to its argument -/
theorem evans_id (fresh prime : Nat → Nat) (hinj : Function.Injective fresh) (hp : ∀ n, n < prime n)
    (G : MG Nat) (hG : G.WF) (ha : G.Acyclic) (hloop : ∀ e ∈ G.bi, e.1 ≠ e.2) :
    ∃ H, evansSimplify fresh prime G [] = .ok H ∧ H.equiv G = true := by
  obtain ⟨H, hH, hproj⟩ := evans_projection fresh prime hinj hp G hG ha []
  rw [markLatent_nil] at hproj
  exact ⟨H, hH, hproj.equiv (toLV_is_projection fresh hinj G hG hloop)⟩

theorem evansSimplify_wf (fresh prime : Nat → Nat) (G : MG Nat) (extra : List Nat) (H : MG Nat)
    (h : evansSimplify fresh prime G extra = .ok H) : H.WF := by
  unfold evansSimplify at h
  simp only [bind, Except.bind] at h
  split at h
  · cases h
  · exact toMG?_wf _ H h

/-- **`evans_id_verdict`**: ID gives the same verdict on `evans_simplify(G)` as on `G`, for every valid
query and every pair of admissible topological sorters — no hypothesis that ID respects `__eq__` -/
theorem evans_id_verdict (fresh prime : Nat → Nat) (hinj : Function.Injective fresh) (hp : ∀ n, n < prime n)
    (G : MG Nat) (hG : G.WF) (ha : G.Acyclic) (hloop : ∀ e ∈ G.bi, e.1 ≠ e.2)
    {t1 t2 : MG Name → Except Err (List Name)} (ht1 : TopoGood t1) (ht2 : TopoGood t2)
    (X Y : List Nat) (hY : ∀ y ∈ Y, y ∈ G.nodes) (hne : Y ≠ []) (hdisj : ∀ y ∈ Y, y ∉ X) :
    ∃ H, evansSimplify fresh prime G [] = .ok H ∧ (identify t1 H X Y).isOk = (identify t2 G X Y).isOk := by
  obtain ⟨H, hH, heq⟩ := evans_id fresh prime hinj hp G hG ha hloop
  have hq : ValidQuery G X Y := ⟨hG, MG.acyclic_ranked hG ha, hY, hne, hdisj⟩
  refine ⟨H, hH, ?_⟩
  exact (id_verdict_equiv_congr ht2 ht1 G H X Y hq (evansSimplify_wf _ _ _ _ _ hH) (MG.equiv_symm _ _ heq)).symm

/-- with extra latents: the verdict on `evans_simplify(G, latents)` is the verdict on any latent
projection `G0` of the LV-DAG of `G` with the extra nodes marked latent -/
theorem evans_id_verdict_latents (fresh prime : Nat → Nat) (hinj : Function.Injective fresh) (hp : ∀ n, n < prime n)
    (G : MG Nat) (hG : G.WF) (ha : G.Acyclic) (extra : List Nat) (G0 : MG Nat)
    (hG0 : IsProjection ((ofMG fresh G).markLatent extra) G0) (hG0w : G0.WF)
    {t1 t2 : MG Name → Except Err (List Name)} (ht1 : TopoGood t1) (ht2 : TopoGood t2)
    (X Y : List Nat) (hY : ∀ y ∈ Y, ((ofMG fresh G).markLatent extra).Observed y) (hne : Y ≠ [])
    (hdisj : ∀ y ∈ Y, y ∉ X) :
    ∃ H, evansSimplify fresh prime G extra = .ok H ∧ (identify t1 H X Y).isOk = (identify t2 G0 X Y).isOk := by
  obtain ⟨H, hH, hproj⟩ := evans_projection fresh prime hinj hp G hG ha extra
  have hac : ((ofMG fresh G).markLatent extra).Acyclic := ofMG_acyclic fresh hinj G hG ha
  have hHw := evansSimplify_wf _ _ _ _ _ hH
  exact ⟨H, hH, id_verdict_equiv_congr ht1 ht2 H G0 X Y
    (projection_validQuery hproj hHw hac X Y hY hne hdisj) hG0w (hproj.equiv hG0)⟩

/-! ## 4. the consumer `taheri_design._get_result` (simplify, read off, run ID on `P(effect | do(cause))`) -/

/-- **`_get_result`.**  On a well-formed acyclic LV-DAG with observed `cause ≠ effect` it never raises; the
counts it reports are those of the input and of the simplified DAG; the ADMG it returns is the latent
projection of the INPUT DAG; and its verdict `identifiable` is the verdict of ID on ANY latent projection
`G0` of the input DAG (for every admissible topological sorter on either side). -/
theorem design_result (prime : Nat → Nat) (hp : ∀ n, n < prime n) (D : LV) (hw : D.WF) (ha : D.Acyclic)
    {topo : MG Name → Except Err (List Name)} (ht : TopoGood topo) (c e : Nat) (hc : D.Observed c)
    (he : D.Observed e) (hce : c ≠ e) :
    ∃ res r, D.getResult prime topo c e = .ok res ∧ D.simplify prime = .ok r ∧
      res.preNodes = D.nodes.length ∧ res.preEdges = D.edges.length ∧
      res.postNodes = r.graph.nodes.length ∧ res.postEdges = r.graph.edges.length ∧
      r.graph.toMG? = .ok res.admg ∧ IsProjection D res.admg ∧
      ∀ (G0 : MG Nat) (topo' : MG Name → Except Err (List Name)), IsProjection D G0 → G0.WF → TopoGood topo' →
        res.identifiable = (identify topo' G0 [c] [e]).isOk := by
  obtain ⟨r, hr⟩ := simplify_total prime hp D hw ha
  obtain ⟨G, hG, hproj⟩ := simplify_projection prime hp D hw ha r hr
  have hGw := toMG?_wf _ G hG
  have hcG : c ∈ G.nodes := (hproj.nodes c).2 hc
  have heG : e ∈ G.nodes := (hproj.nodes e).2 he
  have hY : ∀ y ∈ [e], D.Observed y := by intro y hy; simp at hy; subst hy; exact he
  have hdisj : ∀ y ∈ [e], y ∉ [c] := by intro y hy; simp at hy; subst hy; simpa using fun h => hce h.symm
  have hq := projection_validQuery hproj hGw ha [c] [e] hY (by simp) hdisj
  have key : ∀ b : Bool, b = (identify topo G [c] [e]).isOk →
      ∀ (G0 : MG Nat) (topo' : MG Name → Except Err (List Name)), IsProjection D G0 → G0.WF → TopoGood topo' →
        b = (identify topo' G0 [c] [e]).isOk := by
    intro b hb G0 topo' h0 hw0 ht'
    rw [hb]
    exact id_verdict_equiv_congr ht ht' G G0 [c] [e] hq hw0 (hproj.equiv h0)
  rcases id_total ht G [c] [e] hq with ⟨est, hest⟩ | hun
  · refine ⟨⟨true, D.nodes.length, D.edges.length, r.graph.nodes.length, r.graph.edges.length, G⟩, r,
      ?_, hr, rfl, rfl, rfl, rfl, hG, hproj, key true (by rw [hest]; rfl)⟩
    unfold getResult
    simp [hr, hG, hcG, heG, hest, bind, Except.bind]
  · refine ⟨⟨false, D.nodes.length, D.edges.length, r.graph.nodes.length, r.graph.edges.length, G⟩, r,
      ?_, hr, rfl, rfl, rfl, rfl, hG, hproj, key false (by rw [hun]; rfl)⟩
    unfold getResult
    simp [hr, hG, hcG, heG, hun, bind, Except.bind]

/-- a cause or effect that is not an observed node of the (well-formed, acyclic) LV-DAG: `KeyError` -/
theorem design_keyError (prime : Nat → Nat) (hp : ∀ n, n < prime n) (D : LV) (hw : D.WF) (ha : D.Acyclic)
    (topo : MG Name → Except Err (List Name)) (c e : Nat) (h : ¬ D.Observed c ∨ ¬ D.Observed e) :
    D.getResult prime topo c e = .error (.invalidInput "KeyError") := by
  obtain ⟨r, hr⟩ := simplify_total prime hp D hw ha
  obtain ⟨G, hG, hproj⟩ := simplify_projection prime hp D hw ha r hr
  unfold getResult
  by_cases hc : c ∈ G.nodes
  · have he : e ∉ G.nodes := fun he => by
      rcases h with h | h
      · exact h ((hproj.nodes c).1 hc)
      · exact h ((hproj.nodes e).1 he)
    simp [hr, hG, hc, he, bind, Except.bind]
  · simp [hr, hG, hc, bind, Except.bind]

/-! ## non-vacuity: an LV-DAG on which every rule fires

nodes 1,2,3,4 observed; latents 10 (middle: parent 1, children 11 and 2), 11 (middle: parent 10,
children 3 and 4), 12 (exogenous, children 3 and 4: made redundant by the copy of 11... or vice versa),
13 (one child), 14 → 15 (a widow chain).  `prime n = n + 100`. -/
def exampleDag : LV :=
  { nodes := [1, 2, 3, 4, 10, 11, 12, 13, 14, 15],
    edges := [(1, 10), (10, 11), (10, 2), (11, 3), (11, 4), (12, 3), (12, 4), (13, 2), (14, 15)],
    latent := [10, 11, 12, 13, 14, 15] }

/-- the hypotheses of the theorems of section 2 hold for it -/
example : exampleDag.WF ∧ exampleDag.Acyclic ∧ (∀ n : Nat, n < n + 100) := by
  refine ⟨⟨by decide, by decide, by decide, by decide, rfl⟩, ?_, fun n => by omega⟩
  exact acyclic_of_rank exampleDag
    (fun n => if n = 10 ∨ n = 15 then 1 else if n = 11 ∨ n = 2 then 2 else if n = 3 ∨ n = 4 then 3 else 0) (by decide)

example :
    ((exampleDag.simplify (· + 100)).toOption.map
        (fun r => (r.graph.latent, r.widows, r.unidirectional, r.redundant)))
      = some ([110], [15, 14], [13], [12, 111]) := by decide

example :
    ((exampleDag.simplify (· + 100)).toOption.map (fun r => r.graph.toMG?.toOption.map
        (fun G => (G.nodes, G.di, G.bi)))) =
      some (some ([1, 2, 3, 4], [(1, 2), (1, 3), (1, 4)], [(2, 3), (2, 4), (3, 4)])) := by decide

/-- non-vacuity of the separation clause: in `exampleDag`, `2` and `3` are d-connected given `∅`
(walk `2 ← 10 → 11 → 3` through two latents) -/
theorem exampleDag_dconn : exampleDag.DConn (fun z => z ∈ ([] : List Nat)) 2 3 :=
  ⟨true, .chainDown (.fork (.startUp (p := 10) (by unfold Edge; decide)) (by simp) (c := 11)
    (by unfold Edge; decide)) (by simp) (c := 3) (by unfold Edge; decide)⟩

/-- … hence (section 2c) by a simple d-connecting path in the DAG, and the C04 model says so on the DAG
itself and on the graph read off the simplified DAG -/
example : exampleDag.asMG.MConnPath 2 3 [] :=
  (dconn_walk_iff_path exampleDag [] 2 3 (by decide) (by simp) (by simp)).1 exampleDag_dconn

/-- a separation that holds: `1 → L → 2 → 3` with `L` latent; `1 ⟂ 3 | 2` in the DAG and in the projection -/
def chainDag : LV := { nodes := [1, 2, 3, 10], edges := [(1, 10), (10, 2), (2, 3)], latent := [10] }

example : chainDag.asMG.dSeparated 1 3 [2] = .ok true := by decide
example : chainDag.asMG.dSeparated 1 3 [] = .ok false := by decide
example :
    ((chainDag.simplify (· + 100)).toOption.bind (fun r => r.graph.toMG?.toOption)).map
      (fun G => ((G.dSeparated 1 3 [2]).toOption, (G.dSeparated 1 3 []).toOption, G.di, G.bi)) =
      some (some true, some false, [(1, 2), (2, 3)], []) := by decide

/-! non-vacuity of sections 2d and 4: `chainDag` satisfies the hypotheses, an admissible topological sorter
exists (`ancTopo`, Lemmas/IdTopoAnc.lean), `1` and `3` are distinct observed nodes -/
theorem chainDag_wf_acyclic : chainDag.WF ∧ chainDag.Acyclic :=
  ⟨⟨by decide, by decide, by decide, by decide, rfl⟩,
    acyclic_of_rank chainDag (fun n => if n = 1 then 0 else if n = 10 then 1 else if n = 2 then 2 else 3) (by decide)⟩

example : TopoGood ancTopo := ancTopo_good

example := design_result (· + 100) (fun n => by omega) chainDag chainDag_wf_acyclic.1 chainDag_wf_acyclic.2
  ancTopo_good 1 3 ⟨by decide, by decide⟩ ⟨by decide, by decide⟩ (by decide)

example (r : SimplifyResults) (h : chainDag.simplify (· + 100) = .ok r) (G0 : MG Nat)
    (hG0 : IsProjection chainDag G0) (hG0w : G0.WF) :=
  simplify_id_verdict (· + 100) (fun n => by omega) chainDag chainDag_wf_acyclic.1 chainDag_wf_acyclic.2 r h G0 hG0 hG0w
    ancTopo_good ancTopo_good [1] [3] (by intro y hy; simp at hy; subst hy; exact ⟨by decide, by decide⟩)
    (by simp) (by simp)

end Y0.LV
