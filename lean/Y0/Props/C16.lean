/-
  Property C16 — LV-DAG conversion round-trips; Evans simplification keeps the observed model.

  Only property theorems and non-vacuity examples live here; helper lemmas are in Y0/Lemmas/Latent*.lean.
  Every theorem is about the executable model `Y0.Model.Latent`, which the correspondence check
  (harness/props/c16.py) compares with `y0.graph` / `y0.algorithm.simplify_latent` on every run.

  Reading guide.  `D.Observed v`, `D.LatPath a b`, `D.ProjDi`, `D.ProjBi`, `IsProjection D G`, `D.WF`,
  `D.Acyclic`, `D.Flat`, `D.Simplified` are the relational definitions of Y0/Spec/LatentSpec.lean.
  `fresh i` is the name `u_i` and `prime v` the name `v_prime`; the only thing assumed about the naming
  is that different indices give different names (`Function.Injective fresh`) and that a primed name is
  larger than the name it was made from (`∀ n, n < prime n`: "x" < "x_prime" as strings).
-/
import Y0.Lemmas.LatentOfMG

namespace Y0.LV
open MG

/-! ## 1. ADMG → LV-DAG → ADMG -/

/-- the LV-DAG of a mixed graph is a well-formed flat LV-DAG: every latent is exogenous, has observed
children only, and every node carries a tag -/
theorem toLV_wf_flat (fresh : Nat → Nat) (hinj : Function.Injective fresh) (G : MG Nat) (hG : G.WF) :
    (ofMG fresh G).WF ∧ (ofMG fresh G).Flat :=
  ⟨(ofMG_spec fresh hinj G hG).1, (ofMG_spec fresh hinj G hG).2.1⟩

/-- the LV-DAG of a mixed graph has exactly the graph's nodes as observed nodes (edge-less ones included) -/
theorem toLV_observed (fresh : Nat → Nat) (hinj : Function.Injective fresh) (G : MG Nat) (hG : G.WF) (v : Nat) :
    (ofMG fresh G).Observed v ↔ v ∈ G.nodes :=
  (ofMG_spec fresh hinj G hG).2.2.1 v

/-- the latent projection of `to_latent_variable_dag(G)` is `G` -/
theorem toLV_is_projection (fresh : Nat → Nat) (hinj : Function.Injective fresh) (G : MG Nat) (hG : G.WF)
    (hloop : ∀ e ∈ G.bi, e.1 ≠ e.2) : IsProjection (ofMG fresh G) G :=
  ofMG_isProjection fresh hinj G hG hloop

/-- reading a flat LV-DAG back gives its latent projection (`fromLV_is_projection` of DESIGN.md) -/
theorem fromLV_is_projection (D : LV) (hw : D.WF) (hf : D.Flat) :
    ∃ G, D.toMG? = .ok G ∧ IsProjection D G :=
  ⟨D.readOff, toMG?_eq D hw.tagged, readOff_isProjection D hw hf⟩

/-- **Round trip.** `from_latent_variable_dag(to_latent_variable_dag(G)) == G` for every mixed graph
(no acyclicity needed), nodes without edges included, whatever the nodes are called. -/
theorem roundtrip (fresh : Nat → Nat) (hinj : Function.Injective fresh) (G : MG Nat) (hG : G.WF)
    (hloop : ∀ e ∈ G.bi, e.1 ≠ e.2) :
    ∃ H, (ofMG fresh G).toMG? = .ok H ∧ H.equiv G = true := by
  obtain ⟨hw, hf⟩ := toLV_wf_flat fresh hinj G hG
  obtain ⟨H, hH, hp⟩ := fromLV_is_projection _ hw hf
  exact ⟨H, hH, hp.equiv (toLV_is_projection fresh hinj G hG hloop)⟩

/-- the round trip never fails -/
theorem roundtrip_total (fresh : Nat → Nat) (hinj : Function.Injective fresh) (G : MG Nat) (hG : G.WF) :
    ∃ H, (ofMG fresh G).toMG? = .ok H :=
  ⟨_, toMG?_eq _ (toLV_wf_flat fresh hinj G hG).1.tagged⟩

/-! non-vacuity: a graph with an edge-less node `7`, a node `3` touched only by a bidirected edge, a
parallel directed + bidirected pair, and a node that is already called `u_0` (= 100) -/
example :
    let G := MG.fromEdges [7, 100] [(1, 2), (2, 4)] [(2, 4), (3, 1)]
    let fresh := fun i => 100 + i
    (ofMG fresh G).latent = [101, 102] ∧
    ((ofMG fresh G).toMG?.toOption.map (fun H => H.equiv G)) = some true := by decide

end Y0.LV
