/-
  Property C16 — LV-DAG conversion round-trips; Evans simplification keeps the observed model.

  Only property theorems and non-vacuity examples live here; helper lemmas are in Y0/Lemmas/Latent*.lean.
  Every theorem is about the executable model `Y0.Model.Latent`, which the correspondence check
  (harness/props/c16.py) compares with `y0.graph` / `y0.algorithm.simplify_latent` on every run.

  Reading guide.  `D.Observed v`, `D.LatPath a b`, `D.ProjDi`, `D.ProjBi`, `IsProjection D G`, `D.WF`,
  `D.Acyclic`, `D.Flat`, `D.Simplified` are the relational definitions of Y0/Spec/LatentSpec.lean.
  `fresh i` is the name `u_i` and `prime v` the name `v_prime`; the only thing assumed about the naming
  is that different indices give different names (`Function.Injective fresh`) and that a primed name is
  larger than the name it was made from (`∀ n, n < prime n`: "x" < "x_prime" as strings).
  `D.DConn Z a b` / `MConnMixed G Z a b` are d-connection in the LV-DAG / m-connection in a mixed graph in
  the walk formulation (a collider needs a descendant-or-self in `Z`, every other inner node is outside `Z`).

  Clauses of the property and their theorems:
    round trip ........................ roundtrip, roundtrip_total, toLV_is_projection, toLV_observed
    simplification is total ........... simplify_total
    idempotent ........................ simplify_idem
    keeps every observed node ......... simplify_keeps_observed
    read-off graph = projection ....... simplify_projection (rule1..rule4_*_sameProj, fromLV_is_projection)
    separation unchanged .............. simplify_dsep_invariant, dsep_iff_msep_projection, simplify_msep_invariant
    verdicts from the projection ...... verdict_invariant
    evans_simplify .................... evans_projection, evans_id
  Nothing is `_partial`; the one classical fact that is used informally when reading the separation
  theorems (walk formulation = path formulation) is listed as OPEN at the end of section 2b.
-/
import Y0.Lemmas.LatentOfMG
import Y0.Lemmas.LatentSimplify
import Y0.Lemmas.LatentEvans
import Y0.Lemmas.LatentSepRule1
import Y0.Lemmas.LatentMsep

namespace Y0.LV
open MG

/-! ## 1. ADMG → LV-DAG → ADMG -/

/-- the LV-DAG of a mixed graph is a well-formed flat LV-DAG: every latent is exogenous, has observed
children only, and every node carries a tag -/
theorem toLV_wf_flat (fresh : Nat → Nat) (hinj : Function.Injective fresh) (G : MG Nat) (hG : G.WF) :
    (ofMG fresh G).WF ∧ (ofMG fresh G).Flat :=
  ⟨(ofMG_spec fresh hinj G hG).1, (ofMG_spec fresh hinj G hG).2.1⟩

/-- the LV-DAG of a mixed graph has exactly the graph's nodes as observed nodes (edge-less ones included) -/
theorem toLV_observed (fresh : Nat → Nat) (hinj : Function.Injective fresh) (G : MG Nat) (hG : G.WF) (v : Nat) :
    (ofMG fresh G).Observed v ↔ v ∈ G.nodes :=
  (ofMG_spec fresh hinj G hG).2.2.1 v

/-- the latent projection of `to_latent_variable_dag(G)` is `G` -/
theorem toLV_is_projection (fresh : Nat → Nat) (hinj : Function.Injective fresh) (G : MG Nat) (hG : G.WF)
    (hloop : ∀ e ∈ G.bi, e.1 ≠ e.2) : IsProjection (ofMG fresh G) G :=
  ofMG_isProjection fresh hinj G hG hloop

/-- reading a flat LV-DAG back gives its latent projection (`fromLV_is_projection` of DESIGN.md) -/
theorem fromLV_is_projection (D : LV) (hw : D.WF) (hf : D.Flat) :
    ∃ G, D.toMG? = .ok G ∧ IsProjection D G :=
  ⟨D.readOff, toMG?_eq D hw.tagged, readOff_isProjection D hw hf⟩

/-- what `from_latent_variable_dag` returns on ANY fully tagged LV-DAG (flat or not), and that it only
fails for a missing tag: an observed node points at its children, two distinct children of a latent are
joined by a bidirected edge -/
theorem fromLV_edges (D : LV) (hw : D.WF) :
    ∃ G, D.toMG? = .ok G ∧ ∀ a b, (G.DiEdge a b ↔ a ∉ D.latent ∧ D.Edge a b) ∧
      (G.BiEdge a b ↔ a ≠ b ∧ ∃ l, l ∈ D.latent ∧ D.Edge l a ∧ D.Edge l b) :=
  ⟨D.readOff, toMG?_eq D hw.tagged, fun a b =>
    readOff_edges D hw.edges_nodup (fun e he => (hw.edge_mem e he).1) a b⟩

/-- a node without the tag makes `from_latent_variable_dag` raise `ValueError`, nothing else does -/
theorem fromLV_error_iff (D : LV) : (∃ e, D.toMG? = .error e) ↔ D.untagged ≠ [] := by
  unfold toMG?
  cases h : D.untagged with
  | nil => simp
  | cons x xs => simp

/-- **Round trip.** `from_latent_variable_dag(to_latent_variable_dag(G)) == G` for every mixed graph
(no acyclicity needed), nodes without edges included, whatever the nodes are called. -/
theorem roundtrip (fresh : Nat → Nat) (hinj : Function.Injective fresh) (G : MG Nat) (hG : G.WF)
    (hloop : ∀ e ∈ G.bi, e.1 ≠ e.2) :
    ∃ H, (ofMG fresh G).toMG? = .ok H ∧ H.equiv G = true := by
  obtain ⟨hw, hf⟩ := toLV_wf_flat fresh hinj G hG
  obtain ⟨H, hH, hp⟩ := fromLV_is_projection _ hw hf
  exact ⟨H, hH, hp.equiv (toLV_is_projection fresh hinj G hG hloop)⟩

/-- the round trip never fails -/
theorem roundtrip_total (fresh : Nat → Nat) (hinj : Function.Injective fresh) (G : MG Nat) (hG : G.WF) :
    ∃ H, (ofMG fresh G).toMG? = .ok H :=
  ⟨_, toMG?_eq _ (toLV_wf_flat fresh hinj G hG).1.tagged⟩

/-! non-vacuity: a graph with an edge-less node `7`, a node `3` touched only by a bidirected edge, a
parallel directed + bidirected pair, and a node that is already called `u_0` (= 100) -/
example :
    let G := MG.fromEdges [7, 100] [(1, 2), (2, 4)] [(2, 4), (3, 1)]
    let fresh := fun i => 100 + i
    (ofMG fresh G).latent = [101, 102] ∧
    ((ofMG fresh G).toMG?.toOption.map (fun H => H.equiv G)) = some true := by decide

/-! ## 2. Evans simplification

`hp : ∀ n, n < prime n` is the only fact about names that is used: a primed name is a longer string. -/

/-- **Observed nodes are kept** (exactly: none lost, none gained, no observed node re-tagged). -/
theorem simplify_keeps_observed (prime : Nat → Nat) (hp : ∀ n, n < prime n) (D : LV) (hw : D.WF)
    (ha : D.Acyclic) (r : SimplifyResults) (h : D.simplify prime = .ok r) (v : Nat) :
    r.graph.Observed v ↔ D.Observed v :=
  (simplify_spec prime hp D hw ha r h).2.2.2.obs v

/-- the result is again a well-formed acyclic LV-DAG, and it is fully simplified: every latent is
exogenous with at least two children, all observed, and no latent's child set is contained in another's -/
theorem simplify_simplified (prime : Nat → Nat) (hp : ∀ n, n < prime n) (D : LV) (hw : D.WF)
    (ha : D.Acyclic) (r : SimplifyResults) (h : D.simplify prime = .ok r) :
    r.graph.WF ∧ r.graph.Acyclic ∧ r.graph.Simplified :=
  ⟨(simplify_spec prime hp D hw ha r h).1, (simplify_spec prime hp D hw ha r h).2.1,
    (simplify_spec prime hp D hw ha r h).2.2.1⟩

/-- every rule, hence the whole simplification, preserves the latent projection (relationally:
same observed nodes, same `u → v`, same `u ↔ v`) -/
theorem simplify_sameProj (prime : Nat → Nat) (hp : ∀ n, n < prime n) (D : LV) (hw : D.WF)
    (ha : D.Acyclic) (r : SimplifyResults) (h : D.simplify prime = .ok r) : SameProj D r.graph :=
  (simplify_spec prime hp D hw ha r h).2.2.2

/-- **Projection.** The mixed graph read off the simplified DAG is exactly the latent projection of the
ORIGINAL DAG onto its observed nodes. -/
theorem simplify_projection (prime : Nat → Nat) (hp : ∀ n, n < prime n) (D : LV) (hw : D.WF)
    (ha : D.Acyclic) (r : SimplifyResults) (h : D.simplify prime = .ok r) :
    ∃ G, r.graph.toMG? = .ok G ∧ IsProjection D G := by
  obtain ⟨w, _, s, sp⟩ := simplify_spec prime hp D hw ha r h
  obtain ⟨G, hG, hp'⟩ := fromLV_is_projection r.graph w s.flat
  exact ⟨G, hG, IsProjection.of_sameProj sp hp'⟩

/-- one lemma per rule, as named in DESIGN.md -/
theorem rule1_exogenise_sameProj (prime : Nat → Nat) (hp : ∀ n, n < prime n) (D D1 : LV) (hw : D.WF)
    (ha : D.Acyclic) (h : D.transformLatentsWithParents prime = .ok D1) : SameProj D D1 :=
  (transform_spec prime hp D D1 hw ha h).2.2.1

theorem rule2_widows_sameProj (D : LV) (S : List Nat) (hS : ∀ s ∈ S, s ∈ D.latent)
    (hW : ∀ s ∈ S, ∀ c, ¬ D.Edge s c) : SameProj D (D.removeNodes S) :=
  removeWidows_sameProj D S hS hW

theorem rule3_unidirectional_sameProj (D D' : LV) (us : List Nat)
    (h : D.removeUnidirectionalLatents = .ok (D', us)) (hw : D.WF) (hf : D.Flat)
    (hch : ∀ l ∈ D.latent, ∃ c, D.Edge l c) : SameProj D D' :=
  (removeUnidirectionalLatents_spec D D' us h hw hf hch).2.2.1

theorem rule4_redundant_sameProj (D D' : LV) (rs : List Nat)
    (h : D.removeRedundantLatents = .ok (D', rs)) (hw : D.WF) (hf : D.Flat)
    (htwo : ∀ l ∈ D.latent, 2 ≤ (D.children l).length) : SameProj D D' :=
  (removeRedundantLatents_spec D D' rs h hw hf htwo).2.1

/-- **Consequence for every verdict computed from the projected graph** (d- or m-separation tests,
identifiability, implied independencies …): any function of mixed graphs that respects
`NxMixedGraph.__eq__` gives the same answer on the graph read off the simplified DAG as on any latent
projection of the original DAG. -/
theorem verdict_invariant {β : Type} (f : MG Nat → β) (hf : ∀ G H : MG Nat, G.equiv H = true → f G = f H)
    (prime : Nat → Nat) (hp : ∀ n, n < prime n) (D : LV) (hw : D.WF) (ha : D.Acyclic)
    (r : SimplifyResults) (h : D.simplify prime = .ok r) (G0 : MG Nat) (hG0 : IsProjection D G0) :
    ∃ G, r.graph.toMG? = .ok G ∧ f G = f G0 := by
  obtain ⟨G, hG, hp'⟩ := simplify_projection prime hp D hw ha r h
  exact ⟨G, hG, hf G G0 (hp'.equiv hG0)⟩

/-- **Totality.** On a well-formed acyclic LV-DAG `simplify_latent_dag` never raises (this includes:
the model of `nx.topological_sort` succeeds on every acyclic graph, proved in Lemmas/LatentKahn.lean). -/
theorem simplify_total (prime : Nat → Nat) (hp : ∀ n, n < prime n) (D : LV) (hw : D.WF) (ha : D.Acyclic) :
    ∃ r, D.simplify prime = .ok r :=
  simplify_total' prime hp D hw ha

/-- **Idempotence.** Simplifying the result again succeeds, returns the same graph (not merely an equal
one: the same node, edge and tag lists) and reports nothing removed. -/
theorem simplify_idem (prime : Nat → Nat) (hp : ∀ n, n < prime n) (D : LV) (hw : D.WF) (ha : D.Acyclic)
    (r : SimplifyResults) (h : D.simplify prime = .ok r) :
    r.graph.simplify prime = .ok ⟨r.graph, [], [], []⟩ := by
  obtain ⟨w, a, s, _⟩ := simplify_spec prime hp D hw ha r h
  obtain ⟨ls, hls⟩ := iterLatents_total r.graph w a
  exact simplify_fixed prime r.graph w s ls hls

/-! ## 2b. separation among observed nodes INSIDE the LV-DAG is unchanged

`D.DConn Z a b` is d-connection of `a` and `b` given `Z` in the directed graph `D` (latents included),
in the walk formulation of Spec/LatentSpec.lean: colliders must be in `Z` or have a descendant in `Z`,
other inner nodes must be outside `Z`. -/

/-- **Separation invariant.** For all observed `a ≠ b` and every conditioning set of observed nodes,
`a` and `b` are d-connected given `Z` in the simplified DAG iff they are in the original DAG. -/
theorem simplify_dsep_invariant (prime : Nat → Nat) (hp : ∀ n, n < prime n) (D : LV) (hw : D.WF)
    (ha : D.Acyclic) (r : SimplifyResults) (h : D.simplify prime = .ok r) (Z : Nat → Prop) (a b : Nat)
    (hZ : ∀ z, Z z → D.Observed z) (hoa : D.Observed a) (hob : D.Observed b) (hab : a ≠ b) :
    r.graph.DConn Z a b ↔ D.DConn Z a b :=
  simplify_sameSep' prime hp D hw ha r h Z a b hZ hoa hob hab

theorem rule1_exogenise_sameSep (prime : Nat → Nat) (hp : ∀ n, n < prime n) (D D1 : LV) (hw : D.WF)
    (ha : D.Acyclic) (h : D.transformLatentsWithParents prime = .ok D1) : SameSep D D1 :=
  transform_sameSep prime hp D D1 hw ha h

theorem rule2_widows_sameSep (D : LV) (S : List Nat) (hS : ∀ s ∈ S, s ∈ D.latent)
    (hW : ∀ s ∈ S, ∀ c, ¬ D.Edge s c) : SameSep D (D.removeNodes S) :=
  removeWidows_sameSep D S hS hW

/-- rules 3 and 4: on a flat graph, latents all of whose pairs of children are covered by a surviving
latent (vacuous for a single-child latent) can be removed -/
theorem rule34_flat_sameSep (D : LV) (hf : D.Flat) (S : List Nat) (hS : ∀ s ∈ S, s ∈ D.latent)
    (hcover : ∀ s ∈ S, ∀ u w, u ≠ w → D.Edge s u → D.Edge s w →
      ∃ r, r ∈ D.latent ∧ r ∉ S ∧ D.Edge r u ∧ D.Edge r w) : SameSep D (D.removeNodes S) :=
  removeLatents_sameSep_flat D hf S hS hcover

/-- **d-separation inside the LV-DAG is m-separation of its latent projection.**  For every well-formed
acyclic LV-DAG `D`, every latent projection `G` of it, observed `a ≠ b` and observed conditioning set:
`a`, `b` are d-connected given `Z` in `D` iff they are m-connected given `Z` in `G` (both in the walk
formulation of Spec/LatentSpec.lean).  Proved by simplifying `D` first: the simplification preserves the
projection and d-connection, and on a flat DAG a latent is always passed as `c ← l → c'`. -/
theorem dsep_iff_msep_projection (prime : Nat → Nat) (hp : ∀ n, n < prime n) (D : LV) (hw : D.WF)
    (ha : D.Acyclic) (G : MG Nat) (hG : IsProjection D G) (Z : Nat → Prop) (a b : Nat)
    (hZ : ∀ z, Z z → D.Observed z) (hoa : D.Observed a) (hob : D.Observed b) (hab : a ≠ b) :
    D.DConn Z a b ↔ MConnMixed G Z a b :=
  dconn_iff_mconn_projection' prime hp D hw ha G hG Z a b hZ hoa hob hab

/-- hence: m-connection in the mixed graph read off the simplified DAG is d-connection in the original DAG -/
theorem simplify_msep_invariant (prime : Nat → Nat) (hp : ∀ n, n < prime n) (D : LV) (hw : D.WF)
    (ha : D.Acyclic) (r : SimplifyResults) (h : D.simplify prime = .ok r) (Z : Nat → Prop) (a b : Nat)
    (hZ : ∀ z, Z z → D.Observed z) (hoa : D.Observed a) (hob : D.Observed b) (hab : a ≠ b) :
    ∃ G, r.graph.toMG? = .ok G ∧ (MConnMixed G Z a b ↔ D.DConn Z a b) := by
  obtain ⟨G, hG, hproj⟩ := simplify_projection prime hp D hw ha r h
  exact ⟨G, hG, (dsep_iff_msep_projection prime hp D hw ha G hproj Z a b hZ hoa hob hab).symm⟩

-- OPEN: (classical, generic graph theory, not specific to y0; not mechanised; cross-checked by the
--   harness oracle on every generated case by enumerating simple paths)
--   theorem dconn_walk_iff_path : D.Acyclic → (D.DConn Z a b ↔ ∃ a simple path a = x₀, …, xₙ = b in the
--     skeleton of D on which every collider has a descendant-or-self in Z and every other inner node is
--     outside Z),  and the same statement for `MConnMixed`.
--   The theorems above are complete statements about the walk formulation, which is a standard
--   definition of d-/m-connection; only the translation to the path formulation is left to the literature.

/-! ## 3. `evans_simplify` (ADMG → LV-DAG, mark extra latents, simplify, read back) -/

/-- `evans_simplify(G, latents=extra)` never raises on an acyclic mixed graph and returns the latent
projection of the LV-DAG of `G` with the extra nodes marked latent -/
theorem evans_projection (fresh prime : Nat → Nat) (hinj : Function.Injective fresh) (hp : ∀ n, n < prime n)
    (G : MG Nat) (hG : G.WF) (ha : G.Acyclic) (extra : List Nat) :
    ∃ H, evansSimplify fresh prime G extra = .ok H ∧
      IsProjection ((ofMG fresh G).markLatent extra) H := by
  have hw := wf_markLatent _ extra (toLV_wf_flat fresh hinj G hG).1
  have hac : ((ofMG fresh G).markLatent extra).Acyclic := ofMG_acyclic fresh hinj G hG ha
  obtain ⟨r, hr⟩ := simplify_total prime hp _ hw hac
  obtain ⟨H, hH, hproj⟩ := simplify_projection prime hp _ hw hac r hr
  refine ⟨H, ?_, hproj⟩
  unfold evansSimplify
  simp only [hr, bind, Except.bind]
  exact hH

/-- without extra latents `evans_simplify` returns a graph equal to its argument -/
theorem evans_id (fresh prime : Nat → Nat) (hinj : Function.Injective fresh) (hp : ∀ n, n < prime n)
    (G : MG Nat) (hG : G.WF) (ha : G.Acyclic) (hloop : ∀ e ∈ G.bi, e.1 ≠ e.2) :
    ∃ H, evansSimplify fresh prime G [] = .ok H ∧ H.equiv G = true := by
  obtain ⟨H, hH, hproj⟩ := evans_projection fresh prime hinj hp G hG ha []
  rw [markLatent_nil] at hproj
  exact ⟨H, hH, hproj.equiv (toLV_is_projection fresh hinj G hG hloop)⟩

/-! ## non-vacuity: an LV-DAG on which every rule fires

nodes 1,2,3,4 observed; latents 10 (middle: parent 1, children 11 and 2), 11 (middle: parent 10,
children 3 and 4), 12 (exogenous, children 3 and 4: made redundant by the copy of 11... or vice versa),
13 (one child), 14 → 15 (a widow chain).  `prime n = n + 100`. -/
def exampleDag : LV :=
  { nodes := [1, 2, 3, 4, 10, 11, 12, 13, 14, 15],
    edges := [(1, 10), (10, 11), (10, 2), (11, 3), (11, 4), (12, 3), (12, 4), (13, 2), (14, 15)],
    latent := [10, 11, 12, 13, 14, 15] }

/-- the hypotheses of the theorems of section 2 hold for it -/
example : exampleDag.WF ∧ exampleDag.Acyclic ∧ (∀ n : Nat, n < n + 100) := by
  refine ⟨⟨by decide, by decide, by decide, by decide, rfl⟩, ?_, fun n => by omega⟩
  exact acyclic_of_rank exampleDag
    (fun n => if n = 10 ∨ n = 15 then 1 else if n = 11 ∨ n = 2 then 2 else if n = 3 ∨ n = 4 then 3 else 0) (by decide)

example :
    ((exampleDag.simplify (· + 100)).toOption.map
        (fun r => (r.graph.latent, r.widows, r.unidirectional, r.redundant)))
      = some ([110], [15, 14], [13], [12, 111]) := by decide

example :
    ((exampleDag.simplify (· + 100)).toOption.map (fun r => r.graph.toMG?.toOption.map
        (fun G => (G.nodes, G.di, G.bi)))) =
      some (some ([1, 2, 3, 4], [(1, 2), (1, 3), (1, 4)], [(2, 3), (2, 4), (3, 4)])) := by decide

/-- non-vacuity of the separation clause: in `exampleDag`, `2` and `3` are d-connected given `∅`
(walk `2 ← 10 → 11 → 3` through two latents) and `1`, `4` are d-connected given `∅` -/
example : exampleDag.DConn (fun _ => False) 2 3 :=
  ⟨true, .chainDown (.fork (.startUp (p := 10) (by unfold Edge; decide)) (fun h => h) (c := 11)
    (by unfold Edge; decide)) (fun h => h) (c := 3) (by unfold Edge; decide)⟩

end Y0.LV
