/-
  Property C09 — "Whenever the unconditional or conditional counterfactual transportability procedure returns an
  expression together with its simplified event, the expression evaluated on the declared domain distributions with the
  returned event's values equals the target-domain probability (respectively conditional probability) of the queried
  counterfactual event in every compatible multi-domain model family; it returns zero only for impossible events; for
  every input that passes its own validation it either answers or returns 'fail', never another error."

  Theorems about the executable model Y0.Model.CtfTr (api.py of y0.algorithm.counterfactual_transport), which is built
  on the `ctf` family's models of SIMPLIFY / ctf-factors (C19) and the `tian` family's model of IDENTIFY (C17) and is
  compared with the Python on every run of ./check C09 (validators: exact; Algorithm 2: verdict, simplified event and
  exact value of the expression).

  Proved here:
    §1 validators      `validateU_error_class`, `validateC_error_class`, `validateU_accepts`, `validateC_strict`
    §2 trichotomy      `ctfTRu_invalid_iff`, `ctfTRu_trichotomy`, `ctfTR_invalid_iff`, `ctfTR_trichotomy`
    §3 zero            `ctfTRu_zero_only_from_simplify`, `ctfTRu_zero_of_simplify`, `ctf_zero_sound_partial`
    §4 composition     `ctfTRu_event_is_simplified`, `sigmaTR_uses_usable_domain`, `transportFactors_all`,
                       `ctfTRu_answer_shape`
    §5 no other error  `ctfTRu_no_internal_error` (Algorithm 2 never raises on a validated input; no class of events
                       excluded after repo c8cad49 + 333fa44), its parts `simplify_no_error`, `line2_total`,
                       `sigmaTRDomain_no_error`, `transportFactors_no_error`; `sigmaTR_sound`
    §6 Algorithm 3     `ctfTR_zero_only_from_simplify`, `ctfTR_answer_shape`, `ctfTR_event_shape`,
                       `ctfTR_q_good` (Q of Algorithm 2 is never Zero() and has the expected vocabulary),
                       `ctfTR_no_internal_error` (Algorithm 3 never raises on a validated input; no class of queries
                       excluded after repo f335599: `ctfTR_outcomes_found`), `ctfTR_answers_or_fails`,
                       `ctfTR_no_internal_error_anypop_partial` (domain distributions that list counterfactual variables:
                       `OutcomeNotCondition` needed, witness `a3Shared`), `ctfTR_simplified_binds_once`
  OPEN (stated below): ctf_no_internal_error without `DomainsAgree` (FALSE of the current code: witness `w1`, open finding
  crash:sigmaTR-district-split).
  The VALUE clause is in Y0/Props/C09Sound.lean: `ctfTRu_sound_partial` (Algorithm 2, proved inside the decidable class
  `ctfSoundClass`), `ctfTR_sound_partial` (Algorithm 3, proved inside the decidable class `ctfTRSoundClass`);
  OPEN there: both clauses outside their classes.

  Reading guide for §5 (definitions in Y0/Lemmas/CtfTrSimplify.lean, CtfTrLine2.lean, CtfTrSigma.lean, CtfTrTotal.lean):
    Reflexive e      := e.any fun p => p.1.ivs.any (·.name == p.1.name)          some event variable is `Y_y`
    HasNone e        := e.any (·.2.isNone)                                        some event variable has no value
    CrashClassU e    := Reflexive e && HasNone e                                  harness class crash:simplify-typeerror
    SimplifyRisk e   := e.any fun p => selfIntervened p.1 && e.any fun q => q.2.isNone && (q.1.name == p.1.name)
                                                                                  `Y_y` next to a VALUELESS variable named `Y`
    EventVarsPlain e := ∀ p ∈ e, p.1.star = none ∧ p.1.isIv = false ∧ p.1.ivs.Nodup
                        (what `_event_from_counterfactuals` produces; subscripts are a frozenset)
    DomainsAgree target ds := ∀ d ∈ ds,
        (∀ a b, target.BiEdge a b → a ∉ d.policy → b ∉ d.policy → d.graph.BiEdge a b) ∧
        (∀ a b, d.graph.BiEdge a b → isTnode a = false)
    EventOK g ev     := ∀ p ∈ ev, p.1.name ∈ g.nodes ∧ (p.1.isCf = true ∨ (p.1.isIv = false ∧ p.1.star = none))
    DomainOK district d : d.graph.WF, district ⊆ regular d.graph, d.topo lists d.graph.nodes, d.pop is a Probability,
                        no bidirected edge at a selection node, district bidirected-connected inside itself in d.graph
-/
import Y0.Model.CtfTr
import Y0.Props.C19
import Y0.Lemmas.CtfTrTotal
import Y0.Lemmas.CtfTrAlg3Total
import Y0.Lemmas.CtfTrAlg3QGood
import Y0.Lemmas.CtfTrAlg3ErrQ

namespace Y0
namespace CtfTr
open Ctf

/-! ## 1. The validators as decision functions -/

theorem validateDomain_error_class (target : MG Name) (d : Domain) (err : Err) (h : validateDomain target d = .error err) :
    err = .invalidInput "ValueError" ∨ err = .internal "KeyError" := by
  unfold validateDomain vErr at h
  repeat' split at h
  all_goals first
    | (cases h; exact Or.inl rfl)
    | (rename_i e he; cases h
       unfold validTopoList at he
       split at he
       · cases he
       · cases he; exact Or.inr rfl)
    | cases h

theorem validateDomains_error_class (target : MG Name) : ∀ (ds : List Domain) (err : Err),
    validateDomains target ds = .error err → err = .invalidInput "ValueError" ∨ err = .internal "KeyError"
  | [], err, h => by simp [validateDomains] at h
  | d :: ds, err, h => by
    simp only [validateDomains, bind, Except.bind] at h
    split at h
    · rename_i e he; cases h; exact validateDomain_error_class target d _ he
    · exact validateDomains_error_class target ds err h

theorem ite_err_cases {c : Prop} [Decidable c] {e0 err : Err} {y : Except Err Unit}
    (h : (if c then .error e0 else y) = .error err) : (c ∧ err = e0) ∨ (¬ c ∧ y = .error err) := by
  split at h
  · rename_i hc; cases h; exact Or.inl ⟨hc, rfl⟩
  · rename_i hc; exact Or.inr ⟨hc, h⟩

theorem validateCommon_error_class (target : MG Name) (ds : List Domain) (vs : List Var) (a sn b : Bool) (err : Err)
    (h : validateCommon target ds vs a sn b = .error err) :
    err = .invalidInput "ValueError" ∨ err = .invalidInput "NotImplementedError" ∨ err = .internal "KeyError" ∨
      (sn = true ∧ err = .invalidInput "TypeError") := by
  unfold validateCommon vErr at h
  rcases ite_err_cases h with ⟨_, rfl⟩ | ⟨_, h⟩
  · exact Or.inl rfl
  rcases ite_err_cases h with ⟨_, rfl⟩ | ⟨_, h⟩
  · exact Or.inr (Or.inl rfl)
  rcases ite_err_cases h with ⟨_, rfl⟩ | ⟨_, h⟩
  · exact Or.inl rfl
  rcases ite_err_cases h with ⟨hsn, rfl⟩ | ⟨_, h⟩
  · exact Or.inr (Or.inr (Or.inr ⟨hsn, rfl⟩))
  rcases ite_err_cases h with ⟨_, rfl⟩ | ⟨_, h⟩
  · exact Or.inl rfl
  rcases ite_err_cases h with ⟨_, rfl⟩ | ⟨_, h⟩
  · exact Or.inl rfl
  rcases ite_err_cases h with ⟨_, rfl⟩ | ⟨_, h⟩
  · exact Or.inl rfl
  rcases ite_err_cases h with ⟨_, rfl⟩ | ⟨_, h⟩
  · exact Or.inl rfl
  rcases ite_err_cases h with ⟨_, rfl⟩ | ⟨_, h⟩
  · exact Or.inl rfl
  rcases ite_err_cases h with ⟨_, rfl⟩ | ⟨_, h⟩
  · exact Or.inl rfl
  rcases ite_err_cases h with ⟨_, rfl⟩ | ⟨_, h⟩
  · exact Or.inl rfl
  rcases ite_err_cases h with ⟨_, rfl⟩ | ⟨_, h⟩
  · exact Or.inl rfl
  rcases validateDomains_error_class target ds err h with h' | h'
  · exact Or.inl h'
  · exact Or.inr (Or.inr (Or.inl h'))

/-- **The unconditional validator rejects with the documented classes only** (`KeyError` is the `node_to_index` lookup
of `_valid_topo_list`; it is unreachable for graphs built by `from_edges`, where every edge endpoint is a node;
`TypeError` is check 6.5, a valueless self-intervened variable — `fix:` 333fa44). -/
theorem validateU_error_class (target : MG Name) (ds : List Domain) (e : Event) (err : Err)
    (h : validateU target ds e = .error err) :
    err = .invalidInput "TypeError" ∨ err = .invalidInput "ValueError" ∨ err = .invalidInput "NotImplementedError" ∨
      err = .internal "KeyError" := by
  unfold validateU vErr at h
  split at h
  · cases h; exact Or.inr (Or.inl rfl)
  · rcases validateCommon_error_class _ _ _ _ _ _ _ h with h' | h' | h' | ⟨_, h'⟩
    · exact Or.inr (Or.inl h')
    · exact Or.inr (Or.inr (Or.inl h'))
    · exact Or.inr (Or.inr (Or.inr h'))
    · exact Or.inl h'

/-- **The conditional validator**: additionally `TypeError` for a variable without a value (the strict conversion). -/
theorem validateC_error_class (target : MG Name) (ds : List Domain) (o c : Event) (err : Err)
    (h : validateC target ds o c = .error err) :
    err = .invalidInput "TypeError" ∨ err = .invalidInput "ValueError" ∨ err = .invalidInput "NotImplementedError" ∨
      err = .internal "KeyError" := by
  unfold validateC vErr at h
  split at h
  · cases h; exact Or.inl rfl
  · split at h
    · cases h; exact Or.inr (Or.inl rfl)
    · split at h
      · cases h; exact Or.inr (Or.inl rfl)
      · rcases validateCommon_error_class _ _ _ _ _ _ _ h with h' | h' | h' | ⟨hf, _⟩
        · exact Or.inr (Or.inl h')
        · exact Or.inr (Or.inr (Or.inl h'))
        · exact Or.inr (Or.inr (Or.inr h'))
        · cases hf

/-- what an accepted unconditional input looks like (the part of the contract the algorithms rely on): a non-empty event
with at least one value, over variables of a non-empty acyclic target graph without selection nodes, at least one domain;
every self-intervened variable has a value (check 6.5, `fix:` 333fa44: `validateU_selfNone`) -/
theorem validateU_accepts (target : MG Name) (ds : List Domain) (e : Event) (h : validateU target ds e = .ok ()) :
    e ≠ [] ∧ target.nodes ≠ [] ∧ ds ≠ [] ∧ (∃ p ∈ e, p.2.isSome = true) ∧ target.isAcyclic = true ∧
    (∀ v ∈ target.nodes, Trso.isTnode v = false) ∧ (∀ p ∈ e, p.1.name ∈ target.nodes) ∧
    (∀ d ∈ ds, seteq' target.nodes (regular d.graph) = true) := by
  unfold validateU vErr at h
  obtain ⟨he, h⟩ := ite_error_ok h
  unfold validateCommon vErr at h
  obtain ⟨h1, h⟩ := ite_error_ok h
  obtain ⟨_, h⟩ := ite_error_ok h
  obtain ⟨h3, h⟩ := ite_error_ok h
  obtain ⟨_, h⟩ := ite_error_ok h
  obtain ⟨h4, h⟩ := ite_error_ok h
  obtain ⟨_, h⟩ := ite_error_ok h
  obtain ⟨_, h⟩ := ite_error_ok h
  obtain ⟨h7, h⟩ := ite_error_ok h
  obtain ⟨h8, h⟩ := ite_error_ok h
  obtain ⟨h9, h⟩ := ite_error_ok h
  obtain ⟨h10, h⟩ := ite_error_ok h
  refine ⟨by simpa using he, by simpa using h1, by simpa using h4, ?_, by simpa using h8, ?_, ?_, ?_⟩
  · have : ¬ (e.all fun p => p.2.isNone) = true := h3
    simp only [List.all_eq_true, not_forall] at this
    obtain ⟨p, hp, hpn⟩ := this
    exact ⟨p, hp, by cases hv : p.2 <;> simp_all⟩
  · intro v hv
    have : ¬ target.nodes.any Trso.isTnode = true := h7
    simp only [List.any_eq_true, not_exists, not_and] at this
    simpa using this v hv
  · intro p hp
    have : ¬ (e.map (·.1)).any (fun v => decide (v.name ∉ target.nodes)) = true := h10
    simp only [List.any_eq_true, not_exists, not_and, List.mem_map] at this
    have := this p.1 ⟨p, hp, rfl⟩
    simpa using this
  · intro d hd
    have : ¬ ds.any (fun d => !seteq' target.nodes (regular d.graph)) = true := h9
    simp only [List.any_eq_true, not_exists, not_and] at this
    simpa using this d hd

/-- the conditional procedure only accepts queries in which every outcome and condition has a value -/
theorem validateC_strict (target : MG Name) (ds : List Domain) (o c : Event) (h : validateC target ds o c = .ok ()) :
    (∀ p ∈ o ++ c, p.2.isSome = true) ∧ o ≠ [] ∧ c ≠ [] := by
  unfold validateC at h
  split at h
  · cases h
  · rename_i h0
    split at h
    · cases h
    · rename_i hc
      split at h
      · cases h
      · rename_i ho
        refine ⟨?_, by simpa using ho, by simpa using hc⟩
        intro p hp
        have : ¬ (o ++ c).any (fun p => p.2.isNone) = true := h0
        simp only [List.any_eq_true, not_exists, not_and] at this
        have := this p hp
        cases hv : p.2 <;> simp_all

/-! ## 2. Trichotomy: answer, FAIL, or the validator's own rejection -/

theorem afterValidation_not_invalid {α} (x : Except Err α) (k : String) : afterValidation x ≠ .error (.invalidInput k) := by
  unfold afterValidation
  split
  · intro h; cases h
  · rename_i hx
    intro h
    exact hx k h

/-- an "invalid input" outcome of ctfTRu is exactly a rejection by its own validator -/
theorem ctfTRu_invalid_iff (target : MG Name) (ds : List Domain) (e : Event) (k : String) :
    ctfTRu target ds e = .error (.invalidInput k) ↔ validateU target ds e = .error (.invalidInput k) := by
  unfold ctfTRu
  cases hv : validateU target ds e with
  | error err => simp
  | ok u =>
    simp only []
    constructor
    · intro h; exact absurd h (by unfold ctfTRuCore; exact afterValidation_not_invalid _ k)
    · intro h; cases h

/-- **Trichotomy of ctfTRu.**  An input accepted by the validator is answered (expression + event), refused (FAIL), or
ends in an error that is NOT a validation error; such an error is what the property forbids (OPEN
`ctf_no_internal_error`; the check reports every one as a violation or as a listed known finding). -/
theorem ctfTRu_trichotomy (target : MG Name) (ds : List Domain) (e : Event) (hv : validateU target ds e = .ok ()) :
    (∃ a, ctfTRu target ds e = .ok (some a)) ∨ ctfTRu target ds e = .ok none ∨
    ∃ err, ctfTRu target ds e = .error err ∧ ∀ k, err ≠ .invalidInput k := by
  cases h : ctfTRu target ds e with
  | ok o => cases o with
    | none => exact Or.inr (Or.inl rfl)
    | some a => exact Or.inl ⟨a, rfl⟩
  | error err =>
    refine Or.inr (Or.inr ⟨err, rfl, ?_⟩)
    intro k hk
    rw [hk, ctfTRu_invalid_iff, hv] at h
    cases h

/-- a rejection by the conditional validator is the result of ctfTR -/
theorem ctfTR_invalid_of_validator (target : MG Name) (ds : List Domain) (o c : Event) (err : Err)
    (h : validateC target ds o c = .error err) : ctfTR target ds o c = .error err := by
  unfold ctfTR; rw [h]

/-- an "invalid input" outcome of ctfTR is exactly a rejection by its own validator: whatever the derivation of `D*`,
Algorithm 2 (its validator included) or the final checks raise after validation is another error -/
theorem ctfTR_invalid_iff (target : MG Name) (ds : List Domain) (o c : Event) (k : String) :
    ctfTR target ds o c = .error (.invalidInput k) ↔ validateC target ds o c = .error (.invalidInput k) := by
  unfold ctfTR
  cases hv : validateC target ds o c with
  | error err => simp
  | ok u =>
    simp only []
    constructor
    · intro h; exact absurd h (by unfold ctfTRCore; exact afterValidation_not_invalid _ k)
    · intro h; cases h

/-- **Trichotomy of ctfTR.**  An input accepted by the validator is answered, refused (FAIL), or ends in an error that
is NOT a validation error (what the property forbids; `ctfTR_no_internal_error_partial` below excludes it outside the
stated crash classes). -/
theorem ctfTR_trichotomy (target : MG Name) (ds : List Domain) (o c : Event) (hv : validateC target ds o c = .ok ()) :
    (∃ a, ctfTR target ds o c = .ok (some a)) ∨ ctfTR target ds o c = .ok none ∨
    ∃ err, ctfTR target ds o c = .error err ∧ ∀ k, err ≠ .invalidInput k := by
  cases h : ctfTR target ds o c with
  | ok r => cases r with
    | none => exact Or.inr (Or.inl rfl)
    | some a => exact Or.inl ⟨a, rfl⟩
  | error err =>
    refine Or.inr (Or.inr ⟨err, rfl, ?_⟩)
    intro k hk
    rw [hk, ctfTR_invalid_iff, hv] at h
    cases h

-- OPEN: ctf_no_internal_error (no hypothesis about the domain graphs)
--   theorem ctf_no_internal_error (hv : validateU target ds e = .ok ()) (hwf : target.WF ∧ ∀ d ∈ ds, d.graph.WF) :
--       ∀ err, ctfTRu target ds e ≠ .error err          (and the same for ctfTR)
--   PROVED for every validated input whose selection diagrams agree with the target graph (`DomainsAgree`):
--   §5 `ctfTRu_no_internal_error`, §6 `ctfTR_no_internal_error` — the crash classes of SIMPLIFY and of Algorithm 3 are
--   FIXED in the code (repo c8cad49, 333fa44, f335599; former findings crash:simplify-typeerror,
--   crash:ctfTR-derived-event-rejected, crash:ctfTR-final-check; their witnesses are regression cases in corpus/C09).
--   FALSE without `DomainsAgree`: Algorithm 4 raises `ValueError` when a source domain's graph lacks a bidirected edge of
--   the target between two variables of one ctf-factor (open finding crash:sigmaTR-district-split, witness `w1` in §5).
--   Not repaired: the validator cannot reject such domain graphs (the pinned suite uses them:
--   test_transport_unconditional_counterfactual_query_line_5, test_transport_conditional_counterfactual_query_7), and
--   treating the domain as unusable in Algorithm 4 would turn an inconsistent input into a silent FAIL.

/-! ## 3. Zero only for impossible events -/

theorem afterValidation_ok {α} {x : Except Err α} {a : α} (h : afterValidation x = .ok a) : x = .ok a := by
  unfold afterValidation at h
  split at h
  · cases h
  · exact h

/-- ctfTRu returns an answer WITHOUT an event only as `Zero()`, and only because SIMPLIFY found the event inconsistent -/
theorem ctfTRu_zero_only_from_simplify (target : MG Name) (ds : List Domain) (e : Event) (x : Expr)
    (h : ctfTRu target ds e = .ok (some (x, none))) : x = .zero ∧ simplify target e = .ok none := by
  unfold ctfTRu at h
  split at h
  · cases h
  · have h' := afterValidation_ok h
    simp only [bind, Except.bind] at h'
    cases hs : simplify target e with
    | error err => rw [hs] at h'; cases h'
    | ok o =>
      rw [hs] at h'
      cases o with
      | none => simp [pure, Except.pure] at h'; exact ⟨h'.symm, rfl⟩
      | some ev =>
        exfalso
        simp only [] at h'
        split at h'
        · cases h'
        · rename_i l2 hl2
          obtain ⟨anc, factors⟩ := l2
          simp only [] at h'
          split at h'
          · simp [pure, Except.pure] at h'
          · split at h'
            · cases h'
            · rename_i t _
              cases t with
              | none => simp [pure, Except.pure] at h'
              | some qs => simp [pure, Except.pure] at h'

/-- conversely: an accepted event that SIMPLIFY finds inconsistent is answered by `Zero()` -/
theorem ctfTRu_zero_of_simplify (target : MG Name) (ds : List Domain) (e : Event) (hv : validateU target ds e = .ok ())
    (hs : simplify target e = .ok none) : ctfTRu target ds e = .ok (some (.zero, none)) := by
  unfold ctfTRu ctfTRuCore; rw [hv]
  simp [hs, bind, Except.bind, pure, Except.pure, afterValidation]

/-- **Zero only for impossible events** (events without a self-intervened variable — the case SIMPLIFY handles
correctly, C19 `simplify_none_zero_partial`): whenever ctfTRu answers `Zero()`, the queried event has probability 0 in
every functional SCM compatible with the target graph, for every choice of distinct base values. -/
theorem ctf_zero_sound_partial (target : MG Name) (ds : List Domain) (e : Event) (x : Expr)
    (h : ctfTRu target ds e = .ok (some (x, none)))
    (hrefl : ∀ p ∈ e, selfIntervened p.1 = false)
    (hval : ∀ p ∈ e, ∀ i, p.2 = some i → i.name = p.1.name)
    (M : Fscm.Model) (hM : Fscm.Compatible M target) (ν : Fscm.BaseValues) (hν : ν.Distinct) :
    x = .zero ∧ probEventOpt M ν e = 0 :=
  ⟨(ctfTRu_zero_only_from_simplify target ds e x h).1,
   simplify_none_zero_partial target e (ctfTRu_zero_only_from_simplify target ds e x h).2 hrefl hval M hM ν hν⟩

-- OPEN: ctf_zero_sound (events WITH a self-intervened variable): false of the current code — Y_{y'} = y' AND Y = y is
--   declared impossible (known finding zero:reflexive, C19 simplify-reflexive:none).

/-! ## 4. The composition -/

/-- the event returned with an answer is SIMPLIFY's output for the queried event -/
theorem ctfTRu_event_is_simplified (target : MG Name) (ds : List Domain) (e ev : Event) (x : Expr)
    (h : ctfTRu target ds e = .ok (some (x, some ev))) : simplify target e = .ok (some ev) := by
  unfold ctfTRu at h
  split at h
  · cases h
  · have h' := afterValidation_ok h
    simp only [bind, Except.bind] at h'
    cases hs : simplify target e with
    | error err => rw [hs] at h'; cases h'
    | ok o =>
      rw [hs] at h'
      cases o with
      | none => simp [pure, Except.pure] at h'
      | some ev' =>
        simp only [] at h'
        split at h'
        · cases h'
        · rename_i l2 _
          obtain ⟨anc, factors⟩ := l2
          simp only [] at h'
          split at h'
          · simp [pure, Except.pure] at h'
          · split at h'
            · cases h'
            · rename_i t _
              cases t with
              | none => simp [pure, Except.pure] at h'
              | some qs =>
                simp [pure, Except.pure] at h'
                rw [h'.2]

/-- Algorithm 4 transports a district only from a domain that has no policy variable and no selection node on it -/
theorem sigmaTR_uses_usable_domain (district : List Name) : ∀ (ds : List Domain) (q : Expr),
    sigmaTR district ds = .ok (some q) → ∃ d ∈ ds, domainUsable district d = true ∧ sigmaTRDomain district d = .ok (some q)
  | [], q, h => by simp [sigmaTR] at h
  | d :: ds, q, h => by
    unfold sigmaTR at h
    split at h
    · rename_i hu
      split at h
      · cases h
      · rename_i e he; cases h; exact ⟨d, by simp, hu, he⟩
      · obtain ⟨d', hd', h1, h2⟩ := sigmaTR_uses_usable_domain district ds q h
        exact ⟨d', by simp [hd'], h1, h2⟩
    · obtain ⟨d', hd', h1, h2⟩ := sigmaTR_uses_usable_domain district ds q h
      exact ⟨d', by simp [hd'], h1, h2⟩

/-- the usable-domain condition, spelled out: the district avoids the policy variables and no selection node points
into it -/
theorem domainUsable_iff (district : List Name) (d : Domain) :
    domainUsable district d = true ↔ (∀ v ∈ district, v ∉ d.policy) ∧ (∀ v ∈ district, Trso.tnode v ∉ d.graph.nodes) := by
  simp [domainUsable]

/-- every ctf-factor of an answered query was transported: one expression per factor, each from a usable domain -/
theorem transportFactors_all (ds : List Domain) : ∀ (fs : List Event) (qs : List Expr),
    transportFactors ds fs = .ok (some qs) →
      List.Forall₂ (fun f q => ∃ d ∈ ds, domainUsable (dedup' (f.map (·.1.name))) d = true ∧
        sigmaTRDomain (dedup' (f.map (·.1.name))) d = .ok (some q)) fs qs
  | [], qs, h => by simp [transportFactors] at h; subst h; exact .nil
  | f :: fs, qs, h => by
    simp only [transportFactors, bind, Except.bind] at h
    split at h
    · cases h
    · split at h
      · cases h
      · rename_i r hr
        cases r with
        | none => simp [pure, Except.pure] at h
        | some q =>
          simp only [] at h
          split at h
          · cases h
          · rename_i r' hr'
            cases r' with
            | none => simp [pure, Except.pure] at h
            | some qs' =>
              simp [pure, Except.pure] at h; subst h
              exact .cons (sigmaTR_uses_usable_domain _ ds q hr) (transportFactors_all ds fs qs' hr')

-- The value clause (ctfTRu_sound / ctfTR_sound) is the subject of Y0/Props/C09Sound.lean:
--   `ctfTRu_sound_partial`      PROVED for every validated input whose simplified event is in the decidable class
--                               `ctfSoundClass` (no hypothesis about any part of the algorithm is left), for every family
--                               of functional SCMs compatible with the declared domains (Y0/Spec/CtfFamilySpec.lean);
--   `ctfTR_sound_partial`       Algorithm 3: PROVED for every validated conditional query in the decidable class
--                               `ctfTRSoundClass` (the two identities of `ctfTR_sound_of_parts` are discharged).
--   FALSE of the current code outside the class: events that give one variable two values, name one variable in two
--   worlds, bind a literal subscript by a summation, or contain a self-intervened variable (known findings
--   value:two_values, value:multi_world, value:literal_bound, value:reflexive — inherited from C19's findings).

/-! ## 5. No other error outside the known crash classes -/

open Trso (isTnode nsort) in
/-- **SIMPLIFY never raises on an event in which every self-intervened variable has a value** (after `fix:` c8cad49;
the hypothesis is what check 6.5 of the validator establishes, `fix:` 333fa44 / `validateU_selfNone`): on a graph built
by `from_edges`, for event variables that are nodes, of which the plain ones carry no star, with duplicate-free subscript
lists.  Before the two fixes SIMPLIFY raised `TypeError` on the class `SimplifyRisk` (former finding
`crash:simplify-typeerror`). -/
theorem simplify_no_error (g : MG Name) (hg : g.WF) (e : Event)
    (hnodes : ∀ p ∈ e, p.1.name ∈ g.nodes) (hvalid : ∀ p ∈ e, validEventVar p.1 = true)
    (hnd : ∀ p ∈ e, p.1.ivs.Nodup) (hself : ∀ p ∈ e, selfIntervened p.1 = true → p.2 ≠ none) :
    ∃ r, simplify g e = .ok r :=
  simplify_total g hg e hnodes hvalid hnd hself

/-- in particular outside the harness's former class `reflexive ∧ has_none` … -/
theorem simplify_no_error_outside_class (g : MG Name) (hg : g.WF) (e : Event)
    (hnodes : ∀ p ∈ e, p.1.name ∈ g.nodes) (hvalid : ∀ p ∈ e, validEventVar p.1 = true)
    (hnd : ∀ p ∈ e, p.1.ivs.Nodup) (hcls : CrashClassU e = false) : ∃ r, simplify g e = .ok r :=
  simplify_total_of_class g hg e hnodes hvalid hnd hcls

/-- … and outside the smaller former class: a self-intervened `Y_y` together with a VALUELESS variable named `Y`
(`Y_y` itself, the plain `Y`, any `Y_x`) -/
theorem simplify_no_error_outside_risk (g : MG Name) (hg : g.WF) (e : Event)
    (hnodes : ∀ p ∈ e, p.1.name ∈ g.nodes) (hvalid : ∀ p ∈ e, validEventVar p.1 = true)
    (hnd : ∀ p ∈ e, p.1.ivs.Nodup) (hrisk : SimplifyRisk e = false) : ∃ r, simplify g e = .ok r :=
  simplify_total_of_risk g hg e hnodes hvalid hnd hrisk

/-- `SimplifyRisk` is inside the harness's class -/
theorem simplify_risk_in_class (e : Event) (h : SimplifyRisk e = true) : CrashClassU e = true :=
  simplifyRisk_crashClass e h

/-- **Line 2 of Algorithm 2 never raises** on a well-formed graph without self-loops, for an event whose variables are
named after nodes and are counterfactual variables or unstarred plain variables; every ctf-factor it returns is
non-empty, over nodes of the graph, and bidirected-connected inside its own vertex set. -/
theorem line2_total (g : MG Name) (hg : g.WF) (hloop : ∀ v, ¬ g.DiEdge v v) (ev : Event) (hev : EventOK g ev) :
    ∃ anc factors, line2 g ev = .ok (anc, factors) ∧
      ∀ f ∈ factors, f ≠ [] ∧ (∀ p ∈ f, p.1.name ∈ g.nodes) ∧
        (∀ a ∈ f, ∀ b ∈ f, (g.subgraph (dedup' (f.map (·.1.name)))).SameDistrict a.1.name b.1.name) :=
  line2_ok g hg hloop ev hev

/-- **One domain of Algorithm 4 never raises** under `DomainOK`: in particular the `ValueError` "the vertices in an
input district are part of more than one district in a domain graph" needs a district that is NOT bidirected-connected
in the domain graph, and IDENTIFY's own checks (`tian_checks`) hold. -/
theorem sigmaTRDomain_no_error (district : List Name) (d : Domain) (hne : district ≠ []) (h : DomainOK district d) :
    ∃ r, sigmaTRDomain district d = .ok r :=
  sigmaTRDomain_total district d hne h

/-- **The transport loop never raises** when every factor is non-empty, inside the regular nodes of every domain graph,
and every usable domain is `DomainOK` for it. -/
theorem transportFactors_no_error (ds : List Domain) (fs : List Event)
    (h : ∀ f ∈ fs, f ≠ [] ∧ ∀ d ∈ ds, (∀ v ∈ dedup' (f.map (·.1.name)), v ∈ regular d.graph) ∧
        (domainUsable (dedup' (f.map (·.1.name))) d = true → DomainOK (dedup' (f.map (·.1.name))) d)) :
    ∃ r, transportFactors ds fs = .ok r :=
  transportFactors_total ds fs h

/-- **C09, "never another error", Algorithm 2 — for every validated event** (after `fix:` c8cad49 and 333fa44; before
them SIMPLIFY raised `TypeError` after the validator had accepted an event with a self-intervened `Y_y` together with a
valueless variable named `Y`: former finding `crash:simplify-typeerror`, former witness `w4` below).  An input accepted by
the validator, on graphs built by `from_edges`, is answered or refused — `ctfTRu` returns no error at all — provided its
variables are what `_event_from_counterfactuals` builds (`EventVarsPlain`), and the selection diagrams agree with the
target graph on the bidirected edges between policy-free variables and have no bidirected edge at a selection node
(`DomainsAgree`; the validator does not compare a domain graph with the target graph unless it is the target domain's
own, and Algorithm 4 raises `ValueError` otherwise: open finding `crash:sigmaTR-district-split`, witness `w1` below,
confirmed on the Python). -/
theorem ctfTRu_no_internal_error (target : MG Name) (ds : List Domain) (e : Event)
    (hv : validateU target ds e = .ok ()) (hwf : target.WF) (hds : ∀ d ∈ ds, d.graph.WF)
    (hplain : EventVarsPlain e) (hdom : DomainsAgree target ds) :
    ∀ err, ctfTRu target ds e ≠ .error err :=
  ctfTRu_total target ds e hv hwf hds hplain hdom

/-- with the trichotomy: such an input is answered or refused -/
theorem ctfTRu_answers_or_fails (target : MG Name) (ds : List Domain) (e : Event)
    (hv : validateU target ds e = .ok ()) (hwf : target.WF) (hds : ∀ d ∈ ds, d.graph.WF)
    (hplain : EventVarsPlain e) (hdom : DomainsAgree target ds) :
    (∃ a, ctfTRu target ds e = .ok (some a)) ∨ ctfTRu target ds e = .ok none := by
  rcases ctfTRu_trichotomy target ds e hv with h | h | ⟨err, herr, _⟩
  · exact Or.inl h
  · exact Or.inr h
  · exact absurd herr (ctfTRu_no_internal_error target ds e hv hwf hds hplain hdom err)

open Trso (isTnode nsort) in
open TianSpec in
/-- **Algorithm 4 is sound** (composition of `sigmaTR_uses_usable_domain`, C17 `cfactor_sound` and `tian_sound`): the
expression returned for a district comes from a usable domain `d`, and in every positive semi-Markovian model compatible
with that domain's selection diagram in which the domain's distribution `d.pop` denotes `Q[V]` (`V` the regular nodes in
the order `d.topo`), it denotes `Q[district]`. -/
theorem sigmaTR_sound (district : List Name) (ds : List Domain) (e : Expr)
    (h : sigmaTR district ds = .ok (some e)) (hne : district ≠ []) :
    ∃ d ∈ ds, domainUsable district d = true ∧
      ∀ (M : Scm), M.Compatible d.graph → d.graph.WF → d.graph.Ranked → d.topo.Nodup → TopoOrdered d.graph d.topo →
        (∀ v ∈ d.graph.nodes, v ∈ d.topo) → (∀ v ∈ district, v ∈ regular d.graph) →
        (∀ a b, d.graph.BiEdge a b → isTnode a = false) →
        ∀ σ' : Val, ProbShape d.pop (d.topo.filter (· ∈ regular d.graph)) →
          (∀ σ, den (M.env d.graph) σ' d.pop σ = M.Q (d.topo.filter (· ∈ regular d.graph)) σ) →
          ∀ σ, den (M.env d.graph) σ' e σ = M.Q (nsort district) σ := by
  obtain ⟨d, hd, hus, hdom⟩ := sigmaTR_uses_usable_domain district ds e h
  exact ⟨d, hd, hus, fun M hM hG hrank htnd hord hcov hreg biT σ' hshape hpop =>
    sigmaTRDomain_sound M district d hM hG hrank htnd hord hcov hne hreg biT σ' hshape hpop e hdom⟩


/-! ## Non-vacuity: Example 4.2 of Correa et al. (figure 2a; domain 1 with policy σ_X and a selection node on Z,
domain 2 with a selection node on W).  Z=3 X=1 Y=2 W=0 -/

def fig2a : MG Name := MG.fromEdges [] [(3, 1), (3, 2), (1, 2), (1, 0), (0, 2)] [(3, 1), (0, 2)]
def fig2dom1 : Domain :=
  { graph := MG.fromEdges [0, 1, 2, 3] [(1, 2), (1, 0), (0, 2), (3, 2), (203, 3)] [(0, 2)], topo := [1, 203, 0, 3, 2],
    policy := [1], pop := .prob (some (Var.plain 1001)) (TrDsl.plainVars [0, 1, 2, 3]) [] }
def fig2dom2 : Domain :=
  { graph := MG.fromEdges [0, 1, 2, 3] [(3, 1), (3, 2), (1, 2), (1, 0), (0, 2), (200, 0)] [(3, 1), (0, 2)],
    topo := [3, 200, 1, 0, 2], policy := [], pop := .prob (some (Var.plain 1002)) (TrDsl.plainVars [0, 1, 2, 3]) [] }
/-- `Y_x = y ∧ X = x` -/
def ex42 : Event := [({ name := 2, ivs := [⟨1, false⟩] }, some ⟨2, false⟩), ({ name := 1 }, some ⟨1, false⟩)]
/-- `Y_x = y ∧ Y_x = y'` -/
def exImpossible : Event :=
  [({ name := 2, ivs := [⟨1, false⟩] }, some ⟨2, false⟩), ({ name := 2, ivs := [⟨1, false⟩] }, some ⟨2, true⟩)]

def isAnswerWithEvent : Except Err (Option Answer) → Bool
  | .ok (some (_, some _)) => true
  | _ => false
def isZeroAnswer : Except Err (Option Answer) → Bool
  | .ok (some (.zero, none)) => true
  | _ => false

example : validateU fig2a [fig2dom1, fig2dom2] ex42 = .ok () := by decide +kernel
example : isAnswerWithEvent (ctfTRu fig2a [fig2dom1, fig2dom2] ex42) = true := by decide +kernel
example : isZeroAnswer (ctfTRu fig2a [fig2dom1, fig2dom2] exImpossible) = true := by decide +kernel
example : ∀ p ∈ exImpossible, selfIntervened p.1 = false := by decide

/-! ### §5: the hypotheses are satisfiable, and what happens without them -/

example : CrashClassU ex42 = false := by decide
example : EventVarsPlain ex42 := by unfold EventVarsPlain; decide
theorem fig2_domainsAgree : DomainsAgree fig2a [fig2dom1, fig2dom2] := by
  intro d hd
  simp only [List.mem_cons, List.not_mem_nil, or_false] at hd
  rcases hd with rfl | rfl
  · refine ⟨fun a b hab ha hb => ?_, fun a b hab => ?_⟩
    · rw [fig2a, MG.biEdge_fromEdges] at hab
      rw [fig2dom1, MG.biEdge_fromEdges]
      simp only [fig2dom1, List.mem_cons, List.not_mem_nil, or_false, Prod.mk.injEq] at hab ha hb ⊢
      rcases hab with (⟨rfl, rfl⟩ | ⟨rfl, rfl⟩) | (⟨rfl, rfl⟩ | ⟨rfl, rfl⟩) <;> simp_all
    · rw [fig2dom1, MG.biEdge_fromEdges] at hab
      simp only [List.mem_cons, List.not_mem_nil, or_false, Prod.mk.injEq] at hab
      rcases hab with ⟨rfl, _⟩ | ⟨_, rfl⟩ <;> decide
  · refine ⟨fun a b hab _ _ => ?_, fun a b hab => ?_⟩
    · rw [fig2a, MG.biEdge_fromEdges] at hab
      rw [fig2dom2, MG.biEdge_fromEdges]
      exact hab
    · rw [fig2dom2, MG.biEdge_fromEdges] at hab
      simp only [List.mem_cons, List.not_mem_nil, or_false, Prod.mk.injEq] at hab
      rcases hab with (⟨rfl, _⟩ | ⟨rfl, _⟩) | (⟨_, rfl⟩ | ⟨_, rfl⟩) <;> decide

/-- the theorem applies to Example 4.2 -/
example : ∀ err, ctfTRu fig2a [fig2dom1, fig2dom2] ex42 ≠ .error err :=
  ctfTRu_no_internal_error _ _ _ (by decide +kernel) (MG.wf_fromEdges _ _ _)
    (by intro d hd
        simp only [List.mem_cons, List.not_mem_nil, or_false] at hd
        rcases hd with rfl | rfl <;> exact MG.wf_fromEdges _ _ _)
    (by unfold EventVarsPlain; decide) fig2_domainsAgree

def isInternal (k : String) : Except Err (Option Answer) → Bool
  | .error (.internal k') => k == k'
  | _ => false

/-- **witness `w1` (a crash class outside the harness's generator, confirmed on the Python).**  Target `X ↔ Y`; the only
domain has the same variables but NO bidirected edge, its own population tag, no policy, no selection node.  The
validator accepts (it compares a domain graph with the target graph only for the target domain itself), and Algorithm 4
raises `ValueError` ("the vertices in an input district are part of more than one district in a domain graph") for
`P(X = x, Y = y)`. -/
def w1Target : MG Name := MG.fromEdges [] [] [(1, 2)]
def w1Dom : Domain :=
  { graph := MG.fromEdges [1, 2] [] [], topo := [1, 2], policy := [],
    pop := .prob (some (Var.plain 1001)) (TrDsl.plainVars [1, 2]) [] }
def w1Event : Event := [({ name := 1 }, some ⟨1, false⟩), ({ name := 2 }, some ⟨2, false⟩)]

example : validateU w1Target [w1Dom] w1Event = .ok () := by decide +kernel
example : CrashClassU w1Event = false := by decide
example : EventVarsPlain w1Event := by unfold EventVarsPlain; decide
example : isInternal "ValueError" (ctfTRu w1Target [w1Dom] w1Event) = true := by decide +kernel

/-- former witnesses of the class `crash:simplify-typeerror` (regression cases in corpus/C09): `Y_y = y` with a valueless
`X` was always answered; `Y_y = y` with a valueless `Y` (`w4`) raised `TypeError` from SIMPLIFY before `fix:` c8cad49 and
is answered now; a VALUELESS `Y_y` (`w5`) raised the same `TypeError` after validation and is rejected by the validator
now (`fix:` 333fa44) — all three as the Python. -/
def w3Graph : MG Name := MG.fromEdges [1, 2] [] []
def w3Dom : Domain :=
  { graph := MG.fromEdges [1, 2] [] [], topo := [1, 2], policy := [],
    pop := .prob (some (Var.plain 1001)) (TrDsl.plainVars [1, 2]) [] }
def w3Event : Event := [({ name := 2, ivs := [⟨2, false⟩] }, some ⟨2, false⟩), ({ name := 1 }, none)]
def w4Event : Event := [({ name := 2, ivs := [⟨2, false⟩] }, some ⟨2, false⟩), ({ name := 2 }, none)]
def w5Event : Event := [({ name := 2, ivs := [⟨2, false⟩] }, none), ({ name := 1 }, some ⟨1, false⟩)]

example : CrashClassU w3Event = true ∧ SimplifyRisk w3Event = false := by decide
example : isAnswerWithEvent (ctfTRu w3Graph [w3Dom] w3Event) = true := by decide +kernel
example : SimplifyRisk w4Event = true := by decide
example : validateU w3Graph [w3Dom] w4Event = .ok () := by decide +kernel
example : isAnswerWithEvent (ctfTRu w3Graph [w3Dom] w4Event) = true := by decide +kernel
example : SimplifyRisk w5Event = true := by decide
example : validateU w3Graph [w3Dom] w5Event = .error (.invalidInput "TypeError") := by decide +kernel

/-! ## 6. Algorithm 3 (ctfTR): where Zero comes from, the shape of an answer, no other error

`D*` is the event Algorithm 3 derives itself (`line2C`: the union of the ancestral components that contain an outcome
variable, with the outcomes' values, in ctf-factor form); Algorithm 2 is run on it with its own validator. -/

/-- **Zero only from SIMPLIFY on `D*`**: ctfTR returns an answer without an event only as `Zero()`, and only because
SIMPLIFY found the derived event `D*` inconsistent -/
theorem ctfTR_zero_only_from_simplify (target : MG Name) (ds : List Domain) (o c : Event) (x : Expr)
    (h : ctfTR target ds o c = .ok (some (x, none))) :
    x = .zero ∧ ∃ dstar dNames, line2C target o c = .ok (dstar, dNames) ∧ simplify target dstar = .ok none := by
  obtain ⟨_, hrun⟩ := ctfTR_ok_inv target ds o c _ h
  generalize hr : (some (x, none) : Option Answer) = r at hrun
  cases hrun with
  | fail => cases hr
  | zero dstar dNames x' h2 hu =>
    cases hr
    exact ⟨(ctfTRu_zero_only_from_simplify target ds dstar x hu).1, dstar, dNames, h2,
      (ctfTRu_zero_only_from_simplify target ds dstar x hu).2⟩
  | answer dstar dNames q simplified a h2 hu h4 =>
    obtain ⟨expr, _, _, ha⟩ := line4C_ok_inv ds o c dNames q simplified a h4
    subst ha
    cases hr

/-- **shape of the expression**: an answer with an event is `Fraction(Sum.safe(Q, A), Sum.safe(Q, B))` where `Q` is the
expression Algorithm 2 returns for `D*`, `A` = the vertices of `D*` that are neither outcome nor condition vertices,
`B` = the vertices of `D*` that are not condition vertices, and `A ⊆ B` -/
theorem ctfTR_answer_shape (target : MG Name) (ds : List Domain) (o c : Event) (x : Expr) (ev : Event)
    (h : ctfTR target ds o c = .ok (some (x, some ev))) :
    ∃ dstar dNames q simplified, line2C target o c = .ok (dstar, dNames) ∧
      ctfTRu target ds dstar = .ok (some (q, some simplified)) ∧
      x = .frac (TrDsl.sumSafe q ((diff' dNames (eventNames (c ++ o))).map Var.plain))
        (TrDsl.sumSafe q ((diff' dNames (eventNames c)).map Var.plain)) ∧
      ∀ n ∈ diff' dNames (eventNames (c ++ o)), n ∈ diff' dNames (eventNames c) := by
  obtain ⟨_, hrun⟩ := ctfTR_ok_inv target ds o c _ h
  generalize hr : (some (x, some ev) : Option Answer) = r at hrun
  cases hrun with
  | fail => cases hr
  | zero => cases hr
  | answer dstar dNames q simplified a h2 hu h4 =>
    obtain ⟨expr, he, _, ha⟩ := line4C_ok_inv ds o c dNames q simplified a h4
    subst ha
    cases hr
    exact ⟨dstar, dNames, q, simplified, h2, hu, line4Expr_ok_inv _ _ _ _ _ he, diff_oc_subset dNames o c⟩

/-- **shape of the returned event**: the outcomes followed by a sub-list of the conditions, each reduced to its graph
vertex and paired with its value from the query (all values present) -/
theorem ctfTR_event_shape (target : MG Name) (ds : List Domain) (o c : Event) (x : Expr) (ev : Event)
    (h : ctfTR target ds o c = .ok (some (x, some ev))) :
    (∃ c', c'.Sublist c ∧ ev = (o ++ c').map fun p => (p.1.base, p.2)) ∧ ∀ p ∈ ev, p.2.isSome = true := by
  obtain ⟨hv, hrun⟩ := ctfTR_ok_inv target ds o c _ h
  generalize hr : (some (x, some ev) : Option Answer) = r at hrun
  cases hrun with
  | fail => cases hr
  | zero => cases hr
  | answer dstar dNames q simplified a h2 hu h4 =>
    obtain ⟨expr, _, _, ha⟩ := line4C_ok_inv ds o c dNames q simplified a h4
    subst ha
    cases hr
    obtain ⟨c', hsub, hev⟩ := line4Event_shape x o c
    refine ⟨⟨c', hsub, hev⟩, ?_⟩
    rw [hev]
    intro p hp
    obtain ⟨p0, hp0, rfl⟩ := List.mem_map.1 hp
    apply (validateC_strict target ds o c hv).1 p0
    rcases List.mem_append.1 hp0 with h' | h'
    · exact List.mem_append_left _ h'
    · exact List.mem_append_right _ (hsub.subset h')

/-- **the expression `Q` of Algorithm 2 for `D*` is never `Zero()` and has the expected vocabulary** (`QGood`): it is a
`Sum.safe` of a `Product.safe` of expressions that Tian's IDENTIFY builds from the domains' distributions, each a
Probability / Sum / Product / Fraction over variables of its domain's distribution and plain graph vertices
(Y0/Lemmas/CtfTrAlg3Q.lean: `identify_good`).  So the `Fraction` constructor of line 4 never raises
`ZeroDivisionError`, and the third final check passes when the vertices are variables of the distributions. -/
theorem ctfTR_q_good (target : MG Name) (ds : List Domain) (o c : Event)
    (hv : validateC target ds o c = .ok ()) (hwf : target.WF) (hds : ∀ d ∈ ds, d.graph.WF)
    (hbiT : ∀ d ∈ ds, ∀ a b, d.graph.BiEdge a b → Trso.isTnode a = false) (hplain : EventVarsPlain (o ++ c)) :
    QGood target ds o c :=
  qGood_holds target ds o c hv hwf hds hbiT hplain

/-- **C09, "never another error", Algorithm 3 — for every validated input** (after `fix:` f335599; before it this was
FALSE: the outcomes were looked up in the ancestral components under their raw name, and an outcome `Y_x` whose subscript
is not kept was not found — `ValueError('empty list for the event')` from Algorithm 2's validator when no outcome was
found, `KeyError` of the fifth final check when some were; former findings `crash:ctfTR-derived-event-rejected`,
`crash:ctfTR-final-check`; former witness `a3Miss`, now an answered regression case).
An input accepted by the conditional validator is answered or refused — `ctfTR` returns no error at all.  No class of
queries is excluded; the remaining hypotheses describe the INPUT FORMAT, not the query:
* `target.WF`, `d.graph.WF`: graphs built by `from_edges`;
* `EventVarsPlain`: query variables as the public wrapper `conditional_cft` builds them (no value mark on the variable,
  subscripts a frozenset);
* `PopsPlain`: the children of every domain's `PopulationProbability` are plain `Variable`s — the "joint distribution tag"
  `PP[π](V)` of C09's quantifier (for other distributions see `ctfTR_no_internal_error_anypop_partial` and `a3Shared`);
* `DomainsAgree`: every selection diagram keeps the target's bidirected edges between non-policy variables and has no
  bidirected edge at a selection node — the hypothesis Algorithm 2 needs (`ctfTRu_no_internal_error`; without
  it Algorithm 4 raises `ValueError`: open finding `crash:sigmaTR-district-split`, witness `w1` above).
What changed in the proof: every outcome is found under its lookup key (`Ctf.ancestralSetRoot_mem`: `‖W_t‖` of the graph
without the edges out of the conditioned ancestors IS the member of `An(W_t)` that stands for `W_t`;
`line2C_ok`), so `D*` is never empty and the fifth final check finds every outcome's vertex. -/
theorem ctfTR_no_internal_error (target : MG Name) (ds : List Domain) (o c : Event)
    (hv : validateC target ds o c = .ok ()) (hwf : target.WF) (hds : ∀ d ∈ ds, d.graph.WF)
    (hdom : DomainsAgree target ds) (hplain : EventVarsPlain (o ++ c)) (hpp : PopsPlain ds) :
    ∀ err, ctfTR target ds o c ≠ .error err :=
  ctfTR_total_plain target ds o c hv hwf hds hdom hplain hpp

/-- with the trichotomy: every such input is answered or refused -/
theorem ctfTR_answers_or_fails (target : MG Name) (ds : List Domain) (o c : Event)
    (hv : validateC target ds o c = .ok ()) (hwf : target.WF) (hds : ∀ d ∈ ds, d.graph.WF)
    (hdom : DomainsAgree target ds) (hplain : EventVarsPlain (o ++ c)) (hpp : PopsPlain ds) :
    (∃ a, ctfTR target ds o c = .ok (some a)) ∨ ctfTR target ds o c = .ok none := by
  rcases ctfTR_trichotomy target ds o c hv with h | h | ⟨err, herr, _⟩
  · exact Or.inl h
  · exact Or.inr h
  · exact absurd herr (ctfTR_no_internal_error target ds o c hv hwf hds hdom hplain hpp err)

/-- **arbitrary domain distributions** (a `PopulationProbability` that lists counterfactual variables): Algorithm 3 never
raises when no outcome shares its vertex with a condition (`OutcomeNotCondition`, decidable; NEEDED for such
distributions: witness `a3Shared` below) -/
theorem ctfTR_no_internal_error_anypop_partial (target : MG Name) (ds : List Domain) (o c : Event)
    (hv : validateC target ds o c = .ok ()) (hwf : target.WF) (hds : ∀ d ∈ ds, d.graph.WF)
    (hdom : DomainsAgree target ds) (hplain : EventVarsPlain (o ++ c)) (hdisj : OutcomeNotCondition o c = true) :
    ∀ err, ctfTR target ds o c ≠ .error err :=
  ctfTR_total_without_oneWorld target ds o c hv hwf hds hdom hplain hdisj

/-- the composition behind both, with the facts about the domains' distributions and about `Q` as hypotheses
(`QCovers`: the vertex of an outcome that is also a condition vertex occurs in `Q`; `PopsCoverNodes`, `QGood`; they hold
by `qCovers_of_popsPlain` / `qCovers_of_disjoint`, `popsCover_of_validateC` and `ctfTR_q_good`) -/
theorem ctfTR_no_internal_error_of_parts (target : MG Name) (ds : List Domain) (o c : Event)
    (hv : validateC target ds o c = .ok ()) (hwf : target.WF) (hds : ∀ d ∈ ds, d.graph.WF)
    (hdom : DomainsAgree target ds) (hplain : EventVarsPlain (o ++ c))
    (hcov : QCovers target ds o c) (hpop : PopsCoverNodes target ds) (hq : QGood target ds o c) :
    ∀ err, ctfTR target ds o c ≠ .error err :=
  ctfTR_total_of_cover target ds o c hv hwf hds hdom hplain hcov hpop hq

/-- **every outcome is found** (the fact the fix establishes): lines 1-2 never raise, every outcome has a lookup key with
its graph vertex and value, and every lookup key is a variable of `D*` -/
theorem ctfTR_outcomes_found (target : MG Name) (hwf : target.WF) (o c : Event)
    (ho : ∀ p ∈ o, VarOK target p.1) (hc : ∀ p ∈ c, VarOK target p.1) (hos : ∀ p ∈ o, p.1.star = none) :
    ∃ lk D, lookupOutcomes target o c = .ok lk ∧ dstarVars target o c = .ok D ∧
      (∀ p ∈ o, ∃ p' ∈ lk, p'.1.name = p.1.name ∧ p'.2 = p.2) ∧ ∀ p' ∈ lk, p'.1 ∈ D := by
  obtain ⟨lk, D, _, _, hlk, hrel, hfound, hD, _⟩ := line2C_ok target hwf o c ho hc hos
  exact ⟨lk, D, hlk, hD, fun p hp => hrel.of_out p hp, hfound⟩

/-- the parts, for reference: lines 1-2 never raise (`line2C_ok`), Algorithm 2's validator accepts a non-empty `D*`
(`validateU_dstar`), and line 4 never raises under the stated facts (`line4C_ok_of_cover`) -/
theorem ctfTR_line2_total (target : MG Name) (hwf : target.WF) (o c : Event)
    (ho : ∀ p ∈ o, VarOK target p.1) (hc : ∀ p ∈ c, VarOK target p.1) (hos : ∀ p ∈ o, p.1.star = none) :
    ∃ dstar dNames, line2C target o c = .ok (dstar, dNames) := by
  obtain ⟨_, _, dstar, dNames, _, _, _, _, h, _⟩ := line2C_ok target hwf o c ho hc hos
  exact ⟨dstar, dNames, h⟩

-- (the former `-- OPEN: ctfTR_no_internal_error` block is closed by `ctfTR_no_internal_error` above.)
-- Decided on the way (round 4), still valid:
--   * `DstarOneWorld` is not needed: a vertex in two worlds either disappears in the conversion of `D*` to ctf-factor form
--     (both copies become `W_{pa(W)}` with the same parent values: SIMPLIFY binds a variable once) or makes line 3 of
--     Algorithm 2 answer FAIL (two values of one parent in one ctf-factor), so the simplified event of an ANSWER binds
--     every vertex once (`ffEvent_answer_fun`, `ctfTR_simplified_binds_once`).  Non-vacuity: `a3Two`.
--   * `OutcomeNotCondition` IS needed for arbitrary domain distributions: witness `a3Shared` below — the domain's
--     distribution `PP[π](X, Y, Y_x)` lists a counterfactual variable next to its vertex, Lemma 1 of Tian's IDENTIFY
--     writes the factor of `Y` in that world, `Y` does not occur in `Q`, and the fifth final check raises `KeyError` for
--     `P*(Y = y | Y = y')` after both validators accepted the input; confirmed on the Python
--     (tools/c09_popworld_witness.py; not expressible in the case format of harness/props/c09.py, whose domains carry
--     `PP[π](V)` only).  It is NOT needed for distributions over plain variables (`PopsPlain`, what `PP[π](V)` is).

/-! ### non-vacuity for Algorithm 3: Example 4.5-like `P*(y_x | x')` on figure 2a (corpus), and a crash-class witness -/

/-- `Y_x = y` -/
def a3Out : Event := [({ name := 2, ivs := [⟨1, false⟩] }, some ⟨2, false⟩)]
/-- `X = x'` -/
def a3Cond : Event := [({ name := 1 }, some ⟨1, true⟩)]

example : validateC fig2a [fig2dom1, fig2dom2] a3Out a3Cond = .ok () := by decide +kernel
example : isAnswerWithEvent (ctfTR fig2a [fig2dom1, fig2dom2] a3Out a3Cond) = true := by decide +kernel
example : OutcomesFound fig2a a3Out a3Cond = true ∧ DstarOneWorld fig2a a3Out a3Cond = true ∧
    OutcomeNotCondition a3Out a3Cond = true := by decide +kernel
example : popsCoverCheck fig2a [fig2dom1, fig2dom2] = true ∧ qGoodCheck fig2a [fig2dom1, fig2dom2] a3Out a3Cond = true := by
  decide +kernel

/-- the theorem applies to the example -/
example : ∀ err, ctfTR fig2a [fig2dom1, fig2dom2] a3Out a3Cond ≠ .error err :=
  ctfTR_no_internal_error _ _ _ _ (by decide +kernel) (MG.wf_fromEdges _ _ _)
    (by intro d hd
        simp only [List.mem_cons, List.not_mem_nil, or_false] at hd
        rcases hd with rfl | rfl <;> exact MG.wf_fromEdges _ _ _)
    fig2_domainsAgree (by unfold EventVarsPlain; decide) (popsPlain_of_check _ (by decide +kernel))

/-- the returned event of the example is `Y = y, X = x'` -/
example : (match ctfTR fig2a [fig2dom1, fig2dom2] a3Out a3Cond with
    | .ok (some (_, some ev)) => decide (ev = [(Var.plain 2, some ⟨2, false⟩), (Var.plain 1, some ⟨1, true⟩)])
    | _ => false) = true := by decide +kernel

/-- **former crash-class witness `a3Miss`** (former finding `crash:ctfTR-derived-event-rejected`; corpus/C09 keeps it as
a regression case): two isolated nodes `X`, `Y`; `P*(Y_x = y | X = x)`.  The components store `‖Y_x‖ = Y`; before `fix:`
f335599 the outcome `Y_x` was not found under its raw name, `D*` was empty and Algorithm 2's validator raised
`ValueError` after the conditional validator had accepted the input.  Now the outcome is looked up as `Y`, and the query
is answered with the same expression as `P*(Y = y | X = x)`. -/
def a3MissGraph : MG Name := MG.fromEdges [1, 2] [] []
def a3MissDom : Domain :=
  { graph := MG.fromEdges [1, 2] [] [], topo := [1, 2], policy := [],
    pop := .prob (some (Var.plain 1001)) (TrDsl.plainVars [1, 2]) [] }
def a3MissOut : Event := [({ name := 2, ivs := [⟨1, false⟩] }, some ⟨2, false⟩)]
def a3MissCond : Event := [({ name := 1 }, some ⟨1, false⟩)]

example : validateC a3MissGraph [a3MissDom] a3MissOut a3MissCond = .ok () := by decide +kernel
/-- the outcome is not a member of the components under its RAW name … -/
example : OutcomesFound a3MissGraph a3MissOut a3MissCond = false := by decide +kernel
/-- … its lookup key is `Y` … -/
example : lookupOutcomes a3MissGraph a3MissOut a3MissCond = .ok [({ name := 2 }, some ⟨2, false⟩)] := by decide +kernel
/-- … and the query is answered, with the returned event of the query with the minimal outcome `Y` -/
example : isAnswerWithEvent (ctfTR a3MissGraph [a3MissDom] a3MissOut a3MissCond) = true := by decide +kernel
example : (match ctfTR a3MissGraph [a3MissDom] a3MissOut a3MissCond,
      ctfTR a3MissGraph [a3MissDom] [({ name := 2 }, some ⟨2, false⟩)] a3MissCond with
    | .ok (some (_, some ev)), .ok (some (_, some ev')) => decide (ev = ev')
    | _, _ => false) = true := by decide +kernel
/-- `ctfTR_no_internal_error` applies to it -/
example : ∀ err, ctfTR a3MissGraph [a3MissDom] a3MissOut a3MissCond ≠ .error err :=
  ctfTR_no_internal_error _ _ _ _ (by decide +kernel) (MG.wf_fromEdges _ _ _)
    (by intro d hd
        simp only [List.mem_singleton] at hd
        subst hd; exact MG.wf_fromEdges _ _ _)
    (by intro d hd
        simp only [List.mem_singleton] at hd
        subst hd
        refine ⟨fun a b hab _ _ => ?_, fun a b hab => ?_⟩
        · rw [a3MissGraph, MG.biEdge_fromEdges] at hab; simp at hab
        · rw [a3MissDom, MG.biEdge_fromEdges] at hab; simp at hab)
    (by unfold EventVarsPlain; decide) (popsPlain_of_check _ (by decide +kernel))

/-- check 15 of the validators (`v in expression.get_variables()` for every graph vertex `v`) is a test on `Variable`
OBJECTS: the distribution `PP[π1](Y_x)` names `X` and `Y` but contains neither as a plain variable, and is rejected (as
the Python: `ValueError`, "some of the vertices in a domain graph do not appear in the expression") -/
def a3PopDom : Domain :=
  { graph := MG.fromEdges [] [(1, 2)] [], topo := [1, 2], policy := [],
    pop := .prob (some (Var.plain 1001)) [{ name := 2, ivs := [⟨1, false⟩] }] [] }
example : validateU (MG.fromEdges [] [(1, 2)] []) [a3PopDom] [({ name := 2 }, some ⟨2, false⟩)] =
    .error (.invalidInput "ValueError") := by decide +kernel

/-! ### the fact that replaces `DstarOneWorld` -/

/-- the part that replaces `DstarOneWorld`: an answer of Algorithm 2 on `D*` binds every graph vertex once -/
theorem ctfTR_simplified_binds_once (target : MG Name) (ds : List Domain) (o c : Event)
    (hv : validateC target ds o c = .ok ()) (hwf : target.WF) (hplain : EventVarsPlain (o ++ c))
    (dstar : Event) (dNames : List Name) (q : Expr) (simplified : Event)
    (h2 : line2C target o c = .ok (dstar, dNames))
    (hu : ctfTRu target ds dstar = .ok (some (q, some simplified))) :
    ∀ p ∈ simplified, ∀ p' ∈ simplified, p.1.name = p'.1.name → p.2 = p'.2 := by
  obtain ⟨_, _, _, hnodes, _, hac, _⟩ := validateC_facts target ds o c hv
  have hloop : ∀ v, ¬ target.DiEdge v v := fun v hvv =>
    ((MG.isAcyclic_iff target hwf).1 hac) v (Relation.TransGen.single hvv)
  have hok : ∀ p ∈ o ++ c, VarOK target p.1 := by
    intro p hp
    refine ⟨hnodes p ?_, Or.inr ⟨(hplain p hp).2.1, (hplain p hp).1⟩⟩
    rcases List.mem_append.1 hp with h | h
    · exact List.mem_append_right _ h
    · exact List.mem_append_left _ h
  obtain ⟨lk, D, dstar', dNames', _, _, _, _, h2', _, hfacts⟩ := line2C_ok target hwf o c
    (fun p hp => hok p (List.mem_append_left _ hp)) (fun p hp => hok p (List.mem_append_right _ hp))
    (fun p hp => (hplain p (List.mem_append_left _ hp)).1)
  rw [h2] at h2'
  simp only [Except.ok.injEq, Prod.mk.injEq] at h2'
  obtain ⟨rfl, rfl⟩ := h2'
  exact ffEvent_answer_fun target hwf hloop ds dstar (fun r hr => by
    obtain ⟨p, _, hc, _⟩ := hfacts.origin r hr
    exact convertOne_ffvar target p.1 r.1 hc) q simplified hu

/-! ### non-vacuity: an answered query with a vertex in two worlds, one with an outcome that is also a condition -/

/-- `X → Y`, `X ↔ Y` (X=1, Y=0) -/
def a3TwoGraph : MG Name := MG.fromEdges [] [(1, 0)] [(1, 0)]
def a3TwoDom : Domain :=
  { graph := MG.fromEdges [] [(1, 0)] [(1, 0)], topo := [1, 0], policy := [],
    pop := .prob (some (Var.plain 1001)) (TrDsl.plainVars [0, 1]) [] }
/-- `Y_x = y', Y = y'` -/
def a3TwoOut : Event := [({ name := 0, ivs := [⟨1, false⟩] }, some ⟨0, true⟩), ({ name := 0 }, some ⟨0, true⟩)]
/-- `X = x` -/
def a3TwoCond : Event := [({ name := 1 }, some ⟨1, false⟩)]

theorem a3Two_domainsAgree : DomainsAgree a3TwoGraph [a3TwoDom] := by
  intro d hd
  simp only [List.mem_singleton] at hd
  subst hd
  refine ⟨fun a b hab _ _ => ?_, fun a b hab => ?_⟩
  · rw [a3TwoGraph, MG.biEdge_fromEdges] at hab
    rw [a3TwoDom, MG.biEdge_fromEdges]
    exact hab
  · rw [a3TwoDom, MG.biEdge_fromEdges] at hab
    simp only [List.mem_cons, List.not_mem_nil, or_false, Prod.mk.injEq] at hab
    rcases hab with ⟨rfl, _⟩ | ⟨_, rfl⟩ <;> decide

example : validateC a3TwoGraph [a3TwoDom] a3TwoOut a3TwoCond = .ok () := by decide +kernel
example : OutcomesFound a3TwoGraph a3TwoOut a3TwoCond = true ∧ DstarOneWorld a3TwoGraph a3TwoOut a3TwoCond = false ∧
    OutcomeNotCondition a3TwoOut a3TwoCond = true := by decide +kernel
example : isAnswerWithEvent (ctfTR a3TwoGraph [a3TwoDom] a3TwoOut a3TwoCond) = true := by decide +kernel
/-- `ctfTR_no_internal_error_anypop_partial` applies to it -/
example : ∀ err, ctfTR a3TwoGraph [a3TwoDom] a3TwoOut a3TwoCond ≠ .error err :=
  ctfTR_no_internal_error_anypop_partial _ _ _ _ (by decide +kernel) (MG.wf_fromEdges _ _ _)
    (by intro d hd
        simp only [List.mem_singleton] at hd
        subst hd; exact MG.wf_fromEdges _ _ _)
    a3Two_domainsAgree (by unfold EventVarsPlain; decide) (by decide +kernel)

/-- `P*(Y = y | Y_x = y)` on `X → Y`, `X ↔ Y` (X=0, Y=1) with the target distribution itself: the outcome `Y` is also a
condition vertex, and `D*` names `Y` in two worlds -/
def a3BothGraph : MG Name := MG.fromEdges [] [(0, 1)] [(0, 1)]
def a3BothDom : Domain :=
  { graph := MG.fromEdges [] [(0, 1)] [(0, 1)], topo := [0, 1], policy := [],
    pop := .prob (some (Var.plain 1000)) (TrDsl.plainVars [0, 1]) [] }
def a3BothOut : Event := [({ name := 1 }, some ⟨1, false⟩)]
def a3BothCond : Event := [({ name := 1, ivs := [⟨0, false⟩] }, some ⟨1, false⟩)]

theorem a3Both_domainsAgree : DomainsAgree a3BothGraph [a3BothDom] := by
  intro d hd
  simp only [List.mem_singleton] at hd
  subst hd
  refine ⟨fun a b hab _ _ => ?_, fun a b hab => ?_⟩
  · rw [a3BothGraph, MG.biEdge_fromEdges] at hab
    rw [a3BothDom, MG.biEdge_fromEdges]
    exact hab
  · rw [a3BothDom, MG.biEdge_fromEdges] at hab
    simp only [List.mem_cons, List.not_mem_nil, or_false, Prod.mk.injEq] at hab
    rcases hab with ⟨rfl, _⟩ | ⟨_, rfl⟩ <;> decide

example : validateC a3BothGraph [a3BothDom] a3BothOut a3BothCond = .ok () := by decide +kernel
example : OutcomesFound a3BothGraph a3BothOut a3BothCond = true ∧ DstarOneWorld a3BothGraph a3BothOut a3BothCond = false ∧
    OutcomeNotCondition a3BothOut a3BothCond = false ∧ popsPlainCheck [a3BothDom] = true := by decide +kernel
example : isAnswerWithEvent (ctfTR a3BothGraph [a3BothDom] a3BothOut a3BothCond) = true := by decide +kernel
/-- `ctfTR_no_internal_error` applies to it -/
example : ∀ err, ctfTR a3BothGraph [a3BothDom] a3BothOut a3BothCond ≠ .error err :=
  ctfTR_no_internal_error _ _ _ _ (by decide +kernel) (MG.wf_fromEdges _ _ _)
    (by intro d hd
        simp only [List.mem_singleton] at hd
        subst hd; exact MG.wf_fromEdges _ _ _)
    a3Both_domainsAgree (by unfold EventVarsPlain; decide) (popsPlain_of_check _ (by decide +kernel))

/-- **crash-class witness `a3Shared`: `OutcomeNotCondition` is needed for arbitrary distributions** (as the Python:
`KeyError` of the fifth final check, "at least one variable in the event … is not a variable in the expression", after
both validators accepted the input; tools/c09_popworld_witness.py).  `X → Y` (X=1, Y=2), one domain with the target's
graph and the distribution `PP[π1](X, Y, Y_x)`; the query is `P*(Y = y | Y = y')`.  Lemma 1 of IDENTIFY writes the
c-factor of `Y` as `PP[π1](Y_x | X)` — `{child.get_base(): child}` keeps the last child on the vertex `Y` — so `Q` does
not mention `Y`, and neither sum of line 4 ranges over `Y` (it is a condition vertex). -/
def a3SharedGraph : MG Name := MG.fromEdges [] [(1, 2)] []
def a3SharedDom : Domain :=
  { graph := MG.fromEdges [] [(1, 2)] [], topo := [1, 2], policy := [],
    pop := .prob (some (Var.plain 1001)) [Var.plain 1, Var.plain 2, { name := 2, ivs := [⟨1, false⟩] }] [] }
def a3SharedOut : Event := [({ name := 2 }, some ⟨2, false⟩)]
def a3SharedCond : Event := [({ name := 2 }, some ⟨2, true⟩)]

example : validateC a3SharedGraph [a3SharedDom] a3SharedOut a3SharedCond = .ok () := by decide +kernel
example : OutcomesFound a3SharedGraph a3SharedOut a3SharedCond = true ∧
    DstarOneWorld a3SharedGraph a3SharedOut a3SharedCond = true ∧
    OutcomeNotCondition a3SharedOut a3SharedCond = false ∧ popsPlainCheck [a3SharedDom] = false := by decide +kernel
example : EventVarsPlain (a3SharedOut ++ a3SharedCond) := by unfold EventVarsPlain; decide
example : DomainsAgree a3SharedGraph [a3SharedDom] := by
  intro d hd
  simp only [List.mem_singleton] at hd
  subst hd
  refine ⟨fun a b hab _ _ => ?_, fun a b hab => ?_⟩
  · rw [a3SharedGraph, MG.biEdge_fromEdges] at hab
    rw [a3SharedDom, MG.biEdge_fromEdges]
    exact hab
  · rw [a3SharedDom, MG.biEdge_fromEdges] at hab
    simp at hab
example : isInternal "KeyError" (ctfTR a3SharedGraph [a3SharedDom] a3SharedOut a3SharedCond) = true := by decide +kernel
/-- the same query on the distribution over plain variables `PP[π1](X, Y)` is answered -/
example : isAnswerWithEvent (ctfTR a3SharedGraph
    [{ a3SharedDom with pop := .prob (some (Var.plain 1001)) (TrDsl.plainVars [1, 2]) [] }] a3SharedOut a3SharedCond) = true := by
  decide +kernel
/-- and so is the query with a condition on another vertex, `P*(Y = y | X = x')`, on `PP[π1](X, Y, Y_x)` -/
example : isAnswerWithEvent (ctfTR a3SharedGraph [a3SharedDom] a3SharedOut [({ name := 1 }, some ⟨1, true⟩)]) = true := by
  decide +kernel

end CtfTr
end Y0
