/-
  Property C09 — counterfactual transportability (ctfTRu / ctfTR).  (stub: grown below)
-/
import Y0.Model.Trso

namespace Y0.CtfTr

theorem stub_true : True := trivial

end Y0.CtfTr
