/-
  Property C11 — the canonical form is a true normal form.

  "Canonicalising an already canonical expression returns it unchanged, and any two expressions that differ only by the
   order of factors in a product, the nesting of products, or the order of variables on either side of a conditioning bar
   canonicalise to identical objects under the same ordering. The result does not depend on hash seeds or construction
   order."

  Theorems are about the executable model `Y0.canon` (lean/Y0/Model/Canon.lean, Dsl.lean) of the code AFTER the fix
  commits of branch fix-expr (total structural sort key, deterministic child order, flattening after canonicalising
  factors, trivial fractions re-checked after division); harness/props/c11.py compares the model with
  y0.mutate.canonicalize on every run and decides the hash-seed clause (a Python-runtime clause, R) by running fresh
  interpreters.

  Clauses:
    * `key_total`     (T)  the sort key `_get_key` induces a strict total order on ALL expressions
    * `canon_perm`    (T)  presentation invariance, for ALL expressions and orderings
    * `canon_idem`    (T)  idempotence, for ALL expressions, under every ordering handed to `canonicalize` (which
                           re-sorts it by variable name; the hypothesis is necessary, see the counterexample in section 3)
    * `normal_form`   (T)  the two clauses in the words of the property, for the PUBLIC entry point `canonicalize(e, ordering)`
                           with an explicit ordering or with the default `ordering=None` (recomputed from the expression at
                           every call): `canonicalize (canonicalize e) = canonicalize e`, and `Present e e'` implies that `e`
                           and `e'` have the same canonical form (in both directions: `Present` is symmetric)
-/
import Y0.Lemmas.CanonIdem
import Y0.Lemmas.CanonDefault

namespace Y0.C11
open Y0

/-! ## 1. the sort key is a strict total order -/

/-- **`key_total`**: `Expression.__lt__` (comparison of `_get_key()` tuples) is irreflexive, transitive and total, and two
expressions that it does not separate are EQUAL — for all expressions, canonical or not.  (On the pinned tree the key of a
probability was `(0, first child name)`: `P(A|B)` and `P(A|C)` were not separated, finding F4.) -/
theorem key_total :
    (∀ a : Expr, Expr.ltE a a = false) ∧
    (∀ a b c : Expr, Expr.ltE a b = true → Expr.ltE b c = true → Expr.ltE a c = true) ∧
    (∀ a b : Expr, Expr.ltE a b = true ∨ a = b ∨ Expr.ltE b a = true) :=
  ⟨Expr.ltE_irrefl, fun _ _ _ => Expr.ltE_trans, Expr.ltE_trichotomy⟩

/-- the key itself is injective -/
theorem key_injective (a b : Expr) (h : a.key = b.key) : a = b := Expr.key_inj a b h

/-- consequently `Product.safe` returns the same object for every order of its arguments -/
theorem product_safe_perm {l₁ l₂ : List Expr} (h : l₁.Perm l₂) : productSafe l₁ = productSafe l₂ := productSafe_perm h

/-- the F4 witness, on the model of the fixed code -/
example : productSafe [.prob none [Var.plain 0] [Var.plain 1], .prob none [Var.plain 0] [Var.plain 2]] =
    productSafe [.prob none [Var.plain 0] [Var.plain 2], .prob none [Var.plain 0] [Var.plain 1]] := by rfl

/-! ## 2. presentation invariance -/

/-- **`canon_perm`**: if `e'` is a presentation of `e` (`Present`: factor order, product nesting, children / parents
order, at any depth) then under every ordering the canonical form of `e`, when it exists, is the canonical form of `e'`. -/
theorem canon_perm {o : List Var} {e e' a : Expr} (h : Present e e') (hc : canon o e = .ok a) : canon o e' = .ok a :=
  present_canon h a hc

/-- children that share a name (two worlds): order does not matter (second fix) -/
example : canon [Var.plain 0, Var.plain 1, Var.plain 2]
      (.prob none [{ name := 2, ivs := [⟨1, false⟩] }, { name := 2, ivs := [⟨0, false⟩] }] []) =
    canon [Var.plain 0, Var.plain 1, Var.plain 2]
      (.prob none [{ name := 2, ivs := [⟨0, false⟩] }, { name := 2, ivs := [⟨1, false⟩] }] []) := by rfl

/-- a non-trivial presentation: `P(B|A) * (P(C) * P(A))` vs `(P(A) * P(C)) * P(A|B)`-style re-nesting and reordering -/
example : Present
    (.prod [.prob none [Var.plain 1] [Var.plain 0], .prod [.prob none [Var.plain 2] [], .prob none [Var.plain 0] []]])
    (.prod [.prod [.prob none [Var.plain 0] [], .prob none [Var.plain 2] []], .prob none [Var.plain 1] [Var.plain 0]]) := by
  apply Present.prod
  simp only [flattenFactors, flattenFactor, List.append_nil, List.cons_append, List.nil_append]
  refine .cons (.prob (List.Perm.refl _) (List.Perm.refl _)) (.cons (.prob (List.Perm.refl _) (List.Perm.refl _))
    (.cons (.prob (List.Perm.refl _) (List.Perm.refl _)) .nil (List.Perm.refl _)) (List.Perm.refl _)) ?_
  exact (((List.Perm.swap _ _ []).cons _).trans (List.Perm.swap _ _ _)).trans ((List.Perm.swap _ _ []).cons _)

/-! ## 3. idempotence -/

/-- **`canon_idem`**: canonicalising a canonical form returns it unchanged — for EVERY expression (no scoping hypothesis)
and every ordering as `canonicalize` uses it (`ensure_ordering` re-sorts an explicit ordering by variable name).  The proof
characterises canonical forms syntactically (`IsCanon`: sorted leaves; flat, sorted, One/Zero-free products; sums on which
`Sum.simplify` has nothing left to do; fractions with canonical non-fraction parts whose trivial cases have been collapsed)
and shows that the canonicaliser produces them and leaves them alone.  It is the audit of the fraction branch that found
the two idempotence defects fixed by 0a6fecc and c2bdc86. -/
theorem canon_idem {o : List Var} {e a : Expr} (h : canon (upgradeOrdering o) e = .ok a) :
    canon (upgradeOrdering o) a = .ok a :=
  canonL_idem (nameMonotone_levelOf o) h

/-- the public entry point with an explicit ordering -/
theorem canonicalize_idem {o : List Var} {e a : Expr} (h : canonicalize e (some o) = .ok a) :
    canonicalize a (some o) = .ok a :=
  canon_idem h

/-- canonical forms are exactly the fixed points: `IsCanon` is necessary and sufficient -/
theorem canon_fixed_iff {lvl : Name → Option Nat} (hm : NameMonotone lvl) {a : Expr} :
    canonL lvl a = .ok a ↔ IsCanon lvl a :=
  ⟨fun h => isCanon_canonL hm a a h, canonL_of_isCanon a⟩

/-- leaves, under ANY ordering (monotone or not): sorting sorted children / parents again changes nothing -/
theorem canon_idem_leaf {o : List Var} {pop : Option Var} {c p : List Var} {a : Expr}
    (h : canon o (.prob pop c p) = .ok a) : canon o a = .ok a := by
  unfold canon at *
  unfold canonL at h
  obtain ⟨c', hc, h⟩ := bind_ok h
  obtain ⟨p', hp, h⟩ := bind_ok h
  cases h
  unfold canonL
  rw [sortVars_perm_eq (sortVars_perm hc).symm hc, sortVars_perm_eq (sortVars_perm hp).symm hp]
  rfl

/-- the idempotence witnesses found by the check on the pinned tree, on the model of the fixed code -/
example : (canon [Var.plain 0, Var.plain 1, Var.plain 2]
      (.prod [.prob none [Var.plain 0] [], .frac (.prod [.prob none [Var.plain 1] [], .prob none [Var.plain 2] []]) .one])).bind
        (canon [Var.plain 0, Var.plain 1, Var.plain 2]) =
    canon [Var.plain 0, Var.plain 1, Var.plain 2]
      (.prod [.prob none [Var.plain 0] [], .frac (.prod [.prob none [Var.plain 1] [], .prob none [Var.plain 2] []]) .one]) := by
  rfl
example : canon [Var.plain 0, Var.plain 1]
      (.frac (.prob none [Var.plain 0] []) (.frac (.prod [.prob none [Var.plain 0] [], .prob none [Var.plain 1] []])
        (.prob none [Var.plain 1] []))) = .ok .one := by rfl
example : canon [Var.plain 0, Var.plain 1] (.frac (.prob none [Var.plain 0] []) (.frac .one (.prob none [Var.plain 1] []))) =
    .ok (.prod [.prob none [Var.plain 0] [], .prob none [Var.plain 1] []]) := by rfl
/-- non-vacuity of `canon_idem`: a sum that is partially marginalised over a compound fraction, canonicalised twice -/
example : (canon (upgradeOrdering [Var.plain 2, Var.plain 0, Var.plain 1])
      (.frac (.sum (.prob none [Var.plain 1, Var.plain 0] []) [Var.plain 0, Var.plain 2])
        (.frac .one (.prob none [Var.plain 1] [Var.plain 2])))) =
    .ok (.prod [.prob none [Var.plain 1] [Var.plain 2], .sum (.prob none [Var.plain 1] []) [Var.plain 2]]) := by rfl
/-- the hypothesis "monotone in the name" is necessary: with the unsorted level table of `[B, A]` the canonical form of
`Sum[C](P(A, B, C))` is `P(B, A)`-ordered by level but `Sum.simplify` re-sorts the kept children by name -/
example : canon [Var.plain 1, Var.plain 0, Var.plain 2]
      (.sum (.prob none [Var.plain 0, Var.plain 1, Var.plain 2] []) [Var.plain 2]) =
    .ok (.prob none [Var.plain 0, Var.plain 1] []) := by rfl
example : canon [Var.plain 1, Var.plain 0, Var.plain 2] (.prob none [Var.plain 0, Var.plain 1] []) =
    .ok (.prob none [Var.plain 1, Var.plain 0] []) := by rfl

/-- multi-world joints were never outside these theorems (no scoping hypothesis).  After `fix:` d517ad1 a sum over a joint
with several children on one base variable is left alone by `Sum.simplify`, hence is its own canonical form:
`Sum[Z](P(Y @ +X, Y @ -X, Z))` canonicalises to `Sum[Z](P(Y @ -X, Y @ +X, Z))` (children sorted), and again to itself -/
example : canon (upgradeOrdering [Var.plain 0, Var.plain 1, Var.plain 2])
      (.sum (.prob none [{ name := 1, ivs := [⟨0, true⟩] }, { name := 1, ivs := [⟨0, false⟩] }, Var.plain 2] []) [Var.plain 2]) =
    .ok (.sum (.prob none [{ name := 1, ivs := [⟨0, false⟩] }, { name := 1, ivs := [⟨0, true⟩] }, Var.plain 2] []) [Var.plain 2]) ∧
    canon (upgradeOrdering [Var.plain 0, Var.plain 1, Var.plain 2])
      (.sum (.prob none [{ name := 1, ivs := [⟨0, false⟩] }, { name := 1, ivs := [⟨0, true⟩] }, Var.plain 2] []) [Var.plain 2]) =
    .ok (.sum (.prob none [{ name := 1, ivs := [⟨0, false⟩] }, { name := 1, ivs := [⟨0, true⟩] }, Var.plain 2] []) [Var.plain 2]) :=
  ⟨by rfl, by rfl⟩
/-- such a sum is a canonical form in the sense of `canon_fixed_iff` -/
example : IsCanon (levelOf (upgradeOrdering [Var.plain 0, Var.plain 1, Var.plain 2]))
    (.sum (.prob none [{ name := 1, ivs := [⟨0, false⟩] }, { name := 1, ivs := [⟨0, true⟩] }, Var.plain 2] []) [Var.plain 2]) :=
  (canon_fixed_iff (nameMonotone_levelOf _)).mp (by rfl)

/-! ## 4. the normal-form theorem for the public entry point -/

/-- `Present` is a symmetric relation (it is reflexive and transitive on well-formed expressions as well; only symmetry is
needed to read `canon_perm` in both directions) -/
theorem present_symmetric {e e' : Expr} (h : Present e e') : Present e' e := present_symm h

/-- `canon_perm` in both directions: under every ordering, `e` has the canonical form `a` iff its presentation `e'` has -/
theorem canon_perm_iff {o : List Var} {e e' : Expr} (h : Present e e') (a : Expr) :
    canon o e = .ok a ↔ canon o e' = .ok a :=
  present_canon_iff h a

/-- the canonicaliser consults the ordering only through the NAME order it induces on the variables of each leaf: two
name-monotone level tables (every ordering `ensure_ordering` produces) that cover the expression give the same result.
This is what makes the default ordering, recomputed from the expression at every call, harmless. -/
theorem canon_ordering_irrelevant {o o' : List Var} {e a : Expr} (hc : Covers (levelOf (upgradeOrdering o')) e)
    (h : canon (upgradeOrdering o) e = .ok a) : canon (upgradeOrdering o') e = .ok a :=
  canonL_congr (nameMonotone_levelOf o) (nameMonotone_levelOf o') e a hc h

/-- **`normal_form`** (C11 in the words of the property, for `canonicalize(expression, ordering)` as it is called: with an
explicit ordering `some o` or with the default `none`, where `ensure_ordering` recomputes the ordering from the expression
it is given — so the second call of clause 1 and the call on `e'` of clause 2 run under a DIFFERENT level table):

  1. canonicalising an already canonical expression returns it unchanged;
  2. two expressions that differ only by the order of factors, the nesting of products, or the order of variables on
     either side of the conditioning bar (`Present`) canonicalise to identical objects: whenever one of them has a canonical
     form, the other has the same.

For ALL expressions (no scoping hypothesis); when `canonicalize` raises (Q-factor, name missing from an explicit ordering,
denominator canonicalising to Zero) nothing is claimed, and clause 2 shows it then raises on every presentation. -/
theorem normal_form (oo : Option (List Var)) (e : Expr) :
    (∀ a, canonicalize e oo = .ok a → canonicalize a oo = .ok a) ∧
    (∀ e', Present e e' → ∀ a, canonicalize e oo = .ok a ↔ canonicalize e' oo = .ok a) :=
  ⟨fun _ h => canonicalize_idem_any oo h, fun _ h a => canonicalize_present_any oo h a⟩

/-- the default ordering: `canonicalize(canonicalize(e)) == canonicalize(e)` -/
theorem canonicalize_default_idem {e a : Expr} (h : canonicalize e none = .ok a) : canonicalize a none = .ok a :=
  (normal_form none e).1 a h

/-- the default ordering: presentations have identical canonical forms -/
theorem canonicalize_default_perm {e e' a : Expr} (h : Present e e') :
    canonicalize e none = .ok a ↔ canonicalize e' none = .ok a :=
  (normal_form none e).2 e' h a

/-- non-vacuity: with the default ordering the second call runs under a different level table (the canonical form of
`Sum[A,B](P(A)) * P(C)` no longer mentions `A`), and still returns its argument -/
example : canonicalize (.prod [.sum (.prob none [Var.plain 0] []) [Var.plain 0, Var.plain 1], .prob none [Var.plain 2] []]) none =
      .ok (.prod [.prob none [Var.plain 2] [], .sum .one [Var.plain 1]]) ∧
    (Expr.prod [.sum (.prob none [Var.plain 0] []) [Var.plain 0, Var.plain 1], .prob none [Var.plain 2] []]).getVariables ≠
      (Expr.prod [.prob none [Var.plain 2] [], .sum .one [Var.plain 1]]).getVariables ∧
    canonicalize (.prod [.prob none [Var.plain 2] [], .sum .one [Var.plain 1]]) none =
      .ok (.prod [.prob none [Var.plain 2] [], .sum .one [Var.plain 1]]) := by
  refine ⟨by rfl, by decide, by rfl⟩

end Y0.C11
