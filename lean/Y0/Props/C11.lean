/-
  Property C11 — the canonical form is a true normal form.
  (theorems are added below as they are proved; see harness/props/c11.py for the correspondence and the oracle)
-/
import Y0.Model.Canon

namespace Y0

theorem canon_idem_one (o : List Var) : (canon o .one).bind (canon o) = canon o .one := rfl

end Y0
