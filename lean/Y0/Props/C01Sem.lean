/-
  C01Sem — the id-side half of the bridge between C01 (`id_sound`, stated over the environment `M.env G` of a
  semi-Markovian model) and C10 (`canon_den`, stated over every `ProbFamily` environment).  The C10-side half is
  Y0/Props/C10Sem.lean (`canonical_of_sound`); the composed statement `id_sound_canonical` is in
  Y0/Props/C10SemId.lean.

  Here: every estimand returned by `identify`
    * is a single-world expression over the nodes of the graph (`id_estimand_swOK`; hypothesis `hsw` of
      `canonical_of_sound`),
    * has no denominator that vanishes at any valuation, in every compatible model (`id_estimand_denNZA`; hypothesis `hz`),
    * denotes a positive number (`id_estimand_pos`),
    * is well scoped (`id_estimand_wellScoped`: the decidable quantifier `WellScoped` of C10 holds for it).
-/
import Y0.Props.C01
import Y0.Props.C06Id
import Y0.Lemmas.SemObs
import Y0.Lemmas.IdWellScoped

namespace Y0
namespace C01Sem
open IdDsl

theorem topoNodes_of_sound {topo : MG Name → Except Err (List Name)} (ts : TopoSound topo) : TopoNodes topo :=
  fun H o h v hv => (ts.nodes H o h v).mp hv

/-- the estimand of ID is zero-free -/
theorem id_estimand_zf {topo : MG Name → Except Err (List Name)} (G : MG Name) (X Y : List Name) (e : Expr)
    (h : identify topo G X Y = .ok e) : ZF e := by
  unfold identify at h
  obtain ⟨est, hest, h⟩ := IdAux.bind_ok h
  apply idAlg_zf topo _ e h
  unfold pJoint at hest
  split at hest
  · cases hest
  · cases hest; exact ZF.prob _ _ _

/-- **the estimand of ID is a single-world expression over the nodes of the graph** -/
theorem id_estimand_swOK {topo : MG Name → Except Err (List Name)} (ts : TopoSound topo) (G : MG Name) (hG : G.WF)
    (X Y : List Name) (e : Expr) (h : identify topo G X Y = .ok e) : e.swOK G = true :=
  Scm.swOK_of_obsOnly (id_vocab topo (topoNodes_of_sound ts) G hG X Y e h)

/-- **no denominator of the estimand vanishes, at any valuation, in any compatible model** -/
theorem id_estimand_denNZA {topo : MG Name → Except Err (List Name)} (ts : TopoSound topo) (G : MG Name) (hG : G.WF)
    (X Y : List Name) (e : Expr) (h : identify topo G X Y = .ok e) (M : Scm) (hM : M.Compatible G) (σ' : Val) :
    DenNZA (M.env G) σ' e :=
  Scm.denNZA_of_obsOnly hM hG σ' e (id_vocab topo (topoNodes_of_sound ts) G hG X Y e h) (id_estimand_zf G X Y e h)

/-- the estimand denotes a positive number (so does `P(y | do(x))`: compatible models are positive) -/
theorem id_estimand_pos {topo : MG Name → Except Err (List Name)} (ts : TopoSound topo) (G : MG Name) (hG : G.WF)
    (X Y : List Name) (e : Expr) (h : identify topo G X Y = .ok e) (M : Scm) (hM : M.Compatible G) (σ' σ : Val) :
    0 < den (M.env G) σ' e σ :=
  Scm.den_pos_of_obsOnly hM hG σ' e (id_vocab topo (topoNodes_of_sound ts) G hG X Y e h) (id_estimand_zf G X Y e h) σ

/-- **the estimand of ID is well scoped**: the quantifier of C10 covers every output of ID -/
theorem id_estimand_wellScoped {topo : MG Name → Except Err (List Name)} (G : MG Name) (X Y : List Name) (e : Expr)
    (h : identify topo G X Y = .ok e) : WellScoped e = true := id_wellScoped topo G X Y e h

end C01Sem
end Y0
