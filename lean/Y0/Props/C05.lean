/-
  Property C05 — TRSO estimands equal the target effect (theorems about Y0.Model.Trso).
  (stub: grown below)
-/
import Y0.Model.Trso

namespace Y0.Trso

/-- running out of budget is the only thing a zero budget can do -/
theorem trsoF_zero (sep : SepTest) (q : Query) : trsoF sep 0 q = .error (.internal "RecursionError") := rfl

end Y0.Trso
